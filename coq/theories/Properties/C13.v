(* Properties/C13.v -- Table cells form a consistent grid.
   Only statements, closed by `exact`, each followed by Print Assumptions.
   Model: Box/TableGrid.v (grid slots, shared with C09) and Layout/TableGeom.v
   (fixedTableLayout, column positions, cell x / width, row positions and
   heights with rowspans); all statements are about the exact-rational
   instance; Check/C13.v ties the float32 instance to /repo on every run.
   Specification: Layout/TableGeomSpec.v (closed forms col_left / col_right /
   row_top / row_bottom), Box/TableGridSpec.v. *)
From Verif Require Import Base.F32 Base.GoSem Box.TableGrid Box.TableGridSpec Box.TableGridProofs
  Layout.TableGeom Layout.TableGeomSpec Layout.TableGeomProofs.
From Coq Require Import QArith List ZArith.
Import ListNotations.
Open Scope Q_scope.

(* ------------------------------------------------------------------ slots (from C09) *)
Theorem C13_slots :
  forall (cell row : Type) (colspan_of rowspan_of gridx_of : cell -> Z) (place : cell -> Z -> Z -> cell)
         (cells_of : row -> list cell) (set_cells : row -> list cell -> row),
    (forall c x r, gridx_of (place c x r) = x) ->
    (forall c x r, rowspan_of (place c x r) = r) ->
    (forall c x r, colspan_of (place c x r) = colspan_of c) ->
    (forall r cs, cells_of (set_cells r cs) = cs) ->
    forall rows,
      rows_spans_ok cell row colspan_of rowspan_of cells_of rows ->
      exists rows',
        assign_group cell row colspan_of rowspan_of place cells_of set_cells rows = Ok rows' /\
        rows_placed cell row colspan_of rowspan_of gridx_of place cells_of set_cells [] 0
                    (Z.of_nat (length rows)) rows rows' /\
        anchors_free (rows_slots cell row colspan_of rowspan_of gridx_of cells_of 0 rows') = true /\
        forallb (slot_in_group (Z.of_nat (length rows)))
                (rows_slots cell row colspan_of rowspan_of gridx_of cells_of 0 rows') = true.
Proof. exact assign_group_spec. Qed.
Print Assumptions C13_slots.

(* ------------------------------------------------------------------ grid_consistent: columns *)
(* the column positions computed by tableLayout are the closed form:
   x0 + (j+1) spacing + widths of the columns before *)
Theorem C13_column_positions : forall widths x0 bsx j,
  (j < length widths)%nat ->
  nth j (column_positions exactQ x0 bsx widths) 0 == col_left x0 bsx widths j.
Proof. exact column_positions_spec. Qed.
Print Assumptions C13_column_positions.

(* every cell: colspan clipped to the grid; its left edge is the left edge of
   its first column (so cells starting in the same column share their left
   edge), its right edge the right edge of its last column (cells ending in the
   same column share their right edge), and its border box is exactly the
   spanned columns plus the spacing between them *)
Theorem C13_cell_horizontal : forall x0 bsx widths c cs x w bw,
  (0 <= hc_gridx c)%Z -> (1 <= hc_colspan c)%Z ->
  cell_horizontal exactQ widths (column_positions exactQ x0 bsx widths) bsx c = Ok (Some (cs, x, w, bw)) ->
  let gx := Z.to_nat (hc_gridx c) in
  let n := Z.to_nat cs in
  cs = Z.min (hc_colspan c) (Z.of_nat (length widths) - hc_gridx c) /\ (1 <= cs)%Z /\
  x == col_left x0 bsx widths gx /\
  x + bw == col_right x0 bsx widths (gx + n - 1) /\
  bw == sumQ (firstn n (skipn gx widths)) + inject_Z (cs - 1) * bsx /\
  w == bw - (hc_pl c + hc_pr c + hc_bl c + hc_br c).
Proof. exact cell_horizontal_spec. Qed.
Print Assumptions C13_cell_horizontal.

(* adjacent columns are exactly border-spacing apart *)
Theorem C13_columns_adjacent : forall x0 bsx widths j,
  (S j < length widths)%nat ->
  col_left x0 bsx widths (S j) - col_right x0 bsx widths j == bsx.
Proof. exact columns_adjacent. Qed.
Print Assumptions C13_columns_adjacent.

(* cells on disjoint column ranges do not overlap (non negative widths and spacing) *)
Theorem C13_columns_disjoint : forall x0 bsx widths e1 g2,
  Forall (fun w => 0 <= w) widths -> 0 <= bsx -> (e1 < g2)%nat -> (g2 < length widths)%nat ->
  col_right x0 bsx widths e1 + bsx <= col_left x0 bsx widths g2.
Proof. exact columns_disjoint. Qed.
Print Assumptions C13_columns_disjoint.

(* ------------------------------------------------------------------ grid_consistent: rows *)
(* One row group laid out from y: rows follow each other row_top-wise with the
   vertical spacing between them; no row has a negative height; every cell
   starts at the top edge of the row it is placed in and ends exactly at the
   bottom edge of the last row it spans, so its height is the heights of the
   rows it spans plus the spacing between them (rowspan_heights_spec); the
   group's height is its rows plus the spacing between them. *)
Theorem C13_rowspan_heights_spec : forall bsy y rows outs gh y_end,
  group_vertical exactQ bsy y rows = Ok (outs, gh, y_end) ->
  let hs := map r_h outs in
  length outs = length rows /\
  Forall (fun h => 0 <= h) hs /\
  (forall k ro, nth_error outs k = Some ro -> r_y ro == row_top y bsy hs k) /\
  (forall k ro e, nth_error outs k = Some ro -> In e (r_ending ro) ->
     (e_row e < length outs)%nat /\
     e_y e == row_top y bsy hs (e_row e) /\
     e_y e + e_bh e == row_bottom y bsy hs k) /\
  (rows <> [] -> gh == sumQ hs + inject_Z (Z.of_nat (length outs) - 1) * bsy).
Proof. exact rowspan_heights_spec. Qed.
Print Assumptions C13_rowspan_heights_spec.

(* ------------------------------------------------------------------ fixed layout *)
(* fixedTableLayout: the used table width is never smaller than the specified
   one; the columns plus the spacing around them exactly fill it (unless there
   is no column at all); there is one column per <col> or per column spanned by
   the first row; no column has a negative width. *)
Theorem C13_fixed_layout_fills : forall W cols cells bsx out W',
  fixed_table_layout exactQ W cols cells bsx = Ok (out, W') ->
  W <= W' /\
  (out <> [] -> sumQ out + inject_Z (Z.of_nat (length out) + 1) * bsx == W') /\
  Z.of_nat (length out) = Z.max (Z.of_nat (length cols)) (fold_left (fun s c => (s + fc_colspan c)%Z) cells 0%Z) /\
  (0 <= W -> 0 <= bsx -> Forall onn cols -> Forall (fun w => 0 <= w) out).
Proof. exact fixed_layout_spec. Qed.
Print Assumptions C13_fixed_layout_fills.

(* ------------------------------------------------------------------ auto layout: contract only *)
(* autoTableLayout / distributeExcessWidth are not modelled.  What any
   column-width algorithm has to deliver for the grid to be consistent is the
   hypothesis set of the theorems above (non negative widths) plus
   TableGeomSpec.auto_contract (columns + spacing = used width >= specified
   width), evaluated on the implementation's output by Check/C13.v. *)
Definition C13_auto_layout_contract_statement
  (auto_layout : Q (* available width *) -> Q (* specified width *) -> bool (* width is not auto *) ->
                 Q (* border-spacing *) -> list Q (* min-content widths *) -> list Q (* max-content widths *) ->
                 Q * list Q (* used table width, column widths *)) : Prop :=
  forall avail spec has bsx mins maxs,
    Forall (fun w => 0 <= w) mins -> length mins = length maxs ->
    let '(table_w, widths) := auto_layout avail spec has bsx mins maxs in
    length widths = length mins /\ auto_contract 0 table_w spec bsx has widths = true.

(* proved part: the contract is what makes the grid fill the table: *)
Theorem C13_auto_layout_contract_partial : forall table_w spec bsx has widths,
  auto_contract 0 table_w spec bsx has widths = true ->
  Forall (fun w => 0 <= w) widths /\
  (widths <> [] -> sumQ widths + inject_Z (Z.of_nat (S (length widths))) * bsx == table_w) /\
  (has = true -> spec <= table_w).
Proof.
  intros table_w spec bsx has widths H. unfold auto_contract in H.
  apply andb_prop in H. destruct H as [H H3]. apply andb_prop in H. destruct H as [H1 H2].
  split; [|split].
  - apply Forall_forall. intros w Hw. rewrite forallb_forall in H1. apply Qle_bool_iff. apply H1. assumption.
  - intros Hne. destruct widths as [|w0 r]; [contradiction|].
    apply andb_prop in H2. destruct H2 as [Ha Hb]. apply Qle_bool_iff in Ha, Hb.
    apply Qle_antisym.
    + eapply Qle_trans; [|exact Ha]. unfold Qminus. rewrite Qplus_0_r. apply Qle_refl.
    + eapply Qle_trans; [exact Hb|]. rewrite Qplus_0_r. apply Qle_refl.
  - intros ->. apply Qle_bool_iff in H3. eapply Qle_trans; [|exact H3].
    unfold Qminus. rewrite Qplus_0_r. apply Qle_refl.
Qed.
Print Assumptions C13_auto_layout_contract_partial.

(* the hypotheses are inhabited *)
Example C13_example_fixed :
  exists out W', fixed_table_layout exactQ 200 [Some 50; None] [mkF 2 (Some 120); mkF 1 None] 4 = Ok (out, W') /\
                 out <> [] /\ 200 <= W'.
Proof. eexists. eexists. split; [vm_compute; reflexivity|]. split; [discriminate|]. vm_compute. discriminate. Qed.
Example C13_example_rows :
  exists outs gh ye,
    group_vertical exactQ 2 10 [(None, [mkV 2 10; mkV 1 100]); (None, [])] = Ok (outs, gh, ye) /\ gh == 102.
Proof. eexists. eexists. eexists. split; [vm_compute; reflexivity|]. reflexivity. Qed.
