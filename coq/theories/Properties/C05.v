(* Properties/C05.v -- Selectors match and weigh elements as the Selectors spec defines.
   Only statements, closed by `exact`, each followed by Print Assumptions.
   Model: Css/Sel.v (port of /repo/css/selector Match / Specificity), Css/SelParse.v
   (parser.go), Css/SelPrint.v (serialize.go).  Specification: Css/SelSpec.v
   (Selectors 4 as relations).  Check/C05.v ties the model to /repo on every run. *)
From Verif Require Import Css.Sel Css.SelSpec Css.SelWitness Css.SelProofs.
From Verif Require Import Css.SelParse Css.SelParseProofs Css.SelParseNormal Css.SelPrint Css.SelRoundtrip Css.SelRoundtripProofs.
From Verif Require Import Css.SelProofsMore.
From Verif Require Import Css.SelMore.
From Verif Require Import Css.SelRoundtripGeneral Css.SelRoundtripGeneral2 Css.SelRoundtripGeneral3 Css.SelRoundtripGeneral4 Css.SelRoundtripGeneral5 Css.SelRoundtripGeneral6.
From Coq Require Import ZArith NArith List Lia.
Import ListNotations.

(* ---- an+b: Go's truncating % and / decide "exists n >= 0, i = a*n + b" for all integers *)
Theorem C05_nth_arith : forall a b i : Z, a <> 0%Z ->
  (Z.rem (i - b) a = 0 /\ Z.quot (i - b) a >= 0)%Z <-> exists n, (0 <= n)%Z /\ i = (a * n + b)%Z.
Proof. exact nth_arith. Qed.
Print Assumptions C05_nth_arith.

(* the code's special paths for a = 0 (simpleNthChildMatch, simpleNthLastChildMatch) agree with the general one *)
Theorem C05_simple_nth_eq : forall ofType n kids k b, nth_error kids k = Some n ->
  simple_nth_child_match b ofType n kids k = nth_child_match 0 b false ofType n kids k /\
  simple_nth_last_child_match b ofType n kids k = nth_child_match 0 b true ofType n kids k.
Proof. exact simple_nth_eq. Qed.
Print Assumptions C05_simple_nth_eq.

(* ---- matching: for every tree with the invariants of html.Parse, every selector outside
   the two stated deviations, every node: the code's answer is the Selectors-4 relation.
   (type/universal/class/id/attribute operators with the i flag, the four combinators,
   :nth-*(an+b), :first/last/only-*, :root, :empty, :not/:is/:has, selector lists.) *)
Theorem C05_matches_spec : forall (d : node) (s : sel) (p : path),
  dom_wf d -> sel_supported d s ->
  (matches d s p = true <-> spec_matches d s p).
Proof. intros d s p Hwf Hs. exact (matches_spec d Hwf s p Hs). Qed.
Print Assumptions C05_matches_spec.

Theorem C05_matches_group_spec : forall (d : node) (g : list sel) (p : path),
  dom_wf d -> (forall s, In s g -> sel_supported d s) ->
  (matches_group d g p = true <-> spec_matches_group d g p).
Proof. intros d g p Hwf Hs. exact (matches_group_spec d Hwf g p Hs). Qed.
Print Assumptions C05_matches_group_spec.

(* the full statement (no side condition on the selector) is false for the code: *)
Definition C05_matches_spec_statement : Prop :=
  forall (d : node) (s : sel) (p : path), dom_wf d -> (matches d s p = true <-> spec_matches d s p).

(* (1) :has() whose argument has a combinator is evaluated against the whole document,
   not anchored below the :has element: div:has(section p) in <section><div><p> *)
Theorem C05_has_relative_refuted :
  dom_wf w_doc1 /\ matches w_doc1 w_sel1 w_path1 = true /\ ~ spec_matches w_doc1 w_sel1 w_path1.
Proof. exact has_relative_refuted. Qed.
Print Assumptions C05_has_relative_refuted.

(* (2) [a^=v] [a$=v] [a*=v] never match a blank attribute value: [title^=" "] on title="  " *)
Theorem C05_blank_attr_refuted :
  dom_wf w_doc2 /\ matches w_doc2 w_sel2 w_path2 = false /\ spec_matches w_doc2 w_sel2 w_path2.
Proof. exact blank_attr_refuted. Qed.
Print Assumptions C05_blank_attr_refuted.

Theorem C05_matches_spec_statement_refuted : ~ C05_matches_spec_statement.
Proof.
  intros H. destruct has_relative_refuted as [Hwf [Hm Hn]].
  apply Hn. apply (H _ _ _ Hwf). exact Hm.
Qed.
Print Assumptions C05_matches_spec_statement_refuted.

(* only elements are ever matched (text, comment, doctype and document nodes never) *)
Theorem C05_matches_only_elements : forall d s p, matches d s p = true -> exists n, element d p n.
Proof. exact matches_valid. Qed.
Print Assumptions C05_matches_only_elements.

(* the boolean invariant check run on every dumped tree implies the hypothesis dom_wf *)
Theorem C05_dom_wfb_sound : forall d, dom_wfb d = true -> dom_wf d.
Proof. exact dom_wfb_sound. Qed.
Print Assumptions C05_dom_wfb_sound.

Example C05_matches_spec_inhabited :
  dom_wf w_doc1 /\ sel_supported w_doc1 (SCombined (STag t_section) CDesc (SCompound [STag t_p; SNth (-1) 1 false false] [])) /\
  matches w_doc1 (SCombined (STag t_section) CDesc (SCompound [STag t_p; SNth (-1) 1 false false] [])) (0%nat :: w_path1) = true.
Proof. exact matches_spec_inhabited. Qed.

(* ---- specificity = (ids, classes+attributes+pseudo-classes, types+pseudo-elements),
   :is/:not/:has weigh as their most specific argument *)
Theorem C05_specificity_spec : forall s, has_specificity s (specificity s).
Proof. exact specificity_spec. Qed.
Print Assumptions C05_specificity_spec.

Theorem C05_specificity_unique : forall s x y, has_specificity s x -> has_specificity s y -> x = y.
Proof. exact has_specificity_unique. Qed.
Print Assumptions C05_specificity_unique.

(* Specificity.Less is a strict total order, the lexicographic one *)
Theorem C05_specificity_order_total :
  (forall x, spec_less x x = false) /\
  (forall x y z, spec_less x y = true -> spec_less y z = true -> spec_less x z = true) /\
  (forall x y, spec_less x y = true \/ x = y \/ spec_less y x = true) /\
  (forall x y, spec_less x y = true -> spec_less y x = false).
Proof. exact specificity_order_total. Qed.
Print Assumptions C05_specificity_order_total.

Theorem C05_specificity_less_lex : forall x y, spec_less x y = true <-> lex_le x y /\ x <> y.
Proof. exact spec_less_lex. Qed.
Print Assumptions C05_specificity_less_lex.

(* :is/:not/:has/:haschild weigh as an argument that no other argument exceeds in the lexicographic order
   (columns of any size: nothing is assumed about 10, 256, ...) *)
Theorem C05_relative_specificity_max : forall name g,
  (forall s, In s g -> spec_less (specificity (SRel name g)) (specificity s) = false) /\
  (g <> [] -> exists s, In s g /\ specificity (SRel name g) = specificity s).
Proof. exact rel_specificity_max. Qed.
Print Assumptions C05_relative_specificity_max.

(* the order is not a positional weight: in every base B the weight ((a*B+b)*B+c) misorders two triples whose
   columns do not exceed B, and it is only right as long as the two lower columns stay below B.
   (The tie gives Specificity.Less pairs of triples with columns around 10, 100, 256, 1000, 65536: Check/C05.v code 11.) *)
Theorem C05_specificity_less_not_packed : forall B : Z, (0 < B)%Z ->
  exists x y, nonneg3 x /\ nonneg3 y /\ (sp_a x <= B /\ sp_b x <= B /\ sp_c x <= B /\ sp_a y <= B /\ sp_b y <= B /\ sp_c y <= B)%Z /\
    spec_less x y = true /\ (packed_weight B x <? packed_weight B y)%Z = false.
Proof.
  intros B HB. destruct (spec_less_not_packed B HB) as [x [y H]]. exists x, y. tauto.
Qed.
Print Assumptions C05_specificity_less_not_packed.

Theorem C05_specificity_less_packed_below : forall B x y, nonneg3 x -> nonneg3 y ->
  (sp_b x < B -> sp_c x < B -> sp_b y < B -> sp_c y < B ->
  spec_less x y = (packed_weight B x <? packed_weight B y))%Z.
Proof. exact spec_less_packed_below. Qed.
Print Assumptions C05_specificity_less_packed_below.

(* ---- the parser (ParseGroup) returns a group or an error for every byte string:
   no index/slice panic, no non-termination (fuel 8*len+16 is never exhausted).  Used by C07. *)

Theorem C05_sel_parse_total : forall s : str, exists r, parse_group s = Ok r.
Proof. exact parse_group_total. Qed.
Print Assumptions C05_sel_parse_total.

Theorem C05_sel_parse_no_panic : forall (s : str) site, parse_group s <> Panic site.
Proof. exact parse_group_no_panic. Qed.
Print Assumptions C05_sel_parse_no_panic.

(* ---- a parsed selector printed back parses to the same selector (hence an equivalent one).
   Full statement, over every selector of the shape the parser produces: *)
Definition C05_parse_print_roundtrip_statement : Prop :=
  forall g : list sel, normal_group g = true -> parse_group (print_group g) = Ok (Some g).

(* the parser only returns groups in that normal form, so the statement covers every String() call on a parsed selector *)
Theorem C05_parse_normal : forall (s : str) (g : list sel), parse_group s = Ok (Some g) -> normal_group g = true.
Proof. exact parse_group_normal. Qed.
Print Assumptions C05_parse_normal.

(* Selectors 4, 4.2-4.5: no pseudo-element inside the argument of :is/:not/:has/:haschild, at any nesting depth,
   in anything ParseGroup accepts (the flag that forbids them is restored, not reset, after a nested argument) *)
Theorem C05_parse_no_pseudo_element_in_relative : forall (s : str) (g : list sel),
  parse_group s = Ok (Some g) -> forallb rel_args_pe_free g = true.
Proof. exact parse_no_pe_in_relative. Qed.
Print Assumptions C05_parse_no_pseudo_element_in_relative.

Theorem C05_roundtrip_of_parsed : C05_parse_print_roundtrip_statement ->
  forall (s : str) (g : list sel), parse_group s = Ok (Some g) -> parse_group (print_group g) = Ok (Some g).
Proof. intros H s g Hg. apply H. exact (parse_group_normal s g Hg). Qed.
Print Assumptions C05_roundtrip_of_parsed.

(* proved for the explicit family SelRoundtrip.samples (20 526 selector groups: every simple
   selector over alphabets exercising each escaping rule, compounds, all combinators,
   :is/:not/:has/:haschild of lists, selector lists); the tie checks the statement on every
   selector parsed in every run (Check/C05.v code 10) *)
Theorem C05_parse_print_roundtrip_partial : forall g, In g samples ->
  normal_group g = true /\ parse_group (print_group g) = Ok (Some g).
Proof. exact parse_print_roundtrip_partial. Qed.
Print Assumptions C05_parse_print_roundtrip_partial.

Example C05_roundtrip_family_size : N.of_nat (length samples) = 20526%N.
Proof. vm_compute. reflexivity. Qed.

(* ---- general token round trips (steps towards C05_parse_print_roundtrip_statement): for EVERY byte list x,
   the text String() writes for a name / identifier / quoted value / An+B, placed after any prefix and before any
   suffix the token cannot absorb (`stops`: end of input, or a byte that is neither a name byte nor a backslash),
   is read back by parseName / parseIdentifier / parseString / parseNth as exactly x, ending at the end of the token. *)
Theorem C05_name_roundtrip : forall (pre x suf : str), x <> [] -> stops suf = true ->
  parse_name (pre ++ escape x ++ suf) (length pre) = Ok (POk x (length pre + length (escape x))).
Proof. exact name_roundtrip. Qed.
Print Assumptions C05_name_roundtrip.

Theorem C05_identifier_roundtrip : forall (pre x suf : str), x <> [] -> stops suf = true ->
  parse_identifier (pre ++ escape_identifier x ++ suf) (length pre) =
  Ok (POk x (length pre + length (escape_identifier x))).
Proof. exact identifier_roundtrip. Qed.
Print Assumptions C05_identifier_roundtrip.

Theorem C05_string_roundtrip : forall (pre x suf : str),
  parse_string (pre ++ 34%N :: escape_string x ++ 34%N :: suf) (length pre) =
  Ok (POk x (length pre + length (escape_string x) + 2)).
Proof. exact string_roundtrip. Qed.
Print Assumptions C05_string_roundtrip.

Theorem C05_nth_roundtrip : forall (pre : str) (a b : Z) (suf : str), int_ok a = true -> int_ok b = true ->
  parse_nth (pre ++ nth_text a b ++ 41%N :: suf) (length pre) =
  Ok (POk (a, b) (length pre + length (nth_text a b))).
Proof. exact nth_roundtrip. Qed.
Print Assumptions C05_nth_roundtrip.

(* the hypotheses are inhabited, with bytes from every escaping class (digit first, control, DEL, special, non-ASCII) *)
Example C05_identifier_roundtrip_ex :
  parse_identifier ([46] ++ escape_identifier [49;1;127;45;46;200;97] ++ [32;62])%N 1 =
  Ok (POk [49;1;127;45;46;200;97]%N (1 + length (escape_identifier [49;1;127;45;46;200;97]%N))).
Proof. apply (C05_identifier_roundtrip [46%N]); [discriminate|reflexivity]. Qed.

(* ---- general compound round trip: EVERY compound selector c in the parser's normal form (type selector, lone simple
   selector, or compound of any length with optional pseudo-element; all names / values / An+B arbitrary) whose
   components are not :is/:not/:has/:haschild (`flat`), printed by String() at position i of any text s and followed by
   the end of input, a space, a comma or a closing parenthesis (`cend`), is read back by parseSimpleSelectorSequence
   (p_seq) as exactly c, ending at the end of its text, for every depth fuel above the bound of C05_sel_parse_total.
   Side condition beyond `normal`: `flat c` (no relative pseudo-class; combinators and selector lists are the
   remaining part of C05_parse_print_roundtrip_statement). *)
Theorem C05_parse_print_roundtrip_compound : forall (s : str) (c : sel) (f : nat) (a : bool) (i : nat) (r : str),
  flat c = true -> normal a c = true -> skipn i s = print_sel c ++ r -> cend r = true ->
  3 * length (skipn i s) + 3 <= f ->
  p_seq s f a i = Ok (POk c (i + length (print_sel c))).
Proof. exact compound_roundtrip_flat. Qed.
Print Assumptions C05_parse_print_roundtrip_compound.

(* inhabited: a compound with an escaped type name, id starting with a digit, quoted attribute value with a quote and the i flag,
   An+B with negative a, a plain pseudo-class and a pseudo-element, followed by a child combinator *)
Example C05_compound_roundtrip_ex :
  let c := SCompound [STag [97;46;49]%N; SId [49;120]%N; SAttr [107]%N [118;34;119]%N OpIncludes true;
                      SNth (-3)%Z 2%Z true true; SEmpty] [98;101;102;111;114;101]%N in
  let s := (print_sel c ++ [32;62;32;121])%N in
  p_seq s (3 * length s + 3) true 0 = Ok (POk c (0 + length (print_sel c))).
Proof.
  intros c s. apply C05_parse_print_roundtrip_compound with (r := [32;62;32;121]%N); reflexivity || (cbn [skipn]; lia).
Qed.

(* ---- final round: algebra of Specificity.Add (specificity.go:21) and compounds (selector.go:446) ---- *)
Theorem C05_specificity_add_monoid :
  (forall x y, spec_add x y = spec_add y x) /\
  (forall x y z, spec_add (spec_add x y) z = spec_add x (spec_add y z)) /\
  (forall x, spec_add spec_zero x = x) /\ (forall x, spec_add x spec_zero = x).
Proof. exact (conj spec_add_comm (conj spec_add_assoc (conj spec_add_zero_l spec_add_zero_r))). Qed.
Print Assumptions C05_specificity_add_monoid.

(* adding the same weight to both sides never changes the outcome of Less *)
Theorem C05_specificity_less_add_invariant : forall x y z,
  spec_less (spec_add x z) (spec_add y z) = spec_less x y.
Proof. exact spec_less_add_r. Qed.
Print Assumptions C05_specificity_less_add_invariant.

(* the specificity of a compound is the sum of the specificities of its parts *)
Theorem C05_compound_specificity_app : forall l1 l2,
  specificity (SCompound (l1 ++ l2) []) = spec_add (specificity (SCompound l1 [])) (specificity (SCompound l2 [])).
Proof. exact compound_specificity_app. Qed.
Print Assumptions C05_compound_specificity_app.

Theorem C05_compound_specificity_cons : forall s l,
  specificity (SCompound (s :: l) []) = spec_add (specificity s) (specificity (SCompound l [])).
Proof. exact compound_specificity_cons. Qed.
Print Assumptions C05_compound_specificity_cons.
