(* Properties/C05.v -- Selectors match and weigh elements as the Selectors spec defines. *)
From Verif Require Import Css.Sel Css.SelProofs.
From Coq Require Import ZArith.
Open Scope Z_scope.

Theorem C05_nth_arith : forall a b i : Z, a <> 0 ->
  (Z.rem (i - b) a = 0 /\ Z.quot (i - b) a >= 0) <-> exists n, 0 <= n /\ i = a * n + b.
Proof. exact nth_arith. Qed.
Print Assumptions C05_nth_arith.
