(* Properties/C11.v -- "Lines are broken greedily and fit their container".
   Only statements, closed by `exact`, each followed by Print Assumptions.

   All statements are about the specification-level model of Layout/LineBreak.v (NOT a
   port of html/layout/inline.go, see the header of that file); Check/C11.v ties the
   model to /repo on every run through the observables that C11_break_unique shows the
   property determines.  Vocabulary (Layout/LineBreakSpec.v): a division `ls` of the
   inline content is a list of lines, each a list of units (the pieces between
   consecutive break opportunities, LineBreak.units); `avail` is the width of the
   containing block, the first line has `avail - indent`.

   The first group of theorems is about `break_lines` (white-space only: overflow-wrap:
   normal); the group "overflow-wrap" below is about `break_lines_e`, the breaker the layout
   uses, which also handles emergency break opportunities (`EB` items) and is `break_lines`
   when there is none (C11_break_lines_e_no_eb). *)
From Verif Require Import Layout.LineBreak Layout.LineBreakSpec Layout.LineBreakProofs
  Layout.LineBreakEmergency Layout.LineBreakEmergencyUnique Layout.LineBreakEmergencyMore.
From Coq Require Import List ZArith QArith Bool.
Import ListNotations.
Open Scope Z_scope.

(* the lines are made of all the units, in order, none empty ... *)
Theorem C11_break_partition : forall avail indent items,
  Partition (units items) (break_lines avail indent items).
Proof. exact break_partition. Qed.
Print Assumptions C11_break_partition.

(* ... "its content never exceeds that width unless it is a single unbreakable unit" *)
Theorem C11_lines_fit : forall avail indent items,
  Fits avail (avail - indent) (break_lines avail indent items).
Proof. exact lines_fit. Qed.
Print Assumptions C11_lines_fit.

(* ... "never breaks earlier than necessary when the next unit would still fit" *)
Theorem C11_greedy_maximal : forall avail indent items,
  Maximal avail (avail - indent) (break_lines avail indent items).
Proof. exact greedy_maximal. Qed.
Print Assumptions C11_greedy_maximal.

(* ... a line ends at a forced break *)
Theorem C11_forced_respected : forall avail indent items,
  Forced (break_lines avail indent items).
Proof. exact forced_respected. Qed.
Print Assumptions C11_forced_respected.

(* ... "a line never breaks where white-space forbids it": every line boundary is a cut
   position of the item list (soft wrap opportunity, or right after a forced break) *)
Theorem C11_no_forbidden_break : forall avail indent items a b,
  break_lines avail indent items = a ++ b -> a <> [] -> b <> [] ->
  cut_b (rev (concat (concat a))) (concat (concat b)) = true.
Proof. exact no_forbidden_break. Qed.
Print Assumptions C11_no_forbidden_break.

(* what a cut position is: at a space whose white-space wraps (with something before it
   on the line), around an atomic inline whose parent's white-space wraps, or after a
   forced break -- so never inside a word (a Word is one item), never after a space in a
   nowrap/pre run, never between two words separated by inline-box boundaries only, never
   between an inline box's edge and its content *)
Theorem C11_cut_positions : forall pre suf, cut_b pre suf = true ->
  (exists m w, content pre = Some (Space m w) /\ solid_before pre = true /\
     ((exists x, content suf = Some (Word x)) /\ wraps m = true \/
      (exists m' x h, content suf = Some (Atomic m' x h) /\ (wraps m || wraps m') = true))) \/
  (exists m x h, content pre = Some (Atomic m x h) /\ wraps m = true /\
     ((exists y, content suf = Some (Word y)) \/
      exists m' y h', content suf = Some (Atomic m' y h') /\ wraps m' = true)) \/
  (exists x m y h, content pre = Some (Word x) /\ content suf = Some (Atomic m y h) /\ wraps m = true) \/
  content pre = Some Hard.
Proof. exact cut_inv. Qed.
Print Assumptions C11_cut_positions.

Theorem C11_no_break_in_nowrap : forall pre suf m w x,
  content pre = Some (Space m w) -> content suf = Some (Word x) -> wraps m = false ->
  cut_b pre suf = false.
Proof. exact no_break_in_nowrap. Qed.
Print Assumptions C11_no_break_in_nowrap.

Theorem C11_no_break_between_words : forall pre suf x y,
  content pre = Some (Word x) -> content suf = Some (Word y) -> cut_b pre suf = false.
Proof. exact no_break_between_words. Qed.
Print Assumptions C11_no_break_between_words.

Theorem C11_edges_stick : forall p pre s suf,
  (is_open p = true -> cut_b (p :: pre) suf = false) /\
  (is_close s = true -> cut_b pre (s :: suf) = false).
Proof.
  intros p pre s suf.
  exact (conj (cut_not_after_open p pre suf) (cut_not_before_close pre s suf)).
Qed.
Print Assumptions C11_edges_stick.

(* the units are exactly what lies between consecutive cut positions: every boundary
   between units is a cut, and no cut falls strictly inside a unit *)
Theorem C11_units_exact : forall items,
  concat (units items) = items /\
  (forall a b, units items = a ++ b -> a <> [] -> b <> [] ->
     cut_b (rev (concat a)) (concat b) = true) /\
  (forall a u b x y, units items = a ++ u :: b -> u = x ++ y -> x <> [] -> y <> [] ->
     cut_b (rev x ++ rev (concat a)) (y ++ concat b) = false).
Proof.
  intros items.
  exact (conj (units_concat items) (conj (units_boundary items) (units_inside items))).
Qed.
Print Assumptions C11_units_exact.

(* THE LINE PARTITION IS DETERMINED BY THE PROPERTY: a division of the units into lines
   that fits, is maximal and respects forced breaks is the greedy one.  This licenses the
   comparison by equality in Check/C11.v.  (Lengths are not negative: wf.) *)
Theorem C11_break_unique : forall avail indent items ls,
  wf items -> Partition (units items) ls ->
  Fits avail (avail - indent) ls -> Maximal avail (avail - indent) ls -> Forced ls ->
  ls = break_lines avail indent items.
Proof. exact break_unique. Qed.
Print Assumptions C11_break_unique.

(* the same at the level of ITEMS: a division of the item list into non-empty lines that
   only breaks at cut positions is a grouping of the units ... *)
Theorem C11_lines_are_unit_groups : forall items lsI,
  concat lsI = items -> Forall (fun l => l <> []) lsI -> NoForbidden lsI ->
  exists g, Partition (units items) g /\ flat g = lsI.
Proof. exact lines_are_unit_groups. Qed.
Print Assumptions C11_lines_are_unit_groups.

(* ... hence any such division whose lines fit, are maximal and end at forced breaks is
   the one computed by break_lines *)
Theorem C11_break_unique_items : forall avail indent items lsI,
  wf items -> concat lsI = items -> Forall (fun l => l <> []) lsI -> NoForbidden lsI ->
  (forall g, Partition (units items) g -> flat g = lsI ->
     Fits avail (avail - indent) g /\ Maximal avail (avail - indent) g /\ Forced g) ->
  lsI = flat (break_lines avail indent items).
Proof. exact break_unique_items. Qed.
Print Assumptions C11_break_unique_items.

(* lines concatenate to the input ... *)
Theorem C11_concat_lines : forall avail indent items,
  concat (flat (break_lines avail indent items)) = items.
Proof. exact concat_lines. Qed.
Print Assumptions C11_concat_lines.

(* ... what is removed at the edges of a line is collapsible spaces only, and they take
   no room ("leading/trailing collapsible spaces take no room") *)
Theorem C11_trim_spec : forall l,
  drops_spaces l (trim_line l) /\ lw (trim_line l) = lw l.
Proof. intros l. exact (conj (trim_drops_spaces l) (trim_takes_no_room l)). Qed.
Print Assumptions C11_trim_spec.

(* "lines of a block stack without gap or overlap": y_0 = top of the content box,
   y_{k+1} = y_k + h_k *)
Theorem C11_lines_stack : forall c items, Stacked (y0 c) (layout c items).
Proof. exact layout_stacked. Qed.
Print Assumptions C11_lines_stack.

(* "each as tall as line-height and its contents require" *)
Theorem C11_line_height_spec : forall c l,
  (zq (lh c) <= line_height c l)%Q /\
  (forallb (fun i => negb (is_atomic i)) l = true -> (line_height c l == zq (lh c))%Q) /\
  (forall m w h, In (Atomic m w h) l ->
     (zq h <= line_height c l)%Q /\
     (fst (line_extent c l) <= - zq h)%Q /\ (0 <= snd (line_extent c l))%Q).
Proof.
  intros c l.
  exact (conj (line_height_ge_lh c l) (conj (line_height_no_atomic c l)
        (fun m w h H => conj (line_height_ge_atomic c l m w h H) (line_extent_atomic c l m w h H)))).
Qed.
Print Assumptions C11_line_height_spec.

(* the height of a line is a function of the atomic inlines it holds (in order), and a placed
   line shows exactly one atomic box per atomic inline: so the height the property requires
   of a line can be read off the atomic boxes found on it, whatever the partition
   (Check.C11.vert_ok evaluates this on the lines of the implementation) *)
Theorem C11_line_height_atomics : forall c first last l,
  line_height c l = line_height c (filter is_atomic l) /\
  length (filter is_fa (place c first last l)) = length (filter is_atomic l).
Proof. intros c first last l. exact (conj (line_height_atomics c l) (place_atomics c first last l)). Qed.
Print Assumptions C11_line_height_atomics.

(* "text-align places the content at the start, end, centre or justifies it across the
   available width"; content that does not fit is start-aligned; the last line of a
   justified block is start-aligned.  W = text-indent + width of the trimmed line. *)
Theorem C11_align_spec : forall c ind last v,
  let W := (ind + sumw v)%Z in
  let p := align_params c ind last v in
  let off := fst p in let extra := snd p in
  ((avail c <= W)%Z -> (off == 0 /\ extra == 0)%Q) /\
  ((W < avail c)%Z ->
     match al c with
     | AStart => (off == 0 /\ extra == 0)%Q
     | AEnd => (zq W + off == zq (avail c) /\ extra == 0)%Q
     | ACenter => (off == zq (avail c) - (zq W + off) /\ extra == 0)%Q
     | AJustify =>
         (off == 0)%Q /\
         (last = true \/ pcoll c = false \/ (nspaces (em c) v <= 0)%Z -> (extra == 0)%Q) /\
         (last = false -> pcoll c = true -> (0 < nspaces (em c) v)%Z ->
          (zq W + zq (nspaces (em c) v) * extra == zq (avail c))%Q)
     end).
Proof. exact align_spec. Qed.
Print Assumptions C11_align_spec.

(* where the content ends up: the fragments of a line (text runs, atomic boxes) follow each
   other in order, without overlap, from the start of the content (start edge +
   text-indent + alignment offset) to that start plus the advance of the trimmed line; for
   text-align: end and for justified lines that advance ends exactly at the end edge *)
Theorem C11_place_spec : forall (c : cfg) (first last : bool) (l : list item),
  wf l -> (0 <= em c)%Z ->
  let ind := if first then indent c else 0%Z in
  let v := trim_line l in
  let p := align_params c ind last v in
  let start := (x0 c + zq ind + fst p)%Q in
  chain start (start + advance (em c) (snd p) v)%Q (place c first last l) /\
  ((ind + sumw v < avail c)%Z ->
   (al c = AEnd \/ (al c = AJustify /\ last = false /\ pcoll c = true /\ (0 < nspaces (em c) v)%Z)) ->
   (start + advance (em c) (snd p) v == x0 c + zq (avail c))%Q).
Proof.
  intros c first last l Hwf Hem.
  exact (conj (place_chain c first last l Hwf Hem)
              (place_end_edge c (if first then indent c else 0%Z) last (trim_line l))).
Qed.
Print Assumptions C11_place_spec.

(* "text-indent shifts the first line only" *)
Theorem C11_indent_first_only : forall c i y ls,
  stack (set_indent c i) false y ls = stack c false y ls.
Proof. exact indent_first_only. Qed.
Print Assumptions C11_indent_first_only.

Theorem C11_indent_first_line : forall c last l,
  place c true last l =
  (let v := trim_line l in
   let '(off, extra) := align_params c (indent c) last v in
   walk (em c) extra (x0 c + zq (indent c) + off)%Q None v).
Proof. exact indent_first_line. Qed.
Print Assumptions C11_indent_first_line.

(* the line box: starts text-indent before the content, ends where the content ends *)
Theorem C11_line_box_spec : forall (c : cfg) (first last : bool) (l : list item),
  let ind := if first then indent c else 0%Z in
  let v := trim_line l in
  let p := align_params c ind last v in
  let start := (x0 c + zq ind + fst p)%Q in
  (fst (line_box c first last l) + zq ind == start)%Q /\
  (fst (line_box c first last l) + snd (line_box c first last l) == start + advance (em c) (snd p) v)%Q.
Proof. exact line_box_spec. Qed.
Print Assumptions C11_line_box_spec.

(* a line box that holds nothing (CSS 2.1 9.4.2) does not exist: no height, not the first line *)
Theorem C11_phantom_line : forall c first y l r, phantom l = true ->
  stack c first y (l :: r) = stack c first y r.
Proof. exact stack_phantom. Qed.
Print Assumptions C11_phantom_line.

(* ================= overflow-wrap: anywhere | break-word (CSS Text 3, 5.5) =================
   `EB` items mark the emergency break opportunities; a division is a list of lines of
   tagged pieces (Layout/LineBreakSpec.v, second part). *)

(* the lines are made of all the pieces, in order, none empty *)
Theorem C11_break_partition_e : forall avail indent items,
  PartitionE (tsub items) (break_lines_e avail indent items).
Proof. exact break_partition_e. Qed.
Print Assumptions C11_break_partition_e.

Theorem C11_concat_lines_e : forall avail indent items,
  concat (flat_e (break_lines_e avail indent items)) = items.
Proof. exact concat_lines_e. Qed.
Print Assumptions C11_concat_lines_e.

(* a line overflows only when it is a single piece, which cannot be broken even in an
   emergency *)
Theorem C11_lines_fit_e : forall avail indent items,
  FitsE avail (avail - indent) (break_lines_e avail indent items).
Proof. exact lines_fit_e. Qed.
Print Assumptions C11_lines_fit_e.

(* at a regular opportunity the whole next unit does not fit after the line; at an emergency
   opportunity not even the next piece does *)
Theorem C11_greedy_maximal_e : forall avail indent items,
  MaximalE avail (avail - indent) (break_lines_e avail indent items).
Proof. exact greedy_maximal_e. Qed.
Print Assumptions C11_greedy_maximal_e.

(* "may be broken at an arbitrary point if there are no otherwise-acceptable break points in
   the line": a line that ends at an emergency opportunity holds no regular one *)
Theorem C11_emergency_only : forall avail indent items,
  EmergencyOnly (break_lines_e avail indent items).
Proof. exact emergency_only. Qed.
Print Assumptions C11_emergency_only.

(* what the tags mean, in terms of the item list: a piece tagged true follows a regular
   opportunity (cut_b), a piece tagged false follows an emergency opportunity (ecut_b: right
   after an EB, not between an inline-box edge and its content) that is no regular one *)
Theorem C11_tsub_tags : forall items a t p b,
  tsub items = a ++ (t, p) :: b -> a <> [] ->
  let pre := rev (cat a) in let suf := p ++ cat b in
  if t then cut_b pre suf = true
  else ecut_b pre suf = true /\ cut_b pre suf = false.
Proof. exact tsub_tags. Qed.
Print Assumptions C11_tsub_tags.

(* "a line never breaks where white-space / overflow-wrap forbid it": every line boundary is
   a regular opportunity, or an emergency one and then the line that ends there holds no
   regular opportunity: in particular a word that starts in the middle of a line (after a
   regular opportunity) is moved to the next line before it is broken *)
Theorem C11_no_forbidden_break_e : forall avail indent items a g b,
  break_lines_e avail indent items = a ++ g :: b -> b <> [] ->
  let pre := rev (cat (concat (a ++ [g]))) in let suf := cat (concat b) in
  cut_b pre suf = true \/
  (ecut_b pre suf = true /\ cut_b pre suf = false /\ all_emergency (tl g) = true).
Proof. exact no_forbidden_break_e. Qed.
Print Assumptions C11_no_forbidden_break_e.

(* "a line ends at a forced break": on a line nothing but end edges of inline boxes follows a
   forced break *)
Theorem C11_forced_respected_e : forall avail indent items,
  Forall (fun l => forall x y, l = x ++ Hard :: y -> forallb is_close y = true)
         (flat_e (break_lines_e avail indent items)).
Proof. exact forced_respected_e. Qed.
Print Assumptions C11_forced_respected_e.

(* in a unit nothing but end edges follows a forced break (so a line that ends with the
   last piece of such a unit ends at the forced break) *)
Theorem C11_unit_hard_tail : forall items a u b x y,
  units items = a ++ u :: b -> u = x ++ Hard :: y -> forallb is_close y = true.
Proof. intros items a u b x y H. exact (units_hard_tail items a u b H x y). Qed.
Print Assumptions C11_unit_hard_tail.

(* overflow-wrap: normal (no EB item): the pieces are the units and the breaker is
   break_lines, to which the first group of theorems (C11_break_unique included) applies *)
Theorem C11_break_lines_e_no_eb : forall avail indent items, no_eb items ->
  tsub items = map (pair true) (units items) /\
  break_lines_e avail indent items = map (map (pair true)) (break_lines avail indent items) /\
  flat_e (break_lines_e avail indent items) = flat (break_lines avail indent items).
Proof.
  intros avail indent items H.
  exact (conj (tsub_no_eb items H) (break_lines_e_no_eb avail indent items H)).
Qed.
Print Assumptions C11_break_lines_e_no_eb.

(* the division WITH emergency opportunities is determined by the property: a division of the
   tagged pieces into non-empty lines that fits, is maximal (at an emergency boundary: not even
   the next piece fits, i.e. the emergency break is taken at the last position that fits),
   breaks at an emergency opportunity only on a line without regular one and respects forced
   breaks IS break_lines_e.  The hypotheses are the conclusions of C11_break_partition_e,
   C11_lines_fit_e, C11_greedy_maximal_e, C11_emergency_only, C11_forced_respected_e, unchanged
   (no extra tie-breaking clause); this licenses the comparison of the implementation's line
   partition by equality when overflow-wrap is in play *)
Theorem C11_break_unique_e : forall avail indent items ls,
  wf items -> PartitionE (tsub items) ls ->
  FitsE avail (avail - indent) ls -> MaximalE avail (avail - indent) ls ->
  EmergencyOnly ls ->
  Forall (fun l => forall x y, l = x ++ Hard :: y -> forallb is_close y = true) (flat_e ls) ->
  ls = break_lines_e avail indent items.
Proof. exact break_unique_e. Qed.
Print Assumptions C11_break_unique_e.

(* ... and conversely: the five statements characterise break_lines_e *)
Theorem C11_break_unique_e_iff : forall avail indent items ls, wf items ->
  (ls = break_lines_e avail indent items <->
   PartitionE (tsub items) ls /\ FitsE avail (avail - indent) ls /\
   MaximalE avail (avail - indent) ls /\ EmergencyOnly ls /\
   Forall (fun l => forall x y, l = x ++ Hard :: y -> forallb is_close y = true) (flat_e ls)).
Proof. exact break_unique_e_iff. Qed.
Print Assumptions C11_break_unique_e_iff.

(* ---- non-vacuity: a paragraph with a span (padding 5+5), an inline-block and a <br>,
   broken at 100 with text-indent 10; the hypotheses of C11_break_unique are inhabited *)
Definition ex_items : list item :=
  [Word 40; Space Normal 10; Open 5; Word 30; Space Normal 10; Word 30; Close 5; Space Normal 10;
   Atomic Normal 20 30; Word 20; Hard; Word 50; Space Nowrap 10; Word 50].

Example C11_example_lines :
  flat (break_lines 100 10 ex_items) =
  [[Word 40; Space Normal 10; Open 5; Word 30; Space Normal 10];
   [Word 30; Close 5; Space Normal 10; Atomic Normal 20 30; Word 20; Hard];
   [Word 50; Space Nowrap 10; Word 50]].
Proof. vm_compute. reflexivity. Qed.

Example C11_example_wf : wf ex_items.
Proof. unfold wf, ex_items. repeat constructor; vm_compute; discriminate. Qed.

Example C11_example_unique_hyps :
  let ls := break_lines 100 10 ex_items in
  Partition (units ex_items) ls /\ Fits 100 90 ls /\ Maximal 100 90 ls /\ Forced ls.
Proof.
  exact (conj (break_partition 100 10 ex_items) (conj (lines_fit 100 10 ex_items)
        (conj (greedy_maximal 100 10 ex_items) (forced_respected 100 10 ex_items)))).
Qed.

(* the third line overflows (110 > 100) because it is a single unbreakable unit *)
Example C11_example_overflow :
  nth 2 (map (fun g => (lw (concat g), length g)) (break_lines 100 10 ex_items)) (0, 0%nat) = (110, 1%nat).
Proof. vm_compute. reflexivity. Qed.

Example C11_example_layout :
  map ofr (layout (mkCfg 100 10 10 12 AEnd true 0 0) ex_items) =
  [[FT 15 50; FT 70 30]%Q; [FT 15 30; FT 50 10; FA 60 20; FT 80 20]%Q; [FT 0 110]%Q].
Proof. vm_compute. reflexivity. Qed.

(* ---- overflow-wrap: break-word, glyphs of 10: `aa bbbbbbbb cc` in 50: the word is moved to
   the next line, then broken; `<span>aa </span>bbb cc` in 40: the word that starts in the
   middle of the line is NOT broken (it fits on a line of its own) *)
Definition bw (n : nat) : list item :=   (* a breakable word of n glyphs *)
  match n with O => [] | S k => Word 10 :: concat (repeat [EB; Word 10] k) end.

Example C11_example_break_word :
  map (fun l => (lw l, length (filter (fun i => match i with Word _ => true | _ => false end) l)))
      (flat_e (break_lines_e 50 0 (bw 2 ++ [Space Normal 10] ++ bw 8 ++ [Space Normal 10] ++ bw 2))) =
  [(20, 2%nat); (50, 5%nat); (30, 3%nat); (20, 2%nat)].
Proof. vm_compute. reflexivity. Qed.

Example C11_example_mid_line_word_not_broken :
  map lw (flat_e (break_lines_e 40 0 ([Open 0] ++ bw 2 ++ [Space Normal 10; Close 0] ++ bw 3 ++
                                      [Space Normal 10] ++ bw 2))) = [20; 30; 20].
Proof. vm_compute. reflexivity. Qed.

Example C11_example_tags :
  map (map fst) (break_lines_e 50 0 (bw 2 ++ [Space Normal 10] ++ bw 8)) =
  [[true; false]; [true; false; false; false; false]; [false; false; false]].
Proof. vm_compute. reflexivity. Qed.

(* the hypotheses of C11_break_unique_e are inhabited by a paragraph that needs an emergency
   break (`aa bbbbbbbb cc` in 50, a forced break added at the end of the word): the third and
   fourth lines start at an emergency opportunity *)
Definition ex_bw : list item :=
  bw 2 ++ [Space Normal 10] ++ bw 8 ++ [Hard; Space Normal 10] ++ bw 2.

Example C11_example_unique_e_hyps :
  let ls := break_lines_e 50 0 ex_bw in
  wf ex_bw /\ PartitionE (tsub ex_bw) ls /\ FitsE 50 (50 - 0) ls /\ MaximalE 50 (50 - 0) ls /\
  EmergencyOnly ls /\
  Forall (fun l => forall x y, l = x ++ Hard :: y -> forallb is_close y = true) (flat_e ls) /\
  map (map fst) ls = [[true; false]; [true; false; false; false; false]; [false; false; false]; [true; false]].
Proof.
  split; [unfold wf, ex_bw; repeat constructor; vm_compute; discriminate|].
  refine (conj (break_partition_e 50 0 ex_bw) (conj (lines_fit_e 50 0 ex_bw)
        (conj (greedy_maximal_e 50 0 ex_bw) (conj (emergency_only 50 0 ex_bw)
        (conj (forced_respected_e 50 0 ex_bw) _))))).
  vm_compute. reflexivity.
Qed.

(* the clauses discriminate: breaking the long word one glyph earlier is not maximal *)
Example C11_example_unique_e_early_break :
  let ls := break_lines_e 50 0 (bw 8) in
  let early := [firstn 4 (tsub (bw 8)); skipn 4 (tsub (bw 8))] in
  map (@length _) ls = [5%nat; 3%nat] /\ PartitionE (tsub (bw 8)) early /\ FitsE 50 50 early /\
  EmergencyOnly early /\ ~ MaximalE 50 50 early.
Proof.
  vm_compute. repeat split; try discriminate; try (repeat constructor; discriminate).
  intros [[H|H] _]; discriminate.
Qed.

(* ---- a box with horizontal padding glued to what follows: `<span style="padding:0 20px">aa
   bb c</span>dd` in 120 (glyphs of 10).  The box fits entirely (110), `dd` is glued to it and
   does not: the line is broken at the LAST opportunity inside the box ([aa bb | cdd], not
   [aa | bb cdd]): greedy_maximal, with the box's end edge sticking to `c`.  The heights of
   the lines depend on the atomic inlines only. *)
Definition ex_glued : list item :=
  [Open 20; Word 20; Space Normal 10; Word 20; Space Normal 10; Word 10; Close 20; Word 20].

Example C11_example_glued_box :
  flat (break_lines 120 0 ex_glued) =
  [[Open 20; Word 20; Space Normal 10; Word 20; Space Normal 10]; [Word 10; Close 20; Word 20]]
  /\ map lw (flat (break_lines 120 0 ex_glued)) = [70; 50]
  /\ lw ([Open 20; Word 20; Space Normal 10; Word 20; Space Normal 10] ++ [Word 10; Close 20; Word 20]) = 130.
Proof. vm_compute. repeat split; reflexivity. Qed.

(* ---- inline boxes (fourth round): the boolean Check/C11.v evaluates on every inline box of a
   laid-out line decides that the content area of the box spans exactly its in-flow children *)
Theorem C11_inline_box_extent_decided : forall b : iboxo, ibox_ok b = true <-> ibox_spans b.
Proof. exact ibox_ok_spec. Qed.
Print Assumptions C11_inline_box_extent_decided.

Example C11_example_inline_box_wider_than_content :
  ibox_ok (mkIB 90 185 90 155) = false /\ ibox_ok (mkIB 90 155 90 155) = true.
Proof. vm_compute. split; reflexivity. Qed.

(* ---- vertical-align (fourth round): the booleans Check/C11.v evaluates on the line boxes of the
   `valign` stream decide "every line is as tall as the line-height of each inline box with text
   on it and as each atomic inline on it" and "the lines stack" *)
Theorem C11_line_tall_decided : forall l : vline, vline_tall_b l = true <-> vline_tall l.
Proof. exact vline_tall_b_spec. Qed.
Print Assumptions C11_line_tall_decided.

Theorem C11_lines_stacked_decided : forall ls : list vline, vstacked_b ls = true <-> vstacked ls.
Proof. exact vstacked_b_spec. Qed.
Print Assumptions C11_lines_stacked_decided.

(* `x <span style="vertical-align:top">a<span style="vertical-align:bottom;line-height:40px">b</span></span> c`
   with line-height 10px: a first line of 10px is not tall enough *)
Example C11_example_nested_top_bottom :
  vline_tall_b (mkVL 0 10 [10 # 1; 10 # 1; 40 # 1; 10 # 1]) = false /\ vline_tall_b (mkVL 0 40 [10 # 1; 10 # 1; 40 # 1; 10 # 1]) = true.
Proof. vm_compute. split; reflexivity. Qed.

(* ---- overflow-wrap, final round (Layout/LineBreakEmergencyMore.v): every line holds at least
   one piece, so there are at most as many lines as tagged pieces *)
Theorem C11_line_count_le_e : forall avail indent items,
  (length (break_lines_e avail indent items) <= length (tsub items))%nat.
Proof. exact line_count_le_e. Qed.
Print Assumptions C11_line_count_le_e.

(* progress: there is no line exactly when there is no item *)
Theorem C11_no_line_iff_e : forall avail indent items,
  break_lines_e avail indent items = [] <-> items = [].
Proof. exact no_line_iff_e. Qed.
Print Assumptions C11_no_line_iff_e.

(* a non-empty paragraph without forced break whose whole content fits the first line is ONE
   line (all its pieces), with or without emergency opportunities: no needless break *)
Theorem C11_single_line_e : forall avail indent items,
  wf items -> items <> [] -> existsb is_hard items = false -> lw items <= avail - indent ->
  break_lines_e avail indent items = [tsub items].
Proof. exact single_line_e. Qed.
Print Assumptions C11_single_line_e.

(* progress: every line holds at least one item (not only a piece: no piece is empty) *)
Theorem C11_lines_content_nonempty_e : forall avail indent items,
  Forall (fun l => l <> []) (flat_e (break_lines_e avail indent items)).
Proof. exact lines_content_nonempty_e. Qed.
Print Assumptions C11_lines_content_nonempty_e.
