(* Properties/C14.v -- The backend receives a well-formed, self-consistent drawing.
   Only statements, closed by `exact`, each followed by Print Assumptions.

   Models (ports of /repo/html/document/document.go, utils/html.go, backend/*.go):
     Draw/Links.v      gatherLinksAndBookmarks + resolveLinks
     Draw/Bookmarks.v  makeBookmarkTree (with its panic sites)
     Draw/Emit.v       the page loop of Document.Write (exact / float32 instances)
     Draw/Meta.v       GetHtmlMetadata
     Draw/Protocol.v   the backend contract as an automaton over calls
     Draw/Tiling.v     the tiling arithmetic of drawBackgroundImage (draw.go:476-550)
   Check/C14.v ties every model to /repo on every run; the automaton is run as
   a monitor on the recorded trace of every generated document (draw.go's
   primitives are not modelled one by one: the protocol theorems below are about
   the automaton and about the call sequences of the modelled emitters). *)
From Verif Require Import Base.GoSem Base.F32 Geom.Matrix
  Draw.Links Draw.LinksSpec Draw.LinksProofs Draw.LinksTree Draw.LinksTreeProofs
  Draw.Bookmarks Draw.BookmarkSpec Draw.BookmarksProofs
  Draw.Protocol Draw.ProtocolProofs Draw.ProtocolMore Draw.Emit Draw.EmitProofs
  Draw.Meta Draw.MetaProofs Draw.Tiling Draw.TilingProofs.
From Coq Require Import QArith List ZArith NArith Permutation.
Import ListNotations.

(* ------------------------------------------------------------------ links *)
(* "every internal link emitted names an anchor that CreateAnchors defines
    exactly once (the first element with that id)": for the boxes of the pages
   in document order and ANY enumeration order of the per-page anchor maps *)
Theorem C14_links_consistent : forall bpages pages, pages_for bpages pages ->
  each_internal_link_has_unique_first_anchor bpages (fst (resolve pages)) (snd (resolve pages)).
Proof. exact resolve_links_consistent. Qed.
Print Assumptions C14_links_consistent.

(* the anchors handed to CreateAnchors: on page j exactly the names whose first
   box in document order is on page j, with that box's position; no name twice *)
Theorem C14_anchors_are_first_definitions : forall bpages pages, pages_for bpages pages ->
  anchors_are_first_defs bpages (snd (resolve pages)) /\
  NoDup (map aname (concat (snd (resolve pages)))).
Proof. exact resolve_anchors_first_defs. Qed.
Print Assumptions C14_anchors_are_first_definitions.

(* "links to missing anchors are dropped" and nothing else is: every page keeps,
   in order and unchanged, all its links except the internal ones whose target
   no box of the document defines *)
Theorem C14_only_dangling_dropped : forall bpages pages, pages_for bpages pages ->
  only_dangling_dropped bpages (fst (resolve pages)).
Proof. exact resolve_only_dangling_dropped. Qed.
Print Assumptions C14_only_dangling_dropped.

(* the iteration order of Go's maps reaches the output only as the order of the
   anchors inside one page's list (C15 owns that; /repo now sorts the names) *)
Theorem C14_map_order_only_permutes_anchors : forall bpages pages pages',
  pages_for bpages pages -> pages_for bpages pages' ->
  fst (resolve pages) = fst (resolve pages') /\
  Forall2 (fun l l' => forall a, In a l <-> In a l') (snd (resolve pages)) (snd (resolve pages')).
Proof. exact resolve_order_irrelevant. Qed.
Print Assumptions C14_map_order_only_permutes_anchors.

Example C14_pages_for_inhabited : forall bpages,
  pages_for bpages (map (fun bs => let g := gather bs in page_of g (g_anchors g)) bpages).
Proof. exact pages_for_self. Qed.

(* non-vacuity: duplicate id on two pages, a dangling link, an attachment *)
Example C14_links_example :
  let bx n l := mkbox n l false false [] 0 false (mkpos 0 0) (mkrect 0 0 0 0) in
  let ax n l := mkbox n l false true [] 0 false (mkpos 0 0) (mkrect 0 0 0 0) in
  let a := [97%N] in let b := [98%N] in let z := [122%N] in
  resolve_boxes [[bx a None; bx [] (Some (LInternal, b)); bx [] (Some (LInternal, z)); bx a None];
                 [bx a None; bx b None; ax [] (Some (LExternal, z))]]
  = ([[mklink LInternal b (mkrect 0 0 0 0)]; [mklink LAttachment z (mkrect 0 0 0 0)]],
     [[mkanchor a (mkpos 0 0)]; [mkanchor b (mkpos 0 0)]]).
Proof. vm_compute. reflexivity. Qed.

(* ------------------------------------------------------------------ bookmarks *)
(* "bookmark entries form an outline consistent with their levels": the forest's
   pre-order flattening is the input (so labels, page indices, positions are
   preserved, in document order), every child is strictly deeper in level than
   its parent and sibling levels never increase *)
Theorem C14_bookmark_outline_spec : forall es, Forall (fun e => (1 <= e_level e)%Z) es ->
  exists f, make_tree es = GoSem.Ok f /\ Bookmarks.preorder f = es /\ outline_ok f.
Proof. exact make_tree_ok. Qed.
Print Assumptions C14_bookmark_outline_spec.

(* these conditions determine the forest: comparing the implementation's outline
   with the model's by equality is a test against the specification *)
Theorem C14_bookmark_outline_unique : forall f g,
  outline_ok f -> outline_ok g -> Bookmarks.preorder f = Bookmarks.preorder g -> f = g.
Proof. exact outline_unique. Qed.
Print Assumptions C14_bookmark_outline_unique.

(* and it is the outline "a heading owns the following deeper headings" *)
Theorem C14_bookmark_is_reference_outline : forall es, Forall (fun e => (1 <= e_level e)%Z) es ->
  make_tree es = GoSem.Ok (build es).
Proof. exact make_tree_build. Qed.
Print Assumptions C14_bookmark_is_reference_outline.

(* the explicit panic of document.go:396 and the two index operations are
   unreachable for levels >= 1 (wanted by C01 / C07) *)
Theorem C14_bookmark_no_panic : forall es, Forall (fun e => (1 <= e_level e)%Z) es ->
  is_ok (make_tree es) = true.
Proof. exact make_tree_no_panic. Qed.
Print Assumptions C14_bookmark_no_panic.

(* the hypothesis is needed: the model (like the Go code) panics on a level <= 0 *)
Theorem C14_bookmark_panics_below_1 : forall e, (e_level e <= 0)%Z -> exists s, make_tree [e] = GoSem.Panic s.
Proof. exact make_tree_panics_on_level_le_0. Qed.
Print Assumptions C14_bookmark_panics_below_1.

Example C14_bookmark_example :
  let e l := mkentry l [] 0 (mkpos 0 0) true in
  make_tree [e 1; e 3; e 2; e 3; e 1]%Z
  = GoSem.Ok [Node (e 1%Z) [Node (e 3%Z) []; Node (e 2%Z) [Node (e 3%Z) []]]; Node (e 1%Z) []].
Proof. vm_compute. reflexivity. Qed.

(* ------------------------------------------------------------------ page emission *)
(* "exactly one AddPage per laid-out page, in order" *)
Theorem C14_emit_pages : forall ar zoom pages,
  length (emit ar zoom pages) = length pages /\
  forall i p, nth_error pages i = Some p -> nth_error (emit ar zoom pages) i = Some (emit_page ar zoom p).
Proof. intros ar zoom pages. split; [exact (emit_length ar zoom pages) | exact (emit_nth ar zoom pages)]. Qed.
Print Assumptions C14_emit_pages.

(* the AddPage arguments are the bleed box of the page in CSS pixels, whatever the zoom *)
Theorem C14_addpage_args : forall zoom p, ~ zoom == 0 ->
  let r := o_addpage (emit_page exactQ zoom p) in
  rx0 r == - ep_bl p /\ ry0 r == - ep_bt p /\
  rx1 r == ep_w p + ep_bl p + ep_br p /\ ry1 r == ep_h p + ep_bt p + ep_bb p.
Proof. exact addpage_args. Qed.
Print Assumptions C14_addpage_args.

(* "zoom scales rectangles and anchors linearly": x' = s x, y' = s (H - y), s = 0.75 zoom *)
Theorem C14_zoom_scales_linearly :
  (forall s h r, let r' := scale_rect exactQ (mk s 0 0 (- s) 0 (h * s)) r in
     rx0 r' == s * rx0 r /\ ry0 r' == s * (h - ry0 r) /\ rx1 r' == s * rx1 r /\ ry1 r' == s * (h - ry1 r)) /\
  (forall s h a, let a' := scale_anchor exactQ (mk s 0 0 (- s) 0 (h * s)) a in
     aname a' = aname a /\ px (apos a') == s * px (apos a) /\ py (apos a') == s * (h - py (apos a))).
Proof. split; [exact scale_rect_linear | exact scale_anchor_linear]. Qed.
Print Assumptions C14_zoom_scales_linearly.

(* scaling changes no link type, target, or anchor name, and drops no link *)
Theorem C14_emit_preserves_names : forall ar zoom p,
  map (fun l => (ltyp l, ltarget l)) (o_links (emit_page ar zoom p))
    = map (fun l => (ltyp l, ltarget l)) (filter emitted (ep_links p)) /\
  map aname (o_anchors (emit_page ar zoom p)) = map aname (ep_anchors p).
Proof. intros ar zoom p. split; [exact (links_targets_preserved ar zoom p) | exact (anchors_names_preserved ar zoom p)]. Qed.
Print Assumptions C14_emit_preserves_names.

(* ------------------------------------------------------------------ metadata *)
(* "<title>/<meta> metadata is forwarded unchanged": the record is read off the
   DOM elements field by field (first non-empty title / description / generator,
   all authors in order, keywords split at commas, trimmed, first occurrences,
   first valid dates, all attachments with an href) *)
Theorem C14_metadata_forwarded : forall els, get_metadata els = meta_spec els.
Proof. exact get_metadata_spec. Qed.
Print Assumptions C14_metadata_forwarded.

(* ------------------------------------------------------------------ protocol *)
Theorem C14_protocol_prefix_closed : forall t1 t2 st st',
  Protocol.run st (t1 ++ t2) = Some st' -> exists st1, Protocol.run st t1 = Some st1.
Proof. exact protocol_prefix_closed. Qed.
Print Assumptions C14_protocol_prefix_closed.

(* the monitor run on recorded traces reports nothing exactly when the strict automaton accepts *)
Theorem C14_monitor_is_the_automaton : forall t,
  fst (monitor t) = [] /\ balanced (snd (monitor t)) && complete (snd (monitor t)) = true <-> accept t = true.
Proof. exact monitor_accept. Qed.
Print Assumptions C14_monitor_is_the_automaton.

(* what acceptance means: "painting and clipping are always preceded by path construction" *)
Theorem C14_path_before_paint : forall t1 x t2 st' c,
  consumes_path c x = true -> Protocol.run pinit (t1 ++ x :: t2) = Some st' ->
  exists u y v, t1 = u ++ y :: v /\ is_path_start c y = true /\
                forallb (fun z => negb (consumes_path c z)) v = true.
Proof. exact path_before_paint. Qed.
Print Assumptions C14_path_before_paint.

(* "fonts are registered before text using them is drawn": on the SAME canvas (a page
   and every group returned by NewGroup are separate canvases with their own fonts) *)
Theorem C14_font_before_text : forall t1 c fs a t2 st' f,
  Protocol.run pinit (t1 ++ CDrawText c fs a :: t2) = Some st' -> In f fs ->
  In (CAddFont c f) t1.
Proof. exact font_before_text. Qed.
Print Assumptions C14_font_before_text.

(* a group is handed to DrawWithOpacity / SetColorPattern / SetAlphaMask of the canvas
   whose NewGroup created it, and at most once *)
Theorem C14_group_before_consume : forall t1 x t2 st' c g,
  call_canvas x = Some c -> call_group x = Some g ->
  Protocol.run pinit (t1 ++ x :: t2) = Some st' ->
  exists u a v, t1 = u ++ CNewGroup c g a :: v /\
                forallb (fun z => negb (consumes_group g z)) v = true.
Proof. exact group_before_consume. Qed.
Print Assumptions C14_group_before_consume.

(* no painting is lost: in an accepted trace every group that received a Paint /
   DrawText / DrawRasterImage / DrawGradient is handed to its parent canvas *)
Theorem C14_painted_groups_consumed : forall t c g a x,
  accept t = true -> In (CNewGroup c g a) t -> In x t -> paints g x = true ->
  exists y, In y t /\ call_group y = Some g.
Proof. exact accepted_painted_groups_consumed. Qed.
Print Assumptions C14_painted_groups_consumed.

(* "every number passed is finite" (for an accepted trace: a runtime fact, checked by the monitor) *)
Theorem C14_accepted_all_finite : forall t st st',
  Protocol.run st t = Some st' -> Forall (fun x => nums_ok (call_nums x) = true) t.
Proof. exact accepted_all_finite. Qed.
Print Assumptions C14_accepted_all_finite.

Theorem C14_pages_counted : forall t st, Protocol.run pinit t = Some st -> npages st = count_pages t.
Proof. exact pages_counted. Qed.
Print Assumptions C14_pages_counted.

(* the call sequence of Document.Write around page paintings made of the modelled
   emitters (state setters, path+Paint, path+Clip, OnNewStack nesting, AddFont+DrawText,
   images) is accepted, with one AddPage per page in order *)
Theorem C14_write_calls_accepted : forall nembed pages na nb,
  NoDup (map w_canvas pages) ->
  (forall p, In p pages -> exists progs, w_paint p = emit_progs (w_canvas p) progs /\ forallb prog_ok progs = true) ->
  accept (write_calls nembed pages na nb) = true.
Proof. exact write_calls_accepted. Qed.
Print Assumptions C14_write_calls_accepted.

Theorem C14_write_calls_one_addpage_per_page : forall nembed pages na nb,
  (forall p, In p pages -> exists progs, w_paint p = emit_progs (w_canvas p) progs /\ forallb prog_ok progs = true) ->
  filter is_addpage (write_calls nembed pages na nb) = map (fun p => CAddPage (w_canvas p) (K 4)) pages.
Proof. exact write_calls_addpages. Qed.
Print Assumptions C14_write_calls_one_addpage_per_page.

(* ------------------------------------------------------------------ background tiling *)
(* CSS Backgrounds 3, 3.4, for the pattern drawBackgroundImage hands to the backend
   (tcell = period of the pattern, NewGroup; tshift = its translation, SetColorPattern;
   exact arithmetic, the float32 instance is tied bit for bit by the check).
   `tcount` is the largest number of whole tiles that fit in the positioning area: *)
Theorem C14_tiling_count : forall a, 0 < a_img a ->
  inject_Z (tcount a) * a_img a <= a_posw a /\ a_posw a < inject_Z (tcount a + 1) * a_img a.
Proof. exact n_tiles_max. Qed.
Print Assumptions C14_tiling_count.

(* space, two copies or more: first copy at the origin of the positioning area, last
   copy ending at its far edge, equal gaps, no overlap, background-position ignored
   (in particular the divisor `n - 1` of draw.go:504 is at least 1) *)
Theorem C14_tiling_space : forall a, a_rep a = RSpace -> 0 < a_img a -> (2 <= tcount a)%Z ->
  inject_Z (tcount a - 1) * tcell a + a_img a == a_posw a /\ a_img a <= tcell a /\ tshift a == a_pos0 a.
Proof. exact space_spec. Qed.
Print Assumptions C14_tiling_space.

(* space, fewer than two copies: one image, placed by background-position *)
Theorem C14_tiling_space_single : forall a, a_rep a = RSpace -> (tcount a < 2)%Z ->
  tcell a == a_posw a /\ tshift a == a_at a + a_pos0 a.
Proof. exact space_single. Qed.
Print Assumptions C14_tiling_space_single.

Theorem C14_tiling_repeat : forall a, a_rep a = RRepeat \/ a_rep a = RRound ->
  tcell a == a_img a /\ tshift a == a_at a + a_pos0 a.
Proof. exact repeat_cell. Qed.
Print Assumptions C14_tiling_repeat.

Theorem C14_tiling_no_repeat : forall a, a_rep a = RNoRepeat ->
  a_img a <= tcell a /\ 2 * a_paintw a <= tcell a /\ tshift a == a_at a + a_pos0 a.
Proof. exact no_repeat_cell. Qed.
Print Assumptions C14_tiling_no_repeat.

(* the pattern cell holds a whole tile and is positive whenever a copy fits *)
Theorem C14_tiling_cell_holds_tile : forall a, 0 < a_img a -> (a_rep a <> RSpace \/ (1 <= tcount a)%Z) ->
  a_img a <= tcell a /\ 0 < tcell a.
Proof. exact cell_holds_tile_positive. Qed.
Print Assumptions C14_tiling_cell_holds_tile.

Example C14_tiling_example :
  (* a 50px area, 30px tiles, space: one copy fits, the cell is the area (the seeded `>= 1` divides by 0 here) *)
  tile exactQ (mkaxis RSpace 0 50 50 30 7) (mkaxis RSpace 0 100 100 30 0)
  = Some (mkoaxis 50 (7 + 0), mkoaxis ((100 - 30) / (inject_Z 3 - 1)) (0 + 0)).
Proof. vm_compute. reflexivity. Qed.

(* ------------------------------------------------------------------ transform stack *)
(* "link rectangles, anchors and bookmark targets are where the element is drawn", under
   nested CSS transforms: what gatherLinksAndBookmarks stores for the boxes of a page are
   EXACTLY the boxes of the tree, each placed (rectangle = bounding box of the hit area,
   position = image of its origin) under the product of the own matrices of its
   ancestors-or-self, outermost first - the matrices drawStackingContext applies when it
   paints the box - and of nothing else *)
Theorem C14_transform_stack_is_ancestor_chain : forall ar t m b,
  In b (flatten ar m t) <->
  exists chain r, occurs t chain r /\ b = place ar (chain_matrix ar m chain) r.
Proof. exact flatten_occurs. Qed.
Print Assumptions C14_transform_stack_is_ancestor_chain.

(* a transformed box nested in a transformed ancestor does not change what its following
   siblings receive: they are placed under the ancestor's matrix, as the preceding ones *)
Theorem C14_transform_scoped_to_subtree : forall ar own info pre c post m,
  flatten ar m (TBox own info (pre ++ c :: post)) =
  (match info with Some r => [place ar (comb ar m own) r] | None => [] end)
  ++ flat_map (flatten ar (comb ar m own)) pre
  ++ flatten ar (comb ar m own) c
  ++ flat_map (flatten ar (comb ar m own)) post.
Proof. exact flatten_siblings. Qed.
Print Assumptions C14_transform_scoped_to_subtree.

Example C14_transform_stack_example :
  (* outer translate(100,0) > [ inner scale(2) > link A ; link B ]: B is placed under the
     translation alone (the seeded in-place product would give [140 0 180 20]) *)
  let raw := fun n x => mkraw [] (Some (LInternal, [n])) false false [] 0 false x 0 10 10 in
  map b_rect (flatten exactQ None
    (TBox (Some (translation 100 0)) None
       [TBox (Some (scaling 2 2)) None [TBox None (Some (raw 65%N 0)) []];
        TBox None (Some (raw 66%N 20)) []]))
  = [mkrect 100 0 120 20; mkrect 120 0 130 10].
Proof. vm_compute. reflexivity. Qed.

(* Not stated as a theorem: "every trace Document.Write can produce is accepted".
   That needs a model of every primitive of draw.go, text/draw and svg (about 4 kLOC
   of Go); the automaton is run on the recorded trace of every generated document
   instead (Check/C14.v, KTrace), C14_monitor_is_the_automaton relating the two. *)

Example C14_protocol_example :
  accept [CAddPage 1 (K 4); CTransform 1 (K 6); CPush 1; CRect 1 (K 4); CClip 1 0;
          CAddFont 1 7; CDrawText 1 [7] (K 5); CMoveTo 1 (K 2); CLineTo 1 (K 2); CPaint 1 1; CPop 1;
          CDoc 0 (K 0)]%N = true
  /\ accept [CAddPage 1 (K 4); CPaint 1 4]%N = false
  /\ accept [CAddPage 1 (K 4); CMoveTo 1 (Bad [Fin; NaN])]%N = false
  (* text inside an opacity group: the font must be registered on the group canvas *)
  /\ accept [CAddPage 1 (K 4); CNewGroup 1 2 (K 4); CAddFont 2 7; CDrawText 2 [7] (K 5);
             CDrawWithOpacity 1 2 (K 1)]%N = true
  /\ accept [CAddPage 1 (K 4); CNewGroup 1 2 (K 4); CAddFont 1 7; CDrawText 2 [7] (K 5);
             CDrawWithOpacity 1 2 (K 1)]%N = false
  (* painting into a group that is never composited *)
  /\ accept [CAddPage 1 (K 4); CNewGroup 1 2 (K 4); CRect 2 (K 4); CPaint 2 4]%N = false.
Proof. vm_compute. repeat split; reflexivity. Qed.

(* final round: monotonicity laws of the protocol automaton (Draw/ProtocolMore.v) *)
Theorem C14_run_closed_mono : forall t st st',
  run st t = Some st' -> closed st = true -> closed st' = true.
Proof. exact run_closed_mono. Qed.
Print Assumptions C14_run_closed_mono.

Theorem C14_run_npages_mono : forall t st st',
  run st t = Some st' -> (npages st <= npages st')%N.
Proof. exact run_npages_mono. Qed.
Print Assumptions C14_run_npages_mono.

Theorem C14_no_addpage_after_doc : forall t st st' k a,
  run st t = Some st' -> closed st = true -> run st (t ++ [CAddPage k a]) = None.
Proof. exact no_addpage_after_doc. Qed.
Print Assumptions C14_no_addpage_after_doc.
