(* Properties/C16.v -- Boxes are painted in CSS stacking order.
   Only statements, closed by `exact`, each followed by Print Assumptions.

   Model: Draw/Stacking.v (port of html/document/stacking.go and of
   drawStackingContext / drawInlineLevel / drawOutlines in draw.go).
   Specification: Draw/PaintSpec.v (CSS 2.1 Appendix E over the same tree).
   Check/C16.v ties the model to /repo on every run.

   Hypothesis `wf_shape b = true` (decidable, evaluated on every harness case):
   the shape layout gives to any box tree --
     W0 only parent boxes have children,
     W1 the in-flow children of a box are all line boxes or none is
        (a block container holds either lines or block-level boxes),
     W2 the in-flow children of a line box / inline box are inline boxes, text
        or replaced boxes (inline-blocks being atomic).
   Outside it the Go code itself is not defined: drawInlineLevel panics on
   "unexpected box" (draw.go 1545); the model reproduces that Panic.         *)
From Verif Require Import Base.GoSem Base.SortStable Draw.Stacking Draw.PaintSpec Draw.StackingProofs Draw.StackingOnce Draw.StackingSingular Draw.StackingMore Draw.StackingOrder.
From Coq Require Import List ZArith NArith Bool Sorted Permutation.
Import ListNotations.

(* ---- sort.SliceStable's contract, as used by NewStackingContext ---- *)

Theorem C16_stable_sort_contract : forall (A : Type) (key : A -> Z) (l : list A),
  StronglySorted (fun a b => (key a <= key b)%Z) (isort key l)
  /\ Permutation l (isort key l)
  /\ (forall k, filter (fun a => (key a =? k)%Z) (isort key l) = filter (fun a => (key a =? k)%Z) l).
Proof.
  intros A key l.
  exact (conj (isort_sorted key l) (conj (isort_perm key l) (isort_stable key l))).
Qed.
Print Assumptions C16_stable_sort_contract.

(* the contract determines the result: any implementation of a stable sort
   returns the same list *)
Theorem C16_stable_sort_unique : forall (A : Type) (key : A -> Z) (l l1 l2 : list A),
  stable_sorted_of key l l1 -> stable_sorted_of key l l2 -> l1 = l2.
Proof. exact @stable_sort_unique. Qed.
Print Assumptions C16_stable_sort_unique.

(* ---- "partition by z-index sign with stable sort" (stacking.go 32-73) ---- *)

Theorem C16_new_context_partition : forall i kids cc blocks floats bac,
  match new_context i kids cc blocks floats bac with
  | Ctx _ _ _ neg zero pos _ _ _ =>
    stable_sorted_of ctx_z (filter (fun c => (ctx_z c <? 0)%Z) cc) neg
    /\ zero = filter (fun c => (ctx_z c =? 0)%Z) cc
    /\ stable_sorted_of ctx_z (filter (fun c => (0 <? ctx_z c)%Z) cc) pos
  end.
Proof. exact new_context_partition. Qed.
Print Assumptions C16_new_context_partition.

(* the three lists are Appendix E's three classes of descendants (steps 3, 8,
   9), each in (z-index, tree order) *)
Theorem C16_stable_partition_sort :
  forall zsort, z_then_tree_order css_level zsort ->
  forall b, wf_shape b = true ->
  match from_box b with
  | Ctx _ _ _ neg zero pos _ _ _ =>
    let H := hoisted impl_forms_ctx b in
    let lv := fun d => css_level (binfo_of d) in
    neg = map anyctx (zsort (filter (fun d => impl_forms_ctx (binfo_of d) && (lv d <? 0)%Z) H))
    /\ zero = map anyctx (filter (fun d => negb (impl_forms_ctx (binfo_of d)) || (lv d =? 0)%Z) H)
    /\ pos = map anyctx (zsort (filter (fun d => impl_forms_ctx (binfo_of d) && (0 <? lv d)%Z) H))
  end.
Proof. exact stable_partition_sort. Qed.
Print Assumptions C16_stable_partition_sort.

(* ---- the paint sequence is Appendix E ---- *)

Theorem C16_paint_order_spec :
  forall zsort, z_then_tree_order css_level zsort ->
  forall b, wf_shape b = true ->
  paint (from_box b) = Ok (spec_paint impl_forms_ctx css_level zsort b).
Proof. exact paint_order_spec. Qed.
Print Assumptions C16_paint_order_spec.

Theorem C16_paint_page_spec :
  forall zsort, z_then_tree_order css_level zsort ->
  forall pi canvas roots,
  bkind pi = KPage -> bopac pi = false -> btrans pi = false ->
  Forall (fun r => wf_shape r = true) roots ->
  paint_page pi canvas roots = Ok (spec_page impl_forms_ctx css_level zsort pi canvas roots).
Proof. exact paint_page_spec. Qed.
Print Assumptions C16_paint_page_spec.

(* without overflow != visible boxes the stacking contexts are exactly CSS's
   (positioned with integer z-index, opacity < 1, transform): pure Appendix E *)
Theorem C16_paint_order_css :
  forall zsort, z_then_tree_order css_level zsort ->
  forall b, wf_shape b = true -> (forall x, In x (boxes b) -> bclip (binfo_of x) = false) ->
  paint (from_box b) = Ok (spec_paint css_forms_ctx css_level zsort b).
Proof. exact paint_order_css. Qed.
Print Assumptions C16_paint_order_css.

(* never panics on laid-out trees (the two panic sites of drawInlineLevel and
   the nil-box dereferences are unreachable) *)
Theorem C16_paint_never_panics : forall b, wf_shape b = true -> exists evs, paint (from_box b) = Ok evs.
Proof.
  intros b Hwf. eexists.
  exact (paint_order_spec (isort (fun b => css_level (binfo_of b)))
           (fun l => isort_contract (fun b => css_level (binfo_of b)) l) b Hwf).
Qed.
Print Assumptions C16_paint_never_panics.

(* stacking.go 129-131: the guard of panic("expected auto z-index") is unsatisfiable *)
Theorem C16_dispatch_panic_unreachable : forall i,
  creates_ctx i = false -> bpos i = true -> bz i = None.
Proof. exact dispatch_panic_unreachable. Qed.
Print Assumptions C16_dispatch_panic_unreachable.

(* ---- for a single box: background immediately precedes border, everywhere ---- *)

Theorem C16_background_then_border :
  forall forms_ctx level zsort n real b l1 l2 id,
  spec_ctx forms_ctx level zsort n real b = l1 ++ Bg id :: l2 -> exists l3, l2 = Border id :: l3.
Proof.
  intros forms_ctx level zsort n real b.
  exact (paired_adjacent _ (spec_ctx_paired forms_ctx level zsort n real b)).
Qed.
Print Assumptions C16_background_then_border.

Theorem C16_border_after_background :
  forall forms_ctx level zsort n real b l1 l2 id,
  spec_ctx forms_ctx level zsort n real b = l1 ++ Border id :: l2 -> exists l0, l1 = l0 ++ [Bg id].
Proof.
  intros forms_ctx level zsort n real b.
  exact (paired_adjacent_rev _ (spec_ctx_paired forms_ctx level zsort n real b)).
Qed.
Print Assumptions C16_border_after_background.

(* ---- group effects: balanced and well nested ---- *)

Theorem C16_effects_balanced :
  forall forms_ctx level zsort n real b, balanced (spec_ctx forms_ctx level zsort n real b).
Proof. exact spec_ctx_balanced. Qed.
Print Assumptions C16_effects_balanced.

(* between `Push e id` and its `Pop e id` lie only events of the sub-tree of
   box id (and the brackets are well nested): the "only" half of
   effects_bracket_subtree, for every tree *)
Theorem C16_effects_bracket_subtree_partial :
  forall zsort, z_then_tree_order css_level zsort ->
  forall root, scoped (subtree_ids root) (spec_paint impl_forms_ctx css_level zsort root).
Proof. exact effects_bracket_subtree_partial. Qed.
Print Assumptions C16_effects_bracket_subtree_partial.

(* every event painted for a (pseudo) stacking context names a box of its sub-tree *)
Theorem C16_event_ids_in_subtree :
  forall zsort, z_then_tree_order css_level zsort ->
  forall n real b e, In e (spec_ctx impl_forms_ctx css_level zsort n real b) -> In (ev_id e) (ids b).
Proof. exact spec_ctx_ids. Qed.
Print Assumptions C16_event_ids_in_subtree.

(* the root of a context: group effects, background + border, content, then its outline *)
Theorem C16_context_root_order :
  forall forms_ctx level zsort n real b,
  css_not_displayed (binfo_of b) = false ->
  exists content outlines,
    spec_ctx forms_ctx level zsort (S n) real b =
      wrap EOpacity (bopac (binfo_of b)) (bid (binfo_of b))
        (wrap ETransform (btrans (binfo_of b) && css_transformable (bkind (binfo_of b))) (bid (binfo_of b))
           ((if css_paints_box_decoration (bkind (binfo_of b))
             then [Bg (bid (binfo_of b)); Border (bid (binfo_of b))] else [])
            ++ wrap EClip (bclip (binfo_of b) && negb (is_page (bkind (binfo_of b)))) (bid (binfo_of b)) content
            ++ Outline (bid (binfo_of b)) :: outlines)).
Proof. exact spec_ctx_root_shape. Qed.
Print Assumptions C16_context_root_order.

(* the partition and the two sorts lose / duplicate no child context *)
Theorem C16_partition_permutation : forall i kids cc blocks floats bac,
  match new_context i kids cc blocks floats bac with
  | Ctx _ _ _ neg zero pos _ _ _ => Permutation cc (neg ++ zero ++ pos)
  end.
Proof. exact new_context_perm. Qed.
Print Assumptions C16_partition_permutation.

(* every box of a sub-tree belongs to exactly one territory: the boxes its own
   (pseudo) stacking context paints, or the territory of exactly one of the
   boxes hoisted to it (box-level half of every_box_painted_once) *)
Theorem C16_boxes_partition : forall b,
  Permutation (boxes b) (own b ++ flat_map terr (hoisted impl_forms_ctx b)).
Proof. exact boxes_partition. Qed.
Print Assumptions C16_boxes_partition.

(* ---- stated here, proved in Draw/StackingOnce.v (the `_holds` theorems), and
   also tested on the model's events of every harness case (Check/C16.v code 8) ---- *)

(* every_box_painted_once: no event is issued twice.
   Proved part: C16_partition_permutation (no context lost or duplicated by
   NewStackingContext), C16_boxes_partition, C16_event_ids_in_subtree. *)
Definition C16_every_box_painted_once_statement : Prop :=
  forall zsort, z_then_tree_order css_level zsort ->
  forall b, wf_shape b = true -> NoDup (ids b) ->
  NoDup (spec_paint impl_forms_ctx css_level zsort b).
Theorem C16_every_box_painted_once_holds : C16_every_box_painted_once_statement.
Proof. exact every_box_painted_once. Qed.
Print Assumptions C16_every_box_painted_once_holds.

(* per_box_order: Bg < Border < Content < Outline for each id.
   Proved part: C16_background_then_border, C16_border_after_background
   (Bg immediately before Border, all boxes), C16_context_root_order. *)
Definition C16_per_box_order_statement : Prop :=
  forall zsort, z_then_tree_order css_level zsort ->
  forall b, wf_shape b = true -> NoDup (ids b) ->
  forall id l1 l2,
  (spec_paint impl_forms_ctx css_level zsort b = l1 ++ Outline id :: l2 ->
     ~ In (Bg id) l2 /\ ~ In (Border id) l2 /\ ~ In (Content id) l2)
  /\ (spec_paint impl_forms_ctx css_level zsort b = l1 ++ Content id :: l2 ->
     ~ In (Bg id) l2 /\ ~ In (Border id) l2).
Theorem C16_per_box_order_holds : C16_per_box_order_statement.
Proof. exact per_box_order. Qed.
Print Assumptions C16_per_box_order_holds.

(* effects_bracket_subtree, the "all" half: nothing of the sub-tree of an
   opacity / transform box is painted outside its bracket (for the overflow
   clip: nothing but its own background, border, group effects and the
   outlines of step 10).
   Proved part: C16_effects_bracket_subtree_partial, C16_effects_balanced. *)
Definition C16_effects_bracket_subtree_statement : Prop :=
  forall zsort, z_then_tree_order css_level zsort ->
  forall b, wf_shape b = true -> NoDup (ids b) ->
  forall e id l1 l2 l3,
  spec_paint impl_forms_ctx css_level zsort b = l1 ++ Push e id :: l2 ++ Pop e id :: l3 ->
  forall x, In x (l1 ++ l3) -> In (ev_id x) (subtree_ids b id) ->
  match x with
  | Push _ i | Pop _ i => i = id
  | Bg i | Border i => e = EClip /\ i = id
  | Outline _ => e = EClip
  | _ => False
  end.
Theorem C16_effects_bracket_subtree_holds : C16_effects_bracket_subtree_statement.
Proof. exact effects_bracket_subtree_all. Qed.
Print Assumptions C16_effects_bracket_subtree_holds.

(* ---- non-invertible transforms (draw.go 245-259) ----
   `bsing i`: the matrix getMatrix computes for the box has determinant 0.  The model
   (Draw/Stacking.v `paint`) returns before painting anything, after the opacity
   group was created: the group is abandoned empty and, drawStackingContext having
   a value receiver, the callers keep their own destination. *)

(* the box and its whole sub-tree paint nothing (not even the Push/Pop of its opacity group) *)
Theorem C16_singular_paints_nothing : forall c, singular (ctx_info c) = true -> paint c = Ok [].
Proof. exact singular_paints_nothing. Qed.
Print Assumptions C16_singular_paints_nothing.

(* ... and nothing else changes: the paint sequence of a tree is the paint sequence of
   the same tree with every singular matrix replaced by an invertible one (`regular`:
   same stacking contexts, a transform forms one whatever its matrix), with the
   events naming a box of a singular sub-tree (`hidden_ids`) deleted.  Every box
   painted after (or before) a singular box is still painted, in the same order. *)
Theorem C16_singular_confined :
  forall zsort, z_then_tree_order css_level zsort ->
  forall b, wf_shape b = true -> NoDup (ids b) ->
  paint (from_box b) =
  Ok (filter (keep (hidden_ids b)) (spec_paint impl_forms_ctx css_level zsort (regular b))).
Proof. exact paint_singular_confined. Qed.
Print Assumptions C16_singular_confined.

Theorem C16_singular_confined_spec :
  forall zsort, z_then_tree_order css_level zsort ->
  forall b, NoDup (ids b) ->
  spec_paint impl_forms_ctx css_level zsort b =
  filter (keep (hidden_ids b)) (spec_paint impl_forms_ctx css_level zsort (regular b)).
Proof. exact singular_confined. Qed.
Print Assumptions C16_singular_confined_spec.

(* what is deleted: exactly the ids of the sub-trees of the boxes that are not displayed *)
Theorem C16_hidden_ids_are_singular_subtrees : forall b id,
  In id (hidden_ids b) <->
  exists x, In x (boxes b) /\ css_not_displayed (binfo_of x) = true /\ In id (ids x).
Proof. exact hidden_ids_spec. Qed.
Print Assumptions C16_hidden_ids_are_singular_subtrees.

Theorem C16_painted_outside_singular :
  forall zsort, z_then_tree_order css_level zsort ->
  forall b, NoDup (ids b) ->
  forall e, ~ In (ev_id e) (hidden_ids b) ->
  (In e (spec_paint impl_forms_ctx css_level zsort b) <->
   In e (spec_paint impl_forms_ctx css_level zsort (regular b))).
Proof. exact painted_outside_singular. Qed.
Print Assumptions C16_painted_outside_singular.

(* ---- the hypotheses are inhabited ---- *)

Example C16_zsort_exists : z_then_tree_order css_level (isort (fun b => css_level (binfo_of b))).
Proof. exact (fun l => isort_contract (fun b => css_level (binfo_of b)) l). Qed.

Definition ex_leaf (id : N) := Box (mkB id KText false None false false false false 4 false) [].
Definition ex_block (id : N) (pos : bool) (z : option Z) (cs : list box) :=
  Box (mkB id KBlock pos z false false false false 3 false) cs.
Definition ex_line (id : N) (cs : list box) := Box (mkB id KLine false None false false false false 0 false) cs.

(* root > [ A(z=1) ; B(z=-1) ; C(z=1) ; D(z auto, positioned) ] with a text each *)
Definition ex_tree : box :=
  ex_block 0 false None
    [ ex_block 1 true (Some 1%Z) [ex_line 11 [ex_leaf 12]];
      ex_block 2 true (Some (-1)%Z) [ex_line 21 [ex_leaf 22]];
      ex_block 3 true (Some 1%Z) [ex_line 31 [ex_leaf 32]];
      ex_block 4 true None [ex_line 41 [ex_leaf 42]] ].

Example C16_wf_inhabited : wf_shape ex_tree = true.
Proof. vm_compute. reflexivity. Qed.

(* negative first, then the positioned z-auto box, then the two z=1 boxes in tree order *)
Example C16_example_order :
  paint (from_box ex_tree) =
  Ok [Bg 0; Border 0;
      Bg 2; Border 2; Bg 21; Border 21; Content 22; Outline 2; Outline 21; Outline 22;
      Bg 4; Border 4; Bg 41; Border 41; Content 42; Outline 4; Outline 41; Outline 42;
      Bg 1; Border 1; Bg 11; Border 11; Content 12; Outline 1; Outline 11; Outline 12;
      Bg 3; Border 3; Bg 31; Border 31; Content 32; Outline 3; Outline 31; Outline 32;
      Outline 0]%N.
Proof. vm_compute. reflexivity. Qed.

(* the hidden state `opacity: 0; transform: scale(0)` on box 2 (z-index -1, painted
   first): box 2 and its text paint nothing, not even an opacity group; everything
   that follows in the stacking order (the in-flow text, the z-index 1 box) is painted *)
Definition ex_hidden_tree : box :=
  ex_block 0 false None
    [ Box (mkB 2 KBlock true (Some (-1)%Z) false true true false 3 true) [ex_line 21 [ex_leaf 22]];
      ex_block 5 false None [ex_line 51 [ex_leaf 52]];
      ex_block 3 true (Some 1%Z) [ex_line 31 [ex_leaf 32]] ].

Example C16_example_singular :
  paint (from_box ex_hidden_tree) =
  Ok [Bg 0; Border 0;
      Bg 5; Border 5; Bg 51; Border 51; Content 52;
      Bg 3; Border 3; Bg 31; Border 31; Content 32; Outline 3; Outline 31; Outline 32;
      Outline 0; Outline 5; Outline 51; Outline 52]%N
  /\ hidden_ids ex_hidden_tree = [2; 21; 22]%N.
Proof. vm_compute. split; reflexivity. Qed.

(* Tables (Appendix E step 7: "the inline content of block-level boxes AND table cells, in
   tree order").  root > [ table 1 > row 2 > [ cell 3 "t32" ; cell 4 > block 5 "t52" ] ; block 6 "t62" ]:
   a cell is dispatched to blocksAndCells only (stacking.go:151-154), so the insertion index of a
   later block in blocksAndCells is NOT its index in blocks; the texts come out in tree order
   (with the index of `blocks` block 5 and block 6 would be inserted before the cells: 52, 62, 32) *)
Definition ex_part (id : N) (k : kind) (cs : list box) := Box (mkB id k false None false false false false 0 false) cs.
Definition ex_table_tree : box :=
  ex_block 0 false None
    [ ex_part 1 KTable [ ex_part 2 KOther
        [ ex_part 3 KTableCell [ex_line 31 [ex_leaf 32]];
          ex_part 4 KTableCell [ex_block 5 false None [ex_line 51 [ex_leaf 52]]] ] ];
      ex_block 6 false None [ex_line 61 [ex_leaf 62]] ].

Example C16_example_table_cells :
  wf_shape ex_table_tree = true /\
  res_map (filter (fun e => match e with Content _ => true | _ => false end)) (paint (from_box ex_table_tree))
  = Ok [Content 32; Content 52; Content 62]%N /\
  paint (from_box ex_table_tree) = Ok (spec_paint impl_forms_ctx css_level (isort (fun b => css_level (binfo_of b))) ex_table_tree).
Proof. vm_compute. repeat split; reflexivity. Qed.

(* ---- z-index applies only to positioned boxes (stacking.go 63-71, 119-122) ---- *)

Theorem C16_nonpositioned_level_zero : forall i kids cc blocks floats bac,
  bpos i = false -> ctx_z (new_context i kids cc blocks floats bac) = 0%Z.
Proof. exact nonpositioned_level_zero. Qed.
Print Assumptions C16_nonpositioned_level_zero.

Theorem C16_positioned_level : forall i k kids cc blocks floats bac,
  bpos i = true -> bz i = Some k -> ctx_z (new_context i kids cc blocks floats bac) = k.
Proof. exact positioned_level. Qed.
Print Assumptions C16_positioned_level.

Theorem C16_nonpositioned_creates_ctx_z_irrelevant : forall i z,
  bpos i = false -> creates_ctx (with_z i z) = creates_ctx i.
Proof. exact nonpositioned_creates_ctx_z_irrelevant. Qed.
Print Assumptions C16_nonpositioned_creates_ctx_z_irrelevant.

Theorem C16_nonpositioned_new_context_z_irrelevant : forall i z kids cc blocks floats bac,
  bpos i = false ->
  new_context (with_z i z) kids cc blocks floats bac =
  match new_context i kids cc blocks floats bac with
  | Ctx _ k lv neg zero pos bl fl ba => Ctx (with_z i z) k lv neg zero pos bl fl ba
  end.
Proof. exact nonpositioned_new_context_z_irrelevant. Qed.
Print Assumptions C16_nonpositioned_new_context_z_irrelevant.

(* ---- z-index ordering of the child contexts of one stacking context ----
   the child contexts in the order they are painted (negative, zero, positive:
   Appendix E steps 3, 8, 9) are exactly the stable sort by z-index of the child
   contexts in document order: non-decreasing z-index, ties in document order *)
Theorem C16_children_painted_in_z_order : forall i kids cc blocks floats bac,
  match new_context i kids cc blocks floats bac with
  | Ctx _ _ _ neg zero pos _ _ _ => neg ++ zero ++ pos = isort ctx_z cc
  end.
Proof. exact new_context_children_order. Qed.
Print Assumptions C16_children_painted_in_z_order.
