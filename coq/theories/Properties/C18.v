(* Properties/C18.v -- SVG shapes and paths are drawn with the geometry SVG defines.
   Only statements, closed by `exact`, each followed by Print Assumptions.
   Model: Geom/SvgPath.v (number scanner, path interpreter), Geom/Shapes.v,
   Geom/UseGraph.v, Geom/Matrix.v (viewbox_transform).  Spec: Geom/SvgPathSpec.v,
   Geom/TransformSpec.v (vb_spec).  Statements about exact coordinates use the
   exact-rational instance (exactQ, literal conversion cv_exact); the totality
   statements hold for every arithmetic instance, in particular the float32
   instance that Check/C18.v compares bit for bit with /repo on every run. *)
From Verif Require Import Base.GoSem Base.F32 Geom.Matrix Geom.TransformSpec Geom.MatrixProofs.
From Verif Require Import Geom.SvgPath Geom.Shapes Geom.UseGraph Geom.SvgPathSpec.
From Verif Require Import Geom.SvgPathProofs Geom.ShapesProofs Geom.UseGraphProofs Geom.SvgLexProofs Geom.SvgPathEndToEnd.
From Verif Require Import Geom.SvgArcSpec Geom.SvgArc Geom.SvgArcProofs Geom.SvgUnits Geom.SvgUnitsProofs.
From Verif Require Import Geom.ViewboxMore.
From Coq Require Import QArith List NArith ZArith.
Import ListNotations.
Open Scope Q_scope.

(* ------------------------------------------------------------------ *)
(* the path parser never panics and always terminates: every byte string,
   every arithmetic instance, every literal conversion (wanted by C07) *)
Theorem C18_svg_parse_total : forall (ar : arith) (rc : Q -> Q) (cv : Z -> Z -> option Q) (d : list N),
  exists r, parse_path ar rc cv d = Ok r.
Proof. exact parse_path_total. Qed.
Print Assumptions C18_svg_parse_total.

Theorem C18_parse_points_total : forall (cv : Z -> Z -> option Q) (is_arc : bool) (d : list N),
  exists r, parse_points cv is_arc d = Ok r.
Proof. exact parse_points_total. Qed.
Print Assumptions C18_parse_points_total.

Theorem C18_parse_viewbox_poly_total : forall (cv : Z -> Z -> option Q) (d : list N),
  (exists r, parse_viewbox cv d = Ok r) /\ (exists r, parse_poly cv d = Ok r).
Proof. exact (fun cv d => conj (parse_viewbox_total cv d) (parse_poly_total cv d)). Qed.
Print Assumptions C18_parse_viewbox_poly_total.

(* the interpreter on one lexed segment: no out-of-range slice access, no
   unbounded loop, for every op byte and every number list *)
Theorem C18_exec_total : forall (ar : arith) (rc : Q -> Q) (s : pst) (o : N) (pts : list Q),
  exists r, exec ar rc s o pts = Ok r.
Proof. exact exec_total. Qed.
Print Assumptions C18_exec_total.

(* ------------------------------------------------------------------ *)
(* the number scanner against the SVG number grammar (SvgPathSpec.literal:
   sign? (digits ("." digits?)? | "." digits) (("e"|"E") sign? digits)?) *)

(* strconv.ParseFloat's syntax accepts every legal literal with the value
   (mantissa, decimal exponent) the grammar gives it *)
Theorem C18_parse_float_spec : forall l : literal, lit_ok l = true ->
  parse_float (lit_spelling l) = Some (lit_value l).
Proof. exact parse_float_spec. Qed.
Print Assumptions C18_parse_float_spec.

(* lex_spec: parsePoints on any legal spelling of a number list (separators:
   any bytes that cannot start a number; literals glued where the grammar can
   tell them apart: "1-2.5.5", "1e2.5", "+.5") returns the denoted values in
   order.  Covers polyline/polygon points, viewBox and every path command
   except A/a, for every literal conversion cv. *)
Theorem C18_lex_spec : forall cv toks trail, toks_ok toks trail -> sep_ok trail = true ->
  parse_points cv false (spell_toks toks trail) = Ok (values cv toks).
Proof. exact lex_spec. Qed.
Print Assumptions C18_lex_spec.

(* the same for the argument lists of A/a, where positions 3 and 4 (mod 7)
   hold one-byte flags that need no separator ("a1 1 0 00.5.5") *)
Theorem C18_lex_arc_spec : forall cv toks trail, atoks_ok 0 toks trail -> sep_ok trail = true ->
  parse_points cv true (spell_atoks toks trail) = Ok (avalues cv toks).
Proof. exact lex_arc_spec. Qed.
Print Assumptions C18_lex_arc_spec.

Example C18_lex_arc_example :
  let one := mklit false false [1%N] false [] None in
  let half := mklit false false [] true [5%N] None in
  let toks := [ANum [] one; ANum [32%N] one; ANum [32%N] (mklit false false [0%N] false [] None);
               AFlag [32%N] false; AFlag [] false; ANum [] half; ANum [] half] in
  atoks_ok 0 toks [] /\ spell_atoks toks [] = [49; 32; 49; 32; 48; 32; 48; 48; 46; 53; 46; 53]%N /\
  avalues cv_exact toks = Some [inject_Z 1; inject_Z 1; inject_Z 0; inject_Z 0; inject_Z 0; (5 # 10); (5 # 10)].
Proof.
  cbv zeta. repeat split; try reflexivity; try (intros p Hp; cbn; rewrite ?Hp; reflexivity).
Qed.

(* non-vacuity: "1-2.5.5" is 1, -2.5, .5 and "1e+2.5 3E1" is 100, .5, 30 *)
Example C18_lex_example :
  let dg := fun (neg : bool) (i : list N) (dot : bool) (f : list N) e => mklit neg false i dot f e in
  toks_ok [mktok [] (dg false [1%N] false [] None); mktok [] (dg true [2%N] true [5%N] None);
           mktok [] (dg false [] true [5%N] None)] [] /\
  spell_toks [mktok [] (dg false [1%N] false [] None); mktok [] (dg true [2%N] true [5%N] None);
              mktok [] (dg false [] true [5%N] None)] [] = [49; 45; 50; 46; 53; 46; 53]%N /\
  values cv_exact [mktok [] (dg false [1%N] false [] None); mktok [] (dg true [2%N] true [5%N] None);
                   mktok [] (dg false [] true [5%N] None)] = Some [inject_Z 1; (-25 # 10); (5 # 10)] /\
  toks_ok [mktok [] (dg false [1%N] false [] (Some (false, false, [2%N], true)));
           mktok [] (dg false [] true [5%N] None);
           mktok [32%N] (dg false [3%N] false [] (Some (true, false, [1%N], false)))] [].
Proof.
  cbv zeta. repeat split; try reflexivity;
    try (intros p Hp; cbn; rewrite ?Hp; reflexivity).
Qed.

(* ------------------------------------------------------------------ *)
(* on every abstract command list (all commands, absolute and relative, any
   number of argument groups) the interpreter's op list is the one SVG 1.1
   section 8.3 defines: implicit repetition, moveto's extra pairs are linetos,
   relative = current point per group, H/V, S/T reflection rule, quadratic
   elevation, closepath returning to the sub-path start *)
Theorem C18_path_interp_spec : forall cmds : list cmd,
  interp_ops exactQ (fun x => x) (map flatten cmds) = Ok (Some (denote cmds)).
Proof. exact path_interp_spec. Qed.
Print Assumptions C18_path_interp_spec.

(* non-vacuity: a path exercising every rule *)
Example C18_path_example :
  denote [CMove true (1, 1) [(2, 0)]; CQuad false ((5, 5), (7, 1)) []; CSmoothQuad true (2, 0) [];
          CClose true; CLine true (1, 1) []; CClose false;
          CCubic false ((0, 0), (1, 2), (3, 3)) []; CSmooth true ((1, 0), (2, 2)) [];
          CHoriz true 1 [1]; CVert false 0 []]
  = [OMove 1 1; OLine 3 1;
     OCubic (3 + (2 # 3) * (5 - 3)) (1 + (2 # 3) * (5 - 1)) (7 + (2 # 3) * (5 - 7)) (1 + (2 # 3) * (5 - 1)) 7 1;
     OCubic (7 + (2 # 3) * (7 * 2 - 5 - 7)) (1 + (2 # 3) * (1 * 2 - 5 - 1))
            (2 + 7 + (2 # 3) * (7 * 2 - 5 - (2 + 7))) (0 + 1 + (2 # 3) * (1 * 2 - 5 - (0 + 1))) (2 + 7) (0 + 1);
     OClose 1 1; OLine (1 + 1) (1 + 1); OClose 1 1;
     OCubic 0 0 1 2 3 3; OCubic (3 * 2 - 1) (3 * 2 - 2) (1 + 3) (0 + 3) (2 + 3) (2 + 3);
     OLine (2 + 3 + 1) (2 + 3); OLine (2 + 3 + 1 + 1) (2 + 3); OLine (2 + 3 + 1 + 1) 0].
Proof. reflexivity. Qed.

(* lexer and interpreter together: for every abstract command list and every
   legal spelling of it (leading bytes without command letters, then for each
   command its letter and a legal spelling of its numbers), parsePath returns
   the op list of the specification *)
Theorem C18_path_string_spec : forall (lead : list N) (segs : list sseg),
  no_cmd lead = true -> Forall seg_ok segs ->
  parse_path exactQ (fun x => x) cv_exact (spell_path lead segs) = Ok (Some (denote (map s_cmd segs))).
Proof. exact path_string_spec. Qed.
Print Assumptions C18_path_string_spec.

(* non-vacuity: " M1-2.5.5-3 Z" *)
Example C18_path_string_example :
  let dg := fun (neg : bool) (i : list N) (dot : bool) (f : list N) => mklit neg false i dot f None in
  let segs := [mkseg (CMove false (1, -25 # 10) [(5 # 10, -3)])
                     (SNums [mktok [] (dg false [1%N] false []); mktok [] (dg true [2%N] true [5%N]);
                             mktok [] (dg false [] true [5%N]); mktok [] (dg true [3%N] false [])] [32%N]);
               mkseg (CClose false) (SNums [] [])] in
  Forall seg_ok segs /\
  spell_path [32%N] segs = [32; 77; 49; 45; 50; 46; 53; 46; 53; 45; 51; 32; 90]%N /\
  denote (map s_cmd segs) = [OMove 1 (-25 # 10); OLine (5 # 10) (-3); OClose 1 (-25 # 10)].
Proof.
  cbv zeta. split; [|split; reflexivity].
  repeat constructor; try reflexivity; try (intros p Hp; cbn; rewrite ?Hp; reflexivity).
Qed.

(* arcs (every arithmetic instance): the segment starts at the current point
   and ends exactly at the given point; identical end points: omitted; a zero
   radius: a straight line.  (The ellipse the arc lies on: C18_arc_* below.) *)
Theorem C18_arc_endpoints : forall (ar : arith) (rel : bool) (rx ry rot la sw x y : Q) (s : pst),
  let ex := if rel then add ar x (curx s) else x in
  let ey := if rel then add ar y (cury s) else y in
  let s' := step_arc ar rel [rx; ry; rot; la; sw; x; y] s in
  if Qeq_bool ex (curx s) && Qeq_bool ey (cury s) then s' = s
  else curx s' = ex /\ cury s' = ey /\
       exists o, ops s' = o :: ops s /\ op_end o = (ex, ey) /\
                 o = if Qeq_bool rx 0 || Qeq_bool ry 0 then OLine ex ey
                     else OArc (curx s) (cury s) rx ry rot la sw ex ey.
Proof. exact arc_endpoints. Qed.
Print Assumptions C18_arc_endpoints.

(* ------------------------------------------------------------------ *)
(* the ellipse an arc lies on (Geom/SvgArcSpec.v = SVG implementation notes
   F.6.5 / F.6.6 over Q).  cos / sin of the x-axis-rotation are two rationals
   c, s with c^2 + s^2 = 1; a square root is a rational constrained by its
   defining equation (is_root k: k >= 0, k^2 Lambda = 1 - Lambda; is_scale l:
   l > 0, l^2 = Lambda).  on_ellipse is the implicit equation; arc_pred is the
   root-free membership predicate and arc_dev the number (= 1 on the ellipse)
   that Check/C18.v evaluates, within a tolerance, on the junction points and
   the mid-curve points of the cubics /repo emits for every generated arc.

   Not proved (run-time checks only): that the emitted points are met in the
   sweep direction from the start to the end point without passing it (the
   parameter values come from math.Atan2 and are not modelled); that a cubic
   stays within the tolerance of the arc between its end points; that the
   float64 / binary32 evaluation of these formulas stays within the tolerance;
   that the Taylor polynomials validating the cos / sin oracle approximate the
   real functions. *)

(* F.6.6.2: an ellipse with the given radii and rotation through both end
   points exists only if Lambda <= 1; its centre is then on the perpendicular
   bisector of the chord at normalised distance sqrt (1 - Lambda) *)
Theorem C18_arc_lambda_criterion : forall x1 y1 rx ry c s x2 y2, 0 < rx -> 0 < ry ->
  forall cx cy, on_ellipse c s rx ry cx cy x1 y1 -> on_ellipse c s rx ry cx cy x2 y2 ->
  lambda x1 y1 rx ry c s x2 y2 <= 1 /\
  sq (nu x1 y1 rx c s x2 y2 cx cy) + sq (nv x1 y1 ry c s x2 y2 cx cy) == 1 - lambda x1 y1 rx ry c s x2 y2 /\
  nu x1 y1 rx c s x2 y2 cx cy * a1 x1 y1 rx c s x2 y2 + nv x1 y1 ry c s x2 y2 cx cy * b1 x1 y1 ry c s x2 y2 == 0.
Proof. exact lambda_criterion. Qed.
Print Assumptions C18_arc_lambda_criterion.

(* F.6.6.3: radii scaled by sqrt Lambda: the chord is a diameter -- the ellipse
   about the chord's midpoint passes through both end points, it is the only
   one, and a smaller scale factor admits none *)
Theorem C18_arc_scaled_radii : forall x1 y1 rx ry c s x2 y2, 0 < rx -> 0 < ry -> sq c + sq s == 1 ->
  (forall l, is_scale x1 y1 rx ry c s x2 y2 l ->
     (on_ellipse c s (l * rx) (l * ry) (mid_x x1 x2) (mid_y y1 y2) x1 y1 /\
      on_ellipse c s (l * rx) (l * ry) (mid_x x1 x2) (mid_y y1 y2) x2 y2) /\
     (forall cx cy, on_ellipse c s (l * rx) (l * ry) cx cy x1 y1 -> on_ellipse c s (l * rx) (l * ry) cx cy x2 y2 ->
        cx == mid_x x1 x2 /\ cy == mid_y y1 y2)) /\
  (forall l' cx cy, 0 < l' -> sq l' < lambda x1 y1 rx ry c s x2 y2 ->
     ~ (on_ellipse c s (l' * rx) (l' * ry) cx cy x1 y1 /\ on_ellipse c s (l' * rx) (l' * ry) cx cy x2 y2)).
Proof. exact arc_scaled_radii. Qed.
Print Assumptions C18_arc_scaled_radii.

(* the root-free predicate, and the number the correspondence evaluates, are
   the implicit equation of the ellipse of F.6.5 (Lambda <= 1: given radii,
   centre of F.6.5.3) resp. F.6.6 (Lambda > 1: scaled radii, centre = midpoint) *)
Theorem C18_arc_pred_spec : forall x1 y1 rx ry c s fa fs x2 y2, 0 < rx -> 0 < ry -> sq c + sq s == 1 ->
  ~ (x1 == x2 /\ y1 == y2) ->
  (forall k px py, lambda x1 y1 rx ry c s x2 y2 <= 1 -> is_root x1 y1 rx ry c s x2 y2 k ->
     (on_ellipse c s rx ry (centre_x x1 y1 rx ry c s fa fs x2 y2 k) (centre_y x1 y1 rx ry c s fa fs x2 y2 k) px py
      <-> arc_pred x1 y1 rx ry c s fa fs x2 y2 px py) /\
     (arc_dev x1 y1 rx ry c s fa fs x2 y2 k px py == 1 <-> arc_pred x1 y1 rx ry c s fa fs x2 y2 px py)) /\
  (forall l k px py, 1 < lambda x1 y1 rx ry c s x2 y2 -> is_scale x1 y1 rx ry c s x2 y2 l ->
     (on_ellipse c s (l * rx) (l * ry) (mid_x x1 x2) (mid_y y1 y2) px py
      <-> arc_pred x1 y1 rx ry c s fa fs x2 y2 px py) /\
     (arc_dev x1 y1 rx ry c s fa fs x2 y2 k px py == 1 <-> arc_pred x1 y1 rx ry c s fa fs x2 y2 px py)).
Proof. exact arc_pred_spec. Qed.
Print Assumptions C18_arc_pred_spec.

(* both end points satisfy the predicate (so ending exactly at the given point
   is consistent with lying on the ellipse), in both regimes *)
Theorem C18_arc_endpoints_on_ellipse : forall x1 y1 rx ry c s fa fs x2 y2, 0 < rx -> 0 < ry ->
  arc_pred x1 y1 rx ry c s fa fs x2 y2 x1 y1 /\ arc_pred x1 y1 rx ry c s fa fs x2 y2 x2 y2.
Proof. exact arc_pred_endpoints. Qed.
Print Assumptions C18_arc_endpoints_on_ellipse.

(* F.6.3: every point of the centre parameterisation satisfies the implicit
   equation, and the parameterisation preserves orientation (so do the
   normalised coordinates the correspondence tests the cyclic order in) *)
Theorem C18_arc_parameterisation : forall c s rx ry cx cy, sq c + sq s == 1 ->
  (forall ct st, ~ rx == 0 -> ~ ry == 0 -> sq ct + sq st == 1 ->
     on_ellipse c s rx ry cx cy (ellipse_x c s rx ry cx ct st) (ellipse_y c s rx ry cy ct st)) /\
  (forall ca sa cb sb cc sc,
     orient (ellipse_x c s rx ry cx ca sa) (ellipse_y c s rx ry cy ca sa)
            (ellipse_x c s rx ry cx cb sb) (ellipse_y c s rx ry cy cb sb)
            (ellipse_x c s rx ry cx cc sc) (ellipse_y c s rx ry cy cc sc)
     == rx * ry * orient ca sa cb sb cc sc).
Proof. exact arc_parameterisation. Qed.
Print Assumptions C18_arc_parameterisation.

(* the flags: seen from the centre of F.6.5.3 the signed area spanned by start
   and end point is 2 sigma k Lambda rx ry; hence sweeping in the direction of
   the sweep flag covers less than a half turn iff the large-arc flag is off *)
Theorem C18_arc_flags : forall x1 y1 rx ry c s fa fs x2 y2 k, 0 < rx -> 0 < ry -> sq c + sq s == 1 ->
  ~ (x1 == x2 /\ y1 == y2) -> 0 < k ->
  let o := orient (centre_x x1 y1 rx ry c s fa fs x2 y2 k) (centre_y x1 y1 rx ry c s fa fs x2 y2 k) x1 y1 x2 y2 in
  o == 2 * sigma fa fs * k * lambda x1 y1 rx ry c s x2 y2 * rx * ry /\
  (fs = true -> (0 < o <-> fa = false)) /\ (fs = false -> (o < 0 <-> fa = false)).
Proof. exact arc_flags. Qed.
Print Assumptions C18_arc_flags.

(* the implementation's algebra (Geom/SvgArc.v: addArcFromA, findEllipseCenter,
   ellipsePointAt, with math.Sqrt / Cos / Sin values as oracle arguments
   constrained by their defining equations): for radii of either sign, every
   flag combination and rotation, in both regimes, findEllipseCenter returns
   the ellipse of F.6.5 / F.6.6 and every point ellipsePointAt computes on it --
   whatever the parameter value -- satisfies the arc's predicate *)
Theorem C18_arc_model_spec : forall x1 y1 rx ry c s fa fs x2 y2 r_m r_h,
  ~ rx == 0 -> ~ ry == 0 -> sq c + sq s == 1 -> ~ (x1 == x2 /\ y1 == y2) ->
  let L := lambda x1 y1 (arc_abs rx) (arc_abs ry) c s x2 y2 in
  (0 <= r_m /\ sq r_m == sq (arc_abs ry) * L) ->
  (L <= 1 -> 0 <= r_h /\ sq r_h == sq (arc_abs ry) - sq (arc_abs ry) * L) ->
  (let o := arc_centre c s r_m r_h rx ry (flagq fa) (flagq fs) x1 y1 x2 y2 in
   arc_ellipse x1 y1 (arc_abs rx) (arc_abs ry) c s fa fs x2 y2 (o_ra o) (o_rb o) (o_cx o) (o_cy o)) /\
  (forall ce se, sq ce + sq se == 1 ->
   let p := arc_point c s r_m r_h rx ry (flagq fa) (flagq fs) x1 y1 x2 y2 ce se in
   arc_pred x1 y1 (arc_abs rx) (arc_abs ry) c s fa fs x2 y2 (fst p) (snd p)).
Proof. exact arc_model_spec. Qed.
Print Assumptions C18_arc_model_spec.

(* non-vacuity (rational roots exist).
   (a) M0 0 A13 13 phi 0 1 6 8 with (cos phi, sin phi) = (3/5, 4/5): chord 10,
       Lambda = 25/169, k = 12/5, sqrt(midlenSq) = 5, sqrt(rb^2 - midlenSq) = 12:
       radii unchanged, centre (3 - 48/5, 4 + 36/5);
   (b) M0 0 A-2 1 0 0 1 8 0 (sign of rx dropped): Lambda = 4, sqrt(midlenSq) = 2:
       radii scaled by 2 to (4, 2), centre (4, 0); the point of parameter
       (cos, sin) = (3/5, 4/5) is (4 + 12/5, 8/5) and has arc_dev = 1 *)
Example C18_arc_example :
  lambda 0 0 13 13 (3 # 5) (4 # 5) 6 8 == 25 # 169 /\
  is_root 0 0 13 13 (3 # 5) (4 # 5) 6 8 (12 # 5) /\
  (let o := arc_centre (3 # 5) (4 # 5) 5 12 13 13 0 1 0 0 6 8 in
   o_ra o == 13 /\ o_rb o == 13 /\ o_cx o == - (33 # 5) /\ o_cy o == 56 # 5) /\
  lambda 0 0 2 1 1 0 8 0 == 4 /\ is_scale 0 0 2 1 1 0 8 0 2 /\
  (let o := arc_centre 1 0 2 0 (-2) 1 0 1 0 0 8 0 in
   o_ra o == 4 /\ o_rb o == 2 /\ o_cx o == 4 /\ o_cy o == 0) /\
  (let p := arc_point 1 0 2 0 (-2) 1 0 1 0 0 8 0 (3 # 5) (4 # 5) in
   fst p == 32 # 5 /\ snd p == 8 # 5 /\ arc_dev 0 0 2 1 1 0 false true 8 0 0 (fst p) (snd p) == 1).
Proof. vm_compute. repeat split; try reflexivity; try discriminate. Qed.

(* ------------------------------------------------------------------ *)
(* basic shapes *)
Theorem C18_shapes_spec_rect : forall x y w h orx ory,
  match rect_outline x y w h orx ory with
  | None => rect_ops exactQ (fun x => x) x y w h orx ory = []
  | Some pts =>
      if Qeq_bool (fst (rect_radii orx ory)) 0 || Qeq_bool (snd (rect_radii orx ory)) 0
      then rect_ops exactQ (fun x => x) x y w h orx ory = [SRect x y w h]
      else map sop_end (rect_ops exactQ (fun x => x) x y w h orx ory) = pts ++ [hd (0, 0) pts] /\
           forallb is_path_op (rect_ops exactQ (fun x => x) x y w h orx ory) = true
  end.
Proof. exact rect_spec. Qed.
Print Assumptions C18_shapes_spec_rect.

Theorem C18_shapes_spec_ellipse : forall cx cy rx ry,
  match ellipse_outline cx cy rx ry with
  | None => ellipse_ops exactQ (fun x => x) cx cy rx ry = []
  | Some pts => map sop_end (ellipse_ops exactQ (fun x => x) cx cy rx ry) = pts ++ [hd (0, 0) pts] /\
                forallb is_path_op (ellipse_ops exactQ (fun x => x) cx cy rx ry) = true
  end.
Proof. exact ellipse_spec. Qed.
Print Assumptions C18_shapes_spec_ellipse.

Theorem C18_shapes_spec_line_poly :
  (forall x1 y1 x2 y2, line_ops x1 y1 x2 y2 = [SOp true (OMove x1 y1); SOp true (OLine x2 y2)]) /\
  (forall closed p ps,
     poly_ops closed (p :: ps) =
     map (SOp true) (OMove (fst p) (snd p) :: map (fun q => OLine (fst q) (snd q)) ps)
     ++ (if closed then [SOp true (OClose (fst p) (snd p))] else [])) /\
  (forall closed, poly_ops closed [] = []).
Proof. exact (conj line_spec (conj poly_spec poly_empty)). Qed.
Print Assumptions C18_shapes_spec_line_poly.

(* the points attribute of polyline / polygon: consecutive pairs, a trailing
   odd coordinate is ignored (SVG 1.1 9.6) *)
Theorem C18_parse_poly_spec : forall cv d,
  parse_poly cv d = let* r := parse_points cv false d in Ok (option_map pairs r).
Proof. exact parse_poly_spec. Qed.
Print Assumptions C18_parse_poly_spec.

Example C18_rect_example :
  rect_outline 0 0 10 4 (SomeQ 8) NoQ
  = Some [(0 + Qmin 8 (10 / 2), 0); (0 + 10 - Qmin 8 (10 / 2), 0); (0 + 10, 0 + Qmin 8 (4 / 2));
          (0 + 10, 0 + 4 - Qmin 8 (4 / 2)); (0 + 10 - Qmin 8 (10 / 2), 0 + 4); (0 + Qmin 8 (10 / 2), 0 + 4);
          (0, 0 + 4 - Qmin 8 (4 / 2)); (0, 0 + Qmin 8 (4 / 2)); (0 + Qmin 8 (10 / 2), 0)]
  /\ Qmin 8 (10 / 2) == 5 /\ Qmin 8 (4 / 2) == 2.
Proof. repeat split. Qed.

(* lengths with units in the geometry attributes (Geom/SvgUnits.v): Value.Resolve
   gives px, cm, mm, Q, pt, pc, in, em, ex and percentages the number of user
   units CSS Values 3 / SVG 1.1 7.10 define (96px = 1in = 2.54cm = 72pt = 6pc,
   1cm = 10mm = 40Q, ex = em / 2, x-percentages of the viewport width,
   y-percentages of its height) *)
Theorem C18_units_spec : forall (x : uval) (font ref : Q),
  resolve_len exactQ (fun q => q) x font ref == length_spec x font ref.
Proof. exact resolve_len_spec. Qed.
Print Assumptions C18_units_spec.

Example C18_units_example :
  length_spec (UV 2 UCm) 16 100 == 9600 # 127 /\ length_spec (UV 3 UPc) 16 100 == 48 /\
  length_spec (UV 25 UPerc) 16 80 == 20 /\ length_spec (UV 3 UEx) 16 80 == 24 /\
  resolve_shape exactQ (fun q => q) (mkdims 16 200 100) (UCircle (UV 50 UPerc) (UV 50 UPerc) (UV 1 UEm))
  = ShEllipse (50 * 200 / 100) (50 * 100 / 100) (1 * 16) (1 * 16).
Proof. repeat split; reflexivity. Qed.

(* ------------------------------------------------------------------ *)
(* viewBox / preserveAspectRatio (svg.go:332-377) = SVG 1.1 section 7.8 *)
Theorem C18_viewbox_spec : forall p w h vx vy vw vh, ~ vw == 0 -> ~ vh == 0 ->
  q4eq (viewbox_transform exactQ p w h vx vy vw vh) (vb_spec p w h vx vy vw vh).
Proof. exact viewbox_spec. Qed.
Print Assumptions C18_viewbox_spec.

Theorem C18_viewbox_meet_fits : forall p w h vx vy vw vh, 0 < vw -> 0 < vh ->
  par_none p = false -> par_slice p = false ->
  let '(sx, sy, _, _) := viewbox_transform exactQ p w h vx vy vw vh in
  sx == sy /\ vw * sx <= w /\ vh * sy <= h.
Proof. exact viewbox_meet_fits. Qed.
Print Assumptions C18_viewbox_meet_fits.

(* ------------------------------------------------------------------ *)
(* reference following terminates on every graph, cycles and dangling ids
   included, for <use> (cycle = error) and for drawing-time references
   (clip-path / mask / marker: cycle = ignored) *)
Theorem C18_use_graph_terminates : forall (g : graph) (its : list item),
  (exists r, resolve g its = Ok r) /\ (exists r, draw_refs g its = Ok r) /\ (exists r, document g its = Ok r).
Proof.
  exact (fun g its => conj (resolve_terminates g its) (conj (draw_refs_terminates g its) (document_terminates g its))).
Qed.
Print Assumptions C18_use_graph_terminates.

(* every id is in the chain of references being followed at most once, and
   chains are no longer than the number of defined ids *)
Theorem C18_use_chain_nodup : forall g root inuse its, reach g ([], root) (inuse, its) ->
  NoDup inuse /\ incl inuse (keys g) /\ (length inuse <= length g)%nat.
Proof. exact chain_nodup. Qed.
Print Assumptions C18_use_chain_nodup.

(* a reference to an id being followed is not followed again; an undefined id is ignored *)
Theorem C18_cyclic_or_missing_ignored : forall b g fuel inuse id r,
  (mem id inuse = true ->
   UseGraph.expand b g fuel inuse (Ref id :: r) = if b then Ok None else UseGraph.expand b g fuel inuse r) /\
  (mem id inuse = false -> lookup g id = None ->
   UseGraph.expand b g fuel inuse (Ref id :: r) = UseGraph.expand b g fuel inuse r).
Proof. exact (fun b g fuel inuse id r => conj (cyclic_ref b g fuel inuse id r) (dangling_ref b g fuel inuse id r)). Qed.
Print Assumptions C18_cyclic_or_missing_ignored.

Example C18_use_cycle_example :
  resolve [(1%N, [Leaf 7%N; Ref 2%N]); (2%N, [Ref 1%N])] [Ref 1%N] = Ok None /\
  draw_refs [(1%N, [Leaf 7%N; Ref 2%N]); (2%N, [Ref 1%N; Leaf 8%N])] [Ref 1%N; Ref 9%N] = Ok (Some [7%N; 8%N]).
Proof. split; reflexivity. Qed.

(* ------------------------------------------------------------------ *)
(* instances of <use> (Geom/UseGraph.v draw_use / draw_uses): every <use> is
   drawn from the definition as written.  What the k-th <use> of a document
   contributes is a function of the definitions and of that <use> alone, and
   the drawing of a document is the concatenation of its instances' drawings:
   an instance does not depend on the instances before or after it, of the
   same id or not (every arithmetic instance) *)
Theorem C18_use_instances_independent :
  forall (ar : arith) (rc : Q -> Q) (cv : Z -> Z -> option Q) (ds : list udef),
  (forall us k u, nth_error us k = Some u ->
     nth_error (map (draw_use ar rc cv ds) us) k = Some (draw_use ar rc cv ds u)) /\
  (forall pre u post lpre lu lpost,
     draw_uses ar rc cv ds pre = Ok (Some lpre) ->
     draw_use ar rc cv ds u = Ok (Some lu) ->
     draw_uses ar rc cv ds post = Ok (Some lpost) ->
     draw_uses ar rc cv ds (pre ++ u :: post) = Ok (Some (lpre ++ lu ++ lpost))).
Proof.
  exact (fun ar rc cv ds => conj (use_instance_at ar rc cv ds) (use_after_prefix ar rc cv ds)).
Qed.
Print Assumptions C18_use_instances_independent.

(* the viewport of an instance of an <svg> / <symbol>: width and height of the
   <use> when it gives both, else the element's own (a <use> without them draws
   as one that repeats the element's own); the clip rectangle and the viewBox /
   preserveAspectRatio transform (C18_viewbox_spec) are those of that viewport;
   width / height of a <use> of another element have no effect *)
Theorem C18_use_viewport_size :
  forall (ar : arith) (rc : Q -> Q) (cv : Z -> Z -> option Q) (ds : list udef) id x y st sw,
  (forall tx ty w h vb p clip content,
     lookup_def ds id = Some (TView tx ty w h vb p clip content) ->
     draw_use ar rc cv ds (UseI id x y NoSize st sw) = draw_use ar rc cv ds (UseI id x y (Size w h) st sw) /\
     forall sz c, content_ops ar rc cv content = Ok (Some c) ->
       draw_use ar rc cv ds (UseI id x y sz st sw) =
       Ok (Some (stroke_ops st (cascaded_width NoQ sw) ++ UTrans 1 0 0 1 x y ::
                 stroke_ops st (cascaded_width NoQ sw) ++
                 view_frame ar tx ty (fst (view_size w h sz)) (snd (view_size w h sz)) vb p clip ++ c))) /\
  (forall t sz, lookup_def ds id = Some t ->
     (forall tx ty w h vb p clip content, t <> TView tx ty w h vb p clip content) ->
     draw_use ar rc cv ds (UseI id x y sz st sw) = draw_use ar rc cv ds (UseI id x y NoSize st sw)).
Proof.
  intros ar rc cv ds id x y st sw. split.
  - intros tx ty w h vb p clip content H. split.
    + exact (use_size_default ar rc cv id x y st sw ds tx ty w h vb p clip content H).
    + intros sz c Hc. exact (use_view_frame ar rc cv id x y sz st sw ds tx ty w h vb p clip content c H Hc).
  - intros t sz H Hn. exact (use_size_ignored ar rc cv id x y sz st sw ds t H Hn).
Qed.
Print Assumptions C18_use_viewport_size.

(* two <use> of one <symbol>, the first with width / height, the second
   without: the second is drawn in the symbol's own 30 x 30 viewport (2.0 is
   the fraction 20 # 10: exact arithmetic does not reduce) *)
Example C18_use_twice_example :
  draw_uses exactQ id cv_exact
    [UDef 1 (TView 0 0 30 30 (SomeVb 0 0 10 10) {| xpos := AMin; ypos := AMin; par_none := false; par_slice := false |} true
                   [ShLine 0 0 10 10])]
    [UseI 1 50 0 (Size 40 20) false NoQ; UseI 1 0 0 NoSize false NoQ]
  = Ok (Some [UTrans 1 0 0 1 50 0; UTrans 1 0 0 1 0 0; UShape (SRect 0 0 40 20); UTrans 2.0 0 0 2.0 0.0 0.0;
              UShape (SOp true (OMove 0 0)); UShape (SOp true (OLine 10 10));
              UTrans 1 0 0 1 0 0; UTrans 1 0 0 1 0 0; UShape (SRect 0 0 30 30); UTrans 3.0 0 0 3.0 0.0 0.0;
              UShape (SOp true (OMove 0 0)); UShape (SOp true (OLine 10 10))]).
Proof. vm_compute. reflexivity. Qed.

(* ------------------------------------------------------------------ *)
(* final round: preserveAspectRatio slice covers the viewport (dual of
   meet_fits); "none" stretches the viewBox to fill it exactly *)
Theorem C18_viewbox_slice_covers : forall p w h vx vy vw vh, 0 < vw -> 0 < vh ->
  par_none p = false -> par_slice p = true ->
  let '(sx, sy, _, _) := viewbox_transform exactQ p w h vx vy vw vh in
  sx == sy /\ w <= vw * sx /\ h <= vh * sy.
Proof. exact viewbox_slice_covers. Qed.
Print Assumptions C18_viewbox_slice_covers.

Theorem C18_viewbox_none_fills : forall p w h vx vy vw vh, ~ vw == 0 -> ~ vh == 0 ->
  par_none p = true ->
  let '(sx, sy, _, _) := viewbox_transform exactQ p w h vx vy vw vh in
  vw * sx == w /\ vh * sy == h.
Proof. exact viewbox_none_fills. Qed.
Print Assumptions C18_viewbox_none_fills.
