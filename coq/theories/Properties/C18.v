(* Properties/C18.v -- SVG shapes and paths are drawn with the geometry SVG defines.
   Only statements, closed by `exact`, each followed by Print Assumptions. *)
From Verif Require Import Base.F32 Geom.Matrix Geom.TransformSpec Geom.MatrixProofs.
From Coq Require Import QArith.
Open Scope Q_scope.

(* viewBox / preserveAspectRatio (svg.go:332-377) = SVG 1.1 section 7.8 *)
Theorem C18_viewbox_spec : forall p w h vx vy vw vh, ~ vw == 0 -> ~ vh == 0 ->
  q4eq (viewbox_transform exactQ p w h vx vy vw vh) (vb_spec p w h vx vy vw vh).
Proof. exact viewbox_spec. Qed.
Print Assumptions C18_viewbox_spec.
