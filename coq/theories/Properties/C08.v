(* placeholder, theorems follow *)
From Verif Require Import Css.VarSubst.
