(* Properties/C08.v -- "Declarations mean the same however they are spelled;
   bad ones are dropped alone".  Statements only; proofs in Css/C08DeclProofs.v
   and Css/C08VarSubstProofs.v.  The leaf validators (`validate`), ParseColor
   (`pc`) and the non-modelled shorthand expanders (`oe`) are universally
   quantified: every theorem holds whatever they compute. *)
From Coq Require Import List NArith ZArith QArith Qround Bool Lia.
From Verif Require Import Base.GoSem Css.DeclTok Css.Decl Css.VarSubst Css.C08Spec Css.C08DeclProofs Css.C08VarSubstProofs Css.C08SpellingProofs Css.C08DeclMore.
Import ListNotations.
Open Scope nat_scope.

(* ---- an unknown property or invalid value discards that declaration only ---- *)

Theorem C08_bad_declarations_dropped_alone :
  forall known validate pc oe (ds : list raw),
    preprocess known validate pc oe ds = preprocess known validate pc oe (filter (valid known validate pc oe) ds)
    /\ preprocess known validate pc oe ds = flat_map (preprocess_one known validate pc oe) ds.
Proof. exact bad_declarations_dropped_alone. Qed.
Print Assumptions C08_bad_declarations_dropped_alone.

Theorem C08_invalid_declaration_irrelevant :
  forall known validate pc oe l1 d l2,
    valid known validate pc oe d = false ->
    preprocess known validate pc oe (l1 ++ d :: l2) = preprocess known validate pc oe (l1 ++ l2).
Proof. exact invalid_declaration_irrelevant. Qed.
Print Assumptions C08_invalid_declaration_irrelevant.

Theorem C08_declaration_effect_local :
  forall known validate pc oe l1 d l2,
    preprocess known validate pc oe (l1 ++ d :: l2)
    = preprocess known validate pc oe l1 ++ preprocess_one known validate pc oe d ++ preprocess known validate pc oe l2.
Proof. exact declaration_effect_local. Qed.
Print Assumptions C08_declaration_effect_local.

(* ---- spelling ---- *)

(* property names are ASCII case-insensitive (custom properties excepted) *)
Theorem C08_name_case_insensitive :
  forall known validate pc oe n n' v i,
    is_custom_name n = false -> is_custom_name n' = false -> same_word n n' ->
    preprocess_one known validate pc oe (RDecl n v i) = preprocess_one known validate pc oe (RDecl n' v i).
Proof. exact name_case_insensitive. Qed.
Print Assumptions C08_name_case_insensitive.

(* comments and whitespace between the component values of a declaration are irrelevant *)
Theorem C08_whitespace_comment_irrelevant :
  forall known validate pc oe n v v' i,
    ws_variant v v' ->
    preprocess_one known validate pc oe (RDecl n v i) = preprocess_one known validate pc oe (RDecl n v' i).
Proof. exact whitespace_comment_irrelevant. Qed.
Print Assumptions C08_whitespace_comment_irrelevant.

(* token level: a spelling variant (keyword / unit / function-name case,
   comments and whitespace at any depth) has the same projection ... *)
Theorem C08_spelling_variant_projection :
  forall ts ts', sv_toks ts ts' -> proj_toks ts = proj_toks ts'.
Proof. exact spelling_variant_projection. Qed.
Print Assumptions C08_spelling_variant_projection.

(* ... and the modelled validators read only the projection *)
Theorem C08_modelled_validators_read_projection :
  forall pc, (forall t, pc (proj_tok t) = pc t) ->
  forall n ts, Forall (fun t => is_trivia t = false) ts ->
    validate_modelled pc n (proj_toks ts) = validate_modelled pc n ts.
Proof. exact modelled_validators_read_projection. Qed.
Print Assumptions C08_modelled_validators_read_projection.

(* pipeline level, full strength: whatever the validators compute, as long as
   they read only the projection of the (whitespace-free) component values
   they are handed, two spellings of a declaration -- ASCII case of the
   property name, of keywords, units and function names; comments and
   whitespace anywhere between component values, at any depth -- yield the
   same declarations (pending var() token lists compared by projection) *)
Theorem C08_spelling_irrelevant :
  forall known validate pc oe,
    reads_projection validate -> (forall t, pc (proj_tok t) = pc t) ->
    (forall n e, oe n = Some e -> forall ts ts', clean ts -> clean ts' -> proj_toks ts = proj_toks ts' ->
                                 option_map (map (fun p => mkNP (np_name p) (proj_value (np_value p)) (np_short p))) (e ts)
                                 = option_map (map (fun p => mkNP (np_name p) (proj_value (np_value p)) (np_short p))) (e ts')) ->
    forall n n' v v' i,
      (is_custom_name n = false /\ is_custom_name n' = false /\ same_word n n') \/ n = n' ->
      sv_toks v v' ->
      map proj_odecl (preprocess_one known validate pc oe (RDecl n v i))
      = map proj_odecl (preprocess_one known validate pc oe (RDecl n' v' i)).
Proof. exact spelling_irrelevant_holds. Qed.
Print Assumptions C08_spelling_irrelevant.

(* the hypothesis holds for the modelled validators (the other ~290 are tested metamorphically) *)
Theorem C08_modelled_validators_reads_projection :
  forall pc, (forall t, pc (proj_tok t) = pc t) -> reads_projection (validate_modelled pc).
Proof. exact modelled_validators_reads_projection. Qed.
Print Assumptions C08_modelled_validators_reads_projection.

(* var() detection itself ignores spelling *)
Theorem C08_has_var_projection : forall t, has_var (proj_tok t) = has_var t.
Proof. exact has_var_proj. Qed.
Print Assumptions C08_has_var_projection.

(* ---- shorthands ---- *)

Theorem C08_four_sides_spec :
  forall known validate name tokens t r b l nt nr nb nl,
    existsb has_var tokens = false -> mixed_default tokens = false ->
    four_sides_assign tokens t r b l -> four_names name = [nt; nr; nb; nl] ->
    expand_four_sides known validate name tokens
    = seq_opt [validate_non_shorthand known validate nt [t] true; validate_non_shorthand known validate nr [r] true;
               validate_non_shorthand known validate nb [b] true; validate_non_shorthand known validate nl [l] true].
Proof. exact four_sides_spec. Qed.
Print Assumptions C08_four_sides_spec.

Theorem C08_four_sides_arity :
  forall known validate name tokens,
    existsb has_var tokens = false -> (length tokens = 0 \/ 4 < length tokens) ->
    expand_four_sides known validate name tokens = None.
Proof. exact four_sides_arity. Qed.
Print Assumptions C08_four_sides_arity.

Theorem C08_four_sides_mixed_default :
  forall known validate name tokens,
    existsb has_var tokens = false -> mixed_default tokens = true ->
    expand_four_sides known validate name tokens = None.
Proof. exact four_sides_mixed_default. Qed.
Print Assumptions C08_four_sides_mixed_default.

Theorem C08_four_sides_pending :
  forall known validate name tokens,
    existsb has_var tokens = true ->
    expand_four_sides known validate name tokens
    = Some (map (fun n => mkNP n (VRaw tokens) name) (four_names name)).
Proof. exact four_sides_pending. Qed.
Print Assumptions C08_four_sides_pending.

Theorem C08_generic_expander_resets :
  forall known validate names wrapped sh tokens props,
    is_default_kw (get_single_keyword tokens) = false -> existsb has_var tokens = false ->
    generic_expander known validate names wrapped sh tokens = Some props ->
    exists result,
      wrapped sh tokens = Some result
      /\ NoDup (map fst result)
      /\ (forall n x, assoc n result = Some x -> In n names)
      /\ Forall2 (fun n p => match assoc n result with
                             | Some toks => validate_non_shorthand known validate n toks true = Some p
                             | None => p = mkNP n VInitial []
                             end) names props.
Proof. exact generic_expander_resets. Qed.
Print Assumptions C08_generic_expander_resets.

Theorem C08_generic_expander_default :
  forall known validate names wrapped sh tokens,
    is_default_kw (get_single_keyword tokens) = true ->
    generic_expander known validate names wrapped sh tokens
    = Some (map (fun n => mkNP n (default_value (get_single_keyword tokens)) []) names).
Proof. exact generic_expander_default. Qed.
Print Assumptions C08_generic_expander_default.

Theorem C08_generic_expander_duplicate :
  forall known validate names wrapped sh tokens result,
    is_default_kw (get_single_keyword tokens) = false -> existsb has_var tokens = false ->
    wrapped sh tokens = Some result -> ~ NoDup (map fst result) ->
    generic_expander known validate names wrapped sh tokens = None.
Proof. exact generic_expander_duplicate. Qed.
Print Assumptions C08_generic_expander_duplicate.

(* ---- columns = <'column-width'> || <'column-count'> (css-multicol-1): `_expandColumns` under the
   generic expander.  `columns_means` (Css/C08Spec.v) is the grammar: one or both components IN ANY
   ORDER, `auto` belonging to both longhands.  Stated for every pipeline whose validators of the two
   longhands are the real ones (columnWidth / columnCount); everything else stays a parameter. ---- *)

Theorem C08_columns_spec :
  forall known validate,
    (forall t, validate n_column_width [t] = column_width [t]) ->
    (forall t, validate n_column_count [t] = column_count [t]) ->
    forall tokens vw vc,
      columns_means tokens vw vc ->
      columns_expander known validate tokens = Some [mkNP n_column_width vw []; mkNP n_column_count vc []].
Proof. exact columns_spec. Qed.
Print Assumptions C08_columns_spec.

Theorem C08_columns_order_insensitive :
  forall known validate,
    (forall t, validate n_column_width [t] = column_width [t]) ->
    (forall t, validate n_column_count [t] = column_count [t]) ->
    forall a b, has_var a = false -> has_var b = false ->
      columns_expander known validate [a; b] = columns_expander known validate [b; a].
Proof. exact columns_order_insensitive. Qed.
Print Assumptions C08_columns_order_insensitive.

(* a value outside the grammar is dropped (and nothing else is: C08_bad_declarations_dropped_alone) *)
Theorem C08_columns_reject :
  forall known validate,
    (forall t, validate n_column_width [t] = column_width [t]) ->
    (forall t, validate n_column_count [t] = column_count [t]) ->
    forall tokens,
      tokens <> [] -> existsb has_var tokens = false -> is_default_kw (get_single_keyword tokens) = false ->
      (forall vw vc, ~ columns_means tokens vw vc) ->
      columns_expander known validate tokens = None.
Proof. exact columns_reject. Qed.
Print Assumptions C08_columns_reject.

(* the hypotheses are inhabited by the pipeline the correspondence check runs, and the grammar by
   `columns: auto 12em` (the `auto`-first order), `12em auto`, `auto`, `3 12em` *)
Example C08_columns_modelled_validators pc :
  (forall t, validate_modelled pc n_column_width [t] = column_width [t])
  /\ (forall t, validate_modelled pc n_column_count [t] = column_count [t]).
Proof. split; reflexivity. Qed.

(* ---- var() ---- *)

(* the function of the pinned tree (before fbf7bcf) does not terminate on a
   self-referencing custom property, nor on var() two function levels deep:
   no fuel suffices (on Go: fatal stack overflow).  Witnesses replayed in
   corpus/C08/regress.tsv. *)
Theorem C08_resolve_var_old_refuted :
  (forall fuel, resolve_var_old fuel self_cycle_env (tvar Lits.n_a) = OutOfFuel)
  /\ (forall fuel, resolve_var_old fuel nested_env nested_tok = OutOfFuel).
Proof. split; [exact resolve_var_old_self_cycle|exact resolve_var_old_nested]. Qed.
Print Assumptions C08_resolve_var_old_refuted.

(* the repaired function terminates without reaching a panic site for every
   environment, cyclic ones included: fuel = depth + #custom properties x (1 + max depth) *)
Theorem C08_resolve_var_total :
  forall e t fuel, fuel_bound e t <= fuel -> exists r, resolve_var fuel e [] t = Ok r.
Proof. exact resolve_var_total. Qed.
Print Assumptions C08_resolve_var_total.

(* whatever it returns is the token substitution of the specification *)
Theorem C08_resolve_var_sound :
  forall e fuel visited t r, resolve_var fuel e visited t = Ok r ->
  forall out, toks_of r t = Some out -> Subst e t out.
Proof. exact resolve_var_sound. Qed.
Print Assumptions C08_resolve_var_sound.

(* acyclic environments: resolveVar = substitution with fallback, never "cyclic" *)
Theorem C08_resolve_var_subst :
  forall e t, acyclic e ->
  exists out, (resolve_var (fuel_bound e t) e [] t = Ok (RToks out)
               \/ (resolve_var (fuel_bound e t) e [] t = Ok RNil /\ out = [t]))
              /\ Subst e t out.
Proof. exact resolve_var_subst. Qed.
Print Assumptions C08_resolve_var_subst.

(* a cyclic reference yields the guaranteed-invalid result ... *)
Theorem C08_cyclic_reference_is_invalid :
  forall known validate pc oe fuel e key sh raw,
    resolve_tokens fuel e raw = Ok None ->
    pending_value known validate pc oe fuel e key sh raw = Ok None.
Proof. exact cyclic_reference_is_invalid. Qed.
Print Assumptions C08_cyclic_reference_is_invalid.

(* ... and an invalid pending value computes to inherited / initial *)
Theorem C08_pending_invalid_falls_back :
  forall known validate pc oe inherited initial_value parent_value fuel e key sh raw,
    pending_value known validate pc oe fuel e key sh raw = Ok None ->
    cascade_value known validate pc oe inherited initial_value parent_value fuel e key (Some (VRaw raw, sh))
    = Ok (finalize initial_value parent_value key
                   (if inherited key then parent_value key else initial_value key)).
Proof. exact pending_invalid_falls_back. Qed.
Print Assumptions C08_pending_invalid_falls_back.

(* a valid pending value is the typed value of the substituted tokens (as a
   longhand, or as the longhand's part of the substituted shorthand) *)
Theorem C08_pending_is_substitution :
  forall known validate pc oe fuel e key sh raw d,
    pending_value known validate pc oe fuel e key sh raw = Ok (Some d) ->
    exists solved, SubstL e raw solved /\ solved <> [] /\
      match sh with
      | [] => option_map np_value (validate_non_shorthand known validate key solved false) = Some d
      | _ => expand_validate_pending known validate pc oe key sh solved = Some d
      end.
Proof. exact pending_is_substitution. Qed.
Print Assumptions C08_pending_is_substitution.

Theorem C08_cascade_value_total :
  forall known validate pc oe inherited initial_value parent_value e key casc fuel,
    (forall raw sh t, casc = Some (VRaw raw, sh) -> In t raw -> fuel_bound e t <= fuel) ->
    exists v, cascade_value known validate pc oe inherited initial_value parent_value fuel e key casc = Ok v.
Proof. exact cascade_value_total. Qed.
Print Assumptions C08_cascade_value_total.

(* ---- every element, the ROOT included (cascade_value_at: `parent = None` is the nil
   c.parentStyle of the root element; reading it is `Panic 2`) ---- *)

(* an element with a parent style: cascade_value, the statements above *)
Theorem C08_cascade_value_at_nonroot :
  forall known validate pc oe inherited initial_value parent_value fuel e key casc,
    cascade_value_at known validate pc oe inherited initial_value (Some parent_value) fuel e key casc
    = cascade_value known validate pc oe inherited initial_value parent_value fuel e key casc.
Proof. exact cascade_value_at_nonroot. Qed.
Print Assumptions C08_cascade_value_at_nonroot.

(* the root element inherits the initial values: same function with the initial values for
   the parent's, in every branch (declared inherit, default of an inherited property,
   `inherit` produced by a var() substitution, invalid pending value) *)
Theorem C08_cascade_value_at_root :
  forall known validate pc oe inherited initial_value fuel e key casc,
    cascade_value_at known validate pc oe inherited initial_value None fuel e key casc
    = cascade_value known validate pc oe inherited initial_value initial_value fuel e key casc.
Proof. exact cascade_value_at_root. Qed.
Print Assumptions C08_cascade_value_at_root.

(* `html { --v: inherit; color: var(--v) }` = `html { color: inherit }` = the initial value *)
Theorem C08_root_substituted_inherit_is_initial :
  forall known validate pc oe inherited initial_value fuel e key sh raw,
    pending_value known validate pc oe fuel e key sh raw = Ok (Some VInherit) ->
    cascade_value_at known validate pc oe inherited initial_value None fuel e key (Some (VRaw raw, sh))
      = Ok (finalize initial_value initial_value key (initial_value key)) /\
    cascade_value_at known validate pc oe inherited initial_value None fuel e key (Some (VRaw raw, sh))
      = cascade_value_at known validate pc oe inherited initial_value None fuel e key (Some (VInherit, sh)).
Proof. exact root_substituted_inherit_is_initial. Qed.
Print Assumptions C08_root_substituted_inherit_is_initial.

Theorem C08_pending_invalid_falls_back_root :
  forall known validate pc oe inherited initial_value fuel e key sh raw,
    pending_value known validate pc oe fuel e key sh raw = Ok None ->
    cascade_value_at known validate pc oe inherited initial_value None fuel e key (Some (VRaw raw, sh))
    = Ok (finalize initial_value initial_value key (initial_value key)).
Proof. exact root_pending_invalid_falls_back. Qed.
Print Assumptions C08_pending_invalid_falls_back_root.

(* no panic (no nil parent dereference), no divergence, for the root and for every other element *)
Theorem C08_cascade_value_at_total :
  forall known validate pc oe inherited initial_value parent e key casc fuel,
    (forall raw sh t, casc = Some (VRaw raw, sh) -> In t raw -> fuel_bound e t <= fuel) ->
    exists v, cascade_value_at known validate pc oe inherited initial_value parent fuel e key casc = Ok v.
Proof. exact cascade_value_at_total. Qed.
Print Assumptions C08_cascade_value_at_total.

(* ---- the hypotheses are inhabited / the definitions compute ---- *)

Module Examples.
  Import String.
  Local Open Scope string_scope.
  Definition px (n : Q) : tok := TDim n true (s "px").
  Definition pc0 : tok -> color := fun _ => CNone.
  Notation pre := (preprocess_modelled pc0).

  (* margin: 1px 2px 3px  =>  top 1, right 2, bottom 3, left 2; the unknown
     and the invalid neighbours are dropped alone *)
  Example ex_block :
    map (fun d => (od_name d, od_value d))
        (pre [RDecl (s "colour") [TIdent (s "red")] false;
              RDecl (s "MARGIN") [px 1; TWs; TComment; px 2; TWs; px 3] false;
              RDecl (s "padding") [px (-1)] false])
    = [(s "margin-top", VDim 1 7); (s "margin-right", VDim 2 7); (s "margin-bottom", VDim 3 7); (s "margin-left", VDim 2 7)].
  Proof. vm_compute. reflexivity. Qed.

  Example ex_names : four_names (s "border-color")
                     = [s "border-top-color"; s "border-right-color"; s "border-bottom-color"; s "border-left-color"]
                     /\ four_names (s "margin") = [s "margin-top"; s "margin-right"; s "margin-bottom"; s "margin-left"]
                     /\ four_names (s "padding") = [s "padding-top"; s "padding-right"; s "padding-bottom"; s "padding-left"]
                     /\ four_names (s "bleed") = [s "bleed-top"; s "bleed-right"; s "bleed-bottom"; s "bleed-left"]
                     /\ four_names (s "border-style")
                        = [s "border-top-style"; s "border-right-style"; s "border-bottom-style"; s "border-left-style"]
                     /\ four_names (s "border-width")
                        = [s "border-top-width"; s "border-right-width"; s "border-bottom-width"; s "border-left-width"].
  Proof. repeat split; vm_compute; reflexivity. Qed.

  (* a 2-cycle is reported, a chain is substituted *)
  Definition v (n : string) : tok := TFunc (s "var") [TIdent (s n)].
  Example ex_cycle : resolve_var 50 [(s "--a", [v "--b"]); (s "--b", [v "--a"])] [] (v "--a") = Ok RCyclic.
  Proof. vm_compute. reflexivity. Qed.
  Example ex_chain : resolve_var 50 [(s "--a", [v "--b"; px 2]); (s "--b", [px 1])] [] (v "--a") = Ok (RToks [px 1; px 2]).
  Proof. vm_compute. reflexivity. Qed.
  Example ex_acyclic : acyclic [(s "--a", [v "--b"; px 2]); (s "--b", [px 1])].
  Proof.
    exists (fun n => if str_eqb n (s "--a") then 1 else 0).
    intros n m H. unfold lookup in H. cbn [assoc] in H.
    destruct (str_eqb (s "--a") n) eqn:E1.
    - apply str_eqb_eq in E1. subst n. vm_compute in H. destruct H as [<-|[]]. vm_compute. auto.
    - destruct (str_eqb (s "--b") n) eqn:E2; vm_compute in H; contradiction.
  Qed.
  (* columns: the `auto`-first order, the other order, one value, count first; and the whole
     pipeline on `COLUMNS: auto 12em` *)
  Example C08_columns_auto_first :
    let em12 := TDim 12 true (s "em") in
    columns_means [TIdent (s "auto"); em12] (VDim 12 4) (VKw kw_auto)
    /\ columns_means [em12; TIdent (s "AUTO")] (VDim 12 4) (VKw kw_auto)
    /\ columns_means [TIdent (s "auto")] (VKw kw_auto) (VKw kw_auto)
    /\ columns_means [TNum 3 true; em12] (VDim 12 4) (VInt 3).
  Proof.
    assert (Hem : css_col_width (TDim 12 true (s "em")) (VDim 12 4)).
    { apply CwLen; [unfold Qle; simpl; lia|reflexivity]. }
    assert (Ha : forall v, ascii_lower v = kw_auto -> kw_is kw_auto (TIdent v)) by (intros v H; exists v; now split).
    repeat split.
    - apply CmCW; [exact Hem|apply CcAuto; now apply Ha].
    - apply CmWC; [exact Hem|apply CcAuto; now apply Ha].
    - apply CmW. apply CwAuto. now apply Ha.
    - apply CmCW; [exact Hem|]. change 3%Z with (Qfloor 3). apply CcInt. unfold Qle; simpl; lia.
  Qed.

  Example ex_columns :
    map (fun d => (od_name d, od_value d))
        (pre [RDecl (s "COLUMNS") [TIdent (s "auto"); TWs; TDim 12 true (s "em")] false;
              RDecl (s "columns") [TDim 12 true (s "em"); TDim 3 true (s "em")] false])
    = [(s "column-width", VDim 12 4); (s "column-count", VKw (s "auto"))].
  Proof. vm_compute. reflexivity. Qed.
End Examples.

(* ---- final round: names of a box-shorthand expansion (Css/C08DeclMore.v) ---- *)

(* For every value (1-4 components, var() or not): a successful expansion yields exactly the four
   longhands of the shorthand in top/right/bottom/left order -- never a name outside the set. *)
Theorem C08_four_sides_names :
  forall known validate name tokens props,
    expand_four_sides known validate name tokens = Some props ->
    map np_name props = four_names name.
Proof. exact four_sides_names. Qed.
Print Assumptions C08_four_sides_names.

Theorem C08_four_sides_length :
  forall known validate name tokens props,
    expand_four_sides known validate name tokens = Some props -> length props = 4.
Proof. exact four_sides_length. Qed.
Print Assumptions C08_four_sides_length.

Theorem C08_validate_non_shorthand_name :
  forall known validate n toks req p,
    validate_non_shorthand known validate n toks req = Some p -> np_name p = n.
Proof. exact vns_name. Qed.
Print Assumptions C08_validate_non_shorthand_name.
