(* Properties/C06.v -- CSS text is tokenized and parsed as CSS Syntax Level 3 prescribes.
   Only statements, closed by `exact`, each followed by Print Assumptions.

   Model: Css/Tok.v (tokenizer.go), Css/Parse.v (parser.go, nth.go) over the code
   points of the input (valid UTF-8 = a list of Unicode scalar values, `scalars`).
   Specification: Css/Syntax3Spec.v (sections 3.3, 4.3, 5.4.7-9, two-phase).
   `tokenize true` / `fxp = true` is the code as repaired by the fix commits
   (what Check/C06.v compares with /repo on every run); `tokenize false` is the
   code as found. *)
From Verif Require Import Base.GoSem Css.Token Css.Tok Css.Parse
  Css.TokProofs Css.SpecProofs Css.BlocksProofs Css.ParseProofs Css.DeclSpec Css.DeclProofs
  Css.NthSpec Css.NthProofs Css.PosProofs Css.ContentsSpec Css.ContentsProofs
  Css.Color Css.ColorSpec Css.ColorProofs.
From Coq Require Import QArith.
From Verif Require Css.Syntax3Spec.
From Verif Require Css.TextComposeProofs.
From Verif Require Css.TextComposeProofs2.
From Verif Require Css.TextComposeProofs3.
From Coq Require Import List NArith ZArith.
Import ListNotations.

(* ------------------------------------------------------------------ totality *)
(* Tokenize never panics and always terminates (both skip-comments modes, every
   input, including invalid code points). *)
Theorem C06_tokenize_total : forall (skip : bool) (s : list N),
  exists ts, Tok.tokenize true skip s = Ok ts.
Proof. exact tokenize_total. Qed.
Print Assumptions C06_tokenize_total.

(* The code as found violates it: isIdentStart reads tk.src[pos] unguarded
   (tokenizer.go:586).  Witnesses "-", "#-", "@-", "1-" (replayed on Go: corpus/C06). *)
Theorem C06_tokenize_total_refuted_before_fix :
  Tok.tokenize false false [45%N] = Panic site_ident_esc /\
  Tok.tokenize false false [35%N; 45%N] = Panic site_ident_esc /\
  Tok.tokenize false false [64%N; 45%N] = Panic site_ident_esc /\
  Tok.tokenize false false [49%N; 45%N] = Panic site_ident_esc.
Proof. exact tokenize_orig_panics. Qed.
Print Assumptions C06_tokenize_total_refuted_before_fix.

(* every iteration of consumeValueList consumes at least one code point (the
   termination measure) and never reaches the `case 0:` no-progress branch *)
Theorem C06_iteration_progress : forall skip f endc p c r,
  c <> 0%N -> (length (c :: r) < f)%nat ->
  exists lx, lex1 true skip f endc p (c :: r) = Ok lx /\ lx <> LStuck /\
             psuffix (lexed_rest lx) (c :: r).
Proof. exact lex1_ok. Qed.
Print Assumptions C06_iteration_progress.

(* ------------------------------------------------------------------ model = specification *)
(* blocks_spec: for every valid-UTF-8 text, Tokenize returns exactly the component
   values CSS Syntax 3 assigns to it: token types, unescaped values, number
   representation and type flag, units, hash type flag, EOF flags of strings /
   urls, bad-string / bad-url, nesting of blocks and functions, unmatched closers,
   EOF closing open blocks -- modulo the presentation map `norm` / `erase`
   (documented in Css/Syntax3Spec.v: positions and whitespace text erased,
   integer flag = type integer AND fits int64). Error recovery of a malformed token
   is therefore exact: it consumes precisely the code points the specification
   assigns to it. *)
Theorem C06_blocks_spec : forall (skip : bool) (s : list N), scalars s ->
  exists ts, Tok.tokenize true skip s = Ok ts /\
             map Syntax3Spec.erase ts = Syntax3Spec.spec_tokenize skip s.
Proof. exact blocks_spec. Qed.
Print Assumptions C06_blocks_spec.

(* one iteration of the implementation = "consume a token" (4.3.1) *)
Theorem C06_consume_token_spec : forall skip f g endc p c r lx,
  scalars (c :: r) -> c <> 0%N -> (length (c :: r) < f)%nat -> (length (c :: r) <= g)%nat ->
  (endc = 0 \/ endc = 41 \/ endc = 93 \/ endc = 125)%N ->
  lex1 true skip f endc p (c :: r) = Ok lx ->
  lex_rel skip endc p (fst (Syntax3Spec.consume_token g (c :: r)))
                      (snd (Syntax3Spec.consume_token g (c :: r))) lx.
Proof. exact lex1_spec. Qed.
Print Assumptions C06_consume_token_spec.

(* per-consumer lemmas (reused by C20) *)
Theorem C06_consume_escape_spec : forall r, scalars r ->
  Syntax3Spec.consume_escaped r = (write_rune (fst (consume_escape r)), snd (consume_escape r)).
Proof. exact consume_escape_spec. Qed.
Print Assumptions C06_consume_escape_spec.

Theorem C06_consume_ident_spec : forall f g rest v r', scalars rest -> (length rest <= g)%nat ->
  consume_ident f rest = Ok (v, r') -> Syntax3Spec.ident_sequence g rest = (v, r').
Proof. exact consume_ident_spec. Qed.
Print Assumptions C06_consume_ident_spec.

Theorem C06_consume_string_spec : forall f g q rest v a e r', scalars rest -> (length rest <= g)%nat ->
  quoted_loop f q rest = Ok (v, a, e, r') ->
  exists v' o, Syntax3Spec.string_body g q rest = (v', o, r') /\
    ((a = true /\ v' = v /\ ((e = 0 /\ o = 0) \/ (e = errEofInString /\ o = 1))) \/
     (a = false /\ e = errBadString /\ o = 2))%N.
Proof. exact quoted_loop_spec. Qed.
Print Assumptions C06_consume_string_spec.

Theorem C06_consume_url_spec : forall f g p r2 v e r3,
  scalars r2 -> (length r2 < f)%nat -> (length r2 < g)%nat -> url_is_unquoted r2 = true ->
  consume_url true f p r2 = Ok (v, e, r3) ->
  tok_out (fst (Syntax3Spec.consume_url g r2)) (snd (Syntax3Spec.consume_url g r2))
          (LTok (opt_list v ++ opt_list e) r3).
Proof. exact consume_url_spec. Qed.
Print Assumptions C06_consume_url_spec.

(* numberRe (hand scanner) accepts exactly "starts with a number" and returns the
   representation / type flag of "consume a number" *)
Theorem C06_consume_number_spec : forall rest,
  match scan_number rest with
  | Some (repr, r1) =>
      Syntax3Spec.starts_number rest = true /\
      exists integer, Syntax3Spec.consume_number rest = (repr, integer, r1) /\
                      repr_is_int repr = Syntax3Spec.nflag repr integer
  | None => Syntax3Spec.starts_number rest = false
  end.
Proof. exact scan_number_spec. Qed.
Print Assumptions C06_consume_number_spec.

(* ------------------------------------------------------------------ error recovery of declarations and rules is exact *)
(* A declaration -- valid or malformed -- ends exactly at its ";": whatever token
   list `a` precedes the ";" and whatever `b` follows, the result is the result for
   `a` followed by the result for `b`.  (Holds for the code as found and repaired.) *)
Theorem C06_decl_list_compositional : forall fxp (skip_comments skip_ws : bool) (a b : list token) (p : pos),
  exists oa ob,
    parse_declaration_list fxp a skip_comments skip_ws = Ok oa /\
    parse_declaration_list fxp b skip_comments skip_ws = Ok ob /\
    parse_declaration_list fxp (a ++ TLiteral p s_semicolon :: b) skip_comments skip_ws = Ok (oa ++ ob).
Proof. exact decl_list_compositional. Qed.
Print Assumptions C06_decl_list_compositional.

(* A qualified rule / at-rule -- or the error for an unfinished one -- ends exactly
   at its {} block. *)
Theorem C06_rule_list_compositional : forall (skip_comments skip_ws : bool) (a b : list token) (p : pos) (args : list token),
  exists oa ob,
    parse_rule_list (a ++ [TCurly p args]) skip_comments skip_ws = Ok oa /\
    parse_rule_list b skip_comments skip_ws = Ok ob /\
    parse_rule_list (a ++ TCurly p args :: b) skip_comments skip_ws = Ok (oa ++ ob).
Proof. exact rule_list_compositional. Qed.
Print Assumptions C06_rule_list_compositional.

Theorem C06_stylesheet_compositional : forall (skip_comments skip_ws : bool) (a b : list token) (p : pos) (args : list token),
  exists oa ob,
    parse_stylesheet (a ++ [TCurly p args]) skip_comments skip_ws = Ok oa /\
    parse_stylesheet b skip_comments skip_ws = Ok ob /\
    parse_stylesheet (a ++ TCurly p args :: b) skip_comments skip_ws = Ok (oa ++ ob).
Proof. exact stylesheet_compositional. Qed.
Print Assumptions C06_stylesheet_compositional.

(* Text level (NOT proved; the token-level theorems above are): if appending ";" to
   the text s1 yields the tokens of s1 followed by the ";" token (no construct of s1
   is left open and its last token cannot absorb the ";"), then the same holds with
   any continuation s2.  Together with C06_decl_list_compositional this is "a
   malformed declaration never swallows the following one" on texts. *)
Definition C06_text_compositional_statement : Prop :=
  forall s1 s2 : list N, scalars s1 -> scalars s2 ->
    Css.Syntax3Spec.spec_tokenize false (s1 ++ [59%N]) =
      Css.Syntax3Spec.spec_tokenize false s1 ++ [TLiteral Css.Syntax3Spec.p0 [59%N]] ->
    Css.Syntax3Spec.spec_tokenize false (s1 ++ 59%N :: s2) =
      Css.Syntax3Spec.spec_tokenize false s1 ++ TLiteral Css.Syntax3Spec.p0 [59%N] :: Css.Syntax3Spec.spec_tokenize false s2.

Theorem C06_parsers_total :
  (forall fxp l sc sw, exists o, parse_declaration_list fxp l sc sw = Ok o) /\
  (forall l sc sw, exists o, parse_rule_list l sc sw = Ok o) /\
  (forall l sc sw, exists o, parse_stylesheet l sc sw = Ok o).
Proof. exact (conj parse_declaration_list_total (conj parse_rule_list_total parse_stylesheet_total)). Qed.
Print Assumptions C06_parsers_total.

(* ------------------------------------------------------------------ declarations and !important (5.4.6) *)
(* value and important flag: the last two non-whitespace(/comment) tokens are "!" and
   an ident matching "important" ASCII case-insensitively *)
Theorem C06_important_spec : forall rest,
  let a := decl_loop true (mkD SValue 0 false false) 0 rest in
  let imp := match d_state a with SImportant => true | _ => false end in
  ((if imp then firstn (d_bang a) rest else rest), imp) = spec_important rest.
Proof. exact important_spec. Qed.
Print Assumptions C06_important_spec.

(* the code as found missed it after another "!" (and after another !important) *)
Theorem C06_important_spec_refuted_before_fix :
  let p := mkPos 0 0 in
  let v := [TIdent p [120%N]; TLiteral p [33%N]; TLiteral p [33%N]; TIdent p s_important] in
  d_state (decl_loop false (mkD SValue 0 false false) 0 v) = SValue /\ snd (spec_important v) = true.
Proof. exact important_orig_deviates. Qed.
Print Assumptions C06_important_spec_refuted_before_fix.

(* name, colon, value, flag -- for values without a top-level {} block (that rule
   belongs to the css-syntax draft, not to Level 3) *)
Theorem C06_declaration_spec : forall first rest nested, no_curly rest ->
  match spec_declaration first rest with
  | DOk n v i => exists p, parse_declaration true first rest nested = CDeclaration p n v i
  | DError => exists p, parse_declaration true first rest nested = CParseError p errInvalid
  end.
Proof. exact declaration_spec. Qed.
Print Assumptions C06_declaration_spec.

(* name, colon, value, flag AND the {} rule of the css-syntax draft ("a top-level
   {}-block is only allowed as the entire value", evaluated after the removal of
   "!important"): for EVERY token list, no hypothesis.  spec_declaration_draft =
   spec_declaration + block_not_alone (Css/DeclSpec.v). *)
Theorem C06_declaration_draft_spec : forall first rest nested,
  match spec_declaration_draft first rest with
  | DOk n v i => exists p, parse_declaration true first rest nested = CDeclaration p n v i
  | DError => exists p, parse_declaration true first rest nested = CParseError p errInvalid
  end.
Proof. exact declaration_draft_spec. Qed.
Print Assumptions C06_declaration_draft_spec.

(* the code as found (before fix 7) accepted "a: {} x" and "a: ! {}" *)
Theorem C06_declaration_block_rule_refuted_before_fix :
  let p := mkPos 0 0 in
  let a := TIdent p [97%N] in
  let v1 := [TLiteral p [58%N]; TCurly p []; TIdent p [120%N]] in
  let v2 := [TLiteral p [58%N]; TLiteral p [33%N]; TCurly p []] in
  spec_declaration_draft a v1 = DError /\ spec_declaration_draft a v2 = DError /\
  (exists n v i, parse_declaration false a v1 false = CDeclaration p n v i) /\
  (exists n v i, parse_declaration false a v2 false = CDeclaration p n v i).
Proof. exact declaration_block_rule_orig_deviates. Qed.
Print Assumptions C06_declaration_block_rule_refuted_before_fix.

Example C06_block_rule_examples :
  let p := mkPos 0 0 in
  block_not_alone [TWhitespace p [32%N]; TCurly p []; TWhitespace p [32%N]] = false /\
  block_not_alone [TCurly p []; TIdent p [120%N]] = true /\
  block_not_alone [TIdent p [120%N]] = false.
Proof. repeat split; reflexivity. Qed.

(* ------------------------------------------------------------------ ParseBlocksContents (css-syntax draft "consume a block's contents") *)
(* Every item of a block's contents -- declaration, nested rule, at-rule, valid or
   not -- ends exactly at its first ";" or {} block: whatever precedes the terminator
   and whatever follows it, the result is the result for the part up to and including
   the terminator followed by the result for the rest.  (Code as found and repaired.) *)
Theorem C06_blocks_contents_compositional : forall fxp (skip_ws : bool) (a b : list token) (sep : token),
  is_sep sep = true ->
  exists oa ob,
    parse_blocks_contents fxp (a ++ [sep]) skip_ws = Ok oa /\
    parse_blocks_contents fxp b skip_ws = Ok ob /\
    parse_blocks_contents fxp (a ++ sep :: b) skip_ws = Ok (oa ++ ob).
Proof. exact blocks_contents_compositional. Qed.
Print Assumptions C06_blocks_contents_compositional.

(* ... and one item (first token, body without terminator, terminator or end of input)
   is the declaration of the draft or, failing that, the nested qualified rule whose
   prelude is the whole item / the parse error at the ";" / at the last token
   (Css/ContentsSpec.v spec_item). *)
Theorem C06_blocks_item_spec : forall first body term skip_ws,
  is_sep first = false -> is_ws_or_comment first = false ->
  (forall p kw, first <> TAtKeyword p kw) -> no_sep body ->
  match term with Some t => is_sep t = true | None => True end ->
  parse_blocks_contents true (first :: body ++ term_tokens term) skip_ws = Ok [spec_item first body term].
Proof. exact blocks_contents_item. Qed.
Print Assumptions C06_blocks_item_spec.

Example C06_blocks_item_examples :
  let p := mkPos 0 0 in
  let a := TIdent p [97%N] in let colon := TLiteral p [58%N] in let b := TIdent p [98%N] in
  let semi := TLiteral p [59%N] in let blk := TCurly p [b] in
  (* "a:b;"  a declaration;  "a b;"  an error at the ";";  "a b{b}"  a nested rule;  "a:{b}"  a declaration;  "a:b{b}"  a nested rule *)
  spec_item a [colon; b] (Some semi) = CDeclaration p [97%N] [b] false /\
  spec_item a [b] (Some semi) = CParseError p errInvalid /\
  spec_item a [b] (Some blk) = CQualifiedRule p [a; b] [b] /\
  spec_item a [colon] (Some blk) = CDeclaration p [97%N] [blk] false /\
  spec_item a [colon; b] (Some blk) = CQualifiedRule p [a; colon; b] [b] /\
  is_sep semi = true /\ is_sep blk = true /\ no_sep [colon; b].
Proof. repeat split; try reflexivity. repeat constructor. Qed.

Theorem C06_blocks_contents_total : forall fxp l sw, exists o, parse_blocks_contents fxp l sw = Ok o.
Proof. exact parse_blocks_contents_total. Qed.
Print Assumptions C06_blocks_contents_total.

(* ------------------------------------------------------------------ <an+b> (section 6) *)
(* On token lists as the tokenizer produces them (identifiers and number
   representations not empty), ParseNth recognises exactly the <an+b> grammar and
   returns its (A, B); integer values are those the implementation attributes to
   the tokens (`num_int`, through float32) ... *)
Theorem C06_nth_spec : forall ts, Forall wf_tok ts -> parse_nth ts = Ok (spec_anb num_int ts).
Proof. exact nth_spec. Qed.
Print Assumptions C06_nth_spec.

(* ... which are the mathematical values below 2^24 *)
Theorem C06_nth_integer_value_exact : forall repr z,
  repr_int repr = Some z -> (- 2 ^ 24 < z < 2 ^ 24)%Z -> num_int repr = z.
Proof. exact num_int_exact. Qed.
Print Assumptions C06_nth_integer_value_exact.

Theorem C06_tokenize_wf : forall skip s ts, Tok.tokenize true skip s = Ok ts -> Forall wf_tok ts.
Proof. exact tokenize_wf. Qed.
Print Assumptions C06_tokenize_wf.

(* ParseNth(Tokenize(css)) never panics and is the grammar *)
Theorem C06_parse_nth_string_spec : forall s,
  exists ts, Tok.tokenize true true s = Ok ts /\ parse_nth_string true s = Ok (spec_anb num_int ts).
Proof. exact parse_nth_string_spec. Qed.
Print Assumptions C06_parse_nth_string_spec.

(* on arbitrary token lists the code can panic (ident[0] on an empty identifier, nth.go:55) *)
Theorem C06_parse_nth_total_refuted_on_arbitrary_tokens :
  parse_nth [TIdent (mkPos 1 1) []] = Panic site_nth_ident0.
Proof. exact parse_nth_empty_ident_panics. Qed.
Print Assumptions C06_parse_nth_total_refuted_on_arbitrary_tokens.

(* ------------------------------------------------------------------ source positions *)
(* pos_of pre = (1 + newlines in pre, 1 + UTF-8 BYTES after the last newline of pre):
   the position of the code point that follows the prefix `pre` of the preprocessed
   source.  For every iteration of consumeValueList started in a state satisfying the
   invariant (the initial state does): the position is that of the iteration's first
   code point; every token and block the iteration creates carries it; the invariant
   holds again for the next iteration.  (Columns are bytes, as in Go; the whitespace
   token that follows "url(" before a quoted string starts at its first code point.)
   Partial in one respect: stated per iteration, not as a predicate over the
   resulting tree. *)
Theorem C06_positions_spec : forall skip f endc src st p st1 lx,
  pos_inv src st -> nonul (l_rest st) -> (length (l_rest st) < f)%nat -> l_rest st <> [] ->
  update_line st = (p, st1) ->
  lex1 true skip f endc p (l_rest st) = Ok lx ->
  (exists pre, src = pre ++ l_rest st /\ p = pos_of pre) /\
  match lx with
  | LTok ts _ | LReturn ts _ => Forall (fun t => token_pos t = p) ts
  | _ => True
  end /\
  (forall o r' args, lx = LOpen o r' -> token_pos (mk_block o p args) = p) /\
  pos_inv src (set_rest st1 (lexed_rest lx)).
Proof. exact positions_spec. Qed.
Print Assumptions C06_positions_spec.

Theorem C06_positions_initial : forall src, pos_inv src (init_state src).
Proof. exact init_pos_inv. Qed.
Print Assumptions C06_positions_initial.

Theorem C06_first_token_position : forall src p st1, update_line (init_state src) = (p, st1) -> p = mkPos 1 1.
Proof. exact first_token_position. Qed.
Print Assumptions C06_first_token_position.

(* ------------------------------------------------------------------ colours (colors.go, ParseColorString) *)
(* Model Css/Color.v, run here with exact rational arithmetic (`exactA`; the correspondence runs the same
   model with float32 / float64 rounding and compares the components bit for bit).  Specification
   Css/ColorSpec.v: CSS Color 3 section 4 on one component value: keywords (table from the upstream
   test-suite), #rgb / #rrggbb, rgb() / rgba() with <integer>#{3} | <percentage>#{3}, hsl() / hsla() with
   the ABC algorithm, <alphavalue> clipped; arguments = exactly one token each, comma separated. *)
Theorem C06_color_spec : forall t, parse_color exactA t = spec_color t.
Proof. exact parse_color_spec. Qed.
Print Assumptions C06_color_spec.

(* text level: ParseColorString never panics and returns the CSS Color 3 value of the single significant
   component value of the text (invalid when there is none or more than one) *)
Theorem C06_color_string_spec : forall s,
  exists ts, Tok.tokenize true true s = Ok ts /\ parse_color_string exactA true s = Ok (spec_color_value ts).
Proof. exact parse_color_string_spec. Qed.
Print Assumptions C06_color_string_spec.

Theorem C06_color_total : forall A s, exists c, parse_color_string A true s = Ok c.
Proof. exact parse_color_string_total. Qed.
Print Assumptions C06_color_total.

(* per notation *)
Theorem C06_color_hex_spec : forall v, hash_color exactA v = spec_hex v.
Proof. exact hash_color_spec. Qed.
Print Assumptions C06_color_hex_spec.

(* the keyword tables of colors.go = the table of CSS Color 3 (for EVERY identifier, not only the listed ones) *)
Theorem C06_color_keywords_spec : forall lower, keyword_color exactA lower = spec_keyword lower.
Proof. exact keyword_color_spec. Qed.
Print Assumptions C06_color_keywords_spec.

(* hslToRgb = the ABC algorithm of 4.2.4 on (frac(h/360), clip s, clip l) ... *)
Theorem C06_color_hsl_spec : forall h s l,
  hsl_to_rgb exactA h s l = spec_hsl_to_rgb (Qfrac (inject_Z h / 360)) (clip01 (s / 100)) (clip01 (l / 100)).
Proof. exact hsl_to_rgb_exact. Qed.
Print Assumptions C06_color_hsl_spec.
(* ... where frac(h/360) is the hue angle reduced modulo 360 degrees, in [0, 1) *)
Theorem C06_color_hue_normalised : forall h,
  (Qfrac (inject_Z h / 360) == inject_Z (h mod 360) / 360)%Q /\ (0 <= Qfrac (inject_Z h / 360) < 1)%Q.
Proof. exact (fun h => conj (hue_mod h) (Qfrac_range _)). Qed.
Print Assumptions C06_color_hue_normalised.

(* ARGUMENT TYPING.  <integer> is the type flag of the <number-token> (set by the tokenizer from the
   representation: C06_blocks_spec), never a property of the value: a number token whose flag is "number"
   -- 255.0, 1e2, 120.0 -- among the arguments of rgb() / hsl(), or among the three colour arguments of
   rgba() / hsla(), makes the colour invalid.  Holds for both arithmetic instances (accept / reject does
   not depend on rounding: C06_color_accept_independent_of_rounding). *)
Theorem C06_color_rgb_hsl_typing : forall A p name args x,
  ascii_lower name = s_rgb \/ ascii_lower name = s_hsl ->
  In x (significant args) -> non_integer_number x ->
  parse_color A (TFunction p name args) = ColorInvalid.
Proof. exact rgb_hsl_reject_non_integer. Qed.
Print Assumptions C06_color_rgb_hsl_typing.

Theorem C06_color_rgba_hsla_typing : forall A p name args a c1 b c2 c c3 d x,
  ascii_lower name = s_rgba \/ ascii_lower name = s_hsla ->
  significant args = [a; c1; b; c2; c; c3; d] ->
  In x [a; b; c] -> non_integer_number x ->
  parse_color A (TFunction p name args) = ColorInvalid.
Proof. exact rgba_hsla_reject_non_integer. Qed.
Print Assumptions C06_color_rgba_hsla_typing.

(* what rgb() accepts: exactly three comma-separated arguments, all <integer> or all <percentage> *)
Theorem C06_color_rgb_accepts : forall A p name args r g b al,
  ascii_lower name = s_rgb ->
  parse_color A (TFunction p name args) = ColorRGBA r g b al ->
  exists x c1 y c2 z, significant args = [x; c1; y; c2; z] /\ comma c1 = true /\ comma c2 = true /\
    ((exists rx ry rz, arg_type_of x = AInteger rx /\ arg_type_of y = AInteger ry /\ arg_type_of z = AInteger rz) \/
     (exists rx ry rz, arg_type_of x = APercentage rx /\ arg_type_of y = APercentage ry /\ arg_type_of z = APercentage rz)).
Proof. exact rgb_accepts. Qed.
Print Assumptions C06_color_rgb_accepts.

Theorem C06_color_accept_independent_of_rounding : forall A B t,
  color_kind (parse_color A t) = color_kind (parse_color B t).
Proof. exact parse_color_kind. Qed.
Print Assumptions C06_color_accept_independent_of_rounding.

(* an integer spelling (strconv.ParseInt succeeds = the flag the tokenizer sets) denotes an integer: the
   truncation `int_val` used by the specification of the hue is the identity on it *)
Theorem C06_color_integer_value : forall repr, repr_is_int repr = true -> inject_Z (int_val repr) = val repr.
Proof. exact int_val_exact. Qed.
Print Assumptions C06_color_integer_value.

(* whole pipeline on texts: "rgb(0, 51, 255.0)", "rgb(1e2, 0, 0)", "hsl(120.0, 100%, 50%)" are invalid *)
Example C06_color_number_is_not_integer :
  parse_color_string exactA true [114;103;98;40;48;44;32;53;49;44;32;50;53;53;46;48;41]%N = Ok ColorInvalid /\
  parse_color_string exactA true [114;103;98;40;49;101;50;44;32;48;44;32;48;41]%N = Ok ColorInvalid /\
  parse_color_string exactA true [104;115;108;40;49;50;48;46;48;44;32;49;48;48;37;44;32;53;48;37;41]%N = Ok ColorInvalid.
Proof. exact ex_rgb_number_rejected. Qed.

(* hypotheses are inhabited *)
Example C06_scalars_inhabited : scalars [97; 233; 8364; 128512]%N.
Proof. repeat constructor; vm_compute; intuition discriminate. Qed.

(* ------------------------------------------------------------------ steps towards C06_text_compositional_statement
   (Css/TextComposeProofs.v).  The specification's tokens carry the erased position p0,
   so these equations are exact. *)
(* a leading ";" is always a token of its own, whatever follows (every text s2) *)
Theorem C06_text_semicolon_head : forall s2 : list N,
  Css.Syntax3Spec.spec_tokenize false (59%N :: s2) =
    TLiteral Css.Syntax3Spec.p0 [59%N] :: Css.Syntax3Spec.spec_tokenize false s2.
Proof. exact Css.TextComposeProofs.spec_tokenize_semicolon_head. Qed.
Print Assumptions C06_text_semicolon_head.

(* the s1 = [] instance of C06_text_compositional_statement *)
Theorem C06_text_compositional_nil : forall s2 : list N,
  Css.Syntax3Spec.spec_tokenize false ([] ++ [59%N]) =
    Css.Syntax3Spec.spec_tokenize false [] ++ [TLiteral Css.Syntax3Spec.p0 [59%N]] ->
  Css.Syntax3Spec.spec_tokenize false ([] ++ 59%N :: s2) =
    Css.Syntax3Spec.spec_tokenize false [] ++ TLiteral Css.Syntax3Spec.p0 [59%N] :: Css.Syntax3Spec.spec_tokenize false s2.
Proof. exact Css.TextComposeProofs.text_compositional_nil. Qed.
Print Assumptions C06_text_compositional_nil.

(* C06_text_compositional_statement restricted to the class: s1 (of any length) consists
   only of the code points "," (44) ":" (58) ";" (59); s2 arbitrary.  On this class the
   hypothesis of the statement always holds, so it is not needed. *)
Theorem C06_text_compositional_partial : forall s1 s2 : list N,
  forallb Css.TextComposeProofs.simple_delim s1 = true ->
  Css.Syntax3Spec.spec_tokenize false (s1 ++ 59%N :: s2) =
    Css.Syntax3Spec.spec_tokenize false s1 ++ TLiteral Css.Syntax3Spec.p0 [59%N] :: Css.Syntax3Spec.spec_tokenize false s2.
Proof. exact Css.TextComposeProofs.text_compositional_delims. Qed.
Print Assumptions C06_text_compositional_partial.

Example C06_text_compositional_partial_inhabited :
  forallb Css.TextComposeProofs.simple_delim [59; 58; 44; 44; 59; 58]%N = true.
Proof. reflexivity. Qed.

(* C06_text_compositional_statement restricted to the wider class (Css/TextComposeProofs2.v):
   s1 (of any length) consists only of the code points  ! % & ) , : ; = > ? ] ` }
   (33 37 38 41 44 58 59 61 62 63 93 96 125): exactly-one-code-point tokens of the
   specification that never look ahead and open no block (the closers are preserved
   tokens at top level); s2 arbitrary.  The statement's hypothesis always holds on this
   class, so it is not needed. *)
Theorem C06_text_compositional_partial2 : forall s1 s2 : list N,
  forallb Css.TextComposeProofs2.simple2 s1 = true ->
  Css.Syntax3Spec.spec_tokenize false (s1 ++ 59%N :: s2) =
    Css.Syntax3Spec.spec_tokenize false s1 ++ TLiteral Css.Syntax3Spec.p0 [59%N] :: Css.Syntax3Spec.spec_tokenize false s2.
Proof. exact Css.TextComposeProofs2.text_compositional_simple2. Qed.
Print Assumptions C06_text_compositional_partial2.

(* each such code point is a token of its own whatever follows (closers become ParseError tokens) *)
Theorem C06_text_simple2_head : forall (c : N) (s : list N),
  Css.TextComposeProofs2.simple2 c = true ->
  Css.Syntax3Spec.spec_tokenize false (c :: s) =
    Css.Syntax3Spec.norm_token (Css.TextComposeProofs2.tok2 c) ++ Css.Syntax3Spec.spec_tokenize false s.
Proof. exact Css.TextComposeProofs2.spec_tokenize_simple2_head. Qed.
Print Assumptions C06_text_simple2_head.

Example C06_text_compositional_partial2_inhabited :
  forallb Css.TextComposeProofs2.simple2 [125; 33; 41; 58; 93; 61; 62; 63; 96; 37; 38; 44; 59]%N = true.
Proof. reflexivity. Qed.

(* fuel irrelevance of the specification's token stream (Css/BlocksProofs.v): once the fuel
   covers the input length, tokens_from has terminated and more fuel changes nothing
   (inputs as produced by preprocessing: scalar values, no NUL). *)
Theorem C06_tokens_from_fuel_irrelevant : forall (n m : nat) (inp : list N),
  scalars inp -> nonul inp -> (length inp <= n)%nat -> (length inp <= m)%nat ->
  Css.Syntax3Spec.tokens_from n inp = Css.Syntax3Spec.tokens_from m inp.
Proof. intros n m inp Hs Hn. exact (tokens_from_irrel n m inp (conj Hs Hn)). Qed.
Print Assumptions C06_tokens_from_fuel_irrelevant.

(* a whitespace run (code points 9 10 32, any positive length) in front of one of the
   one-code-point tokens above is exactly one whitespace token: the run is consumed
   maximally (Css/TextComposeProofs3.v, uses the fuel irrelevance above) *)
Theorem C06_text_ws_run_head : forall (w : N) (ws : list N) (c : N) (s : list N),
  forallb Css.TextComposeProofs3.ws3 (w :: ws) = true -> Css.TextComposeProofs2.simple2 c = true ->
  scalars ((w :: ws) ++ c :: s) ->
  Css.Syntax3Spec.spec_tokenize false ((w :: ws) ++ c :: s) =
    TWhitespace Css.Syntax3Spec.p0 [] :: Css.Syntax3Spec.spec_tokenize false (c :: s).
Proof. exact Css.TextComposeProofs3.spec_tokenize_ws_run_head. Qed.
Print Assumptions C06_text_ws_run_head.

(* C06_text_compositional_statement restricted to the class ok3 (boolean predicate): s1 (any
   length) consists only of the code points  ! % & ) , : ; = > ? ] ` }  and the whitespace
   code points 9 10 32 (runs of any length, anywhere), and s1 does not END in whitespace
   (a trailing run would merge with whitespace at the start of s2); s2 arbitrary scalars.
   The statement's hypothesis always holds on this class, so it is not needed. *)
Theorem C06_text_compositional_partial3 : forall s1 s2 : list N,
  Css.TextComposeProofs3.ok3 s1 = true -> scalars (s1 ++ 59%N :: s2) ->
  Css.Syntax3Spec.spec_tokenize false (s1 ++ 59%N :: s2) =
    Css.Syntax3Spec.spec_tokenize false s1 ++ TLiteral Css.Syntax3Spec.p0 [59%N] :: Css.Syntax3Spec.spec_tokenize false s2.
Proof. exact Css.TextComposeProofs3.text_compositional_ws. Qed.
Print Assumptions C06_text_compositional_partial3.

Example C06_text_compositional_partial3_inhabited :
  Css.TextComposeProofs3.ok3 [32; 10; 125; 9; 58; 32; 32; 44; 10; 59]%N = true.
Proof. reflexivity. Qed.
