(* Properties/C06.v -- theorem statements for property C06 (placeholder, being filled in). *)
From Verif Require Import Base.GoSem Css.Token Css.Tok.
From Coq Require Import List NArith.
Import ListNotations.

Theorem C06_tokenize_total_refuted_before_fix :
  exists s, tokenize false false s = Panic site_ident_esc.
Proof. exists [45%N]. vm_compute. reflexivity. Qed.
Print Assumptions C06_tokenize_total_refuted_before_fix.
