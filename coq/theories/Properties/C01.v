(* Properties/C01.v -- Rendering any document terminates without crashing.
   A theorem cannot cover the whole layout code: the design (DESIGN.md 5, C01)
   proves termination / panic-freedom of every MECHANISM the property names and
   runs a whole-pipeline stream as crash / hang detector for the rest
   (Check/C01.v; labelled tested-only in the evidence).
   Only statements, closed by `exact`, each followed by Print Assumptions. *)
From Verif Require Import Base.GoSem Css.FindRoot Css.FindRootProofs
  Layout.PageLoop Layout.PageLoopProofs Layout.PageLoopLater Layout.PageLoopExample
  Css.C01RefChain Css.C01RefChainProofs.
From Coq Require Import List ZArith Arith.
Import ListNotations.
Local Open Scope nat_scope.

(* ------------------------------------------------------------------ *)
(* 1. page loop (pages.go 908-1034 makeAllPages / remakePage) and the
      re-pagination loop (layout.go 138-178) *)

(* Under PROGRESS (a page that is not blank and does not end the document
   consumes >= 1 unit: the pageIsEmpty rule) and "the first reported footnote of
   a page is always placed", the first round of makeAllPages returns without
   panic for the explicit fuel F + 2*units + 5, with at most F + 2*units + 4
   pages (every content page may be preceded by one blank page forced by a
   left/right break; F footnote-only pages may follow the content). *)
Theorem C01_page_loop_terminates :
  forall (R : Type) (R_eqb : R -> R -> bool)
         (layout_content : option R -> nat -> (option R * brk * nat) * (bool * bool))
         (layout_blank : nat -> nat * (bool * bool)) (state_changed : nat -> bool)
         (mu : option R -> nat) (F : nat),
    (forall r fn r' b fn' fl, layout_content r fn = ((Some r', b, fn'), fl) -> mu (Some r') < mu r) ->
    (forall r fn r' b fn' fl, layout_content r fn = ((r', b, fn'), fl) -> fn' <= F) ->
    (forall fn fn' fl, layout_blank fn = (fn', fl) -> fn' <= fn /\ (0 < fn -> fn' < fn)) ->
    forall b right,
    exists pm' pages,
      make_all_pages R R_eqb layout_content layout_blank state_changed
        (first_round_fuel R mu F) (initial_page_maker R b right) 0 0 0 [] = Ok (pm', pages) /\
      1 <= length pages <= F + 2 * mu None + 4.
Proof. exact page_loop_terminates. Qed.
Print Assumptions C01_page_loop_terminates.

(* The loop of makePage over the footnotes reported by the previous page
   (pages.go 704-717, [report_loop]): it never reports more than it received, and
   thanks to the `i != 0` guard the first one is always placed.  A blank page has
   no other source of reported footnotes, so this is the third hypothesis of
   C01_page_loop_terminates, proved for /repo's loop. *)
Theorem C01_reported_footnotes_decrease : forall overflow n,
  report_loop true overflow 0 n <= n /\ (0 < n -> report_loop true overflow 0 n < n).
Proof. intros ov n. split; [apply report_loop_le | apply report_loop_first_placed]. Qed.
Print Assumptions C01_reported_footnotes_decrease.

(* ... so for the page maker whose blank pages run that loop only PROGRESS and
   the bound on the footnotes are left as hypotheses *)
Theorem C01_page_loop_terminates_report_loop :
  forall (R : Type) (R_eqb : R -> R -> bool)
         (layout_content : option R -> nat -> (option R * brk * nat) * (bool * bool))
         (overflow : nat -> nat -> bool) (flags : nat -> bool * bool) (state_changed : nat -> bool)
         (mu : option R -> nat) (F : nat),
    (forall r fn r' b fn' fl, layout_content r fn = ((Some r', b, fn'), fl) -> mu (Some r') < mu r) ->
    (forall r fn r' b fn' fl, layout_content r fn = ((r', b, fn'), fl) -> fn' <= F) ->
    forall b right,
    exists pm' pages,
      make_all_pages R R_eqb layout_content (blank_of_report_loop true overflow flags) state_changed
        (first_round_fuel R mu F) (initial_page_maker R b right) 0 0 0 [] = Ok (pm', pages) /\
      1 <= length pages <= F + 2 * mu None + 4.
Proof. exact page_loop_terminates_report_loop. Qed.
Print Assumptions C01_page_loop_terminates_report_loop.

(* the guard is necessary: without it a footnote that never fits the footnote
   area is reported again by every page, and the page loop does not end *)
Theorem C01_unguarded_report_loop_stuck : forall n, report_loop false (fun _ => true) 0 n = n.
Proof. exact report_loop_unguarded_stuck. Qed.
Print Assumptions C01_unguarded_report_loop_stuck.

Example C01_unguarded_report_loop_no_termination :
  make_all_pages nat Nat.eqb one_reported_footnote
    (blank_of_report_loop false (fun _ _ => true) (fun _ => (false, false))) (fun _ => false)
    2000 (initial_page_maker nat BAny true) 0 0 0 [] = OutOfFuel.
Proof. exact unguarded_report_loop_no_termination. Qed.

(* layoutDocument runs makeAllPages at most maxLoops times (8 by default),
   whatever the pages ask for (ContentChanged / PagesWanted) *)
Theorem C01_repagination_bounded :
  forall (R : Type) (R_eqb : R -> R -> bool)
         (layout_content : option R -> nat -> (option R * brk * nat) * (bool * bool))
         (layout_blank : nat -> nat * (bool * bool)) (state_changed : nat -> bool)
         fuel max_loops b right n pages,
    layout_document R R_eqb layout_content layout_blank state_changed fuel max_loops b right
      = Ok (n, pages) ->
    n <= match max_loops with None => 8 | Some m => m end.
Proof. exact repagination_bounded. Qed.
Print Assumptions C01_repagination_bounded.

(* the re-pagination loop itself adds no panic / non-termination to its rounds *)
Theorem C01_repagination_total :
  forall (R : Type) (make_all : list (item R) -> nat -> res (list (item R) * list page)),
    (forall pm old, exists r, make_all pm old = Ok r) ->
    forall k rounds pm pages, exists r, doc_loop R make_all k rounds pm pages = Ok r.
Proof. exact doc_loop_no_panic. Qed.
Print Assumptions C01_repagination_total.

(* a document whose pages never set a re-make flag (no page-based counter, no
   target counter / text) is laid out in exactly one round *)
Theorem C01_single_round_without_remake_flags :
  forall (R : Type) (R_eqb : R -> R -> bool)
         (layout_content : option R -> nat -> (option R * brk * nat) * (bool * bool))
         (layout_blank : nat -> nat * (bool * bool)) (state_changed : nat -> bool)
         (mu : option R -> nat) (F : nat),
    (forall r fn r' b fn' fl, layout_content r fn = ((Some r', b, fn'), fl) -> mu (Some r') < mu r) ->
    (forall r fn r' b fn' fl, layout_content r fn = ((r', b, fn'), fl) -> fn' <= F) ->
    (forall fn fn' fl, layout_blank fn = (fn', fl) -> fn' <= fn /\ (0 < fn -> fn' < fn)) ->
    (forall r fn, snd (layout_content r fn) = (false, false)) ->
    (forall fn, snd (layout_blank fn) = (false, false)) ->
    forall max_loops b right, max_loops <> Some 0 ->
    exists pages,
      layout_document R R_eqb layout_content layout_blank state_changed
        (first_round_fuel R mu F) max_loops b right = Ok (1, pages).
Proof. exact single_round_without_remake_flags. Qed.
Print Assumptions C01_single_round_without_remake_flags.

(* Later rounds: the re-use branch of makeAllPages never indexes a page that the
   previous round does not have (pages[i], site 1021) -- by the test `i >= len(pages)`
   added to /repo (8f.. see notes); the loop of the unchanged tree took such a page for
   up to date when the page before it was made again and reported footnotes with
   nothing left to resume, and indexed pageMaker out of range. *)
Theorem C01_reuse_index_in_range :
  forall (R : Type) (R_eqb : R -> R -> bool)
         (layout_content : option R -> nat -> (option R * brk * nat) * (bool * bool))
         (layout_blank : nat -> nat * (bool * bool)) (state_changed : nat -> bool)
         fuel pm old fn i out,
    make_all_pages R R_eqb layout_content layout_blank state_changed fuel pm old fn i out <> Panic 1021.
Proof. exact reuse_index_in_range. Qed.
Print Assumptions C01_reuse_index_in_range.

Theorem C01_later_round_orig_refuted :
  make_all_pages_orig nat Nat.eqb page2_reports_footnote
    (blank_of_report_loop true (fun _ _ => false) (fun _ => (false, false))) (fun _ => false)
    50 second_round_pm 2 0 0 [] = Panic 1019.
Proof. exact later_round_orig_panics. Qed.
Print Assumptions C01_later_round_orig_refuted.

Example C01_later_round_fixed_returns :
  fmap_pages (make_all_pages nat Nat.eqb page2_reports_footnote
    (blank_of_report_loop true (fun _ _ => false) (fun _ => (false, false))) (fun _ => false)
    50 second_round_pm 2 0 0 [])
  = Some [PContent; PContent; PBlank].
Proof. exact later_round_fixed_returns. Qed.

(* Full statement for the later rounds (pages re-used when up to date): kept
   visible as a Definition; PROVED below (C01_later_rounds_terminate_holds) with
   no hypothesis beyond the three of the first round (in particular nothing is
   asked of R_eqb = ResumeStack.Equals). *)
Definition C01_later_rounds_terminate_statement : Prop :=
  forall (R : Type) (R_eqb : R -> R -> bool)
         (layout_content : option R -> nat -> (option R * brk * nat) * (bool * bool))
         (layout_blank : nat -> nat * (bool * bool)) (state_changed : nat -> bool)
         (mu : option R -> nat) (F : nat),
    (forall r fn r' b fn' fl, layout_content r fn = ((Some r', b, fn'), fl) -> mu (Some r') < mu r) ->
    (forall r fn r' b fn' fl, layout_content r fn = ((r', b, fn'), fl) -> fn' <= F) ->
    (forall fn fn' fl, layout_blank fn = (fn', fl) -> fn' <= fn /\ (0 < fn -> fn' < fn)) ->
    forall max_loops b right, exists r,
      layout_document R R_eqb layout_content layout_blank state_changed
        (first_round_fuel R mu F) max_loops b right = Ok r.

Theorem C01_later_rounds_terminate_holds : C01_later_rounds_terminate_statement.
Proof. exact later_rounds_terminate. Qed.
Print Assumptions C01_later_rounds_terminate_holds.

(* every single round, from the pageMaker / page list left by the previous one:
   makeAllPages returns and re-establishes the invariant
   (len(pageMaker) = len(pages) + 1: pageMaker[i+1] of the re-use branch exists) *)
Theorem C01_every_round_terminates :
  forall (R : Type) (R_eqb : R -> R -> bool)
         (layout_content : option R -> nat -> (option R * brk * nat) * (bool * bool))
         (layout_blank : nat -> nat * (bool * bool)) (state_changed : nat -> bool)
         (mu : option R -> nat) (F : nat),
    (forall r fn r' b fn' fl, layout_content r fn = ((Some r', b, fn'), fl) -> mu (Some r') < mu r) ->
    (forall r fn r' b fn' fl, layout_content r fn = ((r', b, fn'), fl) -> fn' <= F) ->
    (forall fn fn' fl, layout_blank fn = (fn', fl) -> fn' <= fn /\ (0 < fn -> fn' < fn)) ->
    forall pm pages, round_inv R mu F pm pages ->
    exists pm' pages',
      make_all_pages R R_eqb layout_content layout_blank state_changed
        (first_round_fuel R mu F) pm (length pages) 0 0 [] = Ok (pm', pages') /\
      round_inv R mu F pm' pages'.
Proof. exact round_terminates. Qed.
Print Assumptions C01_every_round_terminates.

(* later rounds are reached: 2 rounds with pages 0, 1, 3 re-used (PagesWanted on
   page 2), 8 rounds when ContentChanged is set on every round *)
Example C01_wanted_two_rounds :
  layout_document nat Nat.eqb wanted_content (fun fn => (0, (false, false))) (fun _ => false)
    (first_round_fuel nat wanted_mu 0) None BAny true
  = Ok (2, [PContent; PContent; PContent; PContent]).
Proof. exact wanted_two_rounds. Qed.

(* the hypotheses are inhabited: a greedy page maker with the pageIsEmpty rule *)
Theorem C01_greedy_instance_terminates : forall hs H b right,
  exists pm' pages,
    make_all_pages nat Nat.eqb (greedy hs H true) no_footnotes (fun _ => false)
      (first_round_fuel nat (mu hs) 0) (initial_page_maker nat b right) 0 0 0 [] = Ok (pm', pages) /\
    1 <= length pages <= 0 + 2 * mu hs None + 4.
Proof. exact greedy_page_loop_terminates. Qed.
Print Assumptions C01_greedy_instance_terminates.

(* ... and necessary: without the rule a unit higher than the page is resumed
   for ever (the shape of the grid-row defect repaired in /repo by 777098b) *)
Example C01_no_progress_no_termination :
  make_all_pages nat Nat.eqb (greedy [30; 120; 10] 100 false) no_footnotes (fun _ => false)
    2000 (initial_page_maker nat BAny true) 0 0 0 [] = OutOfFuel.
Proof. exact no_progress_no_termination. Qed.

(* ------------------------------------------------------------------ *)
(* 2. root element discovery after html.Parse (tree.go NewHTML) *)

Theorem C01_find_root_total : forall l, exists r, find_root l = Ok r.
Proof. exact find_root_total. Qed.
Print Assumptions C01_find_root_total.

Theorem C01_find_root_is_element : forall l i,
  find_root l = Ok (Some i) ->
  kind_at l i = Elem /\ forall j, (0 <= j < i)%Z -> kind_at l j <> Elem.
Proof. exact find_root_is_element. Qed.
Print Assumptions C01_find_root_is_element.

Theorem C01_find_root_error_iff_no_element : forall l,
  find_root l = Ok None <-> ~ In Elem l.
Proof. exact find_root_error_iff. Qed.
Print Assumptions C01_find_root_error_iff_no_element.

(* NewHTML + BuildFormattingStructure on the root never index an empty box list *)
Theorem C01_root_pipeline_total : forall l display_none,
  exists b, root_pipeline find_root l display_none = Ok b.
Proof. exact root_pipeline_total. Qed.
Print Assumptions C01_root_pipeline_total.

(* the unchanged tree (6439a2e) violates both: a comment before <html> becomes
   the root and layout panics at build.go:112 (repaired by 570653b; witnesses
   corpus/C01/001..003) *)
Theorem C01_find_root_orig_refuted :
  exists l i, In Elem l /\ find_root_orig l = Ok (Some i) /\ kind_at l i <> Elem.
Proof. exact find_root_orig_refuted. Qed.
Print Assumptions C01_find_root_orig_refuted.

Theorem C01_root_pipeline_orig_panics :
  exists l, In Elem l /\ root_pipeline find_root_orig l false = Panic 112.
Proof. exact root_pipeline_orig_panics. Qed.
Print Assumptions C01_root_pipeline_orig_panics.

(* ------------------------------------------------------------------ *)
(* 3. degenerate page geometry: see Properties/C12.v (page geometry / page
      typing are modelled there); PROGRESS above does not need a positive page
      height, so C01_page_loop_terminates covers zero / negative content boxes. *)

(* ------------------------------------------------------------------ *)
(* 3b. name-following loops whose termination rests on a "seen" discipline
       (Css/C01RefChain.v): the chain of `system: extends` of a counter style
       (css/counters/counters.go 27-62 extendsChain) and the href inheritance of
       svg gradients / patterns (svg/tree.go 148-175 inheritDefs / inheritElement).
       Both return whatever the shape of the reference graph: self loops, cycles,
       rho shapes (a tail leading into a cycle), diamonds, dangling names. *)

(* names are numbers below N; fuel N + 1 is enough, and the chain holds no name twice *)
Theorem C01_extends_chain_terminates :
  forall (ext : nat -> option nat) (defined : nat -> bool) (N : nat),
    (forall n, defined n = true -> n < N) ->
    forall start, start < N ->
    exists out, extends_chain_of ext defined (N + 1) start = Ok out /\ NoDup out.
Proof.
  intros ext defined N Hlt start Hs.
  destruct (extends_chain_terminates ext defined N Hlt start Hs) as [out H].
  exists out. split; [exact H|]. eapply extends_chain_result_nodup. exact H.
Qed.
Print Assumptions C01_extends_chain_terminates.

(* the test "already in the chain" cannot be weakened to "is the starting style":
   a extends b, b extends c, c extends b (a cycle that does not hold the starting
   style) is then followed for ever, while a cycle through the start is still cut *)
Example C01_extends_chain_start_only_no_termination :
  extends_chain_of rho_ext rho_defined 4 0 = Ok [0; 1] /\
  extends_chain_start_only rho_ext rho_defined 2000 0 [0] 0 = OutOfFuel.
Proof. split; [exact rho_extends_chain | exact rho_start_only_no_termination]. Qed.

(* inheritElement: one href is deleted before every recursive call *)
Theorem C01_inherit_element_terminates : forall (t : hrefs) (node : nat),
  exists t' merged, inherit_element (count_href t + 1) t node = Ok (t', merged).
Proof. exact inherit_element_terminates. Qed.
Print Assumptions C01_inherit_element_terminates.

Theorem C01_inherit_defs_terminates : forall (order : list nat) (t : hrefs),
  exists t', inherit_defs (count_href t + 1) t order = Ok t'.
Proof. intros order t. apply inherit_defs_terminates. lia. Qed.
Print Assumptions C01_inherit_defs_terminates.

(* deleting the href AFTER the recursion loses termination on a 2-cycle and on a
   self reference (non-cyclic chains behave alike) *)
Example C01_inherit_element_delete_after_no_termination :
  inherit_element 3 [Some 1; Some 0] 0 = Ok ([None; None], [1; 0]) /\
  inherit_element_delete_after 2000 [Some 1; Some 0] 0 = OutOfFuel /\
  inherit_element_delete_after 2000 [Some 0] 0 = OutOfFuel.
Proof.
  split; [exact href_two_cycle|].
  split; [exact href_two_cycle_delete_after_no_termination | exact href_self_loop_delete_after_no_termination].
Qed.

(* ------------------------------------------------------------------ *)
(* 4. RE-EXPORTS (filled in by the coordinator once the owning properties are
      built; names expected from the other agents, see notes/C01.md):
        C18  use_graph_terminates        svg <use> in-use set (svg/elements.go 430-440)
        C19  extends_fallback_terminate, render_value_total
                                        counter-style extends / fallback cycles
        C08  resolve_var_total           var() resolution with a visited set
        C06/C07  tokenize_total and the parser totalities
        C04  get_total                   cascadeValue / Get on every element incl. the root
        C14  bookmark_no_panic
        C09  C09_table_fixup_total / C09_wrap_table_total, C09_inline_in_block_total,
             C09_four_passes_total (Properties/C09.v; BlockInInline termination is a _statement there)
        C12  paginate_progress           instance of PROGRESS for its paginator   *)
