(* Properties/C19.v -- placeholder, filled below *)
From Verif Require Import Css.Counters Css.CounterScopes.
