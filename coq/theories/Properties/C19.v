(* Properties/C19.v -- Counters count and print as CSS Lists and Counter
   Styles define.  Only statements, closed by `exact`, each followed by
   Print Assumptions.

   Models: Css/Counters.v (port of /repo/css/counters/counters.go after the
   C19 `fix:` commits) and Css/CounterScopes.v (counter bookkeeping of
   /repo/html/boxes/build.go).  Specifications: Css/CounterSpec.v (CSS Counter
   Styles 3) and Css/CounterScopesSpec.v (CSS 2.1 12.4.1 / CSS Lists 3 section
   4).  Check/C19.v ties the models to /repo on every run. *)
From Verif Require Import Base.GoSem Css.Counters Css.CounterScopes Css.CounterSpec Css.CounterScopesSpec
  Css.CounterAbs Css.CounterProofs Css.CounterTableProofs Css.CounterExtendsProofs Css.CounterSpecFacts Css.CounterTheorems
  Css.CounterScopesProofs Css.CounterScopesMore.
From Coq Require Import List ZArith NArith Bool.
Import ListNotations.
Open Scope Z_scope.

(* ------------------------------------------------------------------ the six algorithms, all integers, all symbol lists *)

(* cyclic: symbols[(v-1) mod L] with the MATHEMATICAL mod, for every integer v *)
Theorem C19_cyclic_spec : forall syms v,
  repeating syms v = Ok (cyclic_repr (map symbol syms) v).
Proof. exact repeating_spec. Qed.
Print Assumptions C19_cyclic_spec.

Theorem C19_fixed_spec : forall syms first v,
  non_repeating syms first v = Ok (fixed_repr first (map symbol syms) v).
Proof. exact non_repeating_spec. Qed.
Print Assumptions C19_fixed_spec.

Theorem C19_symbolic_spec : forall syms v,
  symbolic syms v = Ok (symbolic_repr (map symbol syms) v).
Proof. exact symbolic_spec. Qed.
Print Assumptions C19_symbolic_spec.

(* alphabetic = bijective numeration in base L: the digit list exists, has the value v, and is unique *)
Theorem C19_alphabetic_bijective : forall syms v, 2 <= zlen syms -> 1 <= v ->
  exists ds, alphabetic syms v = Ok (Some (digits_string (map symbol syms) 1 ds)) /\
             alphabetic_digits (zlen syms) v ds /\
             forall ds', alphabetic_digits (zlen syms) v ds' -> ds' = ds.
Proof.
  exact (fun syms v HL Hv =>
    match alphabetic_spec syms v HL Hv with
    | ex_intro _ ds (conj E D) =>
        ex_intro _ ds (conj E (conj D (fun ds' D' =>
          alphabetic_digits_unique' (zlen syms) v ds' ds
            (Z.le_trans 1 2 (zlen syms) (Zle_bool_imp_le 1 2 eq_refl) HL) D' D)))
    end).
Qed.
Print Assumptions C19_alphabetic_bijective.

(* numeric = the unique positional representation of |v| in base L without leading zero *)
Theorem C19_numeric_positional : forall syms v, 2 <= zlen syms ->
  exists ds, numeric syms v = Ok (Some (digits_string (map symbol syms) 0 ds)) /\
             numeric_digits (zlen syms) (Z.abs v) ds /\
             forall ds', numeric_digits (zlen syms) (Z.abs v) ds' -> ds' = ds.
Proof.
  exact (fun syms v HL =>
    match numeric_spec syms v HL with
    | ex_intro _ ds (conj E D) =>
        ex_intro _ ds (conj E (conj D (fun ds' D' =>
          numeric_digits_unique (zlen syms) (Z.abs v) ds' ds HL D' D)))
    end).
Qed.
Print Assumptions C19_numeric_positional.

(* additive = the greedy decomposition of the specification; a zero weight
   never divides; whenever a representation is produced the weights used sum to v *)
Theorem C19_additive_spec : forall ts v,
  Forall (fun a => 0 <= ad_w a) ts -> 0 <= v ->
  additive ts v = Ok (additive_repr (abs_tuples ts) v).
Proof. exact additive_spec. Qed.
Print Assumptions C19_additive_spec.

Theorem C19_additive_sum : forall ws v reps,
  Forall (fun w => 0 <= w) ws -> 0 < v ->
  additive_reps ws v = Some reps ->
  length reps = length ws /\ Forall (fun q => 0 <= q) reps /\ weighted_sum ws reps = v.
Proof. exact additive_sum. Qed.
Print Assumptions C19_additive_sum.

(* ------------------------------------------------------------------ generate a counter: range, negative, pad, fallback, extends *)

(* for every table of @counter-style rules as css/validation produces them
   (wf_table), every style name (defined or not) and every Go int but
   MinInt64, RenderValue returns the string the specification defines *)
Theorem C19_render_value_spec : forall c n v,
  wf_table c -> in_i64 v ->
  exists s, RenderValue c v n = Ok s /\ counter_repr (abs_table c) n v s.
Proof. exact render_value_spec. Qed.
Print Assumptions C19_render_value_spec.

(* ... and the specification determines that string: whatever satisfies
   counter_repr is what RenderValue returns *)
Theorem C19_render_value_unique : forall c n v s,
  wf_table c -> in_i64 v -> counter_repr (abs_table c) n v s -> RenderValue c v n = Ok s.
Proof. exact render_value_unique. Qed.
Print Assumptions C19_render_value_unique.

(* extends: the record resolveCounter builds is the style section 3.1.7 defines
   (unknown targets and every participant of a cycle extend decimal) *)
Theorem C19_extends_spec : forall c, wf_table c -> forall n d, lookup c n = Some d ->
  exists d', (forall prev, mem n prev = false -> resolve_counter c n prev = Ok (Some d', n :: prev)) /\
             resolved (abs_table c) n (absr d') /\ wfr d' /\ (is_extends d = false -> d' = d).
Proof. exact resolve_counter_spec. Qed.
Print Assumptions C19_extends_spec.

(* symbols() and <string> style references (css-counter-styles-3 section 6): the
   anonymous style's own representation, else decimal *)
Theorem C19_anonymous_style_spec : forall c sid d v,
  wf_table c -> in_i64 v -> anon_descr sid = Some d -> wfr d ->
  exists s, RenderValueStyle c v sid = Ok s /\
            (style_repr (absr d) v (Some s) \/
             (style_repr (absr d) v None /\ decimal_repr (abs_table c) v s)).
Proof. exact render_value_style_anon. Qed.
Print Assumptions C19_anonymous_style_spec.

Theorem C19_anonymous_style_is_section6 :
  (forall s d, anon_descr (SidString s) = Some d -> absr d = anon_string s) /\
  (forall sysname args d, anon_descr (SidSymbols sysname args) = Some d ->
                          absr d = anon_symbols (abs_system d) args).
Proof. exact (conj anon_string_abs anon_symbols_abs). Qed.
Print Assumptions C19_anonymous_style_is_section6.

Theorem C19_marker_spec : forall c n v,
  wf_table c -> in_i64 v ->
  exists s, RenderMarker c (SidName n) v = Ok s /\ marker_repr (abs_table c) n v s.
Proof. exact render_marker_spec. Qed.
Print Assumptions C19_marker_spec.

(* ------------------------------------------------------------------ never panics, always terminates *)

(* on EVERY table whose decimal is the predefined one and whose additive
   weights are not negative (invalid styles, extends / fallback cycles,
   unknown systems included), for every style reference and value: no
   index / division / Repeat panic, and the fuel |table| + 4 suffices *)
Theorem C19_render_value_total : forall c, total_table c -> forall v, in_i64 v ->
  (forall n, exists s, RenderValue c v n = Ok s) /\
  (forall sid, exists s, RenderValueStyle c v sid = Ok s) /\
  (forall sid, exists s, RenderMarker c sid v = Ok s).
Proof.
  exact (fun c Ht v Hv => conj (fun n => RenderValue_total c Ht n v Hv)
                         (conj (fun sid => RenderValueStyle_total c Ht sid v Hv)
                               (fun sid => RenderMarker_total c Ht sid v Hv))).
Qed.
Print Assumptions C19_render_value_total.

(* the extends loop ends on every table, cycles included, within |table| + 2 iterations *)
Theorem C19_extends_fallback_terminate : forall c n prev,
  exists r, resolve_counter c n prev = Ok r.
Proof. exact resolve_counter_total. Qed.
Print Assumptions C19_extends_fallback_terminate.

(* the two defects of the unchanged tree (DESIGN section 6 #5, #6), on the
   faithful model of the original functions: totality was false *)
Theorem C19_cyclic_orig_refuted : exists syms v, repeating_orig syms v = Panic 258.
Proof. exact (ex_intro _ [NS 1 [97%N]; NS 1 [98%N]] (ex_intro _ 0 eq_refl)). Qed.
Print Assumptions C19_cyclic_orig_refuted.

Theorem C19_additive_orig_refuted : exists ts v, additive_orig ts v = Panic 331.
Proof. exact (ex_intro _ [Ad 5 (NS 1 [118%N]); Ad 2 (NS 1 [105%N]); Ad 0 (NS 1 [122%N])] (ex_intro _ 3 eq_refl)). Qed.
Print Assumptions C19_additive_orig_refuted.

(* ------------------------------------------------------------------ nesting of counters *)

(* the traversal state (name -> stack, per-depth name sets) always denotes the
   instance frames of the specification, its slice operations never panic,
   and the generated texts are those of the specification *)
Theorem C19_scopes_spec : forall c e st fs,
  R st fs -> frames_ok fs -> fs <> [] ->
  sim (length fs) (element_to_box c e st) (s_element c e fs).
Proof. exact element_sim. Qed.
Print Assumptions C19_scopes_spec.

Theorem C19_build_spec : forall c root, build c root = s_build c root.
Proof. exact build_spec. Qed.
Print Assumptions C19_build_spec.

(* counters() sees the instances outermost first, counter() the innermost one *)
Theorem C19_counters_outermost_first : forall st fs, R st fs ->
  forall n, cv_get (st_values st) n = instances fs n /\
            (forall fr outer, fs = fr :: outer ->
               instances fs n = instances outer n ++ match assoc fr n with Some v => [v] | None => [] end).
Proof.
  exact (fun st fs HR n => conj (R_get st fs HR n) (fun fr outer E => eq_ind_r (fun fs0 => instances fs0 n = _) eq_refl E)).
Qed.
Print Assumptions C19_counters_outermost_first.

(* "list items increment list-item implicitly" also holds for ::before / ::after
   with display: list-item: the ::marker of such a pseudo-element and its
   content are generated from the instances as they are AFTER the
   pseudo-element's own counter-reset / -set / -increment (s_update: implicit
   list-item increment included), the pseudo-element acting like a child of
   its element (its properties act in the frame of the element's children) *)
Theorem C19_pseudo_list_item_marker : forall c mkout st fs props sid content st' out,
  R st fs -> frames_ok fs -> fs <> [] -> cp_list_item props = true ->
  pseudo_to_box c mkout st (Some (Pseudo props (MkNormal sid) content)) = Ok (st', out) ->
  exists m s, out = [OMarker m; mkout s]
              /\ RenderMarker c sid (innermost (s_update fs props) s_list_item) = Ok m
              /\ s_content c (s_update fs props) content = Ok s
              /\ R st' (s_update fs props).
Proof. exact pseudo_list_item_marker. Qed.
Print Assumptions C19_pseudo_list_item_marker.

(* ------------------------------------------------------------------ the hypotheses are inhabited *)

Definition ex_decimal : descr :=
  Descr ns_zero ns_zero ns_zero ns_zero [] (Sys false s_numeric 0) 0 ns_zero
        (map (fun x => NS 1 [x]) [48;49;50;51;52;53;54;55;56;57]%N) [] [] false.
Definition ex_roman : descr :=
  Descr ns_zero ns_zero ns_zero ns_zero [] (Sys false s_additive 0) 0 ns_zero []
        [Ad 1000 (NS 1 [109%N]); Ad 900 (NS 1 [99;109]%N); Ad 500 (NS 1 [100%N]); Ad 400 (NS 1 [99;100]%N);
         Ad 100 (NS 1 [99%N]); Ad 90 (NS 1 [120;99]%N); Ad 50 (NS 1 [108%N]); Ad 40 (NS 1 [120;108]%N);
         Ad 10 (NS 1 [120%N]); Ad 9 (NS 1 [105;120]%N); Ad 5 (NS 1 [118%N]); Ad 4 (NS 1 [105;118]%N);
         Ad 1 (NS 1 [105%N])] [Rg 1 3999] false.
Definition s_roman : str := [114;111;109;97;110]%N.
Definition ex_table : table := [En s_decimal ex_decimal; En s_roman ex_roman].

Example C19_ex_wf : wf_table ex_table.
Proof.
  split.
  - exists ex_decimal. repeat split; try reflexivity. vm_compute. discriminate.
  - intros n d H. unfold ex_table in H. cbn [lookup] in H.
    destruct (str_eqb s_decimal n).
    + injection H as <-. split; [constructor|]. split; [vm_compute; discriminate|vm_compute; discriminate].
    + destruct (str_eqb s_roman n); [|discriminate]. injection H as <-.
      split; [repeat constructor; vm_compute; discriminate|].
      split; [vm_compute; discriminate|vm_compute; discriminate].
Qed.

Example C19_ex_roman : RenderValue ex_table 1994 s_roman = Ok [109;99;109;120;99;105;118]%N   (* mcmxciv *)
                    /\ RenderValue ex_table 4000 s_roman = Ok [52;48;48;48]%N                (* fallback: 4000 *)
                    /\ RenderValue ex_table (-7) s_roman = Ok [45;55]%N.                     (* -7 *)
Proof. vm_compute. auto. Qed.

(* nesting, on the specification side and on the model side:
   <div r i>[ <div r i>[ <div i> ] <div i> <div r> <div r i> ] <div i>
   with r = counter-reset: c, i = counter-increment: c and
   ::before { content: counters(c, ".") } gives 1, 1.1, 1.2, 1.3, 1.0, 1.1, 2 *)
Definition ex_c : str := [99]%N.
Definition ex_before : option pseudo :=
  Some (Pseudo (CP [] [] true [] false) MkNone [CCounters ex_c [46]%N (SidName s_decimal)]).
Definition ex_div (reset incr : bool) (children : list elem) : elem :=
  Elem false (CP (if reset then [CI ex_c 0] else []) [] false (if incr then [CI ex_c 1] else []) false)
       MkNone ex_before None children.
Definition ex_doc : elem :=
  Elem false (CP [] [] true [] false) MkNone None None
    [ex_div true true [ex_div true true [ex_div false true []];
                       ex_div false true []; ex_div true false []; ex_div true true []];
     ex_div false true []].

Example C19_ex_nesting :
  s_build ex_table ex_doc =
    Ok [OBefore [49]; OBefore [49;46;49]; OBefore [49;46;50]; OBefore [49;46;51];
        OBefore [49;46;48]; OBefore [49;46;49]; OBefore [50]]%N
  /\ build ex_table ex_doc = s_build ex_table ex_doc.
Proof. split; [vm_compute; reflexivity|exact (build_spec ex_table ex_doc)]. Qed.

(* ::before list items: <body style="counter-reset: list-item"> <p/> <p/> <p/> <div/> </body> with
   p::before, div::before { display: list-item; content: "x" }, list-style-type decimal,
   div::before { counter-reset: list-item 41 }: markers 1 2 3 42 (not 0 1 2 3: the
   marker is generated after the pseudo-element's own counter updates), and a
   plain ::after { content: counter(list-item) } of the div sees 42 (without the
   reset on <body> every ::before would create its own instance in the frame of
   its element: 1 1 1 42) *)
Definition ex_li_before (reset : list cint) : option pseudo :=
  Some (Pseudo (CP reset [] true [] true) (MkNormal (SidName s_decimal)) [CString [120]%N]).
Definition ex_p : elem := Elem false (CP [] [] true [] false) MkNone (ex_li_before []) None [].
Definition ex_doc2 : elem :=
  Elem false (CP [CI s_list_item 0] [] true [] false) MkNone None None
    [ex_p; ex_p; ex_p;
     Elem false (CP [] [] true [] false) MkNone (ex_li_before [CI s_list_item 41])
          (Some (Pseudo (CP [] [] true [] false) MkNone [CCounter s_list_item (SidName s_decimal)])) []].

Example C19_ex_pseudo_list_item :
  exists m1 m2 m3 m42,
    RenderMarker ex_table (SidName s_decimal) 1 = Ok m1 /\ RenderMarker ex_table (SidName s_decimal) 2 = Ok m2 /\
    RenderMarker ex_table (SidName s_decimal) 3 = Ok m3 /\ RenderMarker ex_table (SidName s_decimal) 42 = Ok m42 /\
    build ex_table ex_doc2 =
      Ok [OMarker m1; OBefore [120]; OMarker m2; OBefore [120]; OMarker m3; OBefore [120];
          OMarker m42; OBefore [120]; OAfter [52;50]]%N.
Proof. do 4 eexists. vm_compute. repeat split. Qed.


(* ---- final round: laws of clampCounter (build.go:893-900), for every integer ---- *)
Theorem C19_clamp_counter_is_spec_clamp : forall v : Z, clamp_counter v = clamp v.
Proof. exact clamp_counter_is_clamp. Qed.
Print Assumptions C19_clamp_counter_is_spec_clamp.

Theorem C19_clamp_counter_int32 : forall v : Z, (- 2 ^ 31 <= clamp_counter v <= 2 ^ 31 - 1)%Z.
Proof. exact clamp_counter_bounds. Qed.
Print Assumptions C19_clamp_counter_int32.

Theorem C19_clamp_counter_idempotent : forall v : Z, clamp_counter (clamp_counter v) = clamp_counter v.
Proof. exact clamp_counter_idem. Qed.
Print Assumptions C19_clamp_counter_idempotent.

Theorem C19_clamp_counter_monotone : forall a b : Z, (a <= b)%Z -> (clamp_counter a <= clamp_counter b)%Z.
Proof. exact clamp_counter_mono. Qed.
Print Assumptions C19_clamp_counter_monotone.

Theorem C19_increment_step_no_overflow : forall old v : Z,
  (- 2 ^ 31 <= old <= 2 ^ 31 - 1)%Z ->
  (- 2 ^ 32 <= old + clamp_counter v <= 2 ^ 32 - 2)%Z /\
  (- 2 ^ 31 <= clamp_counter (old + clamp_counter v) <= 2 ^ 31 - 1)%Z.
Proof. exact increment_step_bounds. Qed.
Print Assumptions C19_increment_step_no_overflow.
