(* Properties/C02.v -- placeholder while the proofs are being written *)
From Verif Require Import Css.Whitespace.
