(* Properties/C02.v -- Pagination and line breaking conserve content.

   Theorem statements only.  Models: Layout/Fragment.v (fragmentation steps and
   resume stacks), Layout/Paginate.v (the pagination model), Css/Whitespace.v
   (port of ProcessWhitespace), Layout/TextDraw.v (text drawing).
   Specifications: Css/WhitespaceSpec.v.  Proofs: Layout/FragmentProofs.v,
   Layout/PaginateProofs.v, Css/WhitespaceProofs.v, Layout/TextDrawProofs.v. *)
From Verif Require Import Layout.Paginate Layout.PaginateSpec Layout.PaginateProofs.
From Verif Require Import Layout.Fragment Layout.FragmentProofs Layout.FragmentMore.
From Verif Require Import Css.Whitespace Css.WhitespaceSpec Css.WhitespaceProofs Css.WhitespaceMore.
From Verif Require Import Layout.TextDraw Layout.TextDrawProofs.
From Coq Require Import List ZArith NArith Arith.
Import ListNotations.
Local Open Scope nat_scope.

(* --- the refinement form, independent of any particular pagination algorithm:
   for ANY sequence of fragmentation steps (skip, placed, resume) in which every
   step is locally consistent -- what `skip` designates is what was placed followed
   by what `resume` designates -- and each step starts where the previous one said
   to resume, the concatenation of everything placed, followed by what the final
   resume point still designates, is the content from the start: nothing lost,
   duplicated or reordered. *)
Theorem C02_fragment_steps_conserve :
  forall (Pos U : Type) (content_from : Pos -> list U) steps start final,
    linked Pos U start steps final ->
    Forall (step_ok Pos U content_from) steps ->
    content_from start = flat_map (@placed Pos U) steps ++ content_opt Pos U content_from final.
Proof. exact fragment_steps_conserve. Qed.
Print Assumptions C02_fragment_steps_conserve.

Theorem C02_fragment_step_conserves :
  forall (Pos U : Type) (content_from : Pos -> list U) steps start,
    steps <> [] ->
    linked Pos U start steps None ->
    Forall (step_ok Pos U content_from) steps ->
    flat_map (@placed Pos U) steps = content_from start.
Proof. exact fragment_step_conserves. Qed.
Print Assumptions C02_fragment_step_conserves.

(* --- the two rewind operations are steps: dropping the last k placed units
   (breakLine, for widows) or cutting back to an earlier break
   (findEarlierPageBreak) keeps a step consistent if and only if the resume point
   they return designates exactly what they removed, then what the old one did *)
Theorem C02_rewind_to_earlier_break_ok :
  forall (Pos U : Type) (content_from : Pos -> list U) j new_resume (s : step Pos U),
    step_ok Pos U content_from s ->
    (step_ok Pos U content_from (rewind_to Pos U j new_resume s) <->
     rewind_matches Pos U content_from (skipn j (placed s)) new_resume (resume s)).
Proof. exact rewind_to_ok_iff. Qed.
Print Assumptions C02_rewind_to_earlier_break_ok.

Theorem C02_drop_last_lines_ok :
  forall (Pos U : Type) (content_from : Pos -> list U) k new_resume (s : step Pos U),
    step_ok Pos U content_from s ->
    rewind_matches Pos U content_from (skipn (length (placed s) - k) (placed s)) new_resume (resume s) ->
    step_ok Pos U content_from (drop_last Pos U k new_resume s).
Proof. exact drop_last_ok. Qed.
Print Assumptions C02_drop_last_lines_ok.

(* resume stacks {index: sub}: the units designated are those after all children
   before `index` and after what `sub` skips inside child `index`; a container whose
   children before `index` were placed entirely is a consistent step *)
Theorem C02_resume_stack_container_step :
  forall ks i sub,
    i < length ks ->
    offset_in (nth i ks (Mono 0)) sub <= flow_size (nth i ks (Mono 0)) ->
    units_from ks None = seq 0 (offset_list ks (Some (RS i sub))) ++ units_from ks (Some (RS i sub)).
Proof. exact container_step_ok. Qed.
Print Assumptions C02_resume_stack_container_step.

(* ResumeStack.Unpack is only reached with a non-empty stack (blocks.go:373) *)
Theorem C02_unpack_never_panics : forall r, exists i sub, block_skip r = GoSem.Ok (i, sub).
Proof. exact block_skip_ok. Qed.
Print Assumptions C02_unpack_never_panics.

(* --- the pagination model conserves: concatenating the pages' unit lists gives
   every in-flow unit exactly once, in flow order, for every document *)
Theorem C02_paginate_conserves : forall (css : bool) (d : doc),
  flat_map (fun p : pstate * nat * nat => let '(_, a, e) := p in seq a (e - a)) (paginate_ranges css d)
  = seq 0 (length (lin_flows (d_flow d))).
Proof. exact paginate_conserves. Qed.
Print Assumptions C02_paginate_conserves.

(* ... and so does every list of pages that forms a chain (this is what Check/C12.v
   and Check/C02.v test on the implementation's pages) *)
Theorem C02_chain_conserves :
  forall (St : Type) n (next_st : St -> nat -> St) st s ps,
    chain St n next_st st s ps ->
    flat_map (fun p : St * nat * nat => let '(_, a, e) := p in seq a (e - a)) ps = seq s (n - s).
Proof. exact chain_conserves. Qed.
Print Assumptions C02_chain_conserves.

(* --- white space: the only transformation of text before layout *)

(* never drops, adds or reorders a non-space character (one text, a tree of inline
   boxes, and the once-per-ancestor processing of elementToBox) *)
Theorem C02_whitespace_preserves_non_space_text : forall m f t,
  non_ws (fst (process_text m f t)) = non_ws t.
Proof. exact process_text_non_ws. Qed.
Print Assumptions C02_whitespace_preserves_non_space_text.

Theorem C02_whitespace_preserves_non_space : forall b,
  flat_map (fun mt => non_ws (snd mt)) (texts (build b)) =
  flat_map (fun mt => non_ws (snd mt)) (texts b).
Proof. exact build_non_ws. Qed.
Print Assumptions C02_whitespace_preserves_non_space.

(* idempotent (text and returned flag), all five modes: processing a tree again
   with the same incoming flag changes nothing -- so the once-per-ancestor
   processing of elementToBox is harmless *)
Theorem C02_whitespace_idempotent : forall b f, pw f (fst (pw f b)) = pw f b.
Proof. exact pw_idempotent. Qed.
Print Assumptions C02_whitespace_idempotent.

Theorem C02_whitespace_idempotent_text : forall m f t,
  process_text m f (fst (process_text m f t)) = process_text m f t.
Proof. exact process_text_idempotent. Qed.
Print Assumptions C02_whitespace_idempotent_text.

(* CSS Text 3, 4.1.1 for the five modes.
   normal / nowrap: the result is THE text obtained by replacing every maximal run
   of spaces, tabs and line feeds by one space, minus one leading space when the
   previous text ended with a collapsible space; the returned flag says whether it
   ends with a space *)
Theorem C02_whitespace_spec_normal_nowrap : forall m f t,
  new_line_collapse m = true -> t <> [] ->
  exists out, collapses (norm_lf t) out /\
    (forall out', collapses (norm_lf t) out' -> out' = out) /\
    process_text m f t = (if f && has_prefix_sp out then tl out else out, has_suffix_sp out).
Proof.
  intros m f t H Hne. destruct (whitespace_spec_normal m f t H Hne) as (out & H1 & H2).
  exists out. split; auto. split; auto. intros out' H'. eapply collapses_functional; eauto.
Qed.
Print Assumptions C02_whitespace_spec_normal_nowrap.

(* pre / pre-wrap: preserved (only CR LF / CR become LF) *)
Theorem C02_whitespace_spec_pre_prewrap : forall m f t,
  space_collapse m = false -> t <> [] -> process_text m f t = (norm_lf t, false).
Proof. exact whitespace_spec_pre. Qed.
Print Assumptions C02_whitespace_spec_pre_prewrap.

(* pre-line: the text is cut at the line feeds, blanks next to a line feed are
   removed, every other run of blanks becomes one space, the line feeds stay *)
Theorem C02_whitespace_spec_preline : forall f t, t <> [] ->
  process_text WPreLine f t =
  (if f && has_prefix_sp (preline_spec t) then tl (preline_spec t) else preline_spec t,
   has_suffix_sp (preline_spec t)).
Proof.
  intros f t Hne. rewrite (process_text_core WPreLine f t Hne). cbn [space_collapse].
  rewrite whitespace_spec_preline. reflexivity.
Qed.
Print Assumptions C02_whitespace_spec_preline.

(* in the collapsing modes (normal, nowrap, pre-line) no tab and no two adjacent
   spaces survive: a collapsible run yields at most one space *)
Theorem C02_whitespace_never_two_spaces : forall m f t,
  space_collapse m = true -> snf false (fst (process_text m f t)).
Proof. exact whitespace_no_double_space. Qed.
Print Assumptions C02_whitespace_never_two_spaces.

(* --- every text box of a page yields exactly one DrawText call, with its text, in
   document order, when it is visible, not blank and has a font size; none otherwise *)
Theorem C02_drawn_once : forall b,
  draw_events b =
  map (fun x => snd x) (filter (fun x => drawable (fst (fst x)) (snd (fst x)) (snd x)) (text_boxes b)).
Proof. exact drawn_once. Qed.
Print Assumptions C02_drawn_once.

(* --- the visibility of a line box / inline box / container does not decide whether the text
   boxes inside it are drawn (drawInlineLevel visits the children of a hidden box: a
   descendant may set `visibility: visible`) *)
Theorem C02_draw_ignores_container_visibility : forall b,
  draw_events b = draw_events (show_boxes b).
Proof. exact draw_ignores_container_visibility. Qed.
Print Assumptions C02_draw_ignores_container_visibility.

(* --- with inheritance (CSS 2.1 11.2): exactly the non-blank texts whose nearest ancestor that
   sets `visibility` sets it to visible (none: the initial value) reach the backend, once
   each, in document order -- in particular visible descendants of hidden boxes *)
Theorem C02_visible_descendants_drawn : forall b inh,
  draw_events (resolve_visibility inh b) =
  filter (fun t => negb (forallb is_space_rune t)) (visible_texts inh b).
Proof. exact visible_descendants_drawn. Qed.
Print Assumptions C02_visible_descendants_drawn.

(* --- tree.ResumeStack.Equals (target.go:50-62), the guard of the page cache of the
   repagination rounds (remakePage keeps the cached next page only when the page made again
   ends at the same resume point): on stacks in canonical form (entries by increasing key at
   every level; nil = empty map) it holds exactly for EQUAL stacks, however deep down two
   stacks differ *)
Theorem C02_resume_stack_equals_iff_eq : forall r o,
  ms_canonical r = true -> ms_canonical o = true -> (ms_equals r o = true <-> r = o).
Proof. exact ms_equals_iff_eq. Qed.
Print Assumptions C02_resume_stack_equals_iff_eq.

Theorem C02_resume_stack_eqb_decides_eq : forall r o, ms_eqb r o = true <-> r = o.
Proof. exact ms_eqb_eq. Qed.
Print Assumptions C02_resume_stack_eqb_decides_eq.

(* two resume points in the same paragraph (same keys and sizes at every level but the last
   key) are told apart *)
Example C02_example_equals_deep_difference :
  ms_equals (fst ms_deep_pair) (snd ms_deep_pair) = false /\
  length (ms_entries (fst ms_deep_pair)) = length (ms_entries (snd ms_deep_pair)).
Proof. exact ms_equals_separates_deep_difference. Qed.

(* --- findEarlierPageBreak among the children of a block container, out-of-flow boxes
   (float / absolutely positioned placeholders) included: keeping children[:j] and resuming
   at child j -- the first removed child -- is a consistent step wherever the break falls,
   so (C02_fragment_steps_conserve) nothing is lost; in particular every rewind the scan of
   blocks.go:1180-1203 finds *)
Theorem C02_rewind_resumes_at_first_removed_child :
  forall (U : Type) (cs : list (child U)) j,
    step_ok nat U (sib_content_from U cs) (rewound_step U cs j j).
Proof. exact rewind_at_first_removed_ok. Qed.
Print Assumptions C02_rewind_resumes_at_first_removed_child.

Theorem C02_find_earlier_page_break_step_ok :
  forall (U : Type) (avoid_after : nat -> bool) (cs : list (child U)) s,
    find_earlier_step U avoid_after cs = Some s -> step_ok nat U (sib_content_from U cs) s.
Proof. exact find_earlier_step_ok. Qed.
Print Assumptions C02_find_earlier_page_break_step_ok.

(* resuming at a later child r (e.g. the next in-flow sibling) is consistent if and only
   if the children between the break and r carry no content: an out-of-flow box that sits
   exactly at the rewound break must be the resume point *)
Theorem C02_rewind_resume_at_later_child_iff :
  forall (U : Type) (cs : list (child U)) j r,
    j <= r ->
    (step_ok nat U (sib_content_from U cs) (rewound_step U cs j r) <->
     flat_map c_units (firstn (r - j) (skipn j cs)) = []).
Proof. exact rewind_at_later_child_iff. Qed.
Print Assumptions C02_rewind_resume_at_later_child_iff.

(* --- a table row split between two pages: with the rule of tables.go:180-184 (a cell that
   is absent from the row's resume map resumes at its end) every cell is conserved,
   finished on the first page or not *)
Theorem C02_row_split_cell_conserved :
  forall (U : Type) (c : list U) p, p <= length c -> cell_two_pages U true c p = c.
Proof. exact row_split_cell_conserved. Qed.
Print Assumptions C02_row_split_cell_conserved.

(* ... and it is needed: reading the missing key as the nil stack lays every finished
   non-empty cell out a second time *)
Theorem C02_row_split_nil_stack_refuted :
  forall (U : Type) (c : list U), c <> [] -> cell_two_pages U false c (length c) <> c.
Proof. exact row_split_nil_stack_not_conserved. Qed.
Print Assumptions C02_row_split_nil_stack_refuted.

(* --- a continued cell of which nothing fits on a page is conserved when it resumes where
   it was (tables.go:221-232 since /repo 7408964).  Resuming it at {0: nil}, as the code did
   before, violates the statement (the fixed finding
   C02/table-cell-restarted-after-empty-fragment, witness corpus/C02/005-*.json) *)
Theorem C02_cell_nothing_fits_resume_ok :
  forall (U : Type) (c : list U) s, cell_three_pages U false c s = c.
Proof. exact cell_nothing_fits_resume_ok. Qed.
Print Assumptions C02_cell_nothing_fits_resume_ok.

Theorem C02_cell_nothing_fits_restart_refuted :
  exists (c : list nat) s, cell_three_pages nat true c s <> c.
Proof. exists [1; 2; 3], 2. vm_compute. discriminate. Qed.
Print Assumptions C02_cell_nothing_fits_restart_refuted.

(* --- the hypotheses are inhabited *)
(* a float F between the in-flow siblings b and c, `avoid` before d: the scan keeps [a; b]
   and resumes at F (index 2); resuming at c (index 3) would not be a consistent step *)
Example C02_example_rewind_at_out_of_flow_box :
  let cs := [mkChild true [1]; mkChild true [2]; mkChild false [9]; mkChild true [3]] in
  find_earlier_break nat (fun _ => false) cs = Some 2 /\
  sib_content_from nat cs 0 = placed (rewound_step nat cs 2 2) ++ sib_content_from nat cs 2 /\
  sib_content_from nat cs 0 <> placed (rewound_step nat cs 2 3) ++ sib_content_from nat cs 3.
Proof. vm_compute. repeat split; auto. discriminate. Qed.

Example C02_example_row_split :
  cell_two_pages nat true [1; 2] 2 = [1; 2] /\ cell_two_pages nat false [1; 2] 2 = [1; 2; 1; 2] /\
  cell_two_pages nat true [1; 2; 3] 1 = [1; 2; 3].
Proof. vm_compute. auto. Qed.


Example C02_example_steps :
  let content_from := idx_content 5 in
  let steps := [mkStep 0 [0; 1] (Some 2); mkStep 2 [2; 3; 4] None] in
  linked nat nat 0 steps None /\ Forall (step_ok nat nat content_from) steps /\
  flat_map (@placed nat nat) steps = [0; 1; 2; 3; 4].
Proof. cbn. repeat split; auto; repeat constructor. Qed.

Example C02_example_whitespace :
  texts (build (IBox [IText WNormal [32; 97; 32; 10]%N; IBox [IText WNormal [32; 98]%N]]))
  = [(WNormal, [32; 97; 32]%N); (WNormal, [98]%N)].
Proof. vm_compute. reflexivity. Qed.

(* --- the re-split of splitInlineBox (inline.go:877-902: the last child of an inline box fits
   on the line, but not followed by the box's end padding / border / margin; it is split again,
   and once more at its last possible break point).  Every single split is a consistent step;
   the step that keeps the box of the split at k_last and resumes where the split at k_res
   says conserves the text if and only if both come from the same split. *)
Theorem C02_split_step_ok : forall (U : Type) (ws : list U) k,
  step_ok nat U (text_from U ws) (split_step U ws k).
Proof. exact split_step_ok. Qed.
Print Assumptions C02_split_step_ok.

Theorem C02_split_retry_same_split_iff : forall (U : Type) (ws : list U) k_last k_res,
  k_last <= length ws -> k_res <= length ws ->
  (step_ok nat U (text_from U ws) (retry_step U ws k_last k_res) <-> k_res = k_last).
Proof. exact split_retry_same_split_iff. Qed.
Print Assumptions C02_split_retry_same_split_iff.

(* `aa bb cc` kept up to `bb` (2 units) while the resume point is the one of the split after
   `aa`: `bb` is laid out twice *)
Example C02_example_split_retry_duplicates :
  let s := retry_step nat [1; 2; 3] 2 1 in
  placed s ++ text_from nat [1; 2; 3] 1 = [1; 2; 2; 3].
Proof. reflexivity. Qed.

(* --- a fragmented break-inside: avoid block that is cancelled and laid out again on the next
   page (blocks.go:485-499): the text of an out-of-flow child broken by the same page end is
   laid out exactly once iff the cancelled layout left no continuation of it registered (or
   one that designates nothing) *)
Theorem C02_cancelled_block_registration_iff : forall (U : Type) (text : list U) registered,
  cancel_restart_text U text registered = text <->
  match registered with Some p => skipn p text = [] | None => True end.
Proof. exact cancelled_block_registration_iff. Qed.
Print Assumptions C02_cancelled_block_registration_iff.

(* --- proof-extension round: ResumeStack.Equals (ms_equals) is an equivalence relation on
   canonical stacks (reflexive, symmetric as a boolean function, transitive), and coincides
   there with the structural decision procedure ms_eqb *)
Theorem C02_resume_stack_equals_refl : forall r,
  ms_canonical r = true -> ms_equals r r = true.
Proof. exact ms_equals_refl_canonical. Qed.
Print Assumptions C02_resume_stack_equals_refl.

Theorem C02_resume_stack_equals_sym : forall r o,
  ms_canonical r = true -> ms_canonical o = true -> ms_equals r o = ms_equals o r.
Proof. exact ms_equals_sym_canonical. Qed.
Print Assumptions C02_resume_stack_equals_sym.

Theorem C02_resume_stack_equals_trans : forall r o p,
  ms_canonical r = true -> ms_canonical o = true -> ms_canonical p = true ->
  ms_equals r o = true -> ms_equals o p = true -> ms_equals r p = true.
Proof. exact ms_equals_trans_canonical. Qed.
Print Assumptions C02_resume_stack_equals_trans.

Theorem C02_resume_stack_equals_agrees_eqb : forall r o,
  ms_canonical r = true -> ms_canonical o = true -> ms_equals r o = ms_eqb r o.
Proof. exact ms_equals_eqb_canonical. Qed.
Print Assumptions C02_resume_stack_equals_agrees_eqb.

(* --- proof-extension round: white-space processing never makes a text longer, in any of
   the five modes (with C02_whitespace_preserves_non_space_text: only white space is removed) *)
Theorem C02_whitespace_length_never_grows : forall m f t,
  (length (fst (process_text m f t)) <= length t)%nat.
Proof. exact process_text_length_le. Qed.
Print Assumptions C02_whitespace_length_never_grows.
