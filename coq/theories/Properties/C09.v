(* Properties/C09.v -- The box tree obeys the CSS box-generation rules.
   Only statements, closed by `exact`, each followed by Print Assumptions.
   Model: Box/BoxGen.v (port of html/boxes/build.go: CreateAnonymousBox and its
   five passes, wrapTable, makeBox's display switch), Box/TableGrid.v (grid
   slots).  Specification: Box/BoxWf.v (wf, wf_root), Box/TableGridSpec.v,
   Box/MakeBoxSpec.v.  Check/C09.v ties the model to /repo on every run. *)
From Verif Require Import Base.GoSem Box.BoxGen Box.TableGrid Box.TableGridSpec Box.TableGridProofs
  Box.BoxWf Box.MakeBoxSpec Box.BoxInv Box.TableFixupProofs Box.TableFixupTotal Box.FlexGridProofs Box.InlineInBlockProofs
  Box.BlockInInlineProofs Box.BlockInInlineTotal Box.BoxSim Box.BoxWfProofs Box.BoxTotal Box.ElementsProofs
  Box.TableGridOverlap Box.TableGridOverlapBox Box.ElementGen Box.ElementGenProofs
  Box.RunInv Box.RunSim Box.RunFlexGrid Box.RunWf Box.RunIIB Box.RunBII Box.RunBIITotal Box.RunTableB Box.RunTableTotal
  Box.RunningProofs Box.BoxGenMore.
From Coq Require Import ZArith List Bool.
Import ListNotations.
Open Scope Z_scope.

(* ------------------------------------------------------------------ display -> box type *)
(* every supported display value generates the box type CSS names for it
   (outer display: block-/inline-level, inner display: kind of container,
   table-internal values: the table part); every other value generates no box *)
Theorem C09_makebox_table_total : forall d0 d1 d2,
  (supported d0 d1 = true -> exists t, make_box_type d0 d1 d2 = Some t /\ box_type_ok d0 d1 t = true) /\
  (supported d0 d1 = false -> make_box_type d0 d1 d2 = None).
Proof. exact make_box_total. Qed.
Print Assumptions C09_makebox_table_total.

Theorem C09_box_type_determined : forall d0 d1 t t',
  box_type_ok d0 d1 t = true -> box_type_ok d0 d1 t' = true -> t = t'.
Proof. exact box_type_unique. Qed.
Print Assumptions C09_box_type_determined.

(* display:none generates no box *)
Theorem C09_display_none_no_box : forall d1 d2, make_box_type DNone d1 d2 = None.
Proof. intros d1 d2. destruct d1; reflexivity. Qed.
Print Assumptions C09_display_none_no_box.

(* ------------------------------------------------------------------ grid slots *)
(* For every row group whose cells have colspan >= 0 and rowspan >= 0 (the
   attribute parser gives colspan >= 1, rowspan >= 0) the assignment of
   wrapTable never panics, its first-free-column loop terminates, and:
   rowspans are clipped to the group and GridX >= 0 (slot_in_group); no cell
   covers the column a later cell is anchored on (anchors_free); each cell is
   anchored on the least column at or after the end of the previous cell of
   its row that no cell of an earlier row covers (rows_placed / row_placed);
   if no cell spans several columns all slots are pairwise disjoint. *)
Theorem C09_slots : forall g,
  group_spans_ok g ->
  exists g',
    box_assign_group g = Ok g' /\
    group_grid_ok g' = true /\
    rows_placed box box bcolspan browspan bgridx place_cell ch set_ch [] 0
                (Z.of_nat (length (ch g))) (ch g) (ch g') /\
    ((forall r c, In r (ch g) -> In c (ch r) -> colspan (mu c) <= 1) -> group_disjoint g' = true).
Proof. exact box_group_grid. Qed.
Print Assumptions C09_slots.

(* the same for any representation of cells (used by C13 on plain records) *)
Theorem C09_slots_generic :
  forall (cell row : Type) (colspan_of rowspan_of gridx_of : cell -> Z) (place : cell -> Z -> Z -> cell)
         (cells_of : row -> list cell) (set_cells : row -> list cell -> row),
    (forall c x r, gridx_of (place c x r) = x) ->
    (forall c x r, rowspan_of (place c x r) = r) ->
    (forall c x r, colspan_of (place c x r) = colspan_of c) ->
    (forall r cs, cells_of (set_cells r cs) = cs) ->
    forall rows,
      rows_spans_ok cell row colspan_of rowspan_of cells_of rows ->
      exists rows',
        assign_group cell row colspan_of rowspan_of place cells_of set_cells rows = Ok rows' /\
        rows_placed cell row colspan_of rowspan_of gridx_of place cells_of set_cells [] 0
                    (Z.of_nat (length rows)) rows rows' /\
        anchors_free (rows_slots cell row colspan_of rowspan_of gridx_of cells_of 0 rows') = true /\
        forallb (slot_in_group (Z.of_nat (length rows)))
                (rows_slots cell row colspan_of rowspan_of gridx_of cells_of 0 rows') = true.
Proof. exact assign_group_spec. Qed.
Print Assumptions C09_slots_generic.

(* The full statement of the property text, "no two cells on the same grid
   slot", for every row group: *)
Definition C09_slots_disjoint_statement : Prop :=
  forall g g', group_spans_ok g -> box_assign_group g = Ok g' -> group_disjoint g' = true.

(* It is FALSE of the faithful model (and of /repo: corpus/C09/colspan-over-rowspan.html):
   a cell with colspan 2 placed next to a cell row-spanning from above. *)
Definition cell_cs_rs (cs rs : Z) : box :=
  Box CellT (mkA 0 0 false false false false true 0 0 cs rs 1 []) (mkM 0 cs rs false false false false false) [].
Definition plain (t : bty) (l : list box) : box :=
  Box t (mkA 0 0 false false false false true 0 0 1 1 1 []) mut0 l.
Definition overlap_witness : box :=
  plain RowGroupT [plain RowT [cell_cs_rs 1 2; cell_cs_rs 1 1; cell_cs_rs 1 2]; plain RowT [cell_cs_rs 2 1]].

Theorem C09_slots_disjoint_refuted : ~ C09_slots_disjoint_statement.
Proof.
  intros H.
  assert (Hsp : group_spans_ok overlap_witness).
  { repeat constructor; simpl; discriminate. }
  destruct (box_assign_group overlap_witness) as [g'| |] eqn:E; [|vm_compute in E; discriminate..].
  specialize (H overlap_witness g' Hsp E).
  vm_compute in E. injection E as <-. vm_compute in H. discriminate.
Qed.
Print Assumptions C09_slots_disjoint_refuted.

(* What remains true of the property text: the ONLY cells of a row group that
   can share a slot are a cell spanning columns (colspan > 1) and a cell that
   spans down from a row above into one of its columns other than the first
   (colspan_over_rowspan a b: a earlier in document order, sy a < sy b,
   rowspan a > 1, colspan b > 1, b starts left of a).  Check/C09.v evaluates
   the same predicate on /repo's tree: any other overlap is code 12. *)
Theorem C09_slots_overlap_only_colspan_over_rowspan : forall g g',
  group_spans_ok g -> box_assign_group g = Ok g' -> group_overlaps_explained g' = true.
Proof. exact box_group_overlaps. Qed.
Print Assumptions C09_slots_overlap_only_colspan_over_rowspan.

Theorem C09_slots_overlap_generic :
  forall (cell row : Type) (colspan_of rowspan_of gridx_of : cell -> Z) (place : cell -> Z -> Z -> cell)
         (cells_of : row -> list cell) (set_cells : row -> list cell -> row),
    (forall c x r, gridx_of (place c x r) = x) ->
    (forall c x r, rowspan_of (place c x r) = r) ->
    (forall c x r, colspan_of (place c x r) = colspan_of c) ->
    (forall r cs, cells_of (set_cells r cs) = cs) ->
    forall rows rows',
      rows_spans_ok cell row colspan_of rowspan_of cells_of rows ->
      assign_group cell row colspan_of rowspan_of place cells_of set_cells rows = Ok rows' ->
      overlaps_explained (rows_slots cell row colspan_of rowspan_of gridx_of cells_of 0 rows') = true.
Proof. exact assign_group_overlaps. Qed.
Print Assumptions C09_slots_overlap_generic.

(* ------------------------------------------------------------------ the passes *)
(* Hypothesis of the pass theorems: `tree iok t` (Box/BoxInv.v) = the tree is
   as elementToBox builds it (no line box, no wrapper flag, text and replaced
   boxes without children, colspan/rowspan attributes >= 0) and contains no
   position:running() element.  `tree (cok k)` is the invariant after pass k;
   `tree (cok 5)` implies the specification wf (C09_stage5_is_wf). *)

(* after AnonymousTableBoxes every table-internal box has a proper parent and
   every table sits in a wrapper (captions + table; column groups, row groups,
   rows, cells; grid slots assigned) *)
Theorem C09_table_fixup_wf : forall t t',
  tree iok t = true -> anonymous_table_boxes t = Ok t' ->
  fixed 1 t' = true /\ ty t' = result_ty (ty t).
Proof. exact atb_typed. Qed.
Print Assumptions C09_table_fixup_wf.

(* AnonymousTableBoxes is total: the recursion of tableBoxesChildren on the
   wrappers it creates is bounded (5 levels, the model runs it with fuel 8),
   wrapTable's byType[child.Type()] lookup only meets proper table children
   (no nil dereference), the column-group type assertion holds, the grid
   assignment neither panics nor loops *)
Theorem C09_table_fixup_total : forall t,
  tree iok t = true -> exists t', anonymous_table_boxes t = Ok t'.
Proof. exact atb_total. Qed.
Print Assumptions C09_table_fixup_total.

Corollary C09_wrap_table_total : forall t,
  tree iok t = true ->
  (forall site, anonymous_table_boxes t <> Panic site) /\ anonymous_table_boxes t <> OutOfFuel.
Proof.
  intros t H. destruct (atb_total t H) as [t' E]. rewrite E. split; [intros site|]; discriminate.
Qed.
Print Assumptions C09_wrap_table_total.

Theorem C09_flex_grid_items_blockified : forall t,
  tree (cok 1) t = true -> tree (cok 3) (grid_boxes (flex_boxes t)) = true.
Proof. exact flex_grid_items_blockified. Qed.
Print Assumptions C09_flex_grid_items_blockified.

Theorem C09_inline_in_block_wf : forall t t',
  tree (cok 3) t = true -> inline_in_block t = Ok t' -> tree (cok 4) t' = true /\ sim t t'.
Proof. exact iib_typed. Qed.
Print Assumptions C09_inline_in_block_wf.

(* InlineInBlock never meets a line box ("childBox can't be a LineBox") *)
Theorem C09_inline_in_block_total : forall t,
  tree (cok 3) t = true -> exists t', inline_in_block t = Ok t'.
Proof. exact iib_total. Qed.
Print Assumptions C09_inline_in_block_total.

(* BlockInInline: for EVERY amount of fuel (no bound on nesting depth), a
   returned tree has no in-flow block-level box inside an inline or line box *)
Theorem C09_block_in_inline_wf_partial : forall fuel t t',
  tree (cok 4) t = true -> ty t <> InlineT -> ty t <> LineT ->
  block_in_inline fuel t = Ok t' -> tree (cok 5) t' = true /\ sim t t'.
Proof. exact bii_typed. Qed.
Print Assumptions C09_block_in_inline_wf_partial.

(* ... and it terminates without panic: the resume stacks it builds are valid
   positions ("Should not skip here" and box.Children[skip:] are unreachable),
   each resumption is strictly further in the line, and the fuel S (size t)
   given by create_anonymous suffices (Box/BlockInInlineTotal.v) *)
Theorem C09_block_in_inline_wf : forall t,
  tree (cok 4) t = true -> ty t <> InlineT -> ty t <> LineT ->
  exists t', block_in_inline (S (size t)) t = Ok t' /\ tree (cok 5) t' = true.
Proof. exact block_in_inline_total_wf. Qed.
Print Assumptions C09_block_in_inline_wf.

Theorem C09_stage5_is_wf : forall t, tree (cok 5) t = true -> wf t = true.
Proof. exact tree_cok5_wf. Qed.
Print Assumptions C09_stage5_is_wf.

(* ------------------------------------------------------------------ composition *)
(* CreateAnonymousBox: whenever the five passes return a tree for a document
   without running elements whose root generates a block-level box, that tree
   is well formed: block containers hold only block-level boxes or one line
   box, inline and line boxes only inline-level / out-of-flow boxes, tables
   sit in wrappers with captions, column groups, row groups > rows > cells,
   flex and grid containers hold only blockified items, replaced and text
   boxes have no children. *)
Theorem C09_create_anonymous_wf_partial : forall t t',
  input_ok t = true -> block_flow_t (result_ty (ty t)) = true ->
  create_anonymous t = Ok t' -> wf_root t' = true.
Proof. exact create_anonymous_wf_root. Qed.
Print Assumptions C09_create_anonymous_wf_partial.

(* the first four passes always succeed and deliver the stage-4 invariant *)
Theorem C09_four_passes_total : forall t,
  input_ok t = true ->
  exists b1 b4, anonymous_table_boxes t = Ok b1 /\
                inline_in_block (grid_boxes (flex_boxes b1)) = Ok b4 /\
                tree (cok 4) b4 = true.
Proof.
  intros t Hin. destruct (atb_total t Hin) as [b1 H1].
  destruct (atb_typed t b1 Hin H1) as [F1 _].
  pose proof (flex_grid_items_blockified b1 (fixed_tree _ _ F1)) as T3.
  destruct (iib_total _ T3) as [b4 H4].
  exists b1, b4. split; [assumption|]. split; [assumption|]. apply (iib_typed _ b4 T3 H4).
Qed.
Print Assumptions C09_four_passes_total.

(* CreateAnonymousBox, full statement for documents without running elements:
   it always returns (no panic, no fuel exhaustion) and the tree it returns
   is well formed *)
Theorem C09_create_anonymous_wf : forall t,
  input_ok t = true -> block_flow_t (result_ty (ty t)) = true ->
  exists t', create_anonymous t = Ok t' /\ wf_root t' = true.
Proof. exact create_anonymous_total_wf. Qed.
Print Assumptions C09_create_anonymous_wf.

(* The fix-up invents no element: anonymous boxes take the element of the box
   they are created from, so if no box of the tree built by elementToBox
   belongs to one of the `hidden` elements (the display:none subtrees, for which
   elementToBox returns no box: build.go:203-206, C09_display_none_no_box) then
   no box of the formatting structure does.  No hypothesis on the tree. *)
Theorem C09_display_none_subtrees_generate_no_box : forall hidden t t',
  no_box_for hidden t = true -> create_anonymous t = Ok t' -> no_box_for hidden t' = true.
Proof. exact fixup_no_box_for. Qed.
Print Assumptions C09_display_none_subtrees_generate_no_box.

(* ------------------------------------------------------------------ which elements get boxes *)
(* Box/ElementGen.v models the control flow of elementToBox that decides which
   elements get boxes and where they go (box tree / footnote list): the
   display:none test comes first (build.go:203-206), float: footnote only
   decides that the boxes of a VISIBLE element move to the footnote list.
   Element identities are distinct (preorder numbering of the document).

   "display:none subtrees generate no box": no box of the tree and no box of the
   footnote list belongs to an element of a display:none subtree, whatever its
   float / footnote-display / position say. *)
Theorem C09_element_to_box_display_none : forall e, NoDup (all_ids e) ->
  forall x, In x (hidden_ids e) -> ~ In x (fst (e2b e)) /\ Forall (fun n => ~ In x n) (snd (e2b e)).
Proof. exact e2b_display_none_no_box. Qed.
Print Assumptions C09_element_to_box_display_none.

(* exactly the elements outside the display:none subtrees have boxes (up to
   handleElement, not modelled: a replaced element may generate none) *)
Theorem C09_element_to_box_visible : forall e x, In x (gen_ids (e2b e)) <-> In x (visible_ids e).
Proof. exact e2b_ids_visible. Qed.
Print Assumptions C09_element_to_box_visible.

(* the footnote list: the visible float: footnote elements other than the root,
   in the order in which they end (Check/C09.v code 13) *)
Theorem C09_footnote_list : forall e, note_roots (e2b e) = footnote_ids true e.
Proof. exact e2b_note_roots. Qed.
Print Assumptions C09_footnote_list.

(* a hidden footnote (elements 2, 3), a visible one (4) holding a nested one (5) *)
Example C09_example_footnotes :
  let d := El 0 false false [El 1 false false [El 2 true true [El 3 false false []];
                                               El 4 false true [El 5 false true []]; El 6 false false []]] in
  e2b d = ([0; 1; 6], [[5]; [4]]) /\ hidden_ids d = [2; 3] /\ NoDup (all_ids d).
Proof. split; [reflexivity|split; [reflexivity|]]. repeat constructor; cbn; intuition discriminate. Qed.

(* the same with position:running() elements in the document (running subtrees
   are skipped by all passes and opaque for wf; Check/C09.v checks it on every
   run).  The statement as first written: *)
Definition iok_running (b : box) : bool :=
  (0 <=? a_colspan (at_ b)) && (0 <=? a_rowspan (at_ b)) && mut_ok b && negb (is_wrap (mu b)) &&
  negb (is LineT b) && (parent_t (ty b) || no_kids (ch b)).
Definition C09_create_anonymous_wf_statement : Prop :=
  forall t, tree iok_running t = true -> block_flow_t (result_ty (ty t)) = true ->
  exists t', create_anonymous t = Ok t' /\ wf_root t' = true.

(* As stated it is FALSE of the model, for two reasons.
   (1) Colspan/Rowspan FIELDS are constrained on cells only (`mut_ok`), but
   wrapTable's grid assignment also runs over the unprocessed children of a
   running row / row group, whatever their type, and `[:rowspan-1]`
   (build.go:1267) panics on a negative Rowspan field.  Not reachable on /repo
   (the fields are 0 on non-cells; Check/C09.v feeds them as dumped): a gap of
   the hypothesis, not a defect. *)
Theorem C09_create_anonymous_wf_refuted :
  exists t, tree iok_running t = true /\ block_flow_t (result_ty (ty t)) = true /\
            create_anonymous t = Panic 1267%N.
Proof. exact create_anonymous_running_refuted. Qed.
Print Assumptions C09_create_anonymous_wf_refuted.

(* (2) real, = known finding C09/running-root-element: position: running() on
   a root element with display: table.  Every pass returns the running root as
   it is: a bare table box that is not in a wrapper is the root. *)
Theorem C09_create_anonymous_wf_running_root_refuted :
  exists t, tree iok_running t = true /\ tree sp t = true /\ block_flow_t (result_ty (ty t)) = true /\
            create_anonymous t = Ok t /\ wf_root t = false.
Proof. exact create_anonymous_running_root_refuted. Qed.
Print Assumptions C09_create_anonymous_wf_running_root_refuted.

Corollary C09_create_anonymous_wf_statement_false : ~ C09_create_anonymous_wf_statement.
Proof.
  intros H. destruct create_anonymous_running_refuted as (t & H1 & H2 & H3).
  destruct (H t H1 H2) as (t' & E & _). rewrite H3 in E. discriminate.
Qed.
Print Assumptions C09_create_anonymous_wf_statement_false.

(* The statement under the weakest side conditions excluding the two
   witnesses -- every box has Colspan, Rowspan fields >= 0 (`sp`), the root is
   not a running table (`rtab`) -- holds: CreateAnonymousBox returns (no
   panic, no fuel exhaustion) a well-formed tree for every document, running
   elements anywhere else included. *)
Theorem C09_create_anonymous_wf_running : forall t,
  tree iok_running t = true -> tree sp t = true -> rtab t = false ->
  block_flow_t (result_ty (ty t)) = true ->
  exists t', create_anonymous t = Ok t' /\ wf_root t' = true.
Proof. exact create_anonymous_wf_running. Qed.
Print Assumptions C09_create_anonymous_wf_running.

Example C09_running_example :
  tree iok_running running_witness0 = true /\ tree sp running_witness0 = true /\
  exists t', create_anonymous running_witness0 = Ok t' /\ wf_root t' = true.
Proof. exact create_anonymous_running_ok. Qed.

(* The passes with running elements.  Invariants (Box/RunInv.v):
   `treeR (cokR k)` = the stage-k invariant at every box that is not inside a
   running box; a running box is opaque (returned unchanged by the passes:
   `simR`), its parent treats it by its type, a running bare table may stay
   among flow children, fields stay >= 0 below running boxes.  `iokS` = what
   elementToBox delivers (iok_running) with fields >= 0 on every box. *)
Theorem C09_table_fixup_wf_running : forall t t',
  tree iokS t = true -> anonymous_table_boxes t = Ok t' ->
  fixedR 1 t' = true /\ ty t' = (if running t then ty t else result_ty (ty t)).
Proof. exact atb_typedR. Qed.
Print Assumptions C09_table_fixup_wf_running.

Theorem C09_table_fixup_total_running : forall t,
  tree iokS t = true -> exists t', anonymous_table_boxes t = Ok t'.
Proof. exact atb_totalR. Qed.
Print Assumptions C09_table_fixup_total_running.

Theorem C09_flex_grid_items_blockified_running : forall t,
  treeR (cokR 1) t = true -> treeR (cokR 3) (grid_boxes (flex_boxes t)) = true.
Proof. exact flex_grid_items_blockifiedR. Qed.
Print Assumptions C09_flex_grid_items_blockified_running.

Theorem C09_inline_in_block_wf_running : forall t t',
  treeR (cokR 3) t = true -> inline_in_block t = Ok t' -> treeR (cokR 4) t' = true /\ simR t t'.
Proof. exact iib_typedR. Qed.
Print Assumptions C09_inline_in_block_wf_running.

Theorem C09_inline_in_block_total_running : forall t,
  treeR (cokR 3) t = true -> exists t', inline_in_block t = Ok t'.
Proof. exact iib_totalR. Qed.
Print Assumptions C09_inline_in_block_total_running.

(* BlockInInline is called on running boxes (returned as they are) or on
   boxes that are neither inline nor line boxes (`bii_arg`) *)
Theorem C09_block_in_inline_wf_running : forall fuel t t',
  treeR (cokR 4) t = true -> bii_arg t ->
  block_in_inline fuel t = Ok t' -> treeR (cokR 5) t' = true /\ simR t t'.
Proof. exact bii_typedR. Qed.
Print Assumptions C09_block_in_inline_wf_running.

Theorem C09_block_in_inline_total_running : forall fuel t,
  treeR (cokR 4) t = true -> bii_arg t -> (S (size t) <= fuel)%nat ->
  exists t', block_in_inline fuel t = Ok t'.
Proof. exact bii_totalR. Qed.
Print Assumptions C09_block_in_inline_total_running.

Theorem C09_stage5_is_wf_running : forall t, treeR (cokR 5) t = true -> wf t = true.
Proof. exact treeR_cok5_wf. Qed.
Print Assumptions C09_stage5_is_wf_running.

(* the hypotheses are inhabited: a table cell and a block inside an inline box *)
Definition example_doc : box :=
  plain BlockT [
    plain InlineT [Box TextT (mkA 1 0 true false false false true 0 0 1 1 1 [97%N]) mut0 [];
                   plain BlockT [];
                   cell_cs_rs 2 0];
    plain FlexT [Box TextT (mkA 2 0 true false false false true 0 0 1 1 1 [98%N]) mut0 []]].
Example C09_example :
  input_ok example_doc = true /\
  exists t', create_anonymous example_doc = Ok t' /\ wf_root t' = true /\ tables_disjoint t' = true.
Proof. split; [reflexivity|]. eexists. split; [vm_compute; reflexivity|]. split; reflexivity. Qed.

(* ------------------------------------------------------------------ frame properties (Box/BoxGenMore.v)
   what AnonymousTableBoxes, FlexBoxes and GridBoxes leave untouched; any tree, no side condition *)
Theorem C09_leaf_untouched : forall b,
  parent_t (ty b) = false ->
  anonymous_table_boxes b = Ok b /\ flex_boxes b = b /\ grid_boxes b = b.
Proof. exact leaf_untouched. Qed.
Print Assumptions C09_leaf_untouched.

Theorem C09_running_untouched : forall b,
  running b = true ->
  anonymous_table_boxes b = Ok b /\ flex_boxes b = b /\ grid_boxes b = b.
Proof. exact running_untouched. Qed.
Print Assumptions C09_running_untouched.

Theorem C09_flex_grid_root_kept : forall b,
  ty (flex_boxes b) = ty b /\ at_ (flex_boxes b) = at_ b /\ mu (flex_boxes b) = mu b /\
  ty (grid_boxes b) = ty b /\ at_ (grid_boxes b) = at_ b /\ mu (grid_boxes b) = mu b.
Proof. exact flex_grid_root_kept. Qed.
Print Assumptions C09_flex_grid_root_kept.

Theorem C09_flex_grid_idem_untouched : forall b,
  parent_t (ty b) = false \/ running b = true ->
  flex_boxes (flex_boxes b) = flex_boxes b /\ grid_boxes (grid_boxes b) = grid_boxes b.
Proof. exact flex_grid_idem_untouched. Qed.
Print Assumptions C09_flex_grid_idem_untouched.

(* FlexBoxes / GridBoxes change nothing in a tree (of any depth) without flex / grid containers *)
Theorem C09_flex_boxes_id_no_flex : forall b,
  tree (fun x => negb (flex_container_t (ty x))) b = true -> flex_boxes b = b.
Proof. exact flex_boxes_id_no_flex. Qed.
Print Assumptions C09_flex_boxes_id_no_flex.

Theorem C09_grid_boxes_id_no_grid : forall b,
  tree (fun x => negb (grid_container_t (ty x))) b = true -> grid_boxes b = b.
Proof. exact grid_boxes_id_no_grid. Qed.
Print Assumptions C09_grid_boxes_id_no_grid.
