(* Properties/C09.v -- placeholder while the correspondence is brought up *)
From Verif Require Import Box.BoxGen Box.BoxWf.
Theorem C09_makebox_none : forall d1 d2, make_box_type DNone d1 d2 = None.
Proof. intros [] d2; reflexivity. Qed.
Print Assumptions C09_makebox_none.
