(* Properties/C15.v -- Rendering is deterministic and renders do not interfere.
   Only statements, closed by `exact`, each followed by Print Assumptions.
   Models: Draw/Determinism.v; proofs: Draw/DeterminismProofs.v; the inventory
   of global write sites is regenerated from /repo's source on every check
   (Generated/GlobalWrites.v, tools/globalwrites).

   How the property text is covered
   - "independent of map iteration order": one theorem per map-iteration site
     (site_perm_invariant_X): for every permutation the runtime may choose, the
     output of the site is unchanged.  Two sites were order-SENSITIVE on the
     pinned tree (anchors per page; brokenOutOfFlow): the `_refuted` theorems
     keep the witnesses, /repo was repaired (9dc0f60, 360d151) and the
     theorems below are about the repaired code.
   - "independent of earlier renders / concurrent renders do not change each
     other's output": noninterference, sequential_is_alone, diamond, under the
     hypothesis that no step writes a global -- discharged syntactically
     against the source by globals_readonly.
   - "neither race on shared state": data races are runtime behaviour that no
     Gallina model exhibits; covered by the -race runs of checks/C15.py. *)
From Verif Require Import Base.GoSem Draw.Determinism Draw.DeterminismProofs Generated.GlobalWrites.
From Coq Require Import List NArith ZArith QArith Bool String Permutation Sorted.
Import ListNotations.

(* ------------------------------------------------------------------ *)
(** canonical order: sorting a duplicate-free-key content gives the same list
    whatever order it was handed in (Go strings, bytewise order) *)
Theorem C15_canonical_order : forall (A : Type) (key : A -> name) (l l' : list A),
  NoDup (map key l) -> Permutation l l' ->
  sort_by key bytes_leb l = sort_by key bytes_leb l'.
Proof.
  exact (fun A key => sort_by_perm_invariant key bytes_leb bytes_leb_total bytes_leb_trans bytes_leb_antisym).
Qed.
Print Assumptions C15_canonical_order.

(** anchors per page, document.go resolveLinks (after 9dc0f60) *)
Theorem C15_site_perm_invariant_anchors : forall pages pages',
  Forall anchors_nodup pages -> Forall2 (@Permutation anchor) pages pages' ->
  resolve_anchors pages = resolve_anchors pages' /\
  forall t, link_kept pages t = link_kept pages' t.
Proof. exact resolve_anchors_perm_invariant. Qed.
Print Assumptions C15_site_perm_invariant_anchors.

Theorem C15_anchors_sorted : forall pages,
  Forall (StronglySorted (le_key a_name bytes_leb)) (resolve_anchors pages).
Proof. exact resolve_anchors_sorted. Qed.
Print Assumptions C15_anchors_sorted.

(* the loop of the pinned tree (DESIGN section 6 #14), replayed on Go by the
   corpus document corpus/C15/anchors_two_ids.json *)
Theorem C15_site_anchors_unordered_refuted :
  exists p p', anchors_nodup p /\ Permutation p p' /\
    resolve_anchors_unordered [p] <> resolve_anchors_unordered [p'].
Proof. exact resolve_anchors_unordered_refuted. Qed.
Print Assumptions C15_site_anchors_unordered_refuted.

(** range loops writing only the entry of their own key: general theorem *)
Theorem C15_keyed_range_perm_invariant :
  forall (K W A L : Type) (keqb : K -> K -> bool) (key : A -> K),
  (forall a b, reflect (a = b) (keqb a b)) ->
  forall (f : A -> @store K W -> option W) (g : A -> @store K W -> list L) (frozen : K -> bool),
  (forall a s s', agree_for key frozen a s s' -> f a s = f a s') ->
  (forall a s s', agree_for key frozen a s s' -> g a s = g a s') ->
  forall l l' st, NoDup (map key l) -> (forall a, In a l -> frozen (key a) = false) ->
  Permutation l l' -> keq (krange keqb key f g l st) (krange keqb key f g l' st).
Proof. exact (@krange_perm_invariant). Qed.
Print Assumptions C15_keyed_range_perm_invariant.

(** pseudo-element computed styles, html/tree/style.go:129-136, for every
    computedFromCascaded / anchor function *)
Theorem C15_site_perm_invariant_pseudo_styles :
  forall (casc style : Type) (compute : N -> name -> casc -> option style -> option style -> style)
         (anchor_of : style -> name) (root : N) (is_page_type : N -> bool)
         (l l' : list (@pentry casc)) st,
  NoDup (map fst l) -> Permutation l l' ->
  keq (pseudo_pass compute anchor_of root is_page_type l st)
      (pseudo_pass compute anchor_of root is_page_type l' st).
Proof. exact (@pseudo_pass_perm_invariant). Qed.
Print Assumptions C15_site_perm_invariant_pseudo_styles.

(** SVG attribute cascade and `inherit`, svg/tree.go:86-92, 109-113, elements.go:478-485 *)
Theorem C15_site_perm_invariant_svg_cascade : forall not_inherited (l l' : list attr) child,
  NoDup (map fst l) -> Permutation l l' ->
  forall k, svg_cascade not_inherited l child k = svg_cascade not_inherited l' child k.
Proof. exact svg_cascade_perm_invariant. Qed.
Print Assumptions C15_site_perm_invariant_svg_cascade.

Theorem C15_svg_cascade_spec : forall not_inherited l child k v,
  NoDup (map fst l) -> In (k, v) l ->
  svg_cascade not_inherited l child k =
    if not_inherited k then child k else match child k with Some w => Some w | None => Some v end.
Proof. exact svg_cascade_spec. Qed.
Print Assumptions C15_svg_cascade_spec.

Theorem C15_site_perm_invariant_svg_inherit : forall parent (l l' : list attr) child,
  NoDup (map fst l) -> Permutation l l' ->
  forall k, svg_inherit parent l child k = svg_inherit parent l' child k.
Proof. exact svg_inherit_perm_invariant. Qed.
Print Assumptions C15_site_perm_invariant_svg_inherit.

(** string-set / bookmark-label pass, html/layout/layout.go:212-227 *)
Theorem C15_site_perm_invariant_string_set_bookmark :
  forall (reparse : css_token -> name) (mlink : N) l l' s,
  NoDup l -> Permutation l l' ->
  rs_equiv (relabel_pass reparse mlink l s) (relabel_pass reparse mlink l' s).
Proof. exact relabel_pass_perm_invariant. Qed.
Print Assumptions C15_site_perm_invariant_string_set_bookmark.

(** brokenOutOfFlow, html/layout/pages.go:722-747, blocks.go:488-490 *)
(* pinned tree: order-sensitive (two left floats broken at the same page
   break); replayed on Go by corpus/C15/three_broken_floats.json *)
Theorem C15_site_brokenOutOfFlow_unordered_refuted :
  exists (l l' : list N), NoDup l /\ Permutation l l' /\
    reinsert_unordered place_left l <> reinsert_unordered place_left l'.
Proof. exact reinsert_unordered_refuted. Qed.
Print Assumptions C15_site_brokenOutOfFlow_unordered_refuted.

(* repaired type (360d151): what is visited, and in which order, does not
   depend on the runtime's order of the underlying map *)
Theorem C15_site_perm_invariant_brokenOutOfFlow : forall (V : Type) keys (m m' : list (N * V)),
  NoDup (map fst m) -> Permutation m m' -> om_values (OM keys m) = om_values (OM keys m').
Proof. exact (@om_values_perm_invariant). Qed.
Print Assumptions C15_site_perm_invariant_brokenOutOfFlow.

Theorem C15_brokenOutOfFlow_reinsert_deterministic :
  forall (B P : Type) (place : list P -> B -> P) keys (m m' : list (N * B)),
  NoDup (map fst m) -> Permutation m m' ->
  reinsert_ordered place (OM keys m) = reinsert_ordered place (OM keys m').
Proof.
  exact (fun B P place keys m m' Hnd Hp =>
           f_equal (fun vs => reinsert_unordered place
                      (flat_map (fun x => match x with Some v => [v] | None => [] end) vs))
                   (om_values_perm_invariant keys m m' Hnd Hp)).
Qed.
Print Assumptions C15_brokenOutOfFlow_reinsert_deterministic.

Theorem C15_ordered_map_invariant : forall (V : Type) (o other : omap V) k v,
  om_wf (@om_empty V) /\
  (om_wf o -> om_wf (om_set o k v)) /\ (om_wf o -> om_wf (om_delete o k)) /\
  (om_wf o -> om_wf (om_update o other)).
Proof.
  exact (fun V o other k v => conj om_empty_wf (conj (om_set_wf o k v) (conj (om_delete_wf o k) (om_update_wf o other)))).
Qed.
Print Assumptions C15_ordered_map_invariant.

(* `clear` ranges over the Go map while deleting: any order empties it *)
Theorem C15_ordered_map_clear : forall (V : Type) (o : omap V) order,
  Permutation order (map fst (om_map o)) -> om_clear o order = om_empty.
Proof. exact (@om_clear_empty). Qed.
Print Assumptions C15_ordered_map_clear.

(* Python-dict semantics of the repaired type *)
Theorem C15_ordered_map_dict_semantics : forall (V : Type) (o : omap V) k v,
  (om_wf o -> alist_get (om_map o) k = None -> om_values (om_set o k v) = om_values o ++ [Some v]) /\
  (alist_get (om_map o) k <> None ->
     om_keys (om_set o k v) = om_keys o /\
     om_values (om_set o k v) =
       map (fun k' => if N.eqb k' k then Some v else alist_get (om_map o) k') (om_keys o)).
Proof.
  exact (fun V o k v => conj (om_set_new_appends o k v) (om_set_existing_keeps_place o k v)).
Qed.
Print Assumptions C15_ordered_map_dict_semantics.

(** ResumeStack.Unpack, html/tree/target.go:30-37 *)
Theorem C15_site_perm_invariant_unpack_single : forall (l l' : list (Z * rstack)),
  List.length l = 1%nat -> Permutation l l' -> unpack l = unpack l'.
Proof. exact unpack_single_perm_invariant. Qed.
Print Assumptions C15_site_perm_invariant_unpack_single.

(* full statement (every stack) is FALSE for the faithful model: *)
Definition C15_site_perm_invariant_unpack_statement : Prop :=
  forall (l l' : list (Z * rstack)), NoDup (map fst l) -> Permutation l l' -> unpack l = unpack l'.
Theorem C15_site_unpack_multi_refuted :
  exists l l', NoDup (map fst l) /\ Permutation l l' /\ unpack l <> unpack l'.
Proof. exact unpack_multi_refuted. Qed.
Print Assumptions C15_site_unpack_multi_refuted.

Theorem C15_unpack_result_is_an_entry : forall l,
  match unpack l with
  | Ok e => In e l
  | Panic s => l = [] /\ s = unpack_site
  | OutOfFuel => False end.
Proof. exact unpack_in. Qed.
Print Assumptions C15_unpack_result_is_an_entry.

(* ------------------------------------------------------------------ *)
(** interference *)
Theorem C15_noninterference : forall (G C : Type) (g0 : G) (progs : list (C * list (@step G C))) (sched : list nat),
  all_readonly progs ->
  let '(g, ts) := exec sched g0 (start progs) in
  g = g0 /\
  (finished ts -> map fst ts = map (fun p => snd (run_alone (snd p) g0 (fst p))) progs).
Proof. exact (@noninterference). Qed.
Print Assumptions C15_noninterference.

(* history independence: A then B gives B what B alone gives *)
Theorem C15_sequential_is_alone : forall (G C : Type) (g0 : G) (progs : list (C * list (@step G C))),
  all_readonly progs ->
  run_sequentially g0 progs = (g0, map (fun p => snd (run_alone (snd p) g0 (fst p))) progs).
Proof. exact (@sequential_is_alone). Qed.
Print Assumptions C15_sequential_is_alone.

Theorem C15_diamond : forall (G C : Type) (ts : @threads G C), ts_readonly ts ->
  forall i j g, i <> j -> exec [i; j] g ts = exec [j; i] g ts.
Proof. exact (@fire_commute). Qed.
Print Assumptions C15_diamond.

(* the read-only hypothesis cannot be dropped *)
Theorem C15_interference_with_global_write :
  exists (progs : list (N * list (@step N N))) s1 s2,
    let r1 := exec s1 0%N (start progs) in
    let r2 := exec s2 0%N (start progs) in
    finished (snd r1) /\ finished (snd r2) /\ map fst (snd r1) <> map fst (snd r2).
Proof. exact interference_with_global_write. Qed.
Print Assumptions C15_interference_with_global_write.

(* ------------------------------------------------------------------ *)
(** shared state that IS written after init: caches.

    The one package-level variable written after init(), text/hyphen.
    dictionariesCache (under its mutex = atomic steps), is a memo cache of
    parseHyphDic, a function of the embedded file only.  `readonly` does not
    hold for such steps; what holds is weaker and sufficient: every step keeps
    an invariant of the shared state under which what it computes does not
    depend on that state (`benign`). *)
Theorem C15_benign_noninterference :
  forall (G C : Type) (I : G -> Prop) (g0 g1 : G) (progs : list (C * list (@step G C))) (sched : list nat),
  I g0 -> I g1 -> all_benign I progs ->
  let '(g, ts) := exec sched g0 (start progs) in
  I g /\ (finished ts -> map fst ts = map (fun p => snd (run_alone (snd p) g1 (fst p))) progs).
Proof. exact (@benign_noninterference). Qed.
Print Assumptions C15_benign_noninterference.

Theorem C15_benign_sequential_is_alone :
  forall (G C : Type) (I : G -> Prop) (g0 g1 : G) (progs : list (C * list (@step G C))),
  I g0 -> I g1 -> all_benign I progs ->
  I (fst (run_sequentially g0 progs)) /\
  snd (run_sequentially g0 progs) = map (fun p => snd (run_alone (snd p) g1 (fst p))) progs.
Proof. exact (@benign_sequential_is_alone). Qed.
Print Assumptions C15_benign_sequential_is_alone.

(* a memo cache of a pure function f: renders that look f up through the shared
   cache end, under every schedule and from any consistent initial cache (empty
   in a fresh process, filled by earlier renders otherwise), with the context
   of the cache-free computation: no interference, no history dependence *)
Theorem C15_memo_cache_transparent :
  forall (K V C : Type) (keqb : K -> K -> bool), (forall a b, keqb a b = true <-> a = b) ->
  forall (f : K -> V) (progs : list (C * list (K * (V -> C -> C)))) (sched : list nat) (g0 : @mcache K V),
  cache_ok keqb f g0 ->
  let '(g, ts) := exec sched g0 (start (map (memo_prog keqb f) progs)) in
  cache_ok keqb f g /\ (finished ts -> map fst ts = map (pure_result f) progs).
Proof. exact (@memo_cache_transparent). Qed.
Print Assumptions C15_memo_cache_transparent.

(* ... which needs the cached value to be a function of the KEY alone.  The
   ex/ch ratio cache (text.CharacterRatio) is keyed by the font description but
   its value is measured with the render's own font configuration: it is sound
   as part of the render's context (html/tree/style.go gives each root style a
   new cache), *)
Theorem C15_ratio_cache_per_render :
  forall (K V C G : Type) keqb (measure : K -> V) k use,
  readonly (@ratio_step_local K V C G keqb measure k use) /\
  forall (g : G) m (c : C), cache_ok keqb measure m ->
    snd (snd (ratio_step_local keqb measure k use g (m, c))) = use (measure k) c.
Proof. intros. split; [apply ratio_step_local_readonly|apply ratio_step_local_value]. Qed.
Print Assumptions C15_ratio_cache_per_render.

(* and unsound as a process-wide one: the second render gets the first one's ratio *)
Theorem C15_ratio_cache_shared_refuted :
  exists (m1 m2 : N -> N) (k : N),
    let r1 := (0%N, [ratio_step_shared N.eqb m1 k (fun v _ => v)]) in
    let r2 := (0%N, [ratio_step_shared N.eqb m2 k (fun v _ => v)]) in
    snd (run_sequentially [] [r1; r2]) <> [snd (run_alone (snd r1) [] 0%N); snd (run_alone (snd r2) [] 0%N)].
Proof. exact ratio_step_shared_refuted. Qed.
Print Assumptions C15_ratio_cache_shared_refuted.

(* a table shared through a pointer: working on a copy is read-only, adding the
   offset through the pointer makes the second hyphenation of a word differ *)
Theorem C15_shared_pointer_copy_readonly : forall id v, readonly (iterate_copy id v).
Proof. exact iterate_copy_readonly. Qed.
Print Assumptions C15_shared_pointer_copy_readonly.

Theorem C15_shared_pointer_inplace_refuted :
  exists g id v,
    let p := (0%N, [iterate_inplace id v]) in
    snd (run_sequentially g [p; p]) <> [snd (run_alone (snd p) g 0%N); snd (run_alone (snd p) g 0%N)].
Proof. exact iterate_inplace_refuted. Qed.
Print Assumptions C15_shared_pointer_inplace_refuted.

(* ------------------------------------------------------------------ *)
(** the read-only hypothesis against the source: every syntactic write site on
    a package-level variable outside init() is covered by a reviewed line of
    tools/globalwrites/allow.txt.  (Generated/GlobalWrites.v is rewritten from
    /repo's working tree before this file is compiled: a new write site makes
    this proof fail.) *)
Theorem C15_globals_readonly : not_allowed allowed writes = [].
Proof. vm_compute. exact eq_refl. Qed.
Print Assumptions C15_globals_readonly.

(* [writes] also holds the stores THROUGH a local alias of global data found by
   the typed pass (kinds alias-assign / alias-incdec / alias-range /
   alias-builtin:  x := g.Ptr; x.Field op= ..  /  p := g[k]; *p = ..).

   What a syntactic write inventory cannot see is a reference into a global's
   data that leaves the function that loaded it.  Two more inventories bound
   that, both re-generated from the working tree with go/types:

   escapes   every site where a value of reference-carrying type read from a
             package-level variable leaves the pure-read position (stored in a
             local / field / element, passed to a call, returned, put in a
             composite literal, ranged over, receiver of a method).  Reviewed
             per (variable, how, callee): a NEW package-level variable handed
             to per-render objects -- a per-render cache turned into a global
             -- is not covered and breaks the lemma. *)
Theorem C15_escaping_globals_reviewed : not_allowed allowed escapes = [].
Proof. vm_compute. exact eq_refl. Qed.
Print Assumptions C15_escaping_globals_reviewed.

(* twrites   every store through a reference (p.f = .., s[i] = .., m[k] = ..,
             *p = .., delete / clear / copy) into an object whose static type
             is reachable from the type of a package-level variable, unless the
             object is created in the same function: a type-based
             over-approximation of "may write into global (or otherwise
             shared) data", reviewed per (type, operation, function).  A
             function that starts to store through a pointer obtained from a
             shared table (e.g. `data := index.Data; data.Index += ..` instead
             of working on the copy `*index.Data`), or to compute into the
             declared value it was given, is a new (type, function) pair. *)
Theorem C15_stores_into_shared_types_reviewed : tnot_allowed tallowed twrites = [].
Proof. vm_compute. exact eq_refl. Qed.
Print Assumptions C15_stores_into_shared_types_reviewed.

(* every range over a Go map outside init() is either one of the modelled
   sites (theorems C15_site_perm_invariant_* above) or reviewed as
   order-insensitive, per (function, map type, shape of the body) *)
Theorem C15_map_ranges_reviewed : mnot_allowed mallowed map_ranges = [].
Proof. vm_compute. exact eq_refl. Qed.
Print Assumptions C15_map_ranges_reviewed.

(* sanity of the typed inventory against the syntactic one (two independent
   resolutions of the same source): every escaping variable, and every variable
   of reference-carrying type, is a package-level variable the parser listed.
   (An escaping variable need not be of reference-carrying type itself: slicing
   a package-level array, `g[:]`, hands out a reference to it.) *)
Theorem C15_inventories_consistent :
  forallb (fun w => existsb (String.eqb (gw_var w)) globals) escapes = true /\
  forallb (fun g => existsb (String.eqb g) globals) ref_globals = true.
Proof. split; vm_compute; exact eq_refl. Qed.
Print Assumptions C15_inventories_consistent.

(* precondition of C15_site_perm_invariant_unpack_single against the source:
   every construction of a tree.ResumeStack in the module is a composite
   literal with at most one entry (no make(), no conversion); the Go code has
   no other way to add a key except an index store, of which grep finds none
   (stated in the trusted base) *)
Theorem C15_resume_stacks_single_key : forallb single_key_site resume_stack_sites = true.
Proof. vm_compute. exact eq_refl. Qed.
Print Assumptions C15_resume_stacks_single_key.

(* non-vacuity *)
Example C15_anchor_example :
  resolve_anchors [[An [98] 1 1; An [97] 0 0]; [An [97] 5 5; An [65] 2 2]]%N
  = [[An [97] 0 0; An [98] 1 1]; [An [65] 2 2]]%N.
Proof. vm_compute. reflexivity. Qed.

Example C15_omap_example :
  om_run [OSet 3 30; OSet 1 10; OSet 3 31; OSet 2 20; ODelete 1; OUpdate [(5, 50); (2, 21)]]%N
  = [31; 21; 50]%N.
Proof. vm_compute. reflexivity. Qed.

Example C15_readonly_inhabited : @all_readonly N N [(0%N, [fun g c => (g, (c + g)%N)])].
Proof. repeat constructor. Qed.
