(* Properties/C04.v -- Every property has a computed value obtained by CSS defaulting.
   Only statements, closed by `exact`, each followed by Print Assumptions.

   Vocabulary (Css/Defaulting.v): a document is a list of style nodes (elements,
   pseudo-elements, page contexts and margin boxes: KElem; anonymous boxes: KAnon), each
   with its cascaded declarations and the node it inherits from.  `get ar fixed t st n p`
   is the model of ComputedStyle.Get / AnonymousStyle.Get as a state machine over the
   per-style caches, `construct` the model of the construction of a style object;
   `computed ar fixed t n p` is the cache-free reference semantics.  `fixed = true` is the
   model of the current code, `fixed = false` of the code before the two `fix:` commits
   04fd1df / 14f58ba.  Check/C04.v ties the float32 instance (ar = f32, fixed = true) to
   /repo on every run; the tables are regenerated from the source on every run. *)
From Verif Require Import Css.Defaulting Css.DefaultingSpec Css.DefaultingTyping Css.DefaultingProofs Css.DefaultingTables
                          Css.DefaultingEquations Css.DefaultingTotal Css.DefaultingSpecProofs
                          Css.DefaultingCopy Css.DefaultingCopyProofs Css.DefaultingMore.
From Coq Require Import QArith List.
Import ListNotations.
Open Scope N_scope.

(* ------------------------------------------------------------------ any access order *)

(* For EVERY well-formed history of style constructions and Get calls (styles are used
   after they are constructed, and constructed after the style they inherit from), starting
   from no style at all, every Get returns the cache-free computed value whenever there is
   one.  The invariant carried through the proof: every cached entry of every constructed
   style, and every field captured at construction (root font size, specified
   position/display/float), equals its cache-free value.  Any arithmetic, old and new code. *)
Theorem C04_cache_transparent : forall (ar : arith) (fixed : bool) (t : tree) (ops : list op),
  wf_tree t = true ->
  hist_ok t [] ops ->
  constructs_succeed ops (snd (run_ops ar fixed t empty_styles ops)) ->
  Forall2 (fun o r => match o with
                      | OGet n p => forall v, computed ar fixed t n p = Ok v -> r = Ok (Some v)
                      | OConstruct _ => True
                      end) ops (snd (run_ops ar fixed t empty_styles ops)).
Proof. intros ar fixed t ops WF. exact (cache_transparent ar fixed t WF ops). Qed.
Print Assumptions C04_cache_transparent.

(* the order newStyleFor uses (all styles in tree order) followed by ANY sequence of Gets *)
Theorem C04_any_get_order_is_a_history : forall (t : tree) (gets : list (N * N)),
  wf_tree t = true ->
  Forall (fun np => (N.to_nat (fst np) < List.length t)%nat) gets ->
  hist_ok t [] (init_ops t ++ get_ops gets).
Proof. intros t gets WF. exact (hist_ok_init t WF gets). Qed.
Print Assumptions C04_any_get_order_is_a_history.

(* ------------------------------------------------------------------ totality *)

(* On a well-typed tree (declared values have the Go type their validator produces, font
   sizes are not negative, recorded results of non-modelled computer functions have the type
   of a computed value) every node -- root included, pseudo-elements, page contexts,
   anonymous boxes -- has a computed value for every property: no nil dereference, no failed
   type assertion, no infinite recursion. *)
Theorem C04_get_total : forall (t : tree) (n p : N),
  wt_tree t = true -> (N.to_nat n < List.length t)%nat -> valid_prop p ->
  exists v, computed exactQ true t n p = Ok v.
Proof. intros t n p WT Hn Hp. exact (get_total_value t WT n p Hn Hp). Qed.
Print Assumptions C04_get_total.

(* ... and in every history every construction succeeds and every Get returns it *)
Theorem C04_every_history_returns_computed : forall (t : tree) (ops : list op),
  wt_tree t = true ->
  hist_ok t [] ops ->
  (forall n p, In (OGet n p) ops -> valid_prop p) ->
  Forall2 (fun o r => match o with
                      | OGet n p => exists v, computed exactQ true t n p = Ok v /\ r = Ok (Some v)
                      | OConstruct _ => r = Ok None
                      end) ops (snd (run_ops exactQ true t empty_styles ops)).
Proof. intros t ops WT. exact (history_total t WT ops). Qed.
Print Assumptions C04_every_history_returns_computed.

(* The faithful model of the code BEFORE the fixes violates totality on well-typed trees:
   <html style="font-weight: bolder"> (computed_values.go fontWeight dereferenced the nil
   parent style) and <html style="text-indent: var(--undefined)"> / "--x: inherit;
   text-indent: var(--x)" (style.go cascadeValue read c.parentStyle.Get on the root).
   Witnesses replayed on /repo: corpus/C04/root-font-weight-bolder.html,
   corpus/C04/root-pending-invalid.html. *)
Theorem C04_get_total_refuted_before_fix :
  (wt_tree witness_bolder_root = true /\
   computed exactQ false witness_bolder_root 0 PFontWeight = Panic 2) /\
  (wt_tree witness_pending_root = true /\
   computed exactQ false witness_pending_root 0 PTextIndent = Panic 2).
Proof.
  exact (conj (conj witness_bolder_root_wt (proj1 get_total_refuted_before_fix))
              (conj witness_pending_root_wt (proj1 get_total_refuted_before_fix_pending))).
Qed.
Print Assumptions C04_get_total_refuted_before_fix.

(* ------------------------------------------------------------------ CSS Cascade 4, section 7 *)

(* `defaulted`: no declaration (or one invalid at computed-value time) => the parent's
   computed value if the property is inherited, else the initial value; `inherit` /
   `initial` force the two; an explicit value is computed; the root inherits the initial
   values.  Every property except the two families the implementation propagates. *)
Theorem C04_defaulting_equations : forall (ar : arith) (t : tree) (n : N) (nd : node) (p : N),
  wf_tree t = true -> node_at t n = Some nd -> n_kind nd = KElem ->
  is_text_decoration p = false -> p <> PPage ->
  computed ar true t n p =
    let initial_ := match initial p with
                    | None => Panic 9
                    | Some v => if initial_not_computed p then compute_value ar t n nd p v else Ok v
                    end in
    let inherit_ := match n_parent nd with Some j => computed ar true t j p | None => initial_ end in
    match effective nd p with
    | None => if inherited p then inherit_ else initial_
    | Some CInherit => inherit_
    | Some CInitial => initial_
    | Some (CExplicit v) => compute_value ar t n nd p v
    | Some (CPending _) => Panic 7
    end.
Proof. intros ar t n nd p WF. exact (defaulting_equations ar t WF n nd p). Qed.
Print Assumptions C04_defaulting_equations.

(* text-decoration-* and page: defaulted as above, then propagated from the parent *)
Theorem C04_propagated_equations : forall (ar : arith) (t : tree) (n : N) (nd : node) (p : N),
  wf_tree t = true -> node_at t n = Some nd -> n_kind nd = KElem ->
  is_text_decoration p = true \/ p = PPage ->
  computed ar true t n p = let* v := defaulted ar t n nd p in propagate ar t nd p v.
Proof. intros ar t n nd p WF. exact (propagated_equations ar t WF n nd p). Qed.
Print Assumptions C04_propagated_equations.

(* anonymous boxes: inherited properties (and page) from the parent, initial values
   otherwise, border / outline widths zero, text decorations propagated *)
Theorem C04_anonymous_spec : forall (ar : arith) (t : tree) (n : N) (nd : node) (j p : N),
  wf_tree t = true -> node_at t n = Some nd -> n_kind nd = KAnon -> n_parent nd = Some j ->
  computed ar true t n p =
    if mem_N p anon_presets then Ok (VDim "" 0 0)
    else if inherited p || (p =? PPage) then computed ar true t j p
    else match initial p with
         | None => Panic 9
         | Some iv => if is_text_decoration p
                      then let* pv := computed ar true t j p in td_value p iv pv false
                      else Ok iv
         end.
Proof. intros ar t n nd j p WF. exact (anonymous_equations ar t WF n nd j p). Qed.
Print Assumptions C04_anonymous_spec.

(* ------------------------------------------------------------------ copied styles *)

(* ComputedStyle.Copy / AnonymousStyle.Copy (Css/DefaultingCopy.v: `copy_style`): the copy is a
   new style object built from the same inputs as its source, i.e. a node `dst` with
   `node_at t dst = node_at t src`.  Such duplicates have the same computed values ... *)
Theorem C04_copy_computes_like_source : forall (ar : arith) (fixed : bool) (t : tree) (src dst : N) (nd : node) (p : N),
  wf_tree t = true -> node_at t src = Some nd -> node_at t dst = Some nd ->
  computed ar fixed t dst p = computed ar fixed t src p.
Proof. intros ar fixed t src dst nd p WF. exact (dup_computed ar fixed t WF src dst nd p). Qed.
Print Assumptions C04_copy_computes_like_source.

(* ... and cache transparency extends to histories in which styles are copied at ANY point
   (table wrappers, flex items, columns, leaders copy a style in the middle of the layout):
   every Get -- on a copy (whatever had been read on the source before the copy, whatever
   is first read on the copy: rem / em / ex-relative lengths included), on its source after
   the copy, on any other style -- returns the cache-free computed value.  What Copy()
   carries over (the cache, the root font size) and what it computes again (specified
   position / display / float) are covered by the invariant. *)
Theorem C04_cache_transparent_with_copies : forall (ar : arith) (fixed : bool) (t : tree) (ops : list xop),
  wf_tree t = true ->
  xhist_ok t [] ops ->
  xsucceed ops (snd (run_xops ar fixed t empty_styles ops)) ->
  Forall2 (fun o r => match o with
                      | XGet n p => forall v, computed ar fixed t n p = Ok v -> r = Ok (Some v)
                      | _ => True
                      end) ops (snd (run_xops ar fixed t empty_styles ops)).
Proof. intros ar fixed t ops WF. exact (copy_transparent ar fixed t WF ops). Qed.
Print Assumptions C04_cache_transparent_with_copies.

(* ------------------------------------------------------------------ tables (regenerated from the source) *)

(* 1in = 96px = 72pt = 6pc = 2.54cm = 25.4mm = 101.6q: the translated LengthsToPixels table
   is the CSS table for every uint8 unit, and the identities hold exactly *)
Theorem C04_unit_table_correct :
  (forall u, u < 256 -> Qeq_opt (assoc_N lengths_to_pixels u) (css_px_per u) = true) /\
  px_per exactQ U_Px == 1 /\
  px_per exactQ U_In == 96 * px_per exactQ U_Px /\
  px_per exactQ U_In == 72 * px_per exactQ U_Pt /\
  px_per exactQ U_In == 6 * px_per exactQ U_Pc /\
  px_per exactQ U_In == (254 # 100) * px_per exactQ U_Cm /\
  px_per exactQ U_In == (254 # 10) * px_per exactQ U_Mm /\
  px_per exactQ U_In == (1016 # 10) * px_per exactQ U_Q.
Proof. exact (conj unit_table_all unit_identities). Qed.
Print Assumptions C04_unit_table_correct.

(* which properties inherit / have a context dependent initial value: the sets of the
   source are the sets transcribed from the CSS specifications *)
Theorem C04_property_tables_spec : forall p, valid_prop p ->
  inherited p = mem_S (prop_name p) css_inherited_names /\
  initial_not_computed p = mem_S (prop_name p) css_context_dependent_initial /\
  (exists v, initial p = Some v) /\
  prop_id (prop_name p) = p.
Proof.
  intros p Hp.
  exact (conj (inherited_table_spec p Hp) (conj (initial_not_computed_table_spec p Hp)
        (conj (initial_defined p Hp) (proj2 (prop_names_complete p Hp))))).
Qed.
Print Assumptions C04_property_tables_spec.

Theorem C04_font_tables_spec :
  (forall w, In w css_weights ->
     fw_table font_weight_bolder w = css_bolder w /\ fw_table font_weight_lighter w = css_lighter w) /\
  map fst font_size_keywords = css_size_names /\
  forallb (fun e => match css_font_size_ratio (fst e) with
                    | Some r => Qeq_bool r (fst (snd e) / snd (snd e))
                    | None => false end) font_size_keywords = true /\
  forallb (fun e => Qeq_opt (css_border_keyword (fst e)) (Some (snd e))) border_width_keywords = true.
Proof.
  exact (conj font_weight_tables (conj font_size_keyword_names
        (conj font_size_keyword_ratios (proj1 border_width_keywords_spec)))).
Qed.
Print Assumptions C04_font_tables_spec.

(* borderWidth reads the border style as property `name - 1`: that is the matching style *)
Theorem C04_border_style_precedes_width : forall p, valid_prop p -> computer_of p = KBorderWidth ->
  prop_name (N.pred p) = style_name (prop_name p) /\ computer_of (N.pred p) = KNone /\ valid_prop (N.pred p).
Proof. exact border_style_precedes_width. Qed.
Print Assumptions C04_border_style_precedes_width.

(* ------------------------------------------------------------------ relative values made absolute *)

(* lengths: absolute units by the fixed ratios, em against the element's own computed font
   size, rem against the root's (the initial value on the root) *)
Theorem C04_length_spec : forall (t : tree) (n : N) (nd : node) (p : N) (v : value) s q u (fs rfs : Q),
  wf_tree t = true -> node_at t n = Some nd -> n_kind nd = KElem ->
  computer_of p = KLength -> effective nd p = Some (CExplicit v) ->
  v = VDim s q u -> (s = "" \/ s = "auto" \/ s = "content")%string -> uses_metrics u = false -> u < 256 ->
  (exists sf uf, computed exactQ true t n PFontSize = Ok (VDim sf fs uf)) ->
  match n_parent nd with
  | Some _ => exists sr ur, computed exactQ true t 0 PFontSize = Ok (VDim sr rfs ur)
  | None => rfs = 16%Q
  end ->
  exists r, computed exactQ true t n p = Ok r /\ value_eq r (spec_length fs rfs U_Px v).
Proof. intros t n nd p v s q u fs rfs WF. exact (length_computed t WF n nd p v s q u fs rfs). Qed.
Print Assumptions C04_length_spec.

(* font-size: em and percentages against the PARENT's computed font size (the initial value
   on the root), rem against the root's, keywords by the CSS ratios of `medium` *)
Theorem C04_font_size_relative_spec : forall (t : tree) (n : N) (nd : node) (v : value) s q u (pfs rfs : Q),
  wf_tree t = true -> node_at t n = Some nd -> n_kind nd = KElem ->
  effective nd PFontSize = Some (CExplicit v) ->
  v = VDim s q u -> In s font_size_words -> uses_metrics u = false -> u < 256 ->
  match n_parent nd with
  | Some j => (exists sp up, computed exactQ true t j PFontSize = Ok (VDim sp pfs up)) /\
              (exists sr ur, computed exactQ true t 0 PFontSize = Ok (VDim sr rfs ur))
  | None => pfs = 16%Q /\ rfs = 16%Q
  end ->
  (0 <= pfs)%Q ->
  exists r, computed exactQ true t n PFontSize = Ok r /\ value_eq r (spec_font_size 16 pfs rfs v).
Proof. intros t n nd v s q u pfs rfs WF. exact (font_size_computed t WF n nd v s q u pfs rfs). Qed.
Print Assumptions C04_font_size_relative_spec.

(* font-weight: bolder / lighter against the parent's computed weight (400 on the root) *)
Theorem C04_font_weight_relative_spec : forall (t : tree) (n : N) (nd : node) (v : value) s i (pfw : Z),
  wf_tree t = true -> node_at t n = Some nd -> n_kind nd = KElem ->
  effective nd PFontWeight = Some (CExplicit v) -> v = VIntStr s i ->
  match n_parent nd with
  | Some j => exists sp, computed exactQ true t j PFontWeight = Ok (VIntStr sp pfw)
  | None => pfw = 400%Z
  end ->
  In pfw css_weights ->
  computed exactQ true t n PFontWeight = Ok (spec_font_weight pfw v).
Proof. intros t n nd v s i pfw WF. exact (font_weight_computed t WF n nd v s i pfw). Qed.
Print Assumptions C04_font_weight_relative_spec.

(* on a well-typed tree no side condition is left: the parent's computed weight is always
   one of 100, 200, .., 900 (invariant of C04_get_total) *)
Theorem C04_font_weight_relative_total : forall (t : tree) (n : N) (nd : node) (v : value) s i,
  wt_tree t = true -> node_at t n = Some nd -> n_kind nd = KElem ->
  effective nd PFontWeight = Some (CExplicit v) -> v = VIntStr s i ->
  exists pfw,
    In pfw css_weights /\
    match n_parent nd with
    | Some j => exists sp, computed exactQ true t j PFontWeight = Ok (VIntStr sp pfw)
    | None => pfw = 400%Z
    end /\
    computed exactQ true t n PFontWeight = Ok (spec_font_weight pfw v).
Proof. intros t n nd v s i WT. exact (font_weight_computed_wt t (WF t WT) n nd v s i WT). Qed.
Print Assumptions C04_font_weight_relative_total.

(* the computer functions of border widths, line-height, display and float, run in an
   environment `env` answering what they read through the style, compute what CSS 2.1
   8.5.1 / 10.8.1 / 9.7 define *)
Theorem C04_box_computers_spec : forall (env : dep -> res value),
  (forall p v sty (fs rfs : Q) s q u,
     env (DOwn (N.pred p)) = Ok (VStr sty) ->
     v = VDim s q u -> In s [""; "thin"; "medium"; "thick"]%string -> uses_metrics u = false -> u < 256 ->
     (exists sr ur, env DRootFs = Ok (VDim sr rfs ur)) ->
     (exists sf uf, env (DOwn PFontSize) = Ok (VDim sf fs uf)) ->
     exists r, run_pure env (border_width exactQ p v) = Ok r /\ value_eq r (spec_border_width sty fs rfs v)) /\
  (forall v (fs rfs : Q) s q u,
     v = VDim s q u -> (s = "" \/ s = "normal")%string -> uses_metrics u = false -> u < 256 ->
     (exists sr ur, env DRootFs = Ok (VDim sr rfs ur)) ->
     (exists sf uf, env (DOwn PFontSize) = Ok (VDim sf fs uf)) ->
     exists r, run_pure env (line_height exactQ v) = Ok r /\ value_eq r (spec_line_height fs rfs v)) /\
  (forall (isr : bool) v pb ps fl a b c,
     env DSpecPos = Ok (VBoolStr pb ps) -> env DSpecFloat = Ok (VStr fl) -> v = VDisplay a b c ->
     run_pure env (display isr v) =
       Ok (spec_display (negb pb && (String.eqb ps "absolute" || String.eqb ps "fixed")) (negb (String.eqb fl "none")) isr v)) /\
  (forall v pb ps s,
     env DSpecPos = Ok (VBoolStr pb ps) -> v = VStr s ->
     run_pure env (floating v) = Ok (spec_float (String.eqb ps "absolute" || String.eqb ps "fixed" || pb) v)).
Proof.
  intros env.
  exact (conj (border_width_spec env) (conj (line_height_spec env) (conj (display_spec env) (float_spec env)))).
Qed.
Print Assumptions C04_box_computers_spec.

(* line-height lifted to `computed` (CSS 2.1 10.8.1): on an element that declares it, the
   computed value is spec_line_height of the element's own computed font size ... *)
Theorem C04_line_height_computed : forall (t : tree) (n : N) (nd : node) v s q u (fs rfs : Q),
  wf_tree t = true ->
  node_at t n = Some nd -> n_kind nd = KElem ->
  effective nd PLineHeight = Some (CExplicit v) ->
  v = VDim s q u -> (s = "" \/ s = "normal")%string -> uses_metrics u = false -> u < 256 ->
  (exists sf uf, computed exactQ true t n PFontSize = Ok (VDim sf fs uf)) ->
  match n_parent nd with
  | Some _ => exists sr ur, computed exactQ true t 0 PFontSize = Ok (VDim sr rfs ur)
  | None => rfs = 16%Q
  end ->
  exists r, computed exactQ true t n PLineHeight = Ok r /\ value_eq r (spec_line_height fs rfs v).
Proof. intros t n nd v s q u fs rfs WF. exact (line_height_computed t WF n nd v s q u fs rfs). Qed.
Print Assumptions C04_line_height_computed.

(* ... a percentage computes to the absolute LENGTH q% of the own font size (unit px), not
   to a factor ... *)
Theorem C04_line_height_percent_is_a_length : forall (t : tree) (n : N) (nd : node) q (fs : Q),
  wf_tree t = true ->
  node_at t n = Some nd -> n_kind nd = KElem ->
  effective nd PLineHeight = Some (CExplicit (VDim "" q U_Perc)) ->
  (exists sf uf, computed exactQ true t n PFontSize = Ok (VDim sf fs uf)) ->
  (exists sr rfs ur, computed exactQ true t 0 PFontSize = Ok (VDim sr rfs ur)) ->
  exists x, computed exactQ true t n PLineHeight = Ok (VDim "" x U_Px) /\ x == q / 100 * fs.
Proof. intros t n nd q fs WF. exact (line_height_percent_computed t WF n nd q fs). Qed.
Print Assumptions C04_line_height_percent_is_a_length.

(* ... and a descendant without declaration inherits that computed value as it is, whatever
   its own font size (only a <number> is re-multiplied, at used-value time) *)
Theorem C04_line_height_inherited_as_computed : forall (t : tree) (n : N) (nd : node) j,
  wf_tree t = true ->
  node_at t n = Some nd -> n_kind nd = KElem ->
  effective nd PLineHeight = None -> n_parent nd = Some j ->
  computed exactQ true t n PLineHeight = computed exactQ true t j PLineHeight.
Proof. intros t n nd j WF. exact (line_height_inherited t WF n nd j). Qed.
Print Assumptions C04_line_height_inherited_as_computed.

(* vertical-align: <percentage> (CSS 2.1 10.8.1: "a percentage of the 'line-height' value" of
   the element itself).  `valign_percent` is the port of computed_values.go:975-977 +
   text.StrutLayout; it is not part of `compute` (the strut of `line-height: normal` needs the
   font), but every recorded result is audited against it (Check/C04.v, code 14).  Exact
   instance: the fraction q/100 of the used line height (the computed length, or the computed
   number times the element's computed font size); on font size 0 the implementation answers
   0; it is undefined exactly for `line-height: normal`. *)
Theorem C04_vertical_align_percent_spec : forall q fs lh x,
  valign_percent exactQ q fs lh = Some x ->
  (fs == 0 /\ x == 0) \/
  (~ fs == 0 /\ exists y, spec_vertical_align_percent q fs lh = Some y /\ x == y).
Proof. exact valign_percent_spec. Qed.
Print Assumptions C04_vertical_align_percent_spec.

Theorem C04_vertical_align_percent_defined : forall q fs lh,
  ~ fs == 0 ->
  (valign_percent exactQ q fs lh = None <-> spec_vertical_align_percent q fs lh = None).
Proof. exact valign_percent_defined. Qed.
Print Assumptions C04_vertical_align_percent_defined.

Example C04_vertical_align_percent_example :
  (* font-size 20px; line-height 150% computes to 30px: 50% -> 15;  line-height 1.5: the same *)
  (exists x, valign_percent exactQ 50 20 (VDim "" 30 U_Px) = Some x /\ x == 15) /\
  (exists y, spec_vertical_align_percent 50 20 (VDim "" (3 # 2) U_Scalar) = Some y /\ y == 15).
Proof. split; eexists; (split; [reflexivity | vm_compute; reflexivity]). Qed.

(* ex / ch (CSS Values 3 section 5.1.1): a length in ex (ch) on a property computed by `length`
   is the x-height (the advance of "0") of the font the element's OWN style selects -- the
   recorded metrics of that node -- scaled by the element's OWN computed font size.  Nothing
   else enters: not the other unit, not another element or document computed before. *)
Theorem C04_length_font_metrics_spec : forall (t : tree) (n : N) (nd : node) (p : N) (v : value) q u m (fs : Q),
  wf_tree t = true ->
  node_at t n = Some nd -> n_kind nd = KElem ->
  computer_of p = KLength ->
  effective nd p = Some (CExplicit v) ->
  v = VDim "" q u -> uses_metrics u = true ->
  n_metrics nd = Some m ->
  (exists sf uf, computed exactQ true t n PFontSize = Ok (VDim sf fs uf)) ->
  exists r, computed exactQ true t n p = Ok r /\ value_eq r (spec_font_metric_length fs (m_ex m) (m_ch m) U_Px v).
Proof. intros t n nd p v q u m fs WF. exact (length_metrics_computed t WF n nd p v q u m fs). Qed.
Print Assumptions C04_length_font_metrics_spec.

(* ... and under any environment, for every caller of length_ (font-size against the parent's
   font size, border widths, line-height, ...) *)
Theorem C04_length_font_metrics_program : forall (env : dep -> res value) v fso (fs xh zw : Q) po q u,
  v = VDim "" q u -> uses_metrics u = true ->
  (exists s1 u1, env (DRatio false) = Ok (VDim s1 xh u1)) ->
  (exists s1 u1, env (DRatio true) = Ok (VDim s1 zw u1)) ->
  match fso with
  | Some f => (0 <= f)%Q /\ fs = f
  | None => exists sf uf, env (DOwn PFontSize) = Ok (VDim sf fs uf)
  end ->
  exists r, run_pure env (length_ exactQ v fso po) = Ok r /\
            value_eq r (spec_font_metric_length fs xh zw (if po then U_Scalar else U_Px) v).
Proof. intros env. exact (length_metric_spec env). Qed.
Print Assumptions C04_length_font_metrics_program.

(* the ex / ch ratio cache of a document (pr.TextRatioCache + text.CharacterRatio): whatever
   sequence of (font description, unit) requests is made, each request returns the measure of
   THAT unit for THAT font description -- which is why the model above reads ex / ch as a
   function of the node alone *)
Theorem C04_ratio_cache_transparent : forall (measure : string -> bool -> Q) (reqs : list (string * bool)),
  character_ratios measure rc_empty reqs = map (fun kb => measure (fst kb) (snd kb)) reqs.
Proof. intros measure reqs. exact (character_ratios_transparent measure reqs rc_empty (rc_empty_sound measure)). Qed.
Print Assumptions C04_ratio_cache_transparent.

Theorem C04_ratio_cache_get_set : forall c k b v k' b',
  rc_get (rc_set c k b v) k' b' = if Bool.eqb b b' && String.eqb k k' then Some v else rc_get c k' b'.
Proof. exact rc_get_set. Qed.
Print Assumptions C04_ratio_cache_get_set.

(* bleed (CSS Paged Media 3 / GCPM): `auto` -- no declaration, `initial` or `auto` -- computes
   to 6pt = 8px when the computed `marks` of the same page context has `crop`, to 0 otherwise
   (`cross` plays no role); lengths as for `length` *)
Theorem C04_bleed_auto_spec : forall (t : tree) (n : N) (nd : node) (p : N) crop cross,
  wf_tree t = true ->
  node_at t n = Some nd -> n_kind nd = KElem ->
  computer_of p = KBleed ->
  (effective nd p = None \/ effective nd p = Some CInitial \/
   effective nd p = Some (CExplicit (VDim "auto" 0 0))) ->
  computed exactQ true t n PMarks = Ok (VMarks crop cross) ->
  exists r, computed exactQ true t n p = Ok r /\ value_eq r (VDim "" (if crop then 8 else 0) U_Px).
Proof. intros t n nd p crop cross WF. exact (bleed_auto_computed_px t WF n nd p crop cross). Qed.
Print Assumptions C04_bleed_auto_spec.

Theorem C04_bleed_program_spec : forall (env : dep -> res value) v crop cross (fs rfs : Q) s q u,
  env (DOwn PMarks) = Ok (VMarks crop cross) ->
  v = VDim s q u -> (s = "" \/ s = "auto")%string -> uses_metrics u = false -> u < 256 ->
  (exists sr ur, env DRootFs = Ok (VDim sr rfs ur)) ->
  (exists sf uf, env (DOwn PFontSize) = Ok (VDim sf fs uf)) ->
  exists r, run_pure env (bleed exactQ v) = Ok r /\ value_eq r (spec_bleed crop fs rfs v).
Proof. intros env. exact (bleed_spec env). Qed.
Print Assumptions C04_bleed_program_spec.

(* ------------------------------------------------------------------ the hypotheses are inhabited *)

(* html { font-size: 2rem; font-weight: lighter } > body { width: 3em; font-size: 150%;
   border-top-width: thick; border-top-style: solid } > (::before { font-weight: bolder }),
   an anonymous box under body, and a page context inheriting from the root *)
Definition ahem : option metrics := Some (mkMetrics (8 # 10) 1).
Definition example_tree : tree := Eval vm_compute in
  [ mkNode None KElem [D PFontSize (CExplicit (VDim "" 2 U_Rem)); D PFontWeight (CExplicit (VIntStr "lighter" 0))] [] ahem;
    mkNode (Some 0) KElem [D (prop_id "width") (CExplicit (VDim "" 3 U_Em)); D PFontSize (CExplicit (VDim "" 150 U_Perc));
                           D PBorderTopWidth (CExplicit (VDim "thick" 0 0));
                           D (prop_id "border-top-style") (CExplicit (VStr "solid"))] [] ahem;
    mkNode (Some 1) KElem [D PFontWeight (CExplicit (VIntStr "bolder" 0))] [] ahem;
    mkNode (Some 1) KAnon [] [] None;
    mkNode (Some 0) KElem [D (prop_id "margin-top") (CExplicit (VDim "" 1 U_In))] [] ahem;
    (* <p style="font-size:10px; width:10ex; height:10ch"> in Ahem *)
    mkNode (Some 1) KElem [D PFontSize (CExplicit (VDim "" 10 U_Px)); D (prop_id "width") (CExplicit (VDim "" 10 U_Ex));
                           D (prop_id "height") (CExplicit (VDim "" 10 U_Ch))] [] ahem;
    (* @page { marks: crop } and @page :first { marks: cross; bleed-left: auto } *)
    mkNode (Some 0) KElem [D PMarks (CExplicit (VMarks true false))] [] ahem;
    mkNode (Some 0) KElem [D PMarks (CExplicit (VMarks false true)); D (prop_id "bleed-left") (CExplicit (VDim "auto" 0 0))] [] ahem ].

Example example_tree_well_typed : wt_tree example_tree = true.
Proof. vm_compute. reflexivity. Qed.

Definition example_gets : list (N * N) := Eval vm_compute in
  [(2, PFontWeight); (1, prop_id "width"); (3, PFontSize); (0, PFontSize); (1, PBorderTopWidth); (4, prop_id "margin-top");
   (5, prop_id "height"); (5, prop_id "width"); (6, prop_id "bleed-top"); (7, prop_id "bleed-left"); (7, prop_id "bleed-top")].

Example example_history_ok : hist_ok example_tree [] (init_ops example_tree ++ get_ops example_gets).
Proof. apply (hist_ok_init example_tree eq_refl). repeat constructor. Qed.

(* root 2rem = 32px, body 150% = 48px, width 3em = 144px, bolder(lighter(400)=100) = 400,
   thick with a solid style = 5px, 1in = 96px; 10ch of Ahem at 10px = 100px THEN 10ex = 80px (ch
   computed first); bleed: 8px under marks: crop, 0 under marks: cross; in that access order,
   with the caches *)
Definition same_result (a b : res (option value)) : bool :=
  match a, b with
  | Ok None, Ok None => true
  | Ok (Some x), Ok (Some y) => value_eqb x y     (* up to == on the rationals *)
  | _, _ => false
  end.

Example example_values :
  forallb (fun ab => same_result (fst ab) (snd ab))
    (combine (snd (run_ops exactQ true example_tree empty_styles (init_ops example_tree ++ get_ops example_gets)))
             [Ok None; Ok None; Ok None; Ok None; Ok None; Ok None; Ok None; Ok None;
              Ok (Some (VIntStr "" 400)); Ok (Some (VDim "" 144 U_Px)); Ok (Some (VDim "" 48 U_Scalar));
              Ok (Some (VDim "" 32 U_Scalar)); Ok (Some (VDim "" 5 U_Scalar)); Ok (Some (VDim "" 96 U_Px));
              Ok (Some (VDim "" 100 U_Px)); Ok (Some (VDim "" 80 U_Px));
              Ok (Some (VDim "" 8 U_Px)); Ok (Some (VDim "" 0 U_Px)); Ok (Some (VDim "" 0 U_Px))]) = true
  /\ List.length (snd (run_ops exactQ true example_tree empty_styles (init_ops example_tree ++ get_ops example_gets))) = 19%nat.
Proof. split; vm_compute; reflexivity. Qed.

(* final round: laws of the relative font weights (CSS Fonts 3), for EVERY integer weight *)
Theorem C04_bolder_monotone : forall a b : Z, (a <= b)%Z -> (css_bolder a <= css_bolder b)%Z.
Proof. exact css_bolder_monotone. Qed.
Print Assumptions C04_bolder_monotone.

Theorem C04_lighter_monotone : forall a b : Z, (a <= b)%Z -> (css_lighter a <= css_lighter b)%Z.
Proof. exact css_lighter_monotone. Qed.
Print Assumptions C04_lighter_monotone.

Theorem C04_relative_weight_bounds : forall w : Z, (100 <= w <= 900)%Z ->
  (w <= css_bolder w <= 900)%Z /\ (100 <= css_lighter w <= w)%Z /\
  In (css_bolder w) css_weights /\ In (css_lighter w) css_weights.
Proof. exact css_relative_weight_bounds. Qed.
Print Assumptions C04_relative_weight_bounds.

Theorem C04_relative_weight_saturates : forall w : Z,
  css_bolder (css_bolder (css_bolder w)) = 900%Z /\ css_lighter (css_lighter (css_lighter w)) = 100%Z.
Proof. exact css_relative_weight_saturates. Qed.
Print Assumptions C04_relative_weight_saturates.
