(* Properties/C04.v -- placeholder while the model/correspondence is being built *)
From Verif Require Import Css.Defaulting.
