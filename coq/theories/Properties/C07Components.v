(* Properties/C07Components.v -- C07 "parsers of document-supplied text never crash":
   the components whose Panic-monad model belongs to another property.  Each
   theorem below is the totality theorem of the owning property, re-exported by
   `exact` (its statement is the type of the owner's theorem, printed by `Check`;
   the comment quotes it).  Kept apart from Properties/C07.v so that C07's own
   theorems do not depend on files other engineers are still editing;
   checks/C07.py compiles this file on every run and records in the evidence
   whether it is available. *)
From Verif Require Properties.C05 Properties.C06 Properties.C08 Properties.C14 Properties.C18
  Properties.C19 Properties.C20.

(* CSS tokenizer: forall skip s, exists ts, Tok.tokenize true skip s = Ok ts *)
Theorem C07_tokenize_total :
  ltac:(let t := type of Verif.Properties.C06.C06_tokenize_total in exact t).
Proof. exact Verif.Properties.C06.C06_tokenize_total. Qed.
Check C07_tokenize_total.
Print Assumptions C07_tokenize_total.

(* CSS rule / declaration-list / stylesheet parsers *)
Theorem C07_css_parsers_total :
  ltac:(let t := type of Verif.Properties.C06.C06_parsers_total in exact t).
Proof. exact Verif.Properties.C06.C06_parsers_total. Qed.
Check C07_css_parsers_total.
Print Assumptions C07_css_parsers_total.

(* ParseColorString (tokenizer + ParseOneComponentValue + ParseColor), both arithmetic instances *)
Theorem C07_color_string_total :
  ltac:(let t := type of Verif.Properties.C06.C06_color_total in exact t).
Proof. exact Verif.Properties.C06.C06_color_total. Qed.
Check C07_color_string_total.
Print Assumptions C07_color_string_total.

(* selector parser: forall s, exists r, parse_group s = Ok r *)
Theorem C07_sel_parse_total :
  ltac:(let t := type of Verif.Properties.C05.C05_sel_parse_total in exact t).
Proof. exact Verif.Properties.C05.C05_sel_parse_total. Qed.
Check C07_sel_parse_total.
Print Assumptions C07_sel_parse_total.

(* var() resolution, cyclic environments included *)
Theorem C07_resolve_var_total :
  ltac:(let t := type of Verif.Properties.C08.C08_resolve_var_total in exact t).
Proof. exact Verif.Properties.C08.C08_resolve_var_total. Qed.
Check C07_resolve_var_total.
Print Assumptions C07_resolve_var_total.

(* bookmark outline: the explicit panic is unreachable for levels >= 1 *)
Theorem C07_bookmark_no_panic :
  ltac:(let t := type of Verif.Properties.C14.C14_bookmark_no_panic in exact t).
Proof. exact Verif.Properties.C14.C14_bookmark_no_panic. Qed.
Check C07_bookmark_no_panic.
Print Assumptions C07_bookmark_no_panic.

(* SVG path data, number lists, viewBox / points *)
Theorem C07_svg_parse_total :
  ltac:(let t := type of Verif.Properties.C18.C18_svg_parse_total in exact t).
Proof. exact Verif.Properties.C18.C18_svg_parse_total. Qed.
Check C07_svg_parse_total.
Print Assumptions C07_svg_parse_total.

Theorem C07_svg_parse_points_total :
  ltac:(let t := type of Verif.Properties.C18.C18_parse_points_total in exact t).
Proof. exact Verif.Properties.C18.C18_parse_points_total. Qed.
Check C07_svg_parse_points_total.
Print Assumptions C07_svg_parse_points_total.

Theorem C07_svg_parse_viewbox_poly_total :
  ltac:(let t := type of Verif.Properties.C18.C18_parse_viewbox_poly_total in exact t).
Proof. exact Verif.Properties.C18.C18_parse_viewbox_poly_total. Qed.
Check C07_svg_parse_viewbox_poly_total.
Print Assumptions C07_svg_parse_viewbox_poly_total.

(* counter-style rendering for every table and value *)
Theorem C07_render_value_total :
  ltac:(let t := type of Verif.Properties.C19.C19_render_value_total in exact t).
Proof. exact Verif.Properties.C19.C19_render_value_total. Qed.
Check C07_render_value_total.
Print Assumptions C07_render_value_total.

(* the serializer (used when a prelude is re-parsed as a selector) *)
Theorem C07_serialize_total :
  ltac:(let t := type of Verif.Properties.C20.C20_serialize_total in exact t).
Proof. exact Verif.Properties.C20.C20_serialize_total. Qed.
Check C07_serialize_total.
Print Assumptions C07_serialize_total.
