(* Properties/C10.v -- Block-level boxes are sized and stacked per CSS 2.1.
   Only statements, closed by `exact`, each followed by Print Assumptions.
   All statements are about the exact-rational instance (exactQ) of the model in
   Layout/BlockFlow.v (a port of /repo/html/layout blocks.go, percentages.go,
   min_max.go); Check/C10.v ties the float32 instance of the same definitions to
   /repo, bit for bit, on every run.  The specification is Layout/Css21BlockSpec.v. *)
From Verif Require Import Base.F32 Layout.BlockFlow Layout.Css21BlockSpec Layout.BlockProofs Layout.BlockVProofs Layout.BlockMarginMore.
From Coq Require Import QArith Qminmax List Bool Permutation.
Import ListNotations.
Open Scope Q_scope.

(* ---------------------------------------------------------------- 10.3.3 *)

(* One run of blockLevelWidth_ yields used values related to the computed ones by CSS 2.1
   10.3.3 (ltr): the seven-term equation holds with the USED right margin -- the stored one,
   except in the over-constrained case where it is defined by the equation (the
   implementation keeps the specified value there, as WeasyPrint does) -- and every case of
   the rule (treat-as-zero, over-constrained, one auto, width auto, centring) is the
   prescribed one. *)
Theorem C10_width_rules : forall u cbw,
  css_10_3_3 cbw (upl u) (upr u) (ubl u) (ubr u) (uml u) (umr u) (uw u)
             (used_of cbw (block_level_width_ exactQ u cbw)).
Proof. exact blw_spec. Qed.
Print Assumptions C10_width_rules.

(* margin-left + border-left + padding-left + width + padding-right + border-right +
   margin-right(used) = containing-block width, for every box and containing block *)
Theorem C10_width_equation : forall u cbw,
  let r := block_level_width_ exactQ u cbw in
  V (uml (fst r)) + ubl u + upl u + V (uw (fst r)) + upr u + ubr u + mr_used cbw (fst r) (snd r) == cbw.
Proof. exact (fun u cbw => proj1 (blw_spec u cbw)). Qed.
Print Assumptions C10_width_equation.

(* ... and this holds for every box of every laid out document, against the used width of
   its containing block (the page's content width for the root) *)
Theorem C10_width_equation_every_box : forall cbx cby cbw cbh root,
  width_eq_tree cbw (layout_doc exactQ cbx cby cbw cbh root).
Proof. exact (fun cbx cby cbw cbh root => width_equation_doc root true cbw (Some cbh) cbx cby []). Qed.
Print Assumptions C10_width_equation_every_box.

Theorem C10_auto_width_fills : forall u cbw,
  uw u = None ->
  let r := fst (block_level_width_ exactQ u cbw) in
  V (uml r) == V (uml u) /\ V (umr r) == V (umr u) /\
  V (uw r) == cbw - (ppb u + V (uml u) + V (umr u)) /\
  V (uml r) + ubl u + upl u + V (uw r) + upr u + ubr u + V (umr r) == cbw.
Proof. exact auto_width_fills. Qed.
Print Assumptions C10_auto_width_fills.

Theorem C10_auto_margins_center : forall u cbw wv,
  uw u = Some wv -> uml u = None -> umr u = None ->
  let r := fst (block_level_width_ exactQ u cbw) in
  V (uw r) == wv /\
  (ppb u + wv <= cbw ->
     V (uml r) == V (umr r) /\ V (uml r) == (cbw - ppb u - wv) / 2 /\
     V (uml r) + ubl u + upl u + wv + upr u + ubr u + V (umr r) == cbw) /\
  (cbw < ppb u + wv -> V (uml r) == 0).
Proof. exact auto_margins_center. Qed.
Print Assumptions C10_auto_margins_center.

Theorem C10_one_auto_margin : forall u cbw wv m,
  uw u = Some wv ->
  (uml u = None -> umr u = Some m -> ppb u + wv + m <= cbw ->
     let b := fst (block_level_width_ exactQ u cbw) in
     V (uw b) == wv /\ V (umr b) == m /\ V (uml b) == cbw - ppb u - wv - m) /\
  (uml u = Some m -> umr u = None -> ppb u + wv + m <= cbw ->
     let b := fst (block_level_width_ exactQ u cbw) in
     V (uw b) == wv /\ V (uml b) == m /\ V (umr b) == cbw - ppb u - wv - m).
Proof.
  exact (fun u cbw wv m Hw =>
           conj (fun Hl Hr Hf => one_auto_margin_left u cbw wv m Hw Hl Hr Hf)
                (fun Hl Hr Hf => one_auto_margin_right u cbw wv m Hw Hl Hr Hf)).
Qed.
Print Assumptions C10_one_auto_margin.

(* over-constrained (ltr): position, left margin and width are the specified ones for every
   value of the specified right margin *)
Theorem C10_overconstrained_ignores_mr : forall u cbw wv l r,
  uw u = Some wv -> uml u = Some l -> umr u = Some r ->
  let res := block_level_width_ exactQ u cbw in
  snd res = true /\ ux (fst res) = ux u /\ uml (fst res) = Some l /\ uw (fst res) = Some wv.
Proof. exact overconstrained_ignores_mr. Qed.
Print Assumptions C10_overconstrained_ignores_mr.

(* ---------------------------------------------------------------- 10.4 *)

(* handleMinMaxWidth = CSS 2.1 10.4's tentative / max-width / min-width procedure *)
Theorem C10_minmax_spec : forall u cbw,
  css_10_4 (rules_of cbw u) (uw u) (uminw u) (umaxw u)
           (used_of cbw (handle_min_max_width exactQ u cbw)).
Proof. exact hmm_spec. Qed.
Print Assumptions C10_minmax_spec.

(* the used width is never below min-width, hence never negative; and not above max-width
   when min-width <= max-width *)
Theorem C10_negative_width_clamped : forall u cbw,
  uminw u <= V (uw (fst (handle_min_max_width exactQ u cbw))) /\
  (0 <= uminw u -> 0 <= V (uw (fst (handle_min_max_width exactQ u cbw)))) /\
  (forall m, umaxw u = Fin m -> uminw u <= m ->
     V (uw (fst (handle_min_max_width exactQ u cbw))) <= m).
Proof.
  exact (fun u cbw => conj (width_ge_min u cbw)
                      (conj (negative_width_clamped u cbw) (width_le_max u cbw))).
Qed.
Print Assumptions C10_negative_width_clamped.

(* ---------------------------------------------------------------- percentages *)

Theorem C10_percentages_spec : forall s cbw cbh x y,
  pct_spec s cbw cbh (resolve_percentages exactQ s cbw cbh x y).
Proof. exact pct_spec_holds. Qed.
Print Assumptions C10_percentages_spec.

(* ---------------------------------------------------------------- 8.3.1 *)

(* collapseMargin = largest positive + most negative *)
Theorem C10_collapse_margin_spec : forall l, collapse_margin exactQ l == maxpos l + minneg l.
Proof. exact collapse_margin_spec. Qed.
Print Assumptions C10_collapse_margin_spec.

(* The full statement: for every tree, the positions and heights computed by the threaded
   adjoining-margins algorithm are those CSS 2.1 8.3.1 / 9.4.1 / 10.6.3 prescribe. *)
Definition C10_margin_collapsing_spec_statement : Prop :=
  forall cbx cby cbw cbh root,
    vertical_ok cby (layout_doc exactQ cbx cby cbw cbh root).

(* It is FALSE for the implementation's algorithm (known finding C10/through-first-child):
   when a box that collapses with its children has a first child whose own margins
   collapse through it, the margins that follow are adjoining to the box's top margin but
   are missing from the list the box's position is computed from.  Witness replayed on
   /repo: <body><div style="margin-bottom:20px"></div><div style="margin-top:30px;
   height:10px"></div> gives body y = 0, height 40 instead of y = 30, height 10. *)
Theorem C10_margin_collapsing_refuted : ~ C10_margin_collapsing_spec_statement.
Proof.
  exact (fun H => vertical_refuted (H 0 0 1000 100000 witness_through_first)).
Qed.
Print Assumptions C10_margin_collapsing_refuted.

(* Proved for every tree outside that pattern -- including margins collapsing through
   empty boxes anywhere else, parent / first-child, parent / last-child and sibling
   collapsing, negative margins, fixed and auto heights, min / max-height. *)
Theorem C10_margin_collapsing_partial : forall cbx cby cbw cbh root,
  no_through_first true (layout_doc exactQ cbx cby cbw cbh root) = true ->
  vertical_ok cby (layout_doc exactQ cbx cby cbw cbh root).
Proof. exact vertical_ok_on_domain. Qed.
Print Assumptions C10_margin_collapsing_partial.

Example C10_domain_inhabited :
  no_through_first true (layout_doc exactQ 0 0 1000 100000 example_in_domain) = true.
Proof. exact example_in_domain_ok. Qed.

(* ---------------------------------------------------------------- 9.4.1 *)

(* In-flow siblings (separated at most by boxes whose margins collapse through them) stack
   in document order: the distance between the bottom border edge of the first and the top
   border edge of the second is the collapsed value of the adjoining margins between them;
   with non-negative margins the border boxes do not overlap. *)
Theorem C10_siblings_ordered_no_overlap : forall cbx cby cbw cbh root,
  let t := layout_doc exactQ cbx cby cbw cbh root in
  no_through_first true t = true ->
  forall p, p = t \/ subbox t p ->
  forall pre c1 mid c2 post,
    kids p = pre ++ c1 :: mid ++ c2 :: post ->
    through c1 = false -> forallb through mid = true -> through c2 = false ->
    border_top c2 == border_bot c1 +
                     collapsed (bottom_run c1 ++ flat_map all_margins mid ++ top_run c2) /\
    ((forall m, In m (bottom_run c1 ++ flat_map all_margins mid ++ top_run c2) -> 0 <= m) ->
     border_bot c1 <= border_top c2).
Proof.
  exact (fun cbx cby cbw cbh root HD =>
           siblings_stack cby _ (vertical_ok_on_domain cbx cby cbw cbh root HD)).
Qed.
Print Assumptions C10_siblings_ordered_no_overlap.

(* ---------------------------------------------------------------- 10.6.3 *)

(* An auto-height box ends exactly at the bottom border edge of its last in-flow child when
   their bottom margins are adjoining, at the bottom edge of that child's collapsed bottom
   margin otherwise (then min-height / max-height apply). *)
Theorem C10_auto_height_spec : forall cbx cby cbw cbh root,
  let t := layout_doc exactQ cbx cby cbw cbh root in
  no_through_first true t = true ->
  forall p, p = t \/ subbox t p ->
  forall pre last, hcomp p = None -> kids p = pre ++ [last] -> through last = false ->
  exists is_root, (is_root = true -> p = t) /\
  V (uh (box_of p)) ==
  clamp_h p (if open_bot is_root p then border_bot last - content_top p
             else border_bot last + collapsed (bottom_run last) - content_top p).
Proof.
  exact (fun cbx cby cbw cbh root HD =>
           auto_height_doc cby _ (vertical_ok_on_domain cbx cby cbw cbh root HD)).
Qed.
Print Assumptions C10_auto_height_spec.

(* ---------------------------------------------------------------- algebra of collapsing
   (Layout/BlockMarginMore.v; unbounded, about collapseMargin's exact-rational model) *)

(* Merging two adjoining margin sets: the collapsed margin of the union is computed from the
   parts (largest of the two positive maxima + most negative of the two negative minima). *)
Theorem C10_collapse_margin_app : forall a b,
  collapse_margin exactQ (a ++ b) ==
  Qmax (maxpos a) (maxpos b) + Qmin (minneg a) (minneg b).
Proof. exact collapse_margin_app. Qed.
Print Assumptions C10_collapse_margin_app.

(* The collapsed margin lies between the most negative and the largest positive margin. *)
Theorem C10_collapse_margin_bounds : forall l,
  minneg l <= collapse_margin exactQ l <= maxpos l.
Proof. exact collapse_margin_bounds. Qed.
Print Assumptions C10_collapse_margin_bounds.

(* The collapsed margin does not depend on the order of the adjoining margins. *)
Theorem C10_collapse_margin_perm : forall l l', Permutation l l' ->
  collapse_margin exactQ l == collapse_margin exactQ l'.
Proof. exact collapse_margin_perm. Qed.
Print Assumptions C10_collapse_margin_perm.

(* A zero margin anywhere in the adjoining set is neutral. *)
Theorem C10_collapse_margin_zero_neutral : forall a b,
  collapse_margin exactQ (a ++ 0 :: b) == collapse_margin exactQ (a ++ b).
Proof. exact collapse_margin_zero_neutral. Qed.
Print Assumptions C10_collapse_margin_zero_neutral.
