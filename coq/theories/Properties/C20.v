(* Properties/C20.v -- "Serialized CSS re-parses to the same component values".

   Model: Css/Ser.v (port of /repo/css/parser/serialize.go).  Re-tokenisation:
   Css/RetokSpec.v (CSS Syntax 3 tokenizer and block builder, specification
   level; tied to /repo's Tokenize on every run by Check/C20.v).  Domain:
   `wf_tokens` (Css/SerWf.v) = the token lists the tokenizer can return on a
   source without parse errors (`C20_tokenize_wf`); Check/C20.v also evaluates
   it on every token list /repo's Tokenize returned.  `norm` = the equivalence of the property text:
   comments and positions ignored, consecutive whitespace tokens (they only
   arise around a dropped comment) merged.

   Only statements here; proofs are in Css/SerProofs.v, Css/RoundTripTok.v,
   Css/RoundTripSep.v, Css/RoundTripList.v, Css/RoundTripBuild.v, Css/TokWfLex.v,
   Css/TokWfBuild.v. *)
From Verif Require Import Css.Ser Css.RetokSpec Css.SerWf Css.SerProofs Css.RoundTripTok Css.RoundTripSep
  Css.RoundTripList Css.RoundTripBuild Css.TokWfLex Css.TokWfBuild Css.SerCompound Css.SerCompoundProofs
  Css.SerCompoundProofs2 Css.SerCompoundProofs3.
From Coq Require Import List NArith Bool.
Import ListNotations.
Open Scope N_scope.

(* ------------------------------------------------------------------ the property *)

(* The serializer never panics on a token list the tokenizer can return. *)
Theorem C20_serialize_total : forall ts,
  wf_tokens ts = true -> exists s, serialize ts = Ok s.
Proof. exact serialize_total. Qed.
Print Assumptions C20_serialize_total.

(* Serializing then tokenizing gives back the same component values: token
   types, unescaped values, numeric representation and integer flag, units,
   hash id flag, unicode ranges, nesting.  For ALL well-formed lists (no bound
   on length, nesting depth or code points). *)
Theorem C20_roundtrip : forall ts s,
  wf_tokens ts = true -> serialize ts = Ok s ->
  norm (tokenize true s) = norm ts.
Proof. exact roundtrip. Qed.
Print Assumptions C20_roundtrip.

(* The tokenizer only returns lists of the domain above: what it returns on a
   source without parse errors is well formed (non-empty names without NUL,
   number representations in the grammar, literal set, a backslash delimiter
   only before a newline, url( only before a quoted string, ...). *)
Theorem C20_tokenize_wf : forall (skip : bool) (src : list N),
  error_free (tokenize skip src) = true -> wf_tokens (tokenize skip src) = true.
Proof. exact tokenize_wf. Qed.
Print Assumptions C20_tokenize_wf.

(* The property as stated, over source texts: for every text (any code points,
   either tokenizer mode) whose tokenisation has no parse-error token, the
   serializer returns, and its output tokenizes back to the same values. *)
Theorem C20_roundtrip_source : forall (skip : bool) (src : list N),
  error_free (tokenize skip src) = true ->
  exists s, serialize (tokenize skip src) = Ok s /\
            norm (tokenize true s) = norm (tokenize skip src).
Proof.
  intros skip src He. pose proof (tokenize_wf skip src He) as Hw.
  destruct (serialize_total _ Hw) as (s & Hs).
  exists s. split; [exact Hs|]. exact (roundtrip _ _ Hw Hs).
Qed.
Print Assumptions C20_roundtrip_source.

(* ------------------------------------------------------------------ "inserts separators wherever two adjacent tokens would otherwise fuse" *)

(* For adjacent well-formed tokens t1 t2: what serializeTo writes after t1 --
   the separator it chooses from the bad-pairs table (or the "u +" / backslash
   rules), then t2, then any text k' that may follow t2 -- may follow t1, i.e.
   leaves the re-tokenisation of t1 unchanged.  All token values, all pairs. *)
Theorem C20_bad_pairs_complete : forall t1 t2 rest s2 k',
  wf_tok t1 = true -> wf_tok t2 = true -> backslash_ok t1 (t2 :: rest) = true ->
  ser_token t2 = Ok s2 -> follow_ok t2 k' = true ->
  follow_ok t1 (separator (Some t1) t2 ++ s2 ++ k') = true.
Proof. exact sep_ok. Qed.
Print Assumptions C20_bad_pairs_complete.

(* The flat-stream form of the round trip, with any closing context k. *)
Theorem C20_roundtrip_flat : forall ts s (f : nat),
  wf_tokens ts = true -> serialize ts = Ok s -> (length s < f)%nat ->
  mergews (lex true f s) = mergews (fl ts).
Proof.
  intros ts s f Hw Hs Hf.
  destruct (lex_ser (lsize ts) ts None [] [] s (le_n _) Hw I Hs lexes_nil (or_introl eq_refl))
    as (out' & L & M).
  rewrite app_nil_r in L, M. rewrite (lexes_lex s out' L f Hf). exact M.
Qed.
Print Assumptions C20_roundtrip_flat.

(* ------------------------------------------------------------------ per-consumer round trips *)

(* consume_ident (serialize_identifier v ++ k) = (v, k), for every non-empty v
   and every k that does not continue a name *)
Theorem C20_ident_roundtrip : forall v s k f,
  serialize_identifier v = Ok s -> name_stop k = true -> (length v <= f)%nat ->
  consume_name f (s ++ k) = (v, k) /\ starts_ident (s ++ k) = true.
Proof. exact ident_roundtrip. Qed.
Print Assumptions C20_ident_roundtrip.

Theorem C20_name_roundtrip : forall v k f,
  name_stop k = true -> (length v <= f)%nat ->
  consume_name f (serialize_name v ++ k) = (v, k).
Proof. exact name_roundtrip. Qed.
Print Assumptions C20_name_roundtrip.

Theorem C20_string_roundtrip : forall v k f,
  (length v < f)%nat ->
  consume_string f 34 (serialize_string_value v ++ 34 :: k) = (v, SClosed, k).
Proof. exact string_roundtrip. Qed.
Print Assumptions C20_string_roundtrip.

Theorem C20_url_roundtrip : forall v k f,
  no_nul v = true -> (length v < f)%nat ->
  consume_url f (serialize_url v ++ 41 :: k) = UOk v k.
Proof. exact url_roundtrip. Qed.
Print Assumptions C20_url_roundtrip.

Theorem C20_number_roundtrip : forall repr k,
  number_repr repr = true -> num_stop k = true ->
  consume_number (repr ++ k) = Some (repr, k).
Proof. exact number_roundtrip. Qed.
Print Assumptions C20_number_roundtrip.

(* one tokenizer step on a serialized token: hash (both flag values),
   dimension (incl. the scientific-notation disambiguation), unicode range *)
Theorem C20_hash_id_roundtrip : forall skip p v s k,
  serialize_identifier v = Ok s -> follow_ok (THash p v true) k = true ->
  lex_step skip (35 :: s ++ k) = ([FTok (THash p0 v true)], k).
Proof. exact lex_hash_id. Qed.
Print Assumptions C20_hash_id_roundtrip.

Theorem C20_hash_unrestricted_roundtrip : forall skip p v k,
  name_val v = true -> hash_nonid v = true -> follow_ok (THash p v false) k = true ->
  lex_step skip (35 :: serialize_name v ++ k) = ([FTok (THash p0 v false)], k).
Proof. exact lex_hash_nonid. Qed.
Print Assumptions C20_hash_unrestricted_roundtrip.

Theorem C20_dimension_roundtrip : forall skip p repr i u s k,
  number_repr repr = true -> name_val u = true ->
  ser_token (TDimension p repr i u) = Ok s -> follow_ok (TDimension p repr i u) k = true ->
  lex_step skip (s ++ k) = ([FTok (TDimension p0 repr (repr_is_int repr) u)], k).
Proof. exact lex_dimension. Qed.
Print Assumptions C20_dimension_roundtrip.

Theorem C20_unicode_range_roundtrip : forall skip p a b s k,
  a <? pow16_6 = true -> b <? pow16_6 = true ->
  ser_token (TUnicodeRange p a b) = Ok s -> follow_ok (TUnicodeRange p a b) k = true ->
  lex_step skip (s ++ k) = ([FTok (TUnicodeRange p0 a b)], k).
Proof. exact lex_urange. Qed.
Print Assumptions C20_unicode_range_roundtrip.

(* blocks and functions: building the flattened tree gives back the tree *)
Theorem C20_block_roundtrip : forall ts, norm (build [] [] (fl ts)) = norm ts.
Proof. exact build_fl_norm. Qed.
Print Assumptions C20_block_roundtrip.

(* ------------------------------------------------------------------ the hypotheses are inhabited: the probe inputs of DESIGN section 6 *)
(* dimension 1 with unit "e5" (source 1\65 5); url with U+0001; unit "E-x";
   ident "1a"; "-" "-"; ident "u" "+" ident "a" *)
Definition ex_tokens : list token :=
  [TDimension p0 [49] true [101; 53]; TWhitespace p0 [32]; TURL p0 [1] false; TWhitespace p0 [32];
   TDimension p0 [49] true [69; 45; 120]; TWhitespace p0 [10]; TIdent p0 [49; 97];
   TLiteral p0 [45]; TLiteral p0 [45]; TIdent p0 [117]; TLiteral p0 [43]; TIdent p0 [97];
   TFunction p0 [117; 114; 108] [TString p0 [34; 92; 10] false; TParens p0 [TNumber p0 [49] true; TLiteral p0 [37]]]].

Example C20_example_wf : wf_tokens ex_tokens = true.
Proof. vm_compute. reflexivity. Qed.

Example C20_example_roundtrip :
  match serialize ex_tokens with
  | Ok s => norm (tokenize true s) = norm ex_tokens
  | _ => False
  end.
Proof. vm_compute. reflexivity. Qed.

(* ------------------------------------------------------------------ parsed rules and declarations (Css/SerCompound.v) *)

(* A qualified rule or an at-rule, serialized by the model of its serializeTo,
   tokenizes back (up to comments / positions) to exactly: [the at-keyword,]
   the prelude, then the {} block holding the content -- or, for an at-rule
   WITHOUT block, a semicolon.  Nothing fuses between the at-keyword and the
   prelude or between the prelude and the end of the rule; all preludes and
   contents, no bound on length / nesting. *)
Theorem C20_rule_tokenizes_back : forall c s,
  is_rule c = true -> compound_wf c = true -> ser_compound c = Ok s ->
  norm (tokenize true s) = norm (compound_tokens c).
Proof. intros c s Hr Hw Hs. rewrite <- norm_rule_tokens. exact (compound_tokenizes_back c s Hr Hw Hs). Qed.
Print Assumptions C20_rule_tokenizes_back.

(* `@x ... {}` and `@x ... ;` stand for different token lists (block present or absent) *)
Theorem C20_empty_block_is_not_statement : forall kw p,
  compound_tokens (CAtRule kw p (Some [])) <> compound_tokens (CAtRule kw p None).
Proof. exact empty_block_is_not_statement. Qed.
Print Assumptions C20_empty_block_is_not_statement.

(* The full statement for compounds (reading back with the specification
   parser `read_back`, declarations included) is not proved; it is evaluated
   on every compound case of a run (Check/C20.v code 10). *)
Definition C20_compound_roundtrip_statement : Prop := forall c s,
  compound_wf c = true ->
  read_back c (norm (compound_tokens c)) = Some (norm_compound c) ->    (* c is what a parser returns *)
  ser_compound c = Ok s ->
  read_back c (norm (tokenize true s)) = Some (norm_compound c).

(* for rules it follows from the theorem above *)
Theorem C20_compound_roundtrip_partial : forall c s,
  is_rule c = true -> compound_wf c = true ->
  read_back c (norm (compound_tokens c)) = Some (norm_compound c) ->
  ser_compound c = Ok s ->
  read_back c (norm (tokenize true s)) = Some (norm_compound c).
Proof. intros c s Hr Hw Hp Hs. rewrite (C20_rule_tokenizes_back c s Hr Hw Hs). exact Hp. Qed.
Print Assumptions C20_compound_roundtrip_partial.

(* partial2 (Css/SerCompoundProofs2.v): every compound kind EXCEPT a declaration
   carrying `!important` (`not_important c`): qualified rules, at-rules with and
   without block, and declarations with important = false.  Not covered: CDecl _ _ true
   (the raw "!important" suffix; e.g. a value ending in the delimiter "<"). *)
Theorem C20_decl_tokenizes_back : forall n v s,
  compound_wf (CDecl n v false) = true -> ser_compound (CDecl n v false) = Ok s ->
  norm (tokenize true s) = norm (compound_tokens (CDecl n v false)).
Proof. exact decl_tokenizes_back. Qed.
Print Assumptions C20_decl_tokenizes_back.

Theorem C20_compound_roundtrip_partial2 : forall c s,
  not_important c = true -> compound_wf c = true ->
  read_back c (norm (compound_tokens c)) = Some (norm_compound c) ->
  ser_compound c = Ok s ->
  read_back c (norm (tokenize true s)) = Some (norm_compound c).
Proof. exact compound_roundtrip2. Qed.
Print Assumptions C20_compound_roundtrip_partial2.

(* partial3 (Css/SerCompoundProofs2.v): EVERY compound kind, declarations with
   `!important` included, under the single side condition `compound_bang_ok c`:
   for CDecl _ v true the last token of v does not fuse with "!" (bad_pair
   (ser_type last) "!" = false, i.e. v does not end in the delimiter "<");
   for all other compounds the condition is `true`.  Still not `_holds`: the
   statement without that side condition is open. *)
Theorem C20_decl_important_tokenizes_back : forall n v s,
  compound_wf (CDecl n v true) = true -> bang_ok v = true -> ser_compound (CDecl n v true) = Ok s ->
  norm (tokenize true s) = norm (compound_tokens (CDecl n v true)).
Proof. exact decl_imp_tokenizes_back. Qed.
Print Assumptions C20_decl_important_tokenizes_back.

Theorem C20_compound_roundtrip_partial3 : forall c s,
  compound_bang_ok c = true -> compound_wf c = true ->
  read_back c (norm (compound_tokens c)) = Some (norm_compound c) ->
  ser_compound c = Ok s ->
  read_back c (norm (tokenize true s)) = Some (norm_compound c).
Proof. exact compound_roundtrip3. Qed.
Print Assumptions C20_compound_roundtrip_partial3.

(* The case excluded by partial3 (Css/SerCompoundProofs3.v).  Finding: the model
   does NOT refute the statement there.  Instances, NOT the general case: the
   two declarations  a:<!important  and  a: b <!important  (value ending in the
   delimiter "<", compound_bang_ok = false) are well-formed, are written without
   any separator between "<" and "!", and tokenize / read back to themselves
   (a CDO token needs "<!--").  `C20_compound_roundtrip_statement` itself stays
   open for the class compound_bang_ok c = false; expected to hold. *)
Theorem C20_compound_roundtrip_bang_lt_instances :
  roundtrip_at lt_decl /\ roundtrip_at lt_decl2.
Proof. exact lt_decl_roundtrips. Qed.
Print Assumptions C20_compound_roundtrip_bang_lt_instances.

Module C20CompoundExamples.
Import Coq.Strings.String.
Local Open Scope string_scope.
Local Open Scope list_scope.
Local Open Scope N_scope.
(* inhabited: @media/**/screen{} (comment skipped: a separator is written),
   @page :first {} (empty block) against @page :first ; , a declaration *)
Definition ex_media : compound := CAtRule (cps "media") [TIdent p0 (cps "screen")] (Some []).
Definition ex_page (b : option (list token)) : compound :=
  CAtRule (cps "page") [TWhitespace p0 [32]; TLiteral p0 [58]; TIdent p0 (cps "first"); TWhitespace p0 [32]] b.
Definition ex_decl : compound := CDecl (cps "color") [TWhitespace p0 [32]; TIdent p0 (cps "red"); TWhitespace p0 [32]] true.

Example C20_example_media : ser_compound ex_media = Ok (cps "@media/**/screen{}").
Proof. vm_compute. reflexivity. Qed.
Example C20_example_compounds :
  forallb (fun c => match ser_compound c with
                    | Ok s => match read_back c (norm (tokenize true s)) with
                              | Some c' => true
                              | None => false
                              end
                    | _ => false
                    end) [ex_media; ex_page (Some []); ex_page None; ex_decl] = true.
Proof. vm_compute. reflexivity. Qed.
Example C20_example_page_block :
  (ser_compound (ex_page (Some [])), ser_compound (ex_page None)) = (Ok (cps "@page :first {}"), Ok (cps "@page :first ;")).
Proof. vm_compute. reflexivity. Qed.
Example C20_example_hyp_inhabited :
  read_back ex_media (norm (compound_tokens ex_media)) = Some (norm_compound ex_media)
  /\ read_back ex_decl (norm (compound_tokens ex_decl)) = Some (norm_compound ex_decl).
Proof. split; vm_compute; reflexivity. Qed.
End C20CompoundExamples.
