(* placeholder, replaced below *)
From Verif Require Import Css.Ser Css.RetokSpec.
Theorem C20_placeholder : serialize [] = Ok [].
Proof. reflexivity. Qed.
Print Assumptions C20_placeholder.
