(* placeholder, replaced below *)
From Verif Require Import Css.Cascade Css.CascadeSpec.
Theorem C03_placeholder : True. Proof. exact I. Qed.
Print Assumptions C03_placeholder.
