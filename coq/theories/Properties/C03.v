(* Properties/C03.v -- The cascade picks the declaration CSS says wins.
   Only statements, closed by `exact`, each followed by Print Assumptions.

   Model: Css/Cascade.v (port of newStyleFor, findStyleAttributes,
   declarationPrecedence, weight.Less, preprocessStylesheet,
   PreprocessDeclarationsPrelude, GetAllComputedStyles after the repairs
   5fe51d0, 44a9070, 5f1d923); specification: Css/CascadeSpec.v.
   Check/C03.v ties the model to /repo on every run. *)
From Verif Require Import Css.Cascade Css.CascadeSpec Css.CascadeProofs Css.CascadeImport Css.CascadeImportProofs Css.CascadeMore.
From Coq Require Import List NArith Bool.
Import ListNotations.
Open Scope N_scope.

(* 1. origin and importance: the precedence numbers of declarationPrecedence are
   the CSS levels  user agent < user < author < author !important < user !important *)
Theorem C03_precedence_table_correct : forall o i,
  declaration_precedence o i = level_index (level_of o i) + 1.
Proof. exact precedence_table_correct. Qed.
Print Assumptions C03_precedence_table_correct.

Theorem C03_precedence_table_order : forall o1 i1 o2 i2,
  declaration_precedence o1 i1 < declaration_precedence o2 i2 <->
  level_index (level_of o1 i1) < level_index (level_of o2 i2).
Proof. exact precedence_table_order. Qed.
Print Assumptions C03_precedence_table_order.

Example C03_levels :
  level_index (level_of UA false) < level_index (level_of User false) /\
  level_index (level_of User false) < level_index (level_of Author false) /\
  level_index (level_of Author false) < level_index (level_of Author true) /\
  level_index (level_of Author true) < level_index (level_of User true).
Proof. repeat split. Qed.

(* 2. weight.Less is "<=" of the lexicographic order on (precedence, style
   attribute, specificity): an equal weight inserted later replaces the entry *)
Theorem C03_weight_less_is_le : forall a b,
  w_less a b = true <->
  (w_prec a < w_prec b \/
   (w_prec a = w_prec b /\
    ((w_attr a = false /\ w_attr b = true) \/
     (w_attr a = w_attr b /\ lex_le (w_spec a) (w_spec b) = true)))).
Proof. exact weight_less_is_le. Qed.
Print Assumptions C03_weight_less_is_le.

Theorem C03_weight_less_total_preorder :
  (forall a, w_less a a = true) /\
  (forall a b c, w_less a b = true -> w_less b c = true -> w_less a c = true) /\
  (forall a b, w_less a b = true \/ w_less b a = true).
Proof. exact (conj w_less_refl (conj w_less_trans w_less_total)). Qed.
Print Assumptions C03_weight_less_total_preorder.

(* 3. the cascade order of the specification is a strict total order on the
   occurrences of a document (positions are distinct): no unspecified ties *)
Theorem C03_winner_total_order :
  (forall x, occ_lt x x = false) /\
  (forall x y z, occ_lt x y = true -> occ_lt y z = true -> occ_lt x z = true) /\
  (forall x y, fst x <> fst y -> occ_lt x y = true \/ occ_lt y x = true).
Proof. exact (conj occ_lt_irrefl (conj occ_lt_trans occ_lt_total)). Qed.
Print Assumptions C03_winner_total_order.

(* a style attribute outranks every selector; a presentational hint ranks as
   specificity zero *)
Theorem C03_rank_order : forall s,
  rank_le (RSel s) RAttr = true /\ rank_le RAttr (RSel s) = false /\
  rank_le RHint (RSel s) = true /\ rank_le RHint RAttr = true /\ rank_le RAttr RHint = false /\
  rank_le RHint (RSel (0, 0, 0)) = true /\ rank_le (RSel (0, 0, 0)) RHint = true.
Proof. intros s. repeat split. Qed.
Print Assumptions C03_rank_order.

(* the executable arg-max is the unique maximum of the cascade order *)
Theorem C03_winner_is_maximum : forall (l : list occ) p w,
  winner (number l) p = Some w <-> is_winner (number l) p w.
Proof. exact winner_correct. Qed.
Print Assumptions C03_winner_is_maximum.

Theorem C03_winner_unique : forall l p w w', is_winner l p w -> is_winner l p w' -> w = w'.
Proof. exact is_winner_unique. Qed.
Print Assumptions C03_winner_unique.

Theorem C03_no_winner_iff_nothing_applies : forall (l : list occ) p,
  winner (number l) p = None <-> forall o, In o l -> o_prop o <> p.
Proof. exact winner_none_iff. Qed.
Print Assumptions C03_no_winner_iff_nothing_applies.

(* 4. MAIN: for every document (UA, hint, author, user sheets with @import,
   @media, nested rules; style and presentational attributes), every element
   (pseudo = 0) or pseudo-element of an element, and every property, the
   insertion loops of the implementation produce the value of the declaration
   that is maximal for (origin+importance, specificity rank, order of
   appearance) among the declarations that apply. *)
Theorem C03_cascade_impl_spec : forall (d : document) (pseudo : N) (path : path) (p : N),
  doc_no_top_amp d = true ->
  used d pseudo path p = cascaded d pseudo path p.
Proof. exact cascade_impl_spec. Qed.
Print Assumptions C03_cascade_impl_spec.

(* Without the hypothesis the statement is false for the faithful model: the
   code replaces `&` of a top-level rule by :root, which selects the right
   element but weighs (0,1,0) where css-nesting-1 gives `&` specificity 0
   there.  Witness (replayed on /repo by corpus/C03/top-level-amp.json and the
   `topamp` stream of the check, known finding C03/top-level-amp-specificity):
   `& {z-index:11} html {z-index:12}` cascades to 11 on <html>, CSS says 12. *)
Definition C03_cascade_unrestricted_statement : Prop :=
  forall d pseudo path p, used d pseudo path p = cascaded d pseudo path p.

Definition ex_html : node := mkNode 9 None [] [] [].
Definition ex_doc_amp : document :=
  mkDoc 1 false RNil 1 RNil 1
    [mkAuthor [] (RStyle [SAmp] (BDecl (mkDecl 0 11 false) BNil)
                 (RStyle [STag 9] (BDecl (mkDecl 0 12 false) BNil) RNil))] [].

Theorem C03_top_level_amp_refuted : ~ C03_cascade_unrestricted_statement.
Proof.
  intros H. specialize (H ex_doc_amp 0 [ex_html] 0). vm_compute in H. discriminate H.
Qed.
Print Assumptions C03_top_level_amp_refuted.

(* the rule still selects exactly the elements the specification says *)
Theorem C03_top_level_rule_selects_spec : forall g,
  Forall2 (fun s s' => forall k q, sapplies (c_amp top_ctx) s k q = applies s' k q) g (resolve_top g).
Proof. exact top_rel_applies. Qed.
Print Assumptions C03_top_level_rule_selects_spec.

Theorem C03_cascade_picks_the_winner : forall d pseudo path p v,
  doc_no_top_amp d = true ->
  (used d pseudo path p = Some v <->
   exists w, is_winner (number (applicable d pseudo path)) p w /\ o_vid (snd w) = v).
Proof.
  intros d k path p v Hw. rewrite (cascade_impl_spec d k path p Hw). unfold cascaded. split.
  - destruct (winner (number (applicable d k path)) p) as [w|] eqn:W; [|discriminate].
    intros [= <-]. exists w. split; auto. apply winner_correct; auto.
  - intros [w [Hwin <-]]. apply winner_correct in Hwin. rewrite Hwin. reflexivity.
Qed.
Print Assumptions C03_cascade_picks_the_winner.

(* 5. flattening: the rule list handed to the matcher, expanded to
   (selector list, declaration) pairs, lists the declarations in source order,
   nested rules standing where they are written and imports inlined *)
Theorem C03_flatten_preserves_order : forall device rs ignore_imports,
  pairs (flatten_rules device rs ignore_imports) = rules_pairs device rs ignore_imports.
Proof. exact flatten_rules_pairs. Qed.
Print Assumptions C03_flatten_preserves_order.

Theorem C03_flatten_body_source_order : forall g b own out,
  pairs (flatten_body g b own out) = pairs out ++ map (pair g) own ++ body_pairs g b.
Proof. exact flatten_body_pairs. Qed.
Print Assumptions C03_flatten_body_source_order.

(* the selectors built for nested rules mean what css-nesting-1 says: `&` is
   matched by what the parent list matches, with the specificity of its most
   specific member; a member without `&` is a descendant of the parent *)
Theorem C03_nested_selectors_sound : forall c g g' pre,
  grp_rel c g g' -> grp_rel (child_ctx c g) (map relative pre) (resolve g' pre).
Proof. exact resolve_rel. Qed.
Print Assumptions C03_nested_selectors_sound.

(* 6. declarations in non matching @media blocks, in @import rules that are
   misplaced / filtered / not fetched, and in rules that do not match the
   element never apply *)
Theorem C03_media_filter_sound : forall device q inner rest ig,
  evaluate_media q device = false ->
  flatten_rules device (RMedia q inner rest) ig = flatten_rules device (RMedia q RNil rest) ig.
Proof. exact media_filter_flatten. Qed.
Print Assumptions C03_media_filter_sound.

Theorem C03_import_filter_sound : forall device q fetched sh rest ig,
  ig = true \/ evaluate_media q device = false \/ fetched = false ->
  flatten_rules device (RImport q fetched sh rest) ig = flatten_rules device rest ig.
Proof. exact import_filter_flatten. Qed.
Print Assumptions C03_import_filter_sound.

Theorem C03_non_matching_rule_inert : forall o forced pseudo path m r,
  existsb (fun s => applies s pseudo path) (fst r) = false ->
  forall p, apply_rule o forced pseudo path m r p = m p.
Proof. exact non_matching_rule. Qed.
Print Assumptions C03_non_matching_rule_inert.

Theorem C03_used_value_applies : forall d pseudo path p v,
  doc_no_top_amp d = true -> used d pseudo path p = Some v ->
  exists o, In o (applicable d pseudo path) /\ o_prop o = p /\ o_vid o = v.
Proof. exact used_applicable. Qed.
Print Assumptions C03_used_value_applies.

(* non-vacuity: the two witnesses of DESIGN section 6 (#8, #9) and a document
   with every kind of sheet; all satisfy the hypothesis of the main theorem *)
Definition ex_p : node := mkNode 1 (Some 1) [1] [mkDecl 0 12 false] [].
Definition ex_doc1 : document :=
  mkDoc 1 false RNil 1 RNil 1
    [mkAuthor [] (RStyle [SAnd (SId 1) (SId 1)] (BDecl (mkDecl 0 11 false) BNil) RNil)] [].
Example C03_id_does_not_beat_style_attribute :
  doc_no_top_amp ex_doc1 = true /\ used ex_doc1 0 [ex_p] 0 = Some 12 /\ cascaded ex_doc1 0 [ex_p] 0 = Some 12.
Proof. vm_compute. repeat split. Qed.

Definition ex_doc2 : document :=
  mkDoc 1 false RNil 1 RNil 1
    [mkAuthor [] (RStyle [STag 1] (BDecl (mkDecl 3 11 false) (BNest [SAmp] (BDecl (mkDecl 3 12 false) BNil)
                                   (BDecl (mkDecl 5 13 false) BNil))) RNil)] [].
Example C03_nested_rule_after_parent_declaration :
  doc_no_top_amp ex_doc2 = true /\ used ex_doc2 0 [ex_p] 3 = Some 12 /\ used ex_doc2 0 [ex_p] 5 = Some 13.
Proof. vm_compute. repeat split. Qed.

Definition ex_table : node := mkNode 4 (Some 2) [1] [] [mkDecl 6 20 false].
Definition ex_doc3 : document :=
  mkDoc 2 true
    (RStyle [SId 2] (BDecl (mkDecl 6 21 true) BNil) RNil) 2
    (RStyle [SId 2] (BDecl (mkDecl 6 22 false) BNil) RNil) 2
    [mkAuthor [2] (RImport [] true (RStyle [SUniv] (BDecl (mkDecl 6 23 false) BNil) RNil)
                    (RMedia [1] (RStyle [SId 2] (BDecl (mkDecl 6 24 false) BNil) RNil) RNil))]
    [(2, RStyle [SClass 1] (BDecl (mkDecl 6 25 false) BNil) RNil)].
(* UA !important id rule (21) < user class rule (25) < hint attribute (20) < hint
   sheet (22) < author `*` via @import (23); the print-only @media rule (24) does
   not apply on screen *)
Example C03_levels_in_action :
  doc_no_top_amp ex_doc3 = true /\ used ex_doc3 0 [ex_table] 6 = Some 23 /\
  length (applicable ex_doc3 0 [ex_table]) = 5%nat.
Proof. vm_compute. repeat split. Qed.

(* pseudo-elements have their own cascade: p::before and a nested &::before
   feed (p, before) only; the style attribute of p does not *)
Definition ex_doc4 : document :=
  mkDoc 1 false RNil 1 RNil 1
    [mkAuthor [] (RStyle [SPseudo 1 (STag 1); SClass 9] (BDecl (mkDecl 0 31 false) BNil)
                 (RStyle [STag 1] (BNest [SPseudo 1 (SAnd SAmp (SClass 1))] (BDecl (mkDecl 0 32 false) BNil)
                                   (BDecl (mkDecl 0 33 false) BNil)) RNil))] [].
Example C03_pseudo_element_cascade :
  doc_no_top_amp ex_doc4 = true /\ used ex_doc4 1 [ex_p] 0 = Some 32 /\ used ex_doc4 0 [ex_p] 0 = Some 12 /\
  used ex_doc4 2 [ex_p] 0 = None.
Proof. vm_compute. repeat split. Qed.

(* 7. @import by URL (Css/CascadeImport.v): sheets name their imports, the
   fetcher is the table of what each URL serves, guardImportCycle removes the
   URL of the sheet being loaded from the table handed to THAT sheet.
   preprocessStylesheet = flattening of the sheet in which every @import is
   replaced by the sheet it serves (css-cascade-4 2: "as if written in place of
   the @import rule"); an @import that closes a cycle is dropped *)
Theorem C03_import_substitution : forall device e rs,
  flatten_env device e rs = flatten_rules device (expand_env e rs) false.
Proof. exact flatten_env_expand. Qed.
Print Assumptions C03_import_substitution.

(* the number of URLs served bounds the nesting depth: the fuel of the model is
   not a truncation *)
Theorem C03_import_depth_bounded : forall fuel device e rs,
  (length e <= fuel)%nat -> flatten_u fuel device e rs false = flatten_env device e rs.
Proof. exact flatten_u_fuel. Qed.
Print Assumptions C03_import_depth_bounded.

(* what one @import contributes does not depend on the @import rules before or
   after it: the following rules are processed with the importing sheet's own
   fetcher (the guard does not leak to the siblings) *)
Theorem C03_import_contribution : forall k device e q u rest,
  flatten_u (S k) device e (UImport q u rest) false =
  (if evaluate_media q device
   then match fetch e u with
        | Some sh => flatten_u k device (guard e u) sh false
        | None => []
        end
   else [])
  ++ flatten_u (S k) device e rest false.
Proof. exact import_contribution. Qed.
Print Assumptions C03_import_contribution.

(* `@import a; @import b; @import a`: the rules of a stand after those of b *)
Theorem C03_same_url_imported_twice : forall k device e u v,
  let a := match fetch e u with Some sh => flatten_u k device (guard e u) sh false | None => [] end in
  let b := match fetch e v with Some sh => flatten_u k device (guard e v) sh false | None => [] end in
  flatten_u (S k) device e (UImport [] u (UImport [] v (UImport [] u UNil))) false = a ++ b ++ a.
Proof. exact import_twice. Qed.
Print Assumptions C03_same_url_imported_twice.

(* inside the sheet served for u (and the sheets it imports) an @import of u is
   dropped; every other URL is served as before *)
Theorem C03_import_cycle_dropped : forall fuel device e u q rest,
  flatten_u fuel device (guard e u) (UImport q u rest) false = flatten_u fuel device (guard e u) rest false.
Proof. exact import_cycle_dropped. Qed.
Print Assumptions C03_import_cycle_dropped.

Theorem C03_import_guard_other_urls : forall e u v, v <> u -> fetch (guard e u) v = fetch e v.
Proof. exact import_guard_other_urls. Qed.
Print Assumptions C03_import_guard_other_urls.

(* the main theorem for documents whose sheets import by URL *)
Theorem C03_cascade_with_url_imports : forall d pseudo path p,
  doc_no_top_amp (expand_doc d) = true ->
  used (expand_doc d) pseudo path p = cascaded (expand_doc d) pseudo path p.
Proof. exact cascade_udoc_spec. Qed.
Print Assumptions C03_cascade_with_url_imports.

(* non-vacuity: a.css (1) imports itself and b.css (2); the sheet imports a, b, a:
   the declaration of a (31) wins over that of b (32) *)
Definition ex_env : env :=
  [(1, UImport [] 1 (UImport [] 2 (UStyle [STag 1] (BDecl (mkDecl 0 31 false) BNil) UNil)));
   (2, UStyle [STag 1] (BDecl (mkDecl 0 32 false) BNil) UNil)].
Definition ex_udoc : udocument :=
  mkUDoc 1 false UNil 1 UNil 1
    [mkUAuthor [] (UImport [] 1 (UImport [] 2 (UImport [] 1 UNil)))] [] ex_env.
Example C03_import_twice_in_action :
  doc_no_top_amp (expand_doc ex_udoc) = true /\
  used (expand_doc ex_udoc) 0 [mkNode 1 None [] [] []] 0 = Some 31 /\
  length (flatten_env 1 ex_env (UImport [] 1 (UImport [] 2 (UImport [] 1 UNil)))) = 5%nat.
Proof. vm_compute. repeat split. Qed.

(* 9. proof-extension round (Css/CascadeMore.v): structural facts about the
   cascade order, for lists of any length.
   (a) the winner depends only on the set of (order key, occurrence) pairs, not
       on their position in the list *)
Theorem C03_winner_same_elements : forall l l' p w,
  (forall x, In x l <-> In x l') -> is_winner l p w -> is_winner l' p w.
Proof. exact is_winner_same_elements. Qed.
Print Assumptions C03_winner_same_elements.

Theorem C03_winner_permutation_invariant : forall l l' p w,
  Permutation.Permutation l l' -> is_winner l p w -> is_winner l' p w.
Proof. exact is_winner_permutation. Qed.
Print Assumptions C03_winner_permutation_invariant.

(* (b) monotonicity: a declaration below the winner changes nothing, one above
       it (for the same property) becomes the winner *)
Theorem C03_winner_add_lower : forall l p w x,
  is_winner l p w -> occ_lt x w = true -> is_winner (x :: l) p w.
Proof. exact is_winner_add_lower. Qed.
Print Assumptions C03_winner_add_lower.

Theorem C03_winner_add_higher : forall l p w x,
  is_winner l p w -> o_prop (snd x) = p -> occ_lt w x = true -> is_winner (x :: l) p x.
Proof. exact is_winner_add_higher. Qed.
Print Assumptions C03_winner_add_higher.

(* (c) independence of properties *)
Theorem C03_winner_other_property_inert : forall l p w x,
  o_prop (snd x) <> p -> (is_winner (x :: l) p w <-> is_winner l p w).
Proof. exact is_winner_other_property. Qed.
Print Assumptions C03_winner_other_property_inert.
