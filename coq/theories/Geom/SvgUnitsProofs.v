(* Geom/SvgUnitsProofs.v -- Value.Resolve (Geom/SvgUnits.v, exact instance)
   gives every unit-carrying length the number of user units CSS / SVG define. *)
From Coq Require Import QArith List Bool Field Qfield.
From Verif Require Import Base.F32 Geom.Shapes Geom.SvgUnits.
Open Scope Q_scope.

Theorem resolve_len_spec : forall (x : uval) (font ref : Q),
  resolve_len exactQ (fun q => q) x font ref == length_spec x font ref.
Proof.
  intros [v u] font ref. destruct u; unfold resolve_len, length_spec, to_px_q, unit_px, px_per_in;
    cbn [mul div exactQ]; try reflexivity; try (field; discriminate); try ring.
Qed.

(* the coordinates of a shape are resolved attribute by attribute: horizontal
   ones against the viewport width, vertical ones against its height; a
   circle's r gives both radii *)
Theorem resolve_shape_spec : forall d,
  (forall x y w h rx ry,
     resolve_shape exactQ (fun q => q) d (URect x y w h (SomeUV rx) (SomeUV ry)) =
     ShRect (res_x exactQ (fun q => q) d x) (res_y exactQ (fun q => q) d y)
            (res_x exactQ (fun q => q) d w) (res_y exactQ (fun q => q) d h)
            (SomeQ (res_x exactQ (fun q => q) d rx)) (SomeQ (res_y exactQ (fun q => q) d ry))) /\
  (forall cx cy rx ry,
     resolve_shape exactQ (fun q => q) d (UEllipse cx cy rx ry) =
     ShEllipse (res_x exactQ (fun q => q) d cx) (res_y exactQ (fun q => q) d cy)
               (res_x exactQ (fun q => q) d rx) (res_y exactQ (fun q => q) d ry)) /\
  (forall x1 y1 x2 y2,
     resolve_shape exactQ (fun q => q) d (ULine x1 y1 x2 y2) =
     ShLine (res_x exactQ (fun q => q) d x1) (res_y exactQ (fun q => q) d y1)
            (res_x exactQ (fun q => q) d x2) (res_y exactQ (fun q => q) d y2)) /\
  (forall cx cy v u, u <> UPerc ->
     resolve_shape exactQ (fun q => q) d (UCircle cx cy (UV v u)) =
     ShEllipse (res_x exactQ (fun q => q) d cx) (res_y exactQ (fun q => q) d cy)
               (res_x exactQ (fun q => q) d (UV v u)) (res_x exactQ (fun q => q) d (UV v u))).
Proof.
  intro d. repeat split; try reflexivity.
  intros cx cy v u Hu. cbn [resolve_shape]. f_equal.
  unfold res_y, res_x, resolve_len. destruct u; try reflexivity. contradiction.
Qed.
