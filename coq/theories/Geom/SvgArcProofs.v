(* Geom/SvgArcProofs.v -- the ellipse of an SVG arc (Geom/SvgArcSpec.v):
   characterisation lemmas over Q, and the algebra of findEllipseCenter /
   ellipsePointAt (Geom/SvgArc.v) against them.  Square roots and
   trigonometric values are universally quantified rationals constrained by
   their defining equations. *)
From Coq Require Import QArith Qabs List Bool Lra Lia Psatz Field Qfield Morphisms Setoid.
From Verif Require Import Geom.SvgArcSpec Geom.SvgArc.
Open Scope Q_scope.

(* ------------------------------------------------------------------ *)
(* circles in normalised coordinates *)
Global Instance sq_proper : Proper (Qeq ==> Qeq) sq.
Proof. intros x y H. unfold sq. rewrite H. reflexivity. Qed.

Lemma sq_nonneg : forall x, 0 <= sq x.
Proof. intro x. unfold sq. nra. Qed.

Lemma sq_zero : forall x, sq x == 0 -> x == 0.
Proof. intros x H. unfold sq in H. nra. Qed.

Lemma mul_le_cancel : forall a x, 0 < a -> a * x <= a -> x <= 1.
Proof.
  intros a x Ha H. destruct (Qlt_le_dec 1 x) as [G | G]; [exfalso | exact G].
  assert (a * 1 < a * x) by (apply Qmult_lt_l; assumption). lra.
Qed.

Lemma mul_lt_cancel : forall a x, 0 < a -> a < a * x -> 1 < x.
Proof.
  intros a x Ha H. destruct (Qlt_le_dec 1 x) as [G | G]; [exact G | exfalso].
  assert (a * x <= a * 1) by (apply Qmult_le_l; assumption). lra.
Qed.

Lemma sum_sq_zero : forall x y, sq x + sq y == 0 -> x == 0 /\ y == 0.
Proof. intros x y H. unfold sq in H. split; nra. Qed.

(* (u,v) at distance 1 from sg k (b,-a), with |(a,b)|^2 = L and k^2 L = 1 - L,
   without k *)
Lemma circle_iff : forall a b u v k sg L,
  (sg == 1 \/ sg == -1) -> L == sq a + sq b -> 0 < L -> 0 <= k -> sq k * L == 1 - L ->
  let t := sq u + sq v - L in
  let w := u * b - v * a in
  (sq (u - sg * k * b) + sq (v + sg * k * a) == 1
   <-> (sq t * L == 4 * (1 - L) * sq w /\ 0 <= sg * t * w)).
Proof.
  intros a b u v k sg L Hsg HL HLpos Hk Hroot t w.
  assert (Hsg2 : sg * sg == 1) by (destruct Hsg as [E | E]; rewrite E; reflexivity).
  assert (Hexp : sq (u - sg * k * b) + sq (v + sg * k * a) - 1 == t - 2 * sg * k * w).
  { unfold t, w, sq in *.
    setoid_replace ((u - sg * k * b) * (u - sg * k * b) + (v + sg * k * a) * (v + sg * k * a) - 1)
      with (u * u + v * v - 2 * sg * k * (u * b - v * a) + (sg * sg) * (k * k * (a * a + b * b)) - 1) by ring.
    rewrite Hsg2, <- HL, Hroot. ring. }
  clearbody t w.
  split.
  - intro H. assert (Ht : t == 2 * sg * k * w) by lra. split.
    + rewrite Ht. unfold sq.
      setoid_replace (2 * sg * k * w * (2 * sg * k * w) * L) with (4 * (sg * sg) * (k * k * L) * (w * w)) by ring.
      unfold sq in Hroot. rewrite Hsg2, Hroot. ring.
    + rewrite Ht.
      setoid_replace (sg * (2 * sg * k * w) * w) with (2 * (sg * sg) * k * (w * w)) by ring.
      rewrite Hsg2. assert (0 <= w * w) by nra. nra.
  - intros [H1 H2].
    assert (Hprod : (t - 2 * sg * k * w) * (t + 2 * sg * k * w) == 0).
    { assert (E : ((t - 2 * sg * k * w) * (t + 2 * sg * k * w)) * L == 0).
      { setoid_replace ((t - 2 * sg * k * w) * (t + 2 * sg * k * w) * L)
          with (sq t * L - 4 * (sg * sg) * (sq k * L) * sq w) by (unfold sq; ring).
        rewrite Hsg2, Hroot, H1. ring. }
      apply Qmult_integral in E. destruct E as [E | E]; [exact E | lra]. }
    apply Qmult_integral in Hprod. destruct Hprod as [E | E]; [lra|].
    assert (Ht : t == - (2 * sg * k * w)) by lra.
    assert (Hkw : k * (w * w) == 0).
    { rewrite Ht in H2.
      setoid_replace (sg * - (2 * sg * k * w) * w) with (- (2 * (sg * sg) * (k * (w * w)))) in H2 by ring.
      rewrite Hsg2 in H2. assert (0 <= k * (w * w)) by nra. lra. }
    assert (Hkw0 : k * w == 0).
    { apply sq_zero. unfold sq. setoid_replace (k * w * (k * w)) with (k * (k * (w * w))) by ring.
      rewrite Hkw. ring. }
    assert (t == 0) by (rewrite Ht; setoid_replace (2 * sg * k * w) with (2 * sg * (k * w)) by ring; rewrite Hkw0; ring).
    assert (2 * sg * k * w == 0) by (setoid_replace (2 * sg * k * w) with (2 * sg * (k * w)) by ring; rewrite Hkw0; ring).
    lra.
Qed.

(* two antipodal-about-the-origin points (a,b), (-a,-b) on the unit circle of
   centre (p,q): |(a,b)|^2 = 1 - |(p,q)|^2 *)
Lemma chord_circle : forall a b p q,
  sq (a - p) + sq (b - q) == 1 -> sq (- a - p) + sq (- b - q) == 1 ->
  sq a + sq b == 1 - (sq p + sq q).
Proof. intros a b p q H1 H2. unfold sq in *. lra. Qed.

(* ------------------------------------------------------------------ *)
Lemma on_ellipse_compat : forall c s rx ry cx cy px py rx' ry' cx' cy' px' py',
  rx == rx' -> ry == ry' -> cx == cx' -> cy == cy' -> px == px' -> py == py' ->
  (on_ellipse c s rx ry cx cy px py <-> on_ellipse c s rx' ry' cx' cy' px' py').
Proof.
  intros c s rx ry cx cy px py rx' ry' cx' cy' px' py' H1 H2 H3 H4 H5 H6.
  unfold on_ellipse, nrm_u, nrm_v, sq. rewrite H1, H2, H3, H4, H5, H6. reflexivity.
Qed.

(* F.6.3: every point of the parameterisation satisfies the implicit equation *)
Lemma param_on_ellipse : forall c s rx ry cx cy ct st, ~ rx == 0 -> ~ ry == 0 ->
  sq c + sq s == 1 -> sq ct + sq st == 1 ->
  on_ellipse c s rx ry cx cy (ellipse_x c s rx ry cx ct st) (ellipse_y c s rx ry cy ct st).
Proof.
  intros c s rx ry cx cy ct st Hrx Hry Hcs Hct.
  unfold on_ellipse, nrm_u, nrm_v, ellipse_x, ellipse_y, sq in *.
  assert (Hc : c * c == 1 - s * s) by lra.
  assert (Ht : ct * ct == 1 - st * st) by lra.
  field [Hc Ht]. auto.
Qed.

(* the parameterisation preserves orientation (rx ry > 0): three parameter
   values in increasing-angle order give points in increasing-angle order *)
Lemma orient_param : forall c s rx ry cx cy ca sa cb sb cc sc,
  sq c + sq s == 1 ->
  orient (ellipse_x c s rx ry cx ca sa) (ellipse_y c s rx ry cy ca sa)
         (ellipse_x c s rx ry cx cb sb) (ellipse_y c s rx ry cy cb sb)
         (ellipse_x c s rx ry cx cc sc) (ellipse_y c s rx ry cy cc sc)
  == rx * ry * orient ca sa cb sb cc sc.
Proof.
  intros c s rx ry cx cy ca sa cb sb cc sc Hcs.
  unfold orient, ellipse_x, ellipse_y, sq in *.
  assert (Hc : c * c == 1 - s * s) by lra.
  ring [Hc].
Qed.

(* ------------------------------------------------------------------ *)
Section Arc.
Variables x1 y1 rx ry c s : Q.
Variables fa fs : bool.
Variables x2 y2 : Q.
Hypothesis Hrx : 0 < rx.
Hypothesis Hry : 0 < ry.
Hypothesis Hcs : sq c + sq s == 1.

Local Notation mx := (mid_x x1 x2).
Local Notation my := (mid_y y1 y2).
Local Notation L := (lambda x1 y1 rx ry c s x2 y2).
Local Notation A1 := (a1 x1 y1 rx c s x2 y2).
Local Notation B1 := (b1 x1 y1 ry c s x2 y2).
Local Notation sg := (sigma fa fs).
Local Notation NU := (nu x1 y1 rx c s x2 y2).
Local Notation NV := (nv x1 y1 ry c s x2 y2).

Let Hc : c * c == 1 - s * s.
Proof. unfold sq in Hcs. lra. Qed.
Let Hrx0 : ~ rx == 0. Proof. intro E. rewrite E in Hrx. discriminate. Qed.
Let Hry0 : ~ ry == 0. Proof. intro E. rewrite E in Hry. discriminate. Qed.

Lemma sigma_pm : sg == 1 \/ sg == -1.
Proof. unfold sigma. destruct (Bool.eqb fa fs); [right | left]; reflexivity. Qed.

Lemma lambda_norm : L == sq A1 + sq B1.
Proof. unfold lambda, a1, b1, sq. field. auto. Qed.

Lemma lambda_nonneg : 0 <= L.
Proof. rewrite lambda_norm. generalize (sq_nonneg A1) (sq_nonneg B1). lra. Qed.

(* Lambda = 0 exactly when the end points coincide *)
Lemma lambda_zero : L == 0 -> x1 == x2 /\ y1 == y2.
Proof.
  intro H. rewrite lambda_norm in H. apply sum_sq_zero in H. destruct H as [Ha Hb].
  unfold a1, b1, x1p, y1p in *.
  assert (Dx : x1 - x2 == 2 * ((x1 - x2) / 2)) by field.
  assert (Dy : y1 - y2 == 2 * ((y1 - y2) / 2)) by field.
  set (dx := (x1 - x2) / 2) in *. set (dy := (y1 - y2) / 2) in *.
  assert (Ha' : c * dx + s * dy == 0).
  { setoid_replace (c * dx + s * dy) with ((c * dx + s * dy) / rx * rx) by (field; auto).
    rewrite Ha. ring. }
  assert (Hb' : - s * dx + c * dy == 0).
  { setoid_replace (- s * dx + c * dy) with ((- s * dx + c * dy) / ry * ry) by (field; auto).
    rewrite Hb. ring. }
  assert (Ex : dx == c * (c * dx + s * dy) - s * (- s * dx + c * dy)) by (ring [Hc]).
  assert (Ey : dy == s * (c * dx + s * dy) + c * (- s * dx + c * dy)) by (ring [Hc]).
  rewrite Ha', Hb' in Ex, Ey.
  assert (dx == 0) by (rewrite Ex; ring). assert (dy == 0) by (rewrite Ey; ring).
  split; lra.
Qed.

Lemma lambda_pos : ~ (x1 == x2 /\ y1 == y2) -> 0 < L.
Proof.
  intro Hne. destruct (Qlt_le_dec 0 L) as [H | H]; [exact H|].
  exfalso. apply Hne. apply lambda_zero. generalize lambda_nonneg. lra.
Qed.

(* the end points in normalised coordinates: N(P1) = (a1, b1), N(P2) = - N(P1) *)
Lemma nu_start : NU x1 y1 == A1.
Proof. unfold nu, nrm_u, a1, x1p, mid_x, mid_y. field. auto. Qed.
Lemma nv_start : NV x1 y1 == B1.
Proof. unfold nv, nrm_v, b1, y1p, mid_x, mid_y. field. auto. Qed.
Lemma nu_end : NU x2 y2 == - A1.
Proof. unfold nu, nrm_u, a1, x1p, mid_x, mid_y. field. auto. Qed.
Lemma nv_end : NV x2 y2 == - B1.
Proof. unfold nv, nrm_v, b1, y1p, mid_x, mid_y. field. auto. Qed.

(* normalising about another centre = translating by the normalised centre *)
Lemma nrm_u_shift : forall cx cy px py,
  nrm_u c s rx cx cy px py == NU px py - NU cx cy.
Proof. intros. unfold nu, nrm_u. field. auto. Qed.
Lemma nrm_v_shift : forall cx cy px py,
  nrm_v c s ry cx cy px py == NV px py - NV cx cy.
Proof. intros. unfold nv, nrm_v. field. auto. Qed.

(* radii scaled by l: the normalised coordinates are divided by l *)
Lemma nrm_u_scale : forall l cx cy px py, ~ l == 0 ->
  nrm_u c s (l * rx) cx cy px py == nrm_u c s rx cx cy px py / l.
Proof. intros. unfold nrm_u. field. auto. Qed.
Lemma nrm_v_scale : forall l cx cy px py, ~ l == 0 ->
  nrm_v c s (l * ry) cx cy px py == nrm_v c s ry cx cy px py / l.
Proof. intros. unfold nrm_v. field. auto. Qed.

(* the centre of F.6.5.3 in normalised coordinates: sigma k (b1, -a1) *)
Lemma centre_norm_u : forall k,
  NU (centre_x x1 y1 rx ry c s fa fs x2 y2 k) (centre_y x1 y1 rx ry c s fa fs x2 y2 k) == sg * k * B1.
Proof.
  intro k. unfold nu, nrm_u, centre_x, centre_y, cxp, cyp, b1. field [Hc]. auto.
Qed.
Lemma centre_norm_v : forall k,
  NV (centre_x x1 y1 rx ry c s fa fs x2 y2 k) (centre_y x1 y1 rx ry c s fa fs x2 y2 k) == - (sg * k * A1).
Proof.
  intro k. unfold nv, nrm_v, centre_x, centre_y, cxp, cyp, a1. field [Hc]. auto.
Qed.

(* a centre is determined by its normalised coordinates *)
Lemma centre_of_norm : forall cx cy,
  cx == c * (rx * NU cx cy) - s * (ry * NV cx cy) + mx /\
  cy == s * (rx * NU cx cy) + c * (ry * NV cx cy) + my.
Proof. intros. unfold nu, nv, nrm_u, nrm_v. split; field [Hc]; auto. Qed.

(* ------------------------------------------------------------------ *)
(* F.6.6.2, the Lambda criterion: an ellipse with the given radii and rotation
   through both end points exists only if Lambda <= 1; its centre then has
   normalised distance^2 1 - Lambda from the chord's midpoint and lies on the
   chord's perpendicular bisector. *)
Theorem lambda_criterion : forall cx cy,
  on_ellipse c s rx ry cx cy x1 y1 -> on_ellipse c s rx ry cx cy x2 y2 ->
  L <= 1 /\ sq (NU cx cy) + sq (NV cx cy) == 1 - L /\ NU cx cy * A1 + NV cx cy * B1 == 0.
Proof.
  intros cx cy H1 H2. unfold on_ellipse in H1, H2.
  rewrite nrm_u_shift, nrm_v_shift in H1, H2.
  rewrite nu_start, nv_start in H1. rewrite nu_end, nv_end in H2.
  pose proof (chord_circle _ _ _ _ H1 H2) as E. rewrite <- lambda_norm in E.
  split; [|split].
  - generalize (sq_nonneg (NU cx cy)) (sq_nonneg (NV cx cy)). lra.
  - lra.
  - unfold sq in H1, H2. lra.
Qed.

(* ... and if Lambda <= 1 (and the root exists) the two centres of F.6.5.3 do
   give ellipses through both end points *)
Lemma centre_dev : forall k px py,
  sq (nrm_u c s rx (centre_x x1 y1 rx ry c s fa fs x2 y2 k) (centre_y x1 y1 rx ry c s fa fs x2 y2 k) px py)
  + sq (nrm_v c s ry (centre_x x1 y1 rx ry c s fa fs x2 y2 k) (centre_y x1 y1 rx ry c s fa fs x2 y2 k) px py)
  == sq (NU px py - sg * k * B1) + sq (NV px py + sg * k * A1).
Proof.
  intros k px py. rewrite nrm_u_shift, nrm_v_shift, centre_norm_u, centre_norm_v.
  unfold sq. ring.
Qed.

(* ------------------------------------------------------------------ *)
(* the root-free predicate is the implicit equation of the arc's ellipse *)
Theorem arc_pred_small : forall k px py, ~ (x1 == x2 /\ y1 == y2) -> L <= 1 ->
  is_root x1 y1 rx ry c s x2 y2 k ->
  (on_ellipse c s rx ry (centre_x x1 y1 rx ry c s fa fs x2 y2 k) (centre_y x1 y1 rx ry c s fa fs x2 y2 k) px py
   <-> arc_pred x1 y1 rx ry c s fa fs x2 y2 px py).
Proof.
  intros k px py Hne HL [Hk Hroot].
  unfold on_ellipse. rewrite centre_dev. unfold arc_pred.
  destruct (Qlt_le_dec 1 L) as [Hgt | _]; [lra|].
  unfold arc_t, arc_w.
  apply (circle_iff A1 B1 (NU px py) (NV px py) k sg L sigma_pm lambda_norm (lambda_pos Hne) Hk Hroot).
Qed.

Theorem arc_pred_large : forall l px py, 1 < L -> is_scale x1 y1 rx ry c s x2 y2 l ->
  (on_ellipse c s (l * rx) (l * ry) mx my px py <-> arc_pred x1 y1 rx ry c s fa fs x2 y2 px py).
Proof.
  intros l px py HL [Hl Hsc].
  assert (Hl0 : ~ l == 0) by (intro E; rewrite E in Hl; discriminate).
  unfold on_ellipse. rewrite nrm_u_scale, nrm_v_scale by exact Hl0.
  unfold arc_pred. destruct (Qlt_le_dec 1 L) as [_ | Hle]; [|lra].
  unfold arc_t. fold (NU px py) (NV px py).
  assert (E : sq (NU px py / l) + sq (NV px py / l) == (sq (NU px py) + sq (NV px py)) / sq l)
    by (unfold sq; field; exact Hl0).
  rewrite E, Hsc.
  assert (HLpos : ~ L == 0) by lra.
  split; intro H.
  - assert (E2 : sq (NU px py) + sq (NV px py) == (sq (NU px py) + sq (NV px py)) / L * L) by (field; exact HLpos).
    rewrite H in E2. lra.
  - assert (E2 : sq (NU px py) + sq (NV px py) == L) by lra. rewrite E2. field. exact HLpos.
Qed.

(* both end points lie on the arc's ellipse, in both regimes (so forcing the
   last point to the given end point is consistent with the predicate) *)
Theorem arc_pred_endpoints :
  arc_pred x1 y1 rx ry c s fa fs x2 y2 x1 y1 /\ arc_pred x1 y1 rx ry c s fa fs x2 y2 x2 y2.
Proof.
  assert (T1 : arc_t x1 y1 rx ry c s x2 y2 x1 y1 == 0).
  { unfold arc_t. rewrite nu_start, nv_start, lambda_norm. ring. }
  assert (T2 : arc_t x1 y1 rx ry c s x2 y2 x2 y2 == 0).
  { unfold arc_t. rewrite nu_end, nv_end, lambda_norm. unfold sq. ring. }
  assert (W1 : arc_w x1 y1 rx ry c s x2 y2 x1 y1 == 0).
  { unfold arc_w. rewrite nu_start, nv_start. ring. }
  assert (W2 : arc_w x1 y1 rx ry c s x2 y2 x2 y2 == 0).
  { unfold arc_w. rewrite nu_end, nv_end. ring. }
  unfold arc_pred. destruct (Qlt_le_dec 1 L); split; try assumption.
  - rewrite T1, W1. unfold sq. split; [ring | lra].
  - rewrite T2, W2. unfold sq. split; [ring | lra].
Qed.

(* ------------------------------------------------------------------ *)
(* F.6.6.3, Lambda > 1 (in fact for every non-degenerate chord): with the
   radii scaled by sqrt Lambda the chord is a diameter: the ellipse about the
   chord's midpoint passes through both end points, no other centre does, and
   no smaller scale factor admits any centre. *)
Theorem chord_is_diameter : forall l, is_scale x1 y1 rx ry c s x2 y2 l ->
  on_ellipse c s (l * rx) (l * ry) mx my x1 y1 /\ on_ellipse c s (l * rx) (l * ry) mx my x2 y2.
Proof.
  intros l [Hl Hsc].
  assert (Hl0 : ~ l == 0) by (intro E; rewrite E in Hl; discriminate).
  unfold on_ellipse. rewrite !nrm_u_scale, !nrm_v_scale by exact Hl0.
  fold (NU x1 y1) (NV x1 y1) (NU x2 y2) (NV x2 y2).
  rewrite nu_start, nv_start, nu_end, nv_end.
  assert (Hsq : ~ sq l == 0) by (unfold sq; nra).
  split.
  - setoid_replace (sq (A1 / l) + sq (B1 / l)) with ((sq A1 + sq B1) / sq l) by (unfold sq; field; exact Hl0).
    rewrite <- lambda_norm, Hsc. field. rewrite <- Hsc. exact Hsq.
  - setoid_replace (sq (- A1 / l) + sq (- B1 / l)) with ((sq A1 + sq B1) / sq l) by (unfold sq; field; exact Hl0).
    rewrite <- lambda_norm, Hsc. field. rewrite <- Hsc. exact Hsq.
Qed.

Theorem scaled_centre_unique : forall l cx cy, is_scale x1 y1 rx ry c s x2 y2 l ->
  on_ellipse c s (l * rx) (l * ry) cx cy x1 y1 -> on_ellipse c s (l * rx) (l * ry) cx cy x2 y2 ->
  cx == mx /\ cy == my.
Proof.
  intros l cx cy [Hl Hsc] H1 H2.
  assert (Hl0 : ~ l == 0) by (intro E; rewrite E in Hl; discriminate).
  unfold on_ellipse in H1, H2. rewrite nrm_u_scale, nrm_v_scale in H1, H2 by exact Hl0.
  rewrite nrm_u_shift, nrm_v_shift in H1, H2.
  rewrite nu_start, nv_start in H1. rewrite nu_end, nv_end in H2.
  set (p := NU cx cy) in *. set (q := NV cx cy) in *.
  assert (G1 : sq (A1 / l - p / l) + sq (B1 / l - q / l) == 1).
  { rewrite <- H1. unfold sq. field. exact Hl0. }
  assert (G2 : sq (- (A1 / l) - p / l) + sq (- (B1 / l) - q / l) == 1).
  { rewrite <- H2. unfold sq. field. exact Hl0. }
  pose proof (chord_circle _ _ _ _ G1 G2) as E.
  assert (EL : sq (A1 / l) + sq (B1 / l) == 1).
  { setoid_replace (sq (A1 / l) + sq (B1 / l)) with ((sq A1 + sq B1) / sq l) by (unfold sq; field; exact Hl0).
    rewrite <- lambda_norm, Hsc. field. rewrite <- Hsc. unfold sq. nra. }
  assert (Z : sq (p / l) + sq (q / l) == 0) by lra.
  apply sum_sq_zero in Z. destruct Z as [Zp Zq].
  assert (P0 : p == 0).
  { setoid_replace p with (p / l * l) by (field; exact Hl0). rewrite Zp. ring. }
  assert (Q0 : q == 0).
  { setoid_replace q with (q / l * l) by (field; exact Hl0). rewrite Zq. ring. }
  destruct (centre_of_norm cx cy) as [Ex Ey]. fold p q in Ex, Ey.
  rewrite P0, Q0 in Ex, Ey. split; lra.
Qed.

(* the number Check/C18.v evaluates: arc_dev = 1 exactly on the arc's ellipse *)
Theorem arc_dev_small : forall k px py, ~ (x1 == x2 /\ y1 == y2) -> L <= 1 ->
  is_root x1 y1 rx ry c s x2 y2 k ->
  (arc_dev x1 y1 rx ry c s fa fs x2 y2 k px py == 1 <-> arc_pred x1 y1 rx ry c s fa fs x2 y2 px py).
Proof.
  intros k px py Hne HL Hroot.
  rewrite <- (arc_pred_small k px py Hne HL Hroot).
  unfold on_ellipse. rewrite centre_dev. unfold arc_dev, dev_of.
  destruct (Qlt_le_dec 1 L) as [Hgt | _]; [lra|].
  setoid_replace (NV px py - - (sg * k * A1)) with (NV px py + sg * k * A1) by ring. reflexivity.
Qed.

Theorem arc_dev_large : forall k px py, 1 < L ->
  (arc_dev x1 y1 rx ry c s fa fs x2 y2 k px py == 1 <-> arc_pred x1 y1 rx ry c s fa fs x2 y2 px py).
Proof.
  intros k px py HL. unfold arc_dev, dev_of, arc_pred, arc_t.
  destruct (Qlt_le_dec 1 L) as [_ | Hle]; [|lra].
  assert (HL0 : ~ L == 0) by lra.
  split; intro H.
  - assert (E : sq (NU px py) + sq (NV px py) == (sq (NU px py) + sq (NV px py)) / L * L) by (field; exact HL0).
    rewrite H in E. lra.
  - assert (E : sq (NU px py) + sq (NV px py) == L) by lra. rewrite E. field. exact HL0.
Qed.

(* the normalisation is affine in the point (Check/C18.v evaluates it so) *)
Lemma nrm_affine : forall cx cy px py,
  nrm_u c s rx cx cy px py == c / rx * px + s / rx * py + - ((c * cx + s * cy) / rx) /\
  nrm_v c s ry cx cy px py == - s / ry * px + c / ry * py + - ((- s * cx + c * cy) / ry).
Proof. intros. unfold nrm_u, nrm_v. split; field; auto. Qed.

(* ... and preserves orientation: the cyclic order of points may be tested in
   normalised coordinates *)
Lemma orient_norm : forall ax ay bx by_ cx cy,
  orient (NU ax ay) (NV ax ay) (NU bx by_) (NV bx by_) (NU cx cy) (NV cx cy) * (rx * ry)
  == orient ax ay bx by_ cx cy.
Proof. intros. unfold orient, nu, nv, nrm_u, nrm_v. field [Hc]. auto. Qed.

End Arc.

(* "scaled up uniformly until there is exactly one solution": a smaller scale
   admits none *)
Theorem smaller_scale_no_ellipse : forall x1 y1 rx ry c s x2 y2 l' cx cy,
  0 < rx -> 0 < ry -> sq c + sq s == 1 -> 0 < l' ->
  sq l' < lambda x1 y1 rx ry c s x2 y2 ->
  ~ (on_ellipse c s (l' * rx) (l' * ry) cx cy x1 y1 /\ on_ellipse c s (l' * rx) (l' * ry) cx cy x2 y2).
Proof.
  intros x1 y1 rx ry c s x2 y2 l' cx cy Hrx Hry Hcs Hl Hlt [H1 H2].
  assert (Hrx' : 0 < l' * rx) by nra. assert (Hry' : 0 < l' * ry) by nra.
  destruct (lambda_criterion x1 y1 (l' * rx) (l' * ry) c s x2 y2 Hrx' Hry' cx cy H1 H2) as [Hle _].
  assert (E : lambda x1 y1 (l' * rx) (l' * ry) c s x2 y2 == lambda x1 y1 rx ry c s x2 y2 / sq l').
  { unfold lambda, sq. field. repeat split; intro E; rewrite E in *; discriminate. }
  rewrite E in Hle.
  assert (Hsq : 0 < sq l') by (unfold sq; nra).
  assert (lambda x1 y1 rx ry c s x2 y2 <= sq l').
  { setoid_replace (lambda x1 y1 rx ry c s x2 y2) with (lambda x1 y1 rx ry c s x2 y2 / sq l' * sq l')
      by (field; lra). nra. }
  lra.
Qed.

(* ------------------------------------------------------------------ *)
(* the flags: seen from the centre of F.6.5.3, the signed area spanned by the
   start and the end point is 2 sigma k Lambda rx ry: the angle from start to
   end, taken in (-pi, pi), is positive iff fA <> fS.  Hence going in the
   direction of the sweep flag (positive angles iff fS) covers less than a
   half turn iff fA = false. *)
Theorem flags_side : forall x1 y1 rx ry c s fa fs x2 y2 k, 0 < rx -> 0 < ry -> sq c + sq s == 1 ->
  orient (centre_x x1 y1 rx ry c s fa fs x2 y2 k) (centre_y x1 y1 rx ry c s fa fs x2 y2 k) x1 y1 x2 y2
  == 2 * sigma fa fs * k * lambda x1 y1 rx ry c s x2 y2 * rx * ry.
Proof.
  intros x1 y1 rx ry c s fa fs x2 y2 k Hrx Hry Hcs.
  assert (Hc : c * c == 1 - s * s) by (unfold sq in Hcs; lra).
  unfold orient, centre_x, centre_y, cxp, cyp, lambda, x1p, y1p, mid_x, mid_y, sq.
  field [Hc]. split; intro E; rewrite E in *; discriminate.
Qed.

Corollary flags_select : forall x1 y1 rx ry c s fa fs x2 y2 k, 0 < rx -> 0 < ry -> sq c + sq s == 1 ->
  ~ (x1 == x2 /\ y1 == y2) -> 0 < k ->
  let o := orient (centre_x x1 y1 rx ry c s fa fs x2 y2 k) (centre_y x1 y1 rx ry c s fa fs x2 y2 k) x1 y1 x2 y2 in
  (* sweep in the positive direction (fs): the short way round iff not large-arc *)
  (fs = true -> (0 < o <-> fa = false)) /\
  (fs = false -> (o < 0 <-> fa = false)).
Proof.
  intros x1 y1 rx ry c s fa fs x2 y2 k Hrx Hry Hcs Hne Hk o.
  pose proof (flags_side x1 y1 rx ry c s fa fs x2 y2 k Hrx Hry Hcs) as E. fold o in E.
  pose proof (lambda_pos x1 y1 rx ry c s x2 y2 Hrx Hry Hcs Hne) as HL.
  assert (P : 0 < k * lambda x1 y1 rx ry c s x2 y2 * rx * ry).
  { assert (0 < k * lambda x1 y1 rx ry c s x2 y2) by nra.
    assert (0 < k * lambda x1 y1 rx ry c s x2 y2 * rx) by nra. nra. }
  unfold sigma in E.
  split; intro Hfs; subst fs; destruct fa; cbn in E; split; intro H; try reflexivity; try discriminate; nra.
Qed.

(* ------------------------------------------------------------------ *)
(* findEllipseCenter (Geom/SvgArc.v) computes the ellipse of F.6.5 / F.6.6 *)
Definition flagq (b : bool) : Q := if b then 1 else 0.

Section Model.
Variables x1 y1 rx ry c s : Q.
Variables fa fs : bool.
Variables x2 y2 : Q.
Variables r_m r_h : Q.
Hypothesis Hrx : 0 < rx.
Hypothesis Hry : 0 < ry.
Hypothesis Hcs : sq c + sq s == 1.
Hypothesis Hne : ~ (x1 == x2 /\ y1 == y2).

Local Notation L := (lambda x1 y1 rx ry c s x2 y2).
(* the oracle values are the square roots the Go code asks for:
   midlenSq = ry^2 Lambda, and (when Lambda <= 1) rb^2 - midlenSq *)
Hypothesis Hrm : 0 <= r_m /\ sq r_m == sq ry * L.
Hypothesis Hrh : L <= 1 -> 0 <= r_h /\ sq r_h == sq ry - sq ry * L.

Let Hc : c * c == 1 - s * s.
Proof. unfold sq in Hcs. lra. Qed.
Let Hrx0 : ~ rx == 0. Proof. intro E. rewrite E in Hrx. discriminate. Qed.
Let Hry0 : ~ ry == 0. Proof. intro E. rewrite E in Hry. discriminate. Qed.
Let HL : 0 < L. Proof. exact (lambda_pos x1 y1 rx ry c s x2 y2 Hrx Hry Hcs Hne). Qed.

Lemma rm_pos : 0 < r_m.
Proof.
  destruct Hrm as [H0 Hsq].
  assert (0 < sq ry * L) by (apply Qmult_lt_0_compat; [unfold sq; nra | exact HL]).
  destruct (Qlt_le_dec 0 r_m) as [G | G]; [exact G|].
  assert (E : r_m == 0) by lra. rewrite E in Hsq. unfold sq in Hsq at 1. lra.
Qed.

Local Notation out := (find_ellipse_center c s r_m r_h rx ry x1 y1 x2 y2 (Qeq_bool (flagq fs) 0) (Qeq_bool (flagq fa) 0)).

Lemma midlen_sq_lambda :
  let nx0 := x2 - x1 in let ny0 := y2 - y1 in
  let nx := (nx0 * c + ny0 * s) * (ry / rx) in
  let ny := - nx0 * s + ny0 * c in
  nx / 2 * (nx / 2) + ny / 2 * (ny / 2) == sq ry * L.
Proof. cbv zeta. unfold lambda, x1p, y1p, sq. field. auto. Qed.

Lemma flagq_eq0 : forall b, Qeq_bool (flagq b) 0 = negb b.
Proof. destruct b; reflexivity. Qed.

Theorem find_center_spec :
  arc_ellipse x1 y1 rx ry c s fa fs x2 y2 (o_ra out) (o_rb out) (o_cx out) (o_cy out).
Proof.
  pose proof rm_pos as Hm. destruct Hrm as [_ Hmsq].
  assert (Hm0 : ~ r_m == 0) by lra.
  unfold find_ellipse_center.
  rewrite !flagq_eq0.
  set (msq := (((x2 - x1) * c + (y2 - y1) * s) * (ry / rx) / 2 * (((x2 - x1) * c + (y2 - y1) * s) * (ry / rx) / 2)
              + (- (x2 - x1) * s + (y2 - y1) * c) / 2 * ((- (x2 - x1) * s + (y2 - y1) * c) / 2))).
  assert (Emsq : msq == sq ry * L) by (apply midlen_sq_lambda).
  unfold qlt_b. destruct (Qle_bool msq (ry * ry)) eqn:Hcmp; cbn [negb].
  - (* radii large enough *)
    apply Qle_bool_iff in Hcmp. rewrite Emsq in Hcmp.
    assert (HL1 : L <= 1) by (apply (mul_le_cancel (sq ry)); [unfold sq; nra | unfold sq in *; lra]).
    destruct (Hrh HL1) as [Hh Hhsq].
    left. split; [exact HL1|].
    assert (Hroot : is_root x1 y1 rx ry c s x2 y2 (r_h / r_m)).
    { split.
      - apply Qle_shift_div_l; [exact Hm | lra].
      - setoid_replace (sq (r_h / r_m) * L) with (sq r_h * L / sq r_m) by (unfold sq; field; exact Hm0).
        rewrite Hhsq, Hmsq. unfold sq. field. split; [lra | exact Hry0]. }
    destruct fa, fs; cbn [negb andb orb o_ra o_rb o_cx o_cy];
      (split; [reflexivity | split; [reflexivity | exists (r_h / r_m); split; [exact Hroot|]]]);
      unfold centre_x, centre_y, cxp, cyp, sigma, x1p, y1p, mid_x, mid_y; cbn [Bool.eqb];
      split; field [Hc]; auto.
  - (* radii too small: scaled *)
    assert (Hgt : ry * ry < msq).
    { destruct (Qlt_le_dec (ry * ry) msq) as [G | G]; [exact G|].
      apply Qle_bool_iff in G. rewrite G in Hcmp. discriminate. }
    rewrite Emsq in Hgt.
    assert (HL1 : 1 < L) by (apply (mul_lt_cancel (sq ry)); [unfold sq; nra | unfold sq in *; lra]).
    right. split; [exact HL1|].
    exists (r_m / ry).
    assert (Hscale : is_scale x1 y1 rx ry c s x2 y2 (r_m / ry)).
    { split.
      - apply Qlt_shift_div_l; [exact Hry | lra].
      - setoid_replace (sq (r_m / ry)) with (sq r_m / sq ry) by (unfold sq; field; exact Hry0).
        rewrite Hmsq. unfold sq. field. exact Hry0. }
    split; [exact Hscale|].
    assert (Era : (if Qeq_bool rx ry then r_m else rx * r_m / ry) == r_m / ry * rx).
    { destruct (Qeq_bool rx ry) eqn:Eq.
      - apply Qeq_bool_iff in Eq. rewrite Eq. field. exact Hry0.
      - field. exact Hry0. }
    destruct fa, fs; cbn [negb andb orb o_ra o_rb o_cx o_cy];
      (split; [exact Era | split; [field; exact Hry0 |]]);
      rewrite Era; unfold mid_x, mid_y; split; field [Hc]; auto.
Qed.

(* every point the model's ellipsePointAt produces for the arc -- whatever the
   parameter value -- lies on the ellipse SVG defines for the arc *)
Theorem model_point_on_ellipse : forall ce se, sq ce + sq se == 1 ->
  let p := ellipse_point_at c s (o_ra out) (o_rb out) ce se (o_cx out) (o_cy out) in
  arc_pred x1 y1 rx ry c s fa fs x2 y2 (fst p) (snd p).
Proof.
  intros ce se Hce p.
  assert (Hp : fst p == ellipse_x c s (o_ra out) (o_rb out) (o_cx out) ce se /\
               snd p == ellipse_y c s (o_ra out) (o_rb out) (o_cy out) ce se).
  { unfold p, ellipse_point_at, ellipse_x, ellipse_y. cbn [fst snd]. split; ring. }
  destruct Hp as [Hpx Hpy].
  destruct find_center_spec as [[HL1 [Era [Erb [k [Hroot [Ecx Ecy]]]]]] | [HL1 [l [Hscale [Era [Erb [Ecx Ecy]]]]]]].
  - apply (arc_pred_small x1 y1 rx ry c s fa fs x2 y2 Hrx Hry Hcs k _ _ Hne HL1 Hroot).
    apply (on_ellipse_compat c s (o_ra out) (o_rb out) (o_cx out) (o_cy out)
             (ellipse_x c s (o_ra out) (o_rb out) (o_cx out) ce se)
             (ellipse_y c s (o_ra out) (o_rb out) (o_cy out) ce se)); try assumption; try (symmetry; assumption).
    apply param_on_ellipse; try assumption; rewrite ?Era, ?Erb; assumption.
  - apply (arc_pred_large x1 y1 rx ry c s fa fs x2 y2 Hrx Hry l _ _ HL1 Hscale).
    apply (on_ellipse_compat c s (o_ra out) (o_rb out) (o_cx out) (o_cy out)
             (ellipse_x c s (o_ra out) (o_rb out) (o_cx out) ce se)
             (ellipse_y c s (o_ra out) (o_rb out) (o_cy out) ce se)); try assumption; try (symmetry; assumption).
    destruct Hscale as [Hl _].
    apply param_on_ellipse; try assumption; rewrite ?Era, ?Erb; intro E.
    + assert (0 < l * rx) by nra. lra.
    + assert (0 < l * ry) by nra. lra.
Qed.
End Model.

(* addArcFromA + addArc's junction points (Geom/SvgArc.v arc_centre / arc_point):
   for all non-zero radii of either sign (F.6.6 step 2), every flag
   combination, every rotation, in both regimes of F.6.6 *)
Lemma qabs_pos : forall r, ~ r == 0 -> 0 < Qabs r.
Proof.
  intros r H. destruct (Qlt_le_dec 0 (Qabs r)) as [G | G]; [exact G|].
  exfalso. apply H. pose proof (Qabs_nonneg r) as N.
  assert (E : Qabs r == 0) by lra.
  destruct (Qlt_le_dec r 0) as [Neg | Pos].
  - rewrite Qabs_neg in E by lra. lra.
  - rewrite Qabs_pos in E by lra. exact E.
Qed.

Theorem arc_centre_spec : forall x1 y1 rx ry c s fa fs x2 y2 r_m r_h,
  ~ rx == 0 -> ~ ry == 0 -> sq c + sq s == 1 -> ~ (x1 == x2 /\ y1 == y2) ->
  let L := lambda x1 y1 (arc_abs rx) (arc_abs ry) c s x2 y2 in
  (0 <= r_m /\ sq r_m == sq (arc_abs ry) * L) ->
  (L <= 1 -> 0 <= r_h /\ sq r_h == sq (arc_abs ry) - sq (arc_abs ry) * L) ->
  let o := arc_centre c s r_m r_h rx ry (flagq fa) (flagq fs) x1 y1 x2 y2 in
  arc_ellipse x1 y1 (arc_abs rx) (arc_abs ry) c s fa fs x2 y2 (o_ra o) (o_rb o) (o_cx o) (o_cy o).
Proof.
  intros x1 y1 rx ry c s fa fs x2 y2 r_m r_h Hrx Hry Hcs Hne L Hrm Hrh o.
  exact (find_center_spec x1 y1 (Qabs rx) (Qabs ry) c s fa fs x2 y2 r_m r_h
           (qabs_pos rx Hrx) (qabs_pos ry Hry) Hcs Hne Hrm Hrh).
Qed.

Theorem model_point_on_arc : forall x1 y1 rx ry c s fa fs x2 y2 r_m r_h ce se,
  ~ rx == 0 -> ~ ry == 0 -> sq c + sq s == 1 -> ~ (x1 == x2 /\ y1 == y2) ->
  let L := lambda x1 y1 (arc_abs rx) (arc_abs ry) c s x2 y2 in
  (0 <= r_m /\ sq r_m == sq (arc_abs ry) * L) ->
  (L <= 1 -> 0 <= r_h /\ sq r_h == sq (arc_abs ry) - sq (arc_abs ry) * L) ->
  sq ce + sq se == 1 ->
  let p := arc_point c s r_m r_h rx ry (flagq fa) (flagq fs) x1 y1 x2 y2 ce se in
  arc_pred x1 y1 (arc_abs rx) (arc_abs ry) c s fa fs x2 y2 (fst p) (snd p).
Proof.
  intros x1 y1 rx ry c s fa fs x2 y2 r_m r_h ce se Hrx Hry Hcs Hne L Hrm Hrh Hce p.
  exact (model_point_on_ellipse x1 y1 (Qabs rx) (Qabs ry) c s fa fs x2 y2 r_m r_h
           (qabs_pos rx Hrx) (qabs_pos ry Hry) Hcs Hne Hrm Hrh ce se Hce).
Qed.

(* dev_of on fixed-point arguments z / d (Check/C18.v computes it so: Q
   arithmetic does not reduce fractions) *)
Lemma qmake_sub : forall a b d, Qmake a d - Qmake b d == Qmake (a - b) d.
Proof. intros. unfold Qeq, Qminus, Qplus, Qopp. cbn. rewrite Pos2Z.inj_mul. ring. Qed.

Lemma qmake_sq_sum : forall a b d, sq (Qmake a d) + sq (Qmake b d) == Qmake (a * a + b * b) (d * d).
Proof. intros. unfold sq, Qeq, Qplus, Qmult. cbn. rewrite !Pos2Z.inj_mul. ring. Qed.

Lemma dev_of_fixed : forall lam (d : positive) (P Qc U V : Z), lam <= 1 ->
  dev_of lam (Qmake P d) (Qmake Qc d) (Qmake U d) (Qmake V d)
  == Qmake ((U - P) * (U - P) + (V - Qc) * (V - Qc)) (d * d).
Proof.
  intros lam d P Qc U V Hle. unfold dev_of.
  destruct (Qlt_le_dec 1 lam) as [Hgt | _]; [lra|].
  rewrite !qmake_sub. apply qmake_sq_sum.
Qed.

Lemma dev_of_fixed_big : forall lam (d : positive) p q (U V : Z), 1 < lam ->
  dev_of lam p q (Qmake U d) (Qmake V d) == Qmake (U * U + V * V) (d * d) / lam.
Proof.
  intros lam d p q U V Hgt. unfold dev_of.
  destruct (Qlt_le_dec 1 lam) as [_ | Hle]; [|lra].
  rewrite qmake_sq_sum. reflexivity.
Qed.

(* ------------------------------------------------------------------ *)
(* the statements of Properties/C18.v *)
Theorem arc_scaled_radii : forall x1 y1 rx ry c s x2 y2, 0 < rx -> 0 < ry -> sq c + sq s == 1 ->
  (forall l, is_scale x1 y1 rx ry c s x2 y2 l ->
     (on_ellipse c s (l * rx) (l * ry) (mid_x x1 x2) (mid_y y1 y2) x1 y1 /\
      on_ellipse c s (l * rx) (l * ry) (mid_x x1 x2) (mid_y y1 y2) x2 y2) /\
     (forall cx cy, on_ellipse c s (l * rx) (l * ry) cx cy x1 y1 -> on_ellipse c s (l * rx) (l * ry) cx cy x2 y2 ->
        cx == mid_x x1 x2 /\ cy == mid_y y1 y2)) /\
  (forall l' cx cy, 0 < l' -> sq l' < lambda x1 y1 rx ry c s x2 y2 ->
     ~ (on_ellipse c s (l' * rx) (l' * ry) cx cy x1 y1 /\ on_ellipse c s (l' * rx) (l' * ry) cx cy x2 y2)).
Proof.
  intros x1 y1 rx ry c s x2 y2 Hrx Hry Hcs. split.
  - intros l Hl. split.
    + apply chord_is_diameter; assumption.
    + intros cx cy H1 H2. apply scaled_centre_unique with (rx := rx) (ry := ry) (c := c) (s := s) (l := l); assumption.
  - intros l' cx cy Hl Hlt. apply smaller_scale_no_ellipse; assumption.
Qed.

Theorem arc_pred_spec : forall x1 y1 rx ry c s fa fs x2 y2, 0 < rx -> 0 < ry -> sq c + sq s == 1 ->
  ~ (x1 == x2 /\ y1 == y2) ->
  (forall k px py, lambda x1 y1 rx ry c s x2 y2 <= 1 -> is_root x1 y1 rx ry c s x2 y2 k ->
     (on_ellipse c s rx ry (centre_x x1 y1 rx ry c s fa fs x2 y2 k) (centre_y x1 y1 rx ry c s fa fs x2 y2 k) px py
      <-> arc_pred x1 y1 rx ry c s fa fs x2 y2 px py) /\
     (arc_dev x1 y1 rx ry c s fa fs x2 y2 k px py == 1 <-> arc_pred x1 y1 rx ry c s fa fs x2 y2 px py)) /\
  (forall l k px py, 1 < lambda x1 y1 rx ry c s x2 y2 -> is_scale x1 y1 rx ry c s x2 y2 l ->
     (on_ellipse c s (l * rx) (l * ry) (mid_x x1 x2) (mid_y y1 y2) px py
      <-> arc_pred x1 y1 rx ry c s fa fs x2 y2 px py) /\
     (arc_dev x1 y1 rx ry c s fa fs x2 y2 k px py == 1 <-> arc_pred x1 y1 rx ry c s fa fs x2 y2 px py)).
Proof.
  intros x1 y1 rx ry c s fa fs x2 y2 Hrx Hry Hcs Hne. split.
  - intros k px py HL Hk. split.
    + apply arc_pred_small; assumption.
    + apply arc_dev_small; assumption.
  - intros l k px py HL Hl. split.
    + apply arc_pred_large; assumption.
    + apply arc_dev_large; assumption.
Qed.

Theorem arc_parameterisation : forall c s rx ry cx cy, sq c + sq s == 1 ->
  (forall ct st, ~ rx == 0 -> ~ ry == 0 -> sq ct + sq st == 1 ->
     on_ellipse c s rx ry cx cy (ellipse_x c s rx ry cx ct st) (ellipse_y c s rx ry cy ct st)) /\
  (forall ca sa cb sb cc sc,
     orient (ellipse_x c s rx ry cx ca sa) (ellipse_y c s rx ry cy ca sa)
            (ellipse_x c s rx ry cx cb sb) (ellipse_y c s rx ry cy cb sb)
            (ellipse_x c s rx ry cx cc sc) (ellipse_y c s rx ry cy cc sc)
     == rx * ry * orient ca sa cb sb cc sc).
Proof.
  intros c s rx ry cx cy Hcs. split.
  - intros ct st Hrx Hry Hct. apply param_on_ellipse; assumption.
  - intros. apply orient_param; assumption.
Qed.

Theorem arc_flags : forall x1 y1 rx ry c s fa fs x2 y2 k, 0 < rx -> 0 < ry -> sq c + sq s == 1 ->
  ~ (x1 == x2 /\ y1 == y2) -> 0 < k ->
  let o := orient (centre_x x1 y1 rx ry c s fa fs x2 y2 k) (centre_y x1 y1 rx ry c s fa fs x2 y2 k) x1 y1 x2 y2 in
  o == 2 * sigma fa fs * k * lambda x1 y1 rx ry c s x2 y2 * rx * ry /\
  (fs = true -> (0 < o <-> fa = false)) /\ (fs = false -> (o < 0 <-> fa = false)).
Proof.
  intros x1 y1 rx ry c s fa fs x2 y2 k Hrx Hry Hcs Hne Hk o. split.
  - apply flags_side; assumption.
  - apply flags_select; assumption.
Qed.

Theorem arc_model_spec : forall x1 y1 rx ry c s fa fs x2 y2 r_m r_h,
  ~ rx == 0 -> ~ ry == 0 -> sq c + sq s == 1 -> ~ (x1 == x2 /\ y1 == y2) ->
  let L := lambda x1 y1 (arc_abs rx) (arc_abs ry) c s x2 y2 in
  (0 <= r_m /\ sq r_m == sq (arc_abs ry) * L) ->
  (L <= 1 -> 0 <= r_h /\ sq r_h == sq (arc_abs ry) - sq (arc_abs ry) * L) ->
  (let o := arc_centre c s r_m r_h rx ry (flagq fa) (flagq fs) x1 y1 x2 y2 in
   arc_ellipse x1 y1 (arc_abs rx) (arc_abs ry) c s fa fs x2 y2 (o_ra o) (o_rb o) (o_cx o) (o_cy o)) /\
  (forall ce se, sq ce + sq se == 1 ->
   let p := arc_point c s r_m r_h rx ry (flagq fa) (flagq fs) x1 y1 x2 y2 ce se in
   arc_pred x1 y1 (arc_abs rx) (arc_abs ry) c s fa fs x2 y2 (fst p) (snd p)).
Proof.
  intros x1 y1 rx ry c s fa fs x2 y2 r_m r_h Hrx Hry Hcs Hne L Hrm Hrh. split.
  - apply arc_centre_spec; assumption.
  - intros ce se Hce. apply model_point_on_arc; assumption.
Qed.

