(* Geom/TransformSpec.v -- CSS Transforms 1 section 12 / SVG 1.1 section 7.6,
   written as the specifications write them: one matrix per function, a list
   is the left-to-right product, transform-origin conjugates.  Deliberately
   not shaped like the code (no in-place updates, no accumulator). *)
From Verif Require Import Geom.Matrix.
Open Scope Q_scope.

(* matrix(a,b,c,d,e,f) in the specs' column-major notation *)
Definition m_translate (tx ty : Q) : T := mk 1 0 0 1 tx ty.
Definition m_scale (sx sy : Q) : T := mk sx 0 0 sy 0 0.
Definition m_rotate (c s : Q) : T := mk c s (- s) c 0 0.       (* cos, sin *)
Definition m_skew (tx ty : Q) : T := mk 1 ty tx 1 0 0.        (* tan ax, tan ay: b = tan ay, c = tan ax *)
Definition m_skewX (t : Q) : T := mk 1 0 t 1 0 0.
Definition m_skewY (t : Q) : T := mk 1 t 0 1 0 0.

(* the mathematical product of 3x3 affine matrices *)
Definition prod (t u : T) : T :=
  mk (A t * A u + C t * B u) (B t * A u + D t * B u)
     (A t * C u + C t * D u) (B t * C u + D t * D u)
     (A t * E u + C t * F u + E t) (B t * E u + D t * F u + F t).

Fixpoint product (l : list T) : T :=
  match l with [] => identity | m :: r => prod m (product r) end.

Definition conjugate (ox oy : Q) (m : T) : T :=
  prod (m_translate ox oy) (prod m (m_translate (- ox) (- oy))).

(* CSS: a <length-percentage> resolves against the reference box size *)
Definition spec_resolve (d : dim) (ref : Q) : Q :=
  match d with Px v => v | Pct v => ref * v / 100 | Em v => v end.
(* <length-percentage> argument of translate(): em against the element's own computed font size *)
Definition spec_length (g : box_geom) (d : dim) (ref : Q) : Q :=
  match d with Em v => v * fsz g | _ => spec_resolve d ref end.
Definition spec_origin_x (g : box_geom) : Q := bbx g + spec_resolve (orx g) (bw g).
Definition spec_origin_y (g : box_geom) : Q := bby g + spec_resolve (ory g) (bh g).

Definition css_fun_matrix (g : box_geom) (f : tfun) : T :=
  match f with
  | TScale sx sy => m_scale sx sy
  | TRotate c s => m_rotate c s
  | TTranslate x y => m_translate (spec_length g x (bw g)) (spec_length g y (bh g))
  | TSkew tx ty => m_skew tx ty
  | TMatrix a b c d e f => mk a b c d e f
  end.

Definition css_spec (g : box_geom) (fs : list tfun) : T :=
  conjugate (spec_origin_x g) (spec_origin_y g) (product (map (css_fun_matrix g) fs)).

(* CSS Transforms 1, section 12 (2D transform functions), source level *)
Definition css_src_matrix (tr : ctrig) (g : box_geom) (f : css_src) : T :=
  match f with
  | CRotate v u => m_rotate (fst (fst (tr v u))) (snd (fst (tr v u)))
  | CSkewX v u | CSkew1 v u => m_skewX (snd (tr v u))
  | CSkewY v u => m_skewY (snd (tr v u))
  | CTranslate1 x | CTranslateX x => m_translate (spec_length g x (bw g)) 0
  | CTranslate2 x y => m_translate (spec_length g x (bw g)) (spec_length g y (bh g))
  | CTranslateY y => m_translate 0 (spec_length g y (bh g))
  | CScale1 s => m_scale s s
  | CScale2 sx sy => m_scale sx sy
  | CScaleX s => m_scale s 1
  | CScaleY s => m_scale 1 s
  | CMatrix a b c d e f => mk a b c d e f
  end.
Definition css_src_spec (tr : ctrig) (g : box_geom) (fs : list css_src) : T :=
  conjugate (spec_origin_x g) (spec_origin_y g) (product (map (css_src_matrix tr g) fs)).

(* SVG 1.1 7.6: rotate(a cx cy) = translate(cx,cy) rotate(a) translate(-cx,-cy);
   scale(s) = scale(s,s); translate(x) = translate(x,0) *)
Definition svg_fun_matrix (tr : trig) (s : svg_src) : T :=
  match s with
  | SRotate1 a => m_rotate (tcos tr a) (tsin tr a)
  | SRotate3 a cx cy =>
      prod (m_translate cx cy) (prod (m_rotate (tcos tr a) (tsin tr a)) (m_translate (- cx) (- cy)))
  | STranslate1 x => m_translate x 0
  | STranslate2 x y => m_translate x y
  | SSkew2 ax ay => m_skew (ttan tr ax) (ttan tr ay)
  | SSkewX a => m_skewX (ttan tr a)
  | SSkewY a => m_skewY (ttan tr a)
  | SScale1 s => m_scale s s
  | SScale2 sx sy => m_scale sx sy
  | SMatrix a b c d e f => mk a b c d e f
  end.

Definition svg_spec (tr : trig) (l : list svg_src) : T :=
  product (map (svg_fun_matrix tr) l).

(* viewBox, SVG 1.1 7.8: uniform scale = min (meet) / max (slice) of the two
   ratios unless align = none; then alignment of the scaled viewBox inside the
   viewport; the viewBox origin is mapped to the aligned position. *)
Definition vb_spec (p : par) (width height vx vy vw vh : Q) : Q * Q * Q * Q :=
  let rx := width / vw in
  let ry := height / vh in
  let sx := if par_none p then rx else if par_slice p then Qmaxf rx ry else Qminf rx ry in
  let sy := if par_none p then ry else sx in
  let free_x := width - vw * sx in
  let free_y := height - vh * sy in
  let ax := match xpos p with AMin => 0 | AMid => free_x / 2 | AMax => free_x end in
  let ay := match ypos p with AMin => 0 | AMid => free_y / 2 | AMax => free_y end in
  (sx, sy, ax - vx * sx, ay - vy * sy).
