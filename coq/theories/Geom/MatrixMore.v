(* Geom/MatrixMore.v -- further algebraic laws of the matrix model (exactQ). *)
From Verif Require Import Geom.Matrix Geom.TransformSpec Geom.MatrixProofs.
From Coq Require Import Setoid Morphisms Qfield QArith.
Open Scope Q_scope.

Local Notation determinant := (Matrix.determinant exactQ).
Local Notation mul := (Matrix.mmul exactQ).
Local Notation invert := (Matrix.invert exactQ).
Local Notation translate := (Matrix.translate exactQ).
Local Notation scale := (Matrix.scale exactQ).

(* translating twice = translating once by the sum *)
Lemma translate_translate t a b c d :
  meq (translate (translate t a b) c d) (translate t (a + c) (b + d)).
Proof. mring. Qed.

(* scaling twice = scaling once by the product *)
Lemma scale_scale t a b c d :
  meq (scale (scale t a b) c d) (scale t (a * c) (b * d)).
Proof. mring. Qed.

(* in-place ops and the determinant *)
Lemma det_translate t a b : determinant (translate t a b) == determinant t.
Proof. unfold determinant; cbn; ring. Qed.
Lemma det_scale t a b : determinant (scale t a b) == determinant t * (a * b).
Proof. unfold determinant; cbn; ring. Qed.

(* a product is singular iff one factor is *)
Lemma invert_mul_none_iff t u :
  invert (mul t u) = None <-> invert t = None \/ invert u = None.
Proof.
  rewrite !invert_none_iff, det_mul. split.
  - intros H. apply Qmult_integral in H. exact H.
  - intros [H|H]; rewrite H; ring.
Qed.
