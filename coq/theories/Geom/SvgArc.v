(* Geom/SvgArc.v -- model of the arc geometry of /repo/svg/elements_path.go:
     406-424 addArcFromA   (how findEllipseCenter is called)
     486-502 ellipsePrime / ellipsePointAt
     511-552 findEllipseCenter
   over exact rationals.  Model only, no proofs.

   The Go code computes in float64 with math.Sqrt / Cos / Sin / Atan2.  Those
   enter as oracle values: `c s` = cos / sin of the x-axis rotation, `r_m` =
   math.Sqrt(midlenSq), `r_h` = math.Sqrt of rb^2 - midlenSq, (ce, se) = cos /
   sin of an ellipse parameter eta.  What is modelled is the algebra around
   them: which radius is scaled by which factor, which of the two centres is
   taken for which flags, how a parameter value becomes a point.  (The choice
   of the parameter values eta_i -- atan2, the number of segments -- and the
   control points are not modelled; Check/C18.v tests the emitted points
   against Geom/SvgArcSpec.v instead.) *)
From Coq Require Import QArith Qabs List Bool.
Import ListNotations.
Open Scope Q_scope.

Definition qlt_b (a b : Q) : bool := negb (Qle_bool b a).

(* what findEllipseCenter leaves behind its ra / rb pointers and returns *)
Record centre_out := mkco { o_ra : Q; o_rb : Q; o_cx : Q; o_cy : Q }.

Section Arc.
Variables c s : Q.          (* 511: cos, sin := math.Cos(rotX), math.Sin(rotX) *)
Variables r_m r_h : Q.      (* 528 / 536: math.Sqrt(midlenSq), math.Sqrt of rb^2 - midlenSq *)

(* elements_path.go:510-551 *)
Definition find_ellipse_center (ra rb startx starty endx endy : Q) (sweep small_arc : bool) : centre_out :=
  (* 514 *)
  let nx0 := endx - startx in
  let ny0 := endy - starty in
  (* 517 *)
  let nx1 := nx0 * c + ny0 * s in
  let ny := - nx0 * s + ny0 * c in
  (* 519 *)
  let nx := nx1 * (rb / ra) in
  (* 521-522 *)
  let midx := nx / 2 in
  let midy := ny / 2 in
  let midlen_sq := midx * midx + midy * midy in
  (* 525-537 *)
  let '(ra', rb', hr) :=
    if qlt_b (rb * rb) midlen_sq then
      let nrb := r_m in
      ((if Qeq_bool ra rb then nrb else ra * nrb / rb), nrb, 0)
    else (ra, rb, r_h / r_m) in
  (* 539-545 *)
  let '(cx, cy) :=
    if (sweep && small_arc) || (negb sweep && negb small_arc)
    then (midx + midy * hr, midy - midx * hr)
    else (midx - midy * hr, midy + midx * hr) in
  (* 548 *)
  let cx := cx * (ra' / rb') in
  (* 550 *)
  mkco ra' rb' (cx * c - cy * s + startx) (cx * s + cy * c + starty).

(* elements_path.go:494-501 ellipsePointAt(a, b, sinTheta, cosTheta, eta, cx, cy), (ce, se) = cos / sin eta *)
Definition ellipse_point_at (a b ce se cx cy : Q) : Q * Q :=
  let a_cos := a * ce in
  let b_sin := b * se in
  (cx + a_cos * c - b_sin * s, cy + a_cos * s + b_sin * c).

(* elements_path.go:485-492 ellipsePrime *)
Definition ellipse_prime (a b ce se : Q) : Q * Q :=
  let b_cos := b * ce in
  let a_sin := a * se in
  (- a_sin * c - b_cos * s, - a_sin * s + b_cos * c).

(* elements_path.go:417-423 + 477: addArcFromA drops the sign of the radii,
   calls findEllipseCenter with sweep := points[4] == 0 and smallArc :=
   points[3] == 0, stores the corrected radii, and addArc's interior junction
   points are ellipsePointAt of the corrected radii and that centre.  `large` /
   `sweepf` are the two flags as numbers. *)
Definition arc_centre (rx ry large sweepf curx cury ex ey : Q) : centre_out :=
  find_ellipse_center (Qabs rx) (Qabs ry) curx cury ex ey (Qeq_bool sweepf 0) (Qeq_bool large 0).

Definition arc_point (rx ry large sweepf curx cury ex ey : Q) (ce se : Q) : Q * Q :=
  let o := arc_centre rx ry large sweepf curx cury ex ey in
  ellipse_point_at (o_ra o) (o_rb o) ce se (o_cx o) (o_cy o).
End Arc.
