(* Geom/SvgPath.v -- model of /repo/svg's path-data pipeline:
     parser.go:113-180        consumeNumber / parsePoints (number scanner)
     parser.go:237-246        parseViewbox
     elements_path.go:95-405  quadraticToCubic, pathParser (parsePath, addSeg, ...)
     elements_path.go:406-424 addArcFromA up to the end points (the cubic
                              approximation inside addArc is not modelled: an
                              arc is one abstract `OArc` item)
     elements.go:157-178      parsePoly (polyline / polygon points)

   Model only, no proofs.  Written against an arithmetic record `ar`
   (Base/F32.v): exactQ for the theorems, f32 for the bit-exact comparison with
   Go's float32.  Two further parameters describe how a literal becomes a
   number: `cv m e` is strconv.ParseFloat(.., 32) on a decimal literal with
   integer mantissa m and decimal exponent e (None = ErrRange), `rc` converts
   an untyped Go constant (2./3) to the number type.
   Every slice access of the interpreter goes through GoSem.index / update so
   that an out-of-range access is a visible Panic; loops are fuelled. *)
From Coq Require Export QArith List ZArith NArith Bool.
From Verif Require Export Base.GoSem Base.F32.
Export ListNotations.
Open Scope Q_scope.

(* backend path operations (elements_path.go:31-48 pathItem).  OClose carries
   args[0] = the sub-path start.  OArc stands for the non-empty run of cubicTo
   items addArc produces for one arc from (x0,y0) to (x,y). *)
Inductive op :=
| OMove (x y : Q)
| OLine (x y : Q)
| OCubic (x1 y1 x2 y2 x3 y3 : Q)
| OClose (x y : Q)
| OArc (x0 y0 rx ry rot large sweep x y : Q).

(* ------------------------------------------------------------------ *)
(* slices *)
Definition update {A} (site : N) (l : list A) (i : Z) (v : A) : res (list A) :=
  if (i <? 0)%Z then Panic site
  else if (i <? Z.of_nat (length l))%Z
       then Ok (firstn (Z.to_nat i) l ++ v :: skipn (S (Z.to_nat i)) l)
       else Panic site.

(* for i := i0; i < bound; i += step { s = body(i, s) } *)
Fixpoint for_z {S} (fuel : nat) (i bound step : Z) (body : Z -> S -> res S) (s : S) : res S :=
  if (i <? bound)%Z then
    match fuel with
    | O => OutOfFuel
    | Datatypes.S f => let* s' := body i s in for_z f (i + step)%Z bound step body s'
    end
  else Ok s.

(* the sz values pts[i], pts[i+1], ..., pts[i+sz-1], each read through index *)
Fixpoint window (site : N) (pts : list Q) (i : Z) (sz : nat) : res (list Q) :=
  match sz with
  | O => Ok []
  | Datatypes.S k => let* a := index site pts i in
                     let* r := window site pts (i + 1)%Z k in Ok (a :: r)
  end.

(* ------------------------------------------------------------------ *)
(* bytes *)
Definition is_digit (c : N) : bool := (48 <=? c)%N && (c <=? 57)%N.
Definition digit_val (c : N) : Z := (Z.of_N c - 48)%Z.
Definition is_e (c : N) : bool := (c =? 101)%N || (c =? 69)%N.
Definition is_letter (c : N) : bool :=
  ((97 <=? c)%N && (c <=? 122)%N) || ((65 <=? c)%N && (c <=? 90)%N).

(* strconv.ParseFloat (trusted library): the decimal syntax it accepts on
   strings over [0-9.eE+-], and the (mantissa, exponent) it denotes.
   [sign] digits [. digits] [(e|E) [sign] digits], at least one mantissa digit,
   the whole string consumed. *)
Fixpoint read_digits (acc n : Z) (l : list N) : Z * Z * list N :=
  match l with
  | c :: r => if is_digit c then read_digits (acc * 10 + digit_val c)%Z (n + 1)%Z r else (acc, n, l)
  | [] => (acc, n, l)
  end.

Definition read_sign (l : list N) : bool * list N :=
  match l with
  | c :: r => if (c =? 45)%N then (true, r) else if (c =? 43)%N then (false, r) else (false, l)
  | [] => (false, l)
  end.

Definition parse_float (s : list N) : option (Z * Z) :=
  let '(neg, s1) := read_sign s in
  let '(ip, n1, s2) := read_digits 0 0 s1 in
  let '(m, n2, s3) := match s2 with
                      | c :: r => if (c =? 46)%N then read_digits ip 0 r else (ip, 0%Z, s2)
                      | [] => (ip, 0%Z, s2)
                      end in
  if (n1 + n2 =? 0)%Z then None else
  let mant := if neg then (- m)%Z else m in
  match s3 with
  | [] => Some (mant, (- n2)%Z)
  | c :: r =>
      if is_e c then
        let '(eneg, r1) := read_sign r in
        let '(e, ne, r2) := read_digits 0 0 r1 in
        if (ne =? 0)%Z then None else
        match r2 with
        | [] => Some (mant, ((if eneg then - e else e) - n2)%Z)
        | _ => None
        end
      else None
  end.

(* the rational a decimal literal denotes *)
Definition dec_value (m e : Z) : Q :=
  if (0 <=? e)%Z then inject_Z (m * 10 ^ e) else Qmake m (Z.to_pos (10 ^ (- e))).

Definition cv_exact (m e : Z) : option Q := Some (dec_value m e).

(* ParseFloat(s, 32): correctly rounded; ErrRange when the rounded value
   exceeds the largest finite binary32.  The two early exits only avoid
   computing astronomically large powers: with k = log2 |m|,
   e >= 0 and k + 3e > 130  ==> |v| >= 2^(k+3e) > max32;
   e <  0 and k + 1 + 3e < -160 ==> |v| < 2^-160, which rounds to 0. *)
Definition cv_f32 (m e : Z) : option Q :=
  if (m =? 0)%Z then Some 0 else
  let k := Z.log2 (Z.abs m) in
  if (0 <=? e)%Z && (130 <? k + 3 * e)%Z then None
  else if (e <? 0)%Z && (k + 1 + 3 * e <? -160)%Z then Some 0
  else let r := rnd32 (dec_value m e) in
       if in_range32 r then Some r else None.

Section Model.
Variable ar : arith.
Variable rc : Q -> Q.                  (* untyped constant -> number *)
Variable cv : Z -> Z -> option Q.      (* decimal literal -> number, None = out of range *)
Local Notation "x +. y" := (add ar x y) (at level 50, left associativity).
Local Notation "x -. y" := (sub ar x y) (at level 50, left associativity).
Local Notation "x *. y" := (mul ar x y) (at level 40, left associativity).

(* ------------------------------------------------------------------ *)
(* parser.go:113-154 consumeNumber, isFlag = false.  Called on data[pos:] =
   c0 :: l with prev = c0; returns (the bytes of the number after c0, the
   rest).  data[pos-1] is `prev`: pos >= 1 inside the loop, no panic. *)
Fixpoint consume_tail (prev : N) (seen_dot seen_exp : bool) (l : list N) : list N * list N :=
  match l with
  | [] => ([], [])
  | c :: r =>
      if is_digit c then let '(a, b) := consume_tail c seen_dot seen_exp r in (c :: a, b)
      else if (c =? 46)%N then
        if seen_dot || seen_exp then ([], l)
        else let '(a, b) := consume_tail c true seen_exp r in (c :: a, b)
      else if (c =? 45)%N || (c =? 43)%N then
        if is_e prev then let '(a, b) := consume_tail c seen_dot seen_exp r in (c :: a, b)
        else ([], l)
      else if is_e c then let '(a, b) := consume_tail c seen_dot true r in (c :: a, b)
      else ([], l)
  end.

Definition is_num_start (c : N) : bool :=
  is_digit c || (c =? 46)%N || (c =? 45)%N || is_e c.

(* parser.go:156-180 parsePoints; n = len(points), acc = points reversed.
   Ok None = an error is returned. *)
Fixpoint parse_points_f (fuel : nat) (is_arc : bool) (data : list N) (n : N) (acc : list Q)
  : res (option (list Q)) :=
  match data with
  | [] => Ok (Some (rev acc))
  | c :: r =>
      match fuel with
      | O => OutOfFuel
      | S f =>
          if is_num_start c then
            let is_flag := is_arc && ((n mod 7 =? 3)%N || (n mod 7 =? 4)%N) in
            let '(tl, rest) := if is_flag then ([], r) else consume_tail c (c =? 46)%N false r in
            match parse_float (c :: tl) with
            | None => Ok None
            | Some (m, e) =>
                match cv m e with
                | None => Ok None
                | Some v => parse_points_f f is_arc rest (n + 1)%N (v :: acc)
                end
            end
          else parse_points_f f is_arc r n acc
      end
  end.

Definition parse_points (is_arc : bool) (data : list N) : res (option (list Q)) :=
  parse_points_f (S (length data)) is_arc data 0%N [].

(* parser.go:237-246 parseViewbox *)
Definition parse_viewbox (data : list N) : res (option (Q * Q * Q * Q)) :=
  let* r := parse_points false data in
  match r with
  | Some [a; b; c; d] => Ok (Some (a, b, c, d))
  | _ => Ok None
  end.

(* elements.go:157-178 parsePoly: pairs, a trailing odd coordinate is ignored;
   out.points[i] = (pts[2i], pts[2i+1]) for i < len/2 *)
Definition parse_poly (data : list N) : res (option (list (Q * Q))) :=
  let* r := parse_points false data in
  match r with
  | None => Ok None
  | Some pts =>
      let n := Z.quot (Z.of_nat (length pts)) 2 in
      let* l := for_z (S (length pts)) 0 n 1
                  (fun i acc => let* x := index 160 pts (2 * i) in
                                let* y := index 161 pts (2 * i + 1) in Ok ((x, y) :: acc)) [] in
      Ok (Some (rev l))
  end.

(* ------------------------------------------------------------------ *)
(* elements_path.go:104-113 pathParser; `ops` is c.path reversed *)
Record pst := mkst {
  ops : list op;
  curx : Q; cury : Q;          (* currentX, currentY *)
  ctlx : Q; ctly : Q;          (* cntlPtX, cntlPtY *)
  stx : Q; sty : Q;            (* pathStartX, pathStartY *)
  lk : N;                      (* lastKey *)
  inp : bool                   (* inPath *)
}.

(* elements_path.go:115-122 reset (a fresh parser: control point and path
   start are 0; reset does not touch them but they are never read before
   being written) *)
Definition init : pst := mkst [] 0 0 0 0 0 0 32 false.

Definition push (s : pst) (o : op) : pst :=
  mkst (o :: ops s) (curx s) (cury s) (ctlx s) (ctly s) (stx s) (sty s) (lk s) (inp s).
Definition set_cur (s : pst) (x y : Q) : pst :=
  mkst (ops s) x y (ctlx s) (ctly s) (stx s) (sty s) (lk s) (inp s).
Definition set_ctl (s : pst) (x y : Q) : pst :=
  mkst (ops s) (curx s) (cury s) x y (stx s) (sty s) (lk s) (inp s).
Definition set_start (s : pst) (x y : Q) : pst :=
  mkst (ops s) (curx s) (cury s) (ctlx s) (ctly s) x y (lk s) true.
Definition set_lk (s : pst) (k : N) : pst :=
  mkst (ops s) (curx s) (cury s) (ctlx s) (ctly s) (stx s) (sty s) k (inp s).
Definition set_curx (s : pst) (x : Q) : pst := set_cur s x (cury s).
Definition set_cury (s : pst) (y : Q) : pst := set_cur s (curx s) y.

(* elements_path.go:95-101 quadraticToCubic *)
Definition two_third : Q := rc (2 # 3).
Definition quad_to_cubic (x0 y0 x1 y1 x2 y2 : Q) : op :=
  OCubic (x0 +. two_third *. (x1 -. x0)) (y0 +. two_third *. (y1 -. y0))
         (x2 +. two_third *. (x1 -. x2)) (y2 +. two_third *. (y1 -. y2))
         x2 y2.

(* elements_path.go:164-167 quadTo: also updates the current point *)
Definition quad_to (s : pst) (x1 y1 x2 y2 : Q) : pst :=
  set_cur (push s (quad_to_cubic (curx s) (cury s) x1 y1 x2 y2)) x2 y2.

(* elements_path.go:175-177 reflection *)
Definition reflect_x (s : pst) : Q := curx s *. 2 -. ctlx s.
Definition reflect_y (s : pst) : Q := cury s *. 2 -. ctly s.

Definition key_in (k : N) (l : list N) : bool := existsb (N.eqb k) l.
(* elements_path.go:217-224 reflectControlQuad: 'q' 'Q' 'T' 't' *)
Definition reflect_control_quad (s : pst) : pst :=
  if key_in (lk s) [113; 81; 84; 116]%N then set_ctl s (reflect_x s) (reflect_y s)
  else set_ctl s (curx s) (cury s).
(* elements_path.go:226-233 reflectControlCube: 'c' 'C' 's' 'S' *)
Definition reflect_control_cube (s : pst) : pst :=
  if key_in (lk s) [99; 67; 115; 83]%N then set_ctl s (reflect_x s) (reflect_y s)
  else set_ctl s (curx s) (cury s).

(* elements_path.go:179-184 valsToAbs *)
Definition vals_to_abs (fuel : nat) (pts : list Q) (last : Q) : res (list Q) :=
  let* r := for_z fuel 0 (Z.of_nat (length pts)) 1
              (fun i '(p, last) =>
                 let* a := index 180 p i in
                 let last' := last +. a in
                 let* p' := update 181 p i last' in Ok (p', last'))
              (pts, last) in
  Ok (fst r).

(* elements_path.go:186-197 pointsToAbs *)
Definition points_to_abs (fuel : nat) (sz : Z) (pts : list Q) (cx cy : Q) : res (list Q) :=
  let* r := for_z fuel 0 (Z.of_nat (length pts)) sz
              (fun j '(p, lx, ly) =>
                 let* p1 := for_z fuel 0 sz 2
                              (fun i p =>
                                 let* a := index 190 p (i + j) in
                                 let* p := update 190 p (i + j) (a +. lx) in
                                 let* b := index 191 p (i + 1 + j) in
                                 update 191 p (i + 1 + j) (b +. ly)) p in
                 let* nx := index 193 p1 (j + sz - 2) in
                 let* ny := index 194 p1 (j + sz - 1) in
                 Ok (p1, nx, ny))
              (pts, cx, cy) in
  Ok (fst (fst r)).

(* elements_path.go:199-207 hasSetsOrMore: None = false *)
Definition has_sets_or_more (fuel : nat) (sz : Z) (rel : bool) (s : pst) (pts : list Q)
  : res (option (list Q)) :=
  let len := Z.of_nat (length pts) in
  if negb ((sz <=? len)%Z && (Z.rem len sz =? 0)%Z) then Ok None
  else if rel then let* p := points_to_abs fuel sz pts (curx s) (cury s) in Ok (Some p)
  else Ok (Some pts).

(* loop `for i := i0; i < L-(sz-1); i += sz { body(points[i], ..., points[i+sz-1]) }` *)
Definition for_groups (fuel : nat) (site : N) (pts : list Q) (i0 : Z) (sz : nat)
  (f : list Q -> pst -> pst) (s : pst) : res pst :=
  for_z fuel i0 (Z.of_nat (length pts) - (Z.of_nat sz - 1)) (Z.of_nat sz)
    (fun i s => let* w := window site pts i sz in Ok (f w s)) s.

(* loop bodies (one argument group each) *)
Definition step_line (w : list Q) (s : pst) : pst :=
  match w with [x; y] => push s (OLine x y) | _ => s end.
Definition step_v (w : list Q) (s : pst) : pst :=
  match w with [y] => push s (OLine (curx s) y) | _ => s end.
Definition step_h (w : list Q) (s : pst) : pst :=
  match w with [x] => push s (OLine x (cury s)) | _ => s end.
Definition step_quad (w : list Q) (s : pst) : pst :=
  match w with [x1; y1; x2; y2] => quad_to s x1 y1 x2 y2 | _ => s end.
Definition step_smooth_quad (o : N) (w : list Q) (s : pst) : pst :=
  match w with
  | [x; y] => let s1 := reflect_control_quad s in
              set_lk (quad_to s1 (ctlx s1) (ctly s1) x y) o
  | _ => s end.
Definition step_cubic (w : list Q) (s : pst) : pst :=
  match w with [x1; y1; x2; y2; x3; y3] => push s (OCubic x1 y1 x2 y2 x3 y3) | _ => s end.
Definition step_smooth_cubic (o : N) (w : list Q) (s : pst) : pst :=
  match w with
  | [x2; y2; x3; y3] =>
      let s1 := reflect_control_cube s in
      let s2 := push s1 (OCubic (ctlx s1) (ctly s1) x2 y2 x3 y3) in
      set_cur (set_ctl (set_lk s2 o) x2 y2) x3 y3
  | _ => s end.
(* elements_path.go:379-385 + 406-424 addArcFromA, up to the end points *)
Definition step_arc (rel : bool) (w : list Q) (s : pst) : pst :=
  match w with
  | [rx; ry; rot; large; sweep; x; y] =>
      let ex := if rel then x +. curx s else x in
      let ey := if rel then y +. cury s else y in
      if Qeq_bool ex (curx s) && Qeq_bool ey (cury s) then s          (* identical end points: omitted *)
      else if Qeq_bool rx 0 || Qeq_bool ry 0
           then set_cur (push s (OLine ex ey)) ex ey                   (* zero radius: a line *)
           else set_cur (push s (OArc (curx s) (cury s) rx ry rot large sweep ex ey)) ex ey
  | _ => s end.

Definition byte_is (o : N) (a b : N) : bool := (o =? a)%N || (o =? b)%N.

Definition with_sets_f (fuel : nat) (sz : Z) (rel : bool) (s : pst) (pts : list Q)
  (k : list Q -> res (option pst)) : res (option pst) :=
  let* h := has_sets_or_more fuel sz rel s pts in
  match h with None => Ok None | Some p => k p end.

(* elements_path.go:237-402 addSeg after getPoints: op byte `o`, c.points = pts.
   Ok None = errParamMismatch *)
Definition exec (s : pst) (o : N) (pts : list Q) : res (option pst) :=
  let L := Z.of_nat (length pts) in
  let fuel := S (length pts) in
  let fin (s : pst) : res (option pst) := Ok (Some (set_lk s o)) in
    if byte_is o 122 90 then                                   (* z Z : 248-258 *)
    if negb (L =? 0)%Z then Ok None
    else if inp s then fin (set_cur (push s (OClose (stx s) (sty s))) (stx s) (sty s))
         else fin s
  else if byte_is o 109 77 then                              (* m M : 259-273 *)
    with_sets_f fuel 2 (o =? 109)%N s pts (fun p =>
      let* x0 := index 265 p 0 in
      let* y0 := index 265 p 1 in
      let s1 := push (set_start s x0 y0) (OMove x0 y0) in
      let* s2 := for_groups fuel 269 p 2 2 step_line s1 in
      let* lx := index 271 p (L - 2) in
      let* ly := index 272 p (L - 1) in
      fin (set_cur s2 lx ly))
  else if byte_is o 108 76 then                              (* l L : 274-285 *)
    with_sets_f fuel 2 (o =? 108)%N s pts (fun p =>
      let* s2 := for_groups fuel 281 p 0 2 step_line s in
      let* lx := index 283 p (L - 2) in
      let* ly := index 284 p (L - 1) in
      fin (set_cur s2 lx ly))
  else if byte_is o 118 86 then                              (* v V : 286-296 *)
    let* pts1 := if (o =? 118)%N then vals_to_abs fuel pts (cury s) else Ok pts in
    with_sets_f fuel 1 false s pts1 (fun p =>
      let* s2 := for_groups fuel 293 p 0 1 step_v s in
      let* ly := index 295 p (L - 1) in
      fin (set_cury s2 ly))
  else if byte_is o 104 72 then                              (* h H : 297-307 *)
    let* pts1 := if (o =? 104)%N then vals_to_abs fuel pts (curx s) else Ok pts in
    with_sets_f fuel 1 false s pts1 (fun p =>
      let* s2 := for_groups fuel 304 p 0 1 step_h s in
      let* lx := index 306 p (L - 1) in
      fin (set_curx s2 lx))
  else if byte_is o 113 81 then                              (* q Q : 308-323 *)
    with_sets_f fuel 4 (o =? 113)%N s pts (fun p =>
      let* s2 := for_groups fuel 316 p 0 4 step_quad s in
      let* c1 := index 320 p (L - 4) in
      let* c2 := index 320 p (L - 3) in
      let* lx := index 321 p (L - 2) in
      let* ly := index 322 p (L - 1) in
      fin (set_cur (set_ctl s2 c1 c2) lx ly))
  else if byte_is o 116 84 then                              (* t T : 324-338 *)
    with_sets_f fuel 2 (o =? 116)%N s pts (fun p =>
      let* s2 := for_groups fuel 331 p 0 2 (step_smooth_quad o) s in
      fin s2)
  else if byte_is o 99 67 then                               (* c C : 339-355 *)
    with_sets_f fuel 6 (o =? 99)%N s pts (fun p =>
      let* s2 := for_groups fuel 347 p 0 6 step_cubic s in
      let* c1 := index 352 p (L - 4) in
      let* c2 := index 352 p (L - 3) in
      let* lx := index 353 p (L - 2) in
      let* ly := index 354 p (L - 1) in
      fin (set_cur (set_ctl s2 c1 c2) lx ly))
  else if byte_is o 115 83 then                              (* s S : 356-374 *)
    with_sets_f fuel 4 (o =? 115)%N s pts (fun p =>
      let* s2 := for_groups fuel 363 p 0 4 (step_smooth_cubic o) s in
      fin s2)
  else if byte_is o 97 65 then                               (* a A : 375-386 *)
    with_sets_f fuel 7 false s pts (fun p =>
      let* s2 := for_groups fuel 379 p 0 7 (step_arc (o =? 97)%N) s in
      fin s2)
  else fin s.                                                (* default: ignored, 387-388 *)

(* elements_path.go:211-215 getPoints + 237-245 *)
Definition add_seg (s : pst) (seg : list N) : res (option pst) :=
  let* o := index 238 seg 0 in
  let* r := parse_points (byte_is o 97 65) (skipn 1 seg) in
  match r with
  | None => Ok None
  | Some pts => exec s o pts
  end.

(* elements_path.go:125-148 parsePath: command letters are [a-zA-Z] except
   'e' / 'E'; bytes before the first command letter are dropped *)
Definition is_cmd (c : N) : bool := is_letter c && negb (is_e c).

Fixpoint split_segs (l : list N) : list N * list (list N) :=
  match l with
  | [] => ([], [])
  | c :: r => let '(p, segs) := split_segs r in
              if is_cmd c then ([], (c :: p) :: segs) else (c :: p, segs)
  end.

Fixpoint run_segs (s : pst) (segs : list (list N)) : res (option pst) :=
  match segs with
  | [] => Ok (Some s)
  | g :: r => let* x := add_seg s g in
              match x with None => Ok None | Some s' => run_segs s' r end
  end.

Definition parse_path (d : list N) : res (option (list op)) :=
  let* r := run_segs init (snd (split_segs d)) in
  Ok (option_map (fun s => rev (ops s)) r).

(* the interpreter alone, on already lexed segments (op byte, numbers) *)
Fixpoint interp (s : pst) (segs : list (N * list Q)) : res (option pst) :=
  match segs with
  | [] => Ok (Some s)
  | (o, pts) :: r => let* x := exec s o pts in
                     match x with None => Ok None | Some s' => interp s' r end
  end.

Definition interp_ops (segs : list (N * list Q)) : res (option (list op)) :=
  let* r := interp init segs in Ok (option_map (fun s => rev (ops s)) r).

(* the lexer alone: segments with their numbers *)
Fixpoint lex_segs (segs : list (list N)) : res (option (list (N * list Q))) :=
  match segs with
  | [] => Ok (Some [])
  | g :: r => let* o := index 238 g 0 in
              let* p := parse_points (byte_is o 97 65) (skipn 1 g) in
              match p with
              | None => Ok None
              | Some pts => let* rest := lex_segs r in
                            Ok (option_map (cons (o, pts)) rest)
              end
  end.
Definition lex_path (d : list N) : res (option (list (N * list Q))) := lex_segs (snd (split_segs d)).
End Model.
