(* Geom/SvgPathProofs.v -- proofs about the model of Geom/SvgPath.v:
   loop / slice lemmas, totality (no Panic, no OutOfFuel) for every arithmetic
   instance, and interpreter = SVG 8.3 semantics (SvgPathSpec.denote) for the
   exact-rational instance. *)
From Coq Require Import QArith List ZArith NArith Bool Lia ZifyBool ZifyNat ZifyN.
From Verif Require Import Base.GoSem Base.F32 Geom.SvgPath Geom.Shapes Geom.SvgPathSpec.
Import ListNotations.
Open Scope Z_scope.

(* ------------------------------------------------------------------ *)
(* slices *)
Lemma index_app_here {A} site (pre : list A) a r :
  index site (pre ++ a :: r) (Z.of_nat (length pre)) = Ok a.
Proof.
  unfold index. destruct (Z.ltb_spec (Z.of_nat (length pre)) 0) as [H|H]; [lia|].
  rewrite Nat2Z.id. rewrite nth_error_app2 by lia. rewrite Nat.sub_diag. reflexivity.
Qed.

Lemma index_at {A} site (pre : list A) a r i :
  i = Z.of_nat (length pre) -> index site (pre ++ a :: r) i = Ok a.
Proof. intros ->. apply index_app_here. Qed.

Lemma update_app_here {A} site (pre : list A) a r v :
  update site (pre ++ a :: r) (Z.of_nat (length pre)) v = Ok (pre ++ v :: r).
Proof.
  unfold update. destruct (Z.ltb_spec (Z.of_nat (length pre)) 0) as [H|H]; [lia|].
  rewrite app_length. cbn [length].
  destruct (Z.ltb_spec (Z.of_nat (length pre)) (Z.of_nat (length pre + S (length r)))) as [H1|H1]; [|lia].
  rewrite Nat2Z.id. rewrite firstn_app, Nat.sub_diag, firstn_all. cbn [firstn]. rewrite app_nil_r.
  replace (S (length pre)) with (length (pre ++ [a])) by (rewrite app_length; cbn; lia).
  replace (pre ++ a :: r) with ((pre ++ [a]) ++ r) by (rewrite <- app_assoc; reflexivity).
  rewrite skipn_app, skipn_all, Nat.sub_diag. reflexivity.
Qed.

Lemma update_at {A} site (pre : list A) a r v i :
  i = Z.of_nat (length pre) -> update site (pre ++ a :: r) i v = Ok (pre ++ v :: r).
Proof. intros ->. apply update_app_here. Qed.

Lemma index_ok_in_range {A} site (l : list A) i :
  0 <= i < Z.of_nat (length l) -> exists a, index site l i = Ok a.
Proof. intros H. apply index_ok_iff. exact H. Qed.

Lemma index_ok_nth {A} site (l : list A) i d :
  0 <= i < Z.of_nat (length l) -> index site l i = Ok (nth (Z.to_nat i) l d).
Proof.
  intros H. unfold index. destruct (Z.ltb_spec i 0); [lia|].
  destruct (nth_error l (Z.to_nat i)) eqn:E.
  - f_equal. symmetry. apply nth_error_nth. exact E.
  - apply nth_error_None in E. lia.
Qed.

(* window on pre ++ g ++ r at |pre| reads g *)
Lemma window_app site (g pre r : list Q) :
  window site (pre ++ g ++ r) (Z.of_nat (length pre)) (length g) = Ok g.
Proof.
  revert pre. induction g as [|a g IH]; intros pre; cbn [window length]; [reflexivity|].
  cbn [app]. rewrite index_app_here. cbn [bind].
  replace (pre ++ a :: g ++ r) with ((pre ++ [a]) ++ g ++ r) by (rewrite <- app_assoc; reflexivity).
  replace (Z.of_nat (length pre) + 1) with (Z.of_nat (length (pre ++ [a])))
    by (rewrite app_length; cbn; lia).
  rewrite IH. reflexivity.
Qed.

(* ------------------------------------------------------------------ *)
(* the group loop *)
Lemma for_groups_gen site (sz : nat) (f : list Q -> pst -> pst) :
  (0 < sz)%nat ->
  forall (gs : list (list Q)) (pre : list Q) (s : pst) (fuel : nat),
    Forall (fun g => length g = sz) gs ->
    (length gs <= fuel)%nat ->
    for_z fuel (Z.of_nat (length pre))
          (Z.of_nat (length (pre ++ concat gs)) - (Z.of_nat sz - 1)) (Z.of_nat sz)
          (fun i s => let* w := window site (pre ++ concat gs) i sz in Ok (f w s)) s
    = Ok (fold_left (fun s g => f g s) gs s).
Proof.
  intros Hsz gs. induction gs as [|g gs IH]; intros pre s fuel Hall Hfuel.
  - cbn [concat fold_left]. rewrite app_nil_r.
    destruct fuel; cbn [for_z];
      (destruct (Z.ltb_spec (Z.of_nat (length pre)) (Z.of_nat (length pre) - (Z.of_nat sz - 1))); [lia|reflexivity]).
  - inversion Hall as [|? ? Hg Hall']; subst.
    destruct fuel as [|fuel]; [cbn in Hfuel; lia|].
    cbn [for_z concat].
    rewrite !app_length.
    destruct (Z.ltb_spec (Z.of_nat (length pre))
                (Z.of_nat (length pre + (length g + length (concat gs))) - (Z.of_nat (length g) - 1))) as [H|H]; [|lia].
    rewrite window_app. cbn [bind fold_left].
    specialize (IH (pre ++ g) (f g s) fuel Hall' ltac:(cbn in Hfuel; lia)).
    rewrite <- app_assoc in IH. rewrite !app_length in IH.
    replace (Z.of_nat (length pre) + Z.of_nat (length g)) with (Z.of_nat (length pre + length g)) by lia.
    exact IH.
Qed.

Lemma for_groups_concat (sz : nat) site (f : list Q -> pst -> pst) gs s fuel :
  (0 < sz)%nat -> Forall (fun g => length g = sz) gs -> (length gs <= fuel)%nat ->
  for_groups fuel site (concat gs) 0 sz f s = Ok (fold_left (fun s g => f g s) gs s).
Proof.
  intros Hsz Hall Hf. unfold for_groups.
  exact (for_groups_gen site sz f Hsz gs [] s fuel Hall Hf).
Qed.

(* ------------------------------------------------------------------ *)
(* valsToAbs = running sums *)
Fixpoint sums (ar : arith) (last : Q) (l : list Q) : list Q :=
  match l with
  | [] => []
  | a :: r => let v := add ar last a in v :: sums ar v r
  end.

Lemma sums_length ar last l : length (sums ar last l) = length l.
Proof. revert last; induction l; intros; cbn; [reflexivity|]. f_equal. apply IHl. Qed.

Lemma vals_gen ar : forall (xs pre : list Q) (last : Q) (fuel : nat) (n : nat),
  n = (length pre + length xs)%nat -> (length xs <= fuel)%nat ->
  exists last',
  for_z fuel (Z.of_nat (length pre)) (Z.of_nat n) 1
    (fun i '(p, last) =>
       let* a := index 180 p i in
       let last' := add ar last a in
       let* p' := update 181 p i last' in Ok (p', last'))
    (pre ++ xs, last) = Ok (pre ++ sums ar last xs, last').
Proof.
  induction xs as [|a xs IH]; intros pre last fuel n Hn Hf.
  - exists last. cbn [length] in Hn. destruct fuel; cbn [for_z];
      (destruct (Z.ltb_spec (Z.of_nat (length pre)) (Z.of_nat n)); [lia|reflexivity]).
  - destruct fuel as [|fuel]; [cbn in Hf; lia|]. cbn [for_z].
    cbn [length] in Hn.
    destruct (Z.ltb_spec (Z.of_nat (length pre)) (Z.of_nat n)) as [H|H]; [|lia].
    rewrite index_app_here. cbn [bind]. rewrite update_app_here. cbn [bind sums].
    specialize (IH (pre ++ [add ar last a]) (add ar last a) fuel n).
    rewrite app_length in IH. cbn [length] in IH.
    destruct IH as [l' IH]; [lia|cbn in Hf; lia|].
    exists l'.
    replace (Z.of_nat (length pre) + 1) with (Z.of_nat (length pre + 1)) by lia.
    rewrite <- !app_assoc in IH. cbn [app] in IH. exact IH.
Qed.

Lemma vals_to_abs_ok ar pts last fuel : (length pts <= fuel)%nat ->
  vals_to_abs ar fuel pts last = Ok (sums ar last pts).
Proof.
  intros Hf. unfold vals_to_abs.
  destruct (vals_gen ar pts [] last fuel (length pts) eq_refl Hf) as [l' H].
  cbn [app length] in H. change (Z.of_nat 0) with 0 in H. rewrite H. reflexivity.
Qed.

(* ------------------------------------------------------------------ *)
(* pointsToAbs *)
Fixpoint add_alt (ar : arith) (lx ly : Q) (g : list Q) : list Q :=
  match g with
  | a :: b :: r => add ar a lx :: add ar b ly :: add_alt ar lx ly r
  | _ => g
  end.

Fixpoint abs_groups (ar : arith) (lx ly : Q) (gs : list (list Q)) : list (list Q) :=
  match gs with
  | [] => []
  | g :: r => let g' := add_alt ar lx ly g in
              g' :: abs_groups ar (nth (length g - 2) g' 0%Q) (nth (length g - 1) g' 0%Q) r
  end.

Lemma add_alt_length ar lx ly : forall k g, length g = (2 * k)%nat -> length (add_alt ar lx ly g) = length g.
Proof.
  induction k; intros g Hg.
  - destruct g; [reflexivity|cbn in Hg; lia].
  - destruct g as [|a [|b r]]; cbn in Hg; try lia. cbn [add_alt length]. rewrite (IHk r); lia.
Qed.

Lemma abs_groups_Forall ar sz k : sz = (2 * k)%nat -> forall gs lx ly,
  Forall (fun g => length g = sz) gs -> Forall (fun g => length g = sz) (abs_groups ar lx ly gs).
Proof.
  intros Hsz. induction gs as [|g gs IH]; intros lx ly H; cbn [abs_groups]; [constructor|].
  inversion H; subst. constructor.
  - rewrite (add_alt_length ar lx ly k); assumption.
  - apply IH. assumption.
Qed.

Lemma abs_groups_length ar gs : forall lx ly, length (abs_groups ar lx ly gs) = length gs.
Proof. induction gs; intros; cbn; [reflexivity|]. f_equal. apply IHgs. Qed.

Definition inner_body (ar : arith) (lx ly : Q) (j : Z) : Z -> list Q -> res (list Q) :=
  fun i p =>
    let* a := index 190 p (i + j) in
    let* p := update 190 p (i + j) (add ar a lx) in
    let* b := index 191 p (i + 1 + j) in
    update 191 p (i + 1 + j) (add ar b ly).

Lemma inner_gen ar lx ly : forall (k : nat) (todo done pre tail : list Q) (fuel : nat) (sz : nat),
  length todo = (2 * k)%nat -> (k <= fuel)%nat -> sz = (length done + length todo)%nat ->
  for_z fuel (Z.of_nat (length done)) (Z.of_nat sz) 2 (inner_body ar lx ly (Z.of_nat (length pre)))
        (pre ++ done ++ todo ++ tail)
  = Ok (pre ++ done ++ add_alt ar lx ly todo ++ tail).
Proof.
  induction k; intros todo done pre tail fuel sz Ht Hf Hsz.
  - destruct todo; [|cbn in Ht; lia]. cbn [length] in Hsz. cbn [add_alt].
    destruct fuel; cbn [for_z];
      (destruct (Z.ltb_spec (Z.of_nat (length done)) (Z.of_nat sz)); [lia|reflexivity]).
  - destruct todo as [|a [|b r]]; cbn in Ht; try lia.
    destruct fuel as [|fuel]; [lia|]. cbn [for_z]. cbn [length] in Hsz.
    destruct (Z.ltb_spec (Z.of_nat (length done)) (Z.of_nat sz)) as [H|H]; [|lia].
    unfold inner_body at 1.
    replace (pre ++ done ++ (a :: b :: r) ++ tail) with ((pre ++ done) ++ a :: (b :: r ++ tail))
      by (rewrite <- app_assoc; reflexivity).
    rewrite (index_at 190 (pre ++ done)) by (rewrite app_length; lia). cbn [bind].
    rewrite (update_at 190 (pre ++ done)) by (rewrite app_length; lia). cbn [bind].
    replace ((pre ++ done) ++ add ar a lx :: b :: r ++ tail)
      with ((pre ++ done ++ [add ar a lx]) ++ b :: (r ++ tail))
      by (rewrite <- !app_assoc; reflexivity).
    rewrite (index_at 191 (pre ++ done ++ [add ar a lx])) by (rewrite !app_length; cbn; lia). cbn [bind].
    rewrite (update_at 191 (pre ++ done ++ [add ar a lx])) by (rewrite !app_length; cbn; lia).
    cbn [bind add_alt].
    specialize (IHk r (done ++ [add ar a lx; add ar b ly]) pre tail fuel sz).
    rewrite app_length in IHk. cbn [length] in IHk.
    replace (Z.of_nat (length done) + 2) with (Z.of_nat (length done + 2)) by lia.
    rewrite <- !app_assoc in IHk. cbn [app] in IHk.
    rewrite <- !app_assoc. cbn [app].
    apply IHk; lia.
Qed.

Lemma index_app_mid {A} site (pre g r : list A) (k : nat) d :
  (k < length g)%nat ->
  index site (pre ++ g ++ r) (Z.of_nat (length pre + k)) = Ok (nth k g d).
Proof.
  intros Hk. rewrite (index_ok_nth site _ _ d) by (rewrite !app_length; lia).
  f_equal. rewrite Nat2Z.id. rewrite app_nth2 by lia.
  replace (length pre + k - length pre)%nat with k by lia. apply app_nth1. exact Hk.
Qed.

Definition outer_body (ar : arith) (fuel : nat) (sz : Z) : Z -> list Q * Q * Q -> res (list Q * Q * Q) :=
  fun j '(p, lx, ly) =>
    let* p1 := for_z fuel 0 sz 2
                 (fun i p =>
                    let* a := index 190 p (i + j) in
                    let* p := update 190 p (i + j) (add ar a lx) in
                    let* b := index 191 p (i + 1 + j) in
                    update 191 p (i + 1 + j) (add ar b ly)) p in
    let* nx := index 193 p1 (j + sz - 2) in
    let* ny := index 194 p1 (j + sz - 1) in
    Ok (p1, nx, ny).

Lemma outer_gen ar (k : nat) (fuel0 : nat) : (1 <= k)%nat -> (k <= fuel0)%nat ->
  forall (gs : list (list Q)) (pre : list Q) (lx ly : Q) (fuel n : nat),
  Forall (fun g => length g = (2 * k)%nat) gs -> (length gs <= fuel)%nat ->
  n = (length pre + length (concat gs))%nat ->
  exists lx' ly',
  for_z fuel (Z.of_nat (length pre)) (Z.of_nat n) (Z.of_nat (2 * k)) (outer_body ar fuel0 (Z.of_nat (2 * k)))
        (pre ++ concat gs, lx, ly)
  = Ok (pre ++ concat (abs_groups ar lx ly gs), lx', ly').
Proof.
  intros Hk Hf0. induction gs as [|g gs IH]; intros pre lx ly fuel n Hall Hf Hn.
  - exists lx, ly. cbn [concat length] in Hn. destruct fuel; cbn [for_z];
      (destruct (Z.ltb_spec (Z.of_nat (length pre)) (Z.of_nat n)); [lia|reflexivity]).
  - inversion Hall as [|? ? Hg Hall']; subst.
    destruct fuel as [|fuel]; [cbn in Hf; lia|]. cbn [for_z].
    cbn [concat]. rewrite app_length.
    destruct (Z.ltb_spec (Z.of_nat (length pre)) (Z.of_nat (length pre + (length g + length (concat gs))))) as [H|H]; [|lia].
    unfold outer_body at 1.
    pose proof (inner_gen ar lx ly k g [] pre (concat gs) fuel0 (2 * k) Hg Hf0) as Hin.
    cbn [app length] in Hin. unfold inner_body in Hin.
    change (Z.of_nat 0) with 0 in Hin.
    rewrite Hin by lia. cbn [bind].
    assert (Hl : length (add_alt ar lx ly g) = length g) by (apply (add_alt_length ar lx ly k); exact Hg).
    replace (Z.of_nat (length pre) + Z.of_nat (2 * k) - 2) with (Z.of_nat (length pre + (length g - 2))) by lia.
    rewrite (index_app_mid 193 pre (add_alt ar lx ly g) (concat gs) (length g - 2) 0%Q) by lia. cbn [bind].
    replace (Z.of_nat (length pre) + Z.of_nat (2 * k) - 1) with (Z.of_nat (length pre + (length g - 1))) by lia.
    rewrite (index_app_mid 194 pre (add_alt ar lx ly g) (concat gs) (length g - 1) 0%Q) by lia. cbn [bind].
    cbn [abs_groups concat].
    specialize (IH (pre ++ add_alt ar lx ly g)
                   (nth (length g - 2) (add_alt ar lx ly g) 0%Q) (nth (length g - 1) (add_alt ar lx ly g) 0%Q)
                   fuel (length pre + (length g + length (concat gs)))%nat Hall').
    destruct IH as (lx' & ly' & IH); [cbn in Hf; lia|rewrite app_length; lia|].
    exists lx', ly'.
    rewrite app_length, Hl in IH. rewrite <- !app_assoc in IH.
    replace (Z.of_nat (length pre) + Z.of_nat (2 * k)) with (Z.of_nat (length pre + length g)) by lia.
    exact IH.
Qed.

Lemma points_to_abs_concat ar (k : nat) gs cx cy fuel : (1 <= k)%nat ->
  Forall (fun g => length g = (2 * k)%nat) gs -> (length gs <= fuel)%nat -> (k <= fuel)%nat ->
  points_to_abs ar fuel (Z.of_nat (2 * k)) (concat gs) cx cy = Ok (concat (abs_groups ar cx cy gs)).
Proof.
  intros Hk Hall Hf Hkf. unfold points_to_abs.
  destruct (outer_gen ar k fuel Hk Hkf gs [] cx cy fuel (length (concat gs)) Hall Hf eq_refl) as (lx' & ly' & H).
  cbn [app length] in H. unfold outer_body in H. change (Z.of_nat 0) with 0 in H.
  rewrite H. reflexivity.
Qed.

(* ------------------------------------------------------------------ *)
(* chunking a flat list whose length is a multiple of n *)
Lemma concat_length_const {A} (n : nat) (gs : list (list A)) :
  Forall (fun g => length g = n) gs -> length (concat gs) = (length gs * n)%nat.
Proof.
  induction 1 as [|g gs Hg _ IH]; [reflexivity|]. cbn [concat length]. rewrite app_length, IH, Hg. lia.
Qed.

Lemma chunk {A} (n : nat) : (0 < n)%nat -> forall (k : nat) (l : list A), length l = (k * n)%nat ->
  exists gs, l = concat gs /\ Forall (fun g => length g = n) gs /\ length gs = k.
Proof.
  intros Hn. induction k; intros l Hl.
  - exists []. destruct l; [repeat split; constructor|cbn in Hl; lia].
  - destruct (IHk (skipn n l)) as (gs & H1 & H2 & H3).
    { rewrite skipn_length. lia. }
    exists (firstn n l :: gs). repeat split.
    + cbn [concat]. rewrite <- H1. symmetry. apply firstn_skipn.
    + constructor; [|exact H2]. rewrite firstn_length. lia.
    + cbn. lia.
Qed.

Lemma has_sets_false ar fuel (n : nat) s (gs : list (list Q)) :
  (0 < n)%nat -> gs <> [] -> Forall (fun g => length g = n) gs ->
  has_sets_or_more ar fuel (Z.of_nat n) false s (concat gs) = Ok (Some (concat gs)).
Proof.
  intros Hn Hne Hall. unfold has_sets_or_more.
  rewrite (concat_length_const n gs Hall).
  assert (Hl : (1 <= length gs)%nat) by (destruct gs; [congruence|cbn; lia]).
  replace (Z.of_nat (length gs * n)) with (Z.of_nat (length gs) * Z.of_nat n) by lia.
  rewrite Z.rem_mul by lia.
  destruct (Z.leb_spec (Z.of_nat n) (Z.of_nat (length gs) * Z.of_nat n)) as [H|H]; [reflexivity|nia].
Qed.

Lemma has_sets_true ar fuel (k : nat) s (gs : list (list Q)) :
  (1 <= k)%nat -> gs <> [] -> Forall (fun g => length g = (2 * k)%nat) gs ->
  (length gs <= fuel)%nat -> (k <= fuel)%nat ->
  has_sets_or_more ar fuel (Z.of_nat (2 * k)) true s (concat gs)
  = Ok (Some (concat (abs_groups ar (curx s) (cury s) gs))).
Proof.
  intros Hk Hne Hall Hf Hkf. unfold has_sets_or_more.
  rewrite (concat_length_const (2 * k) gs Hall).
  assert (Hl : (1 <= length gs)%nat) by (destruct gs; [congruence|cbn; lia]).
  replace (Z.of_nat (length gs * (2 * k))) with (Z.of_nat (length gs) * Z.of_nat (2 * k)) by lia.
  rewrite Z.rem_mul by lia.
  destruct (Z.leb_spec (Z.of_nat (2 * k)) (Z.of_nat (length gs) * Z.of_nat (2 * k))) as [H|H]; [|nia].
  cbn [andb negb]. rewrite Z.eqb_refl. cbn [negb].
  rewrite (points_to_abs_concat ar k gs _ _ fuel Hk Hall Hf Hkf). reflexivity.
Qed.

(* when the test succeeds the list is a non-empty sequence of groups *)
Lemma has_sets_inv (n : nat) (pts : list Q) : (0 < n)%nat ->
  negb ((Z.of_nat n <=? Z.of_nat (length pts)) && (Z.rem (Z.of_nat (length pts)) (Z.of_nat n) =? 0)) = false ->
  exists gs, pts = concat gs /\ Forall (fun g => length g = n) gs /\ gs <> [] /\ (length gs <= length pts)%nat.
Proof.
  intros Hn H. apply negb_false_iff, andb_true_iff in H. destruct H as [H1 H2].
  apply Z.leb_le in H1. apply Z.eqb_eq in H2.
  rewrite Z.rem_mod_nonneg in H2 by lia.
  pose proof (Z.div_mod (Z.of_nat (length pts)) (Z.of_nat n) ltac:(lia)) as Hd. rewrite H2 in Hd.
  set (q := Z.of_nat (length pts) / Z.of_nat n) in *.
  assert (Hq : 0 <= q) by (apply Z.div_pos; lia).
  destruct (chunk n Hn (Z.to_nat q) pts) as (gs & G1 & G2 & G3); [nia|].
  exists gs. repeat split; try assumption.
  - intros ->. cbn in G3. nia.
  - nia.
Qed.

(* ------------------------------------------------------------------ *)
(* totality *)
Definition safe {A} (r : res A) : Prop := exists a, r = Ok a.

Lemma safe_ok {A} (a : A) : safe (Ok a).
Proof. exists a. reflexivity. Qed.

Lemma safe_bind {A B} (r : res A) (f : A -> res B) :
  safe r -> (forall a, r = Ok a -> safe (f a)) -> safe (bind r f).
Proof. intros [a Ha] H. rewrite Ha. cbn. apply H. exact Ha. Qed.

Lemma safe_index {A} site (l : list A) i : 0 <= i < Z.of_nat (length l) -> safe (index site l i).
Proof. intros H. apply index_ok_iff. exact H. Qed.

Lemma for_groups_from (sz : nat) site (f : list Q -> pst -> pst) g0 gs s fuel :
  (0 < sz)%nat -> Forall (fun g => length g = sz) gs -> (length gs <= fuel)%nat ->
  for_groups fuel site (g0 ++ concat gs) (Z.of_nat (length g0)) sz f s
  = Ok (fold_left (fun s g => f g s) gs s).
Proof.
  intros Hsz Hall Hf. unfold for_groups. exact (for_groups_gen site sz f Hsz gs g0 s fuel Hall Hf).
Qed.

Lemma with_sets_safe ar fuel (n : nat) rel s pts k :
  (0 < n)%nat -> (rel = true -> exists j, n = (2 * j)%nat) -> (length pts < fuel)%nat ->
  (forall p gs, p = concat gs -> Forall (fun g => length g = n) gs -> gs <> [] ->
                length p = length pts -> safe (k p)) ->
  safe (with_sets_f ar fuel (Z.of_nat n) rel s pts k).
Proof.
  intros Hn Hrel Hf Hk. unfold with_sets_f, has_sets_or_more.
  destruct (negb _) eqn:E; [cbn; apply safe_ok|].
  destruct (has_sets_inv n pts Hn E) as (gs & G1 & G2 & G3 & G4).
  destruct rel.
  - destruct (Hrel eq_refl) as [j Hj]. subst n pts.
    rewrite (points_to_abs_concat ar j gs _ _ fuel) by (try assumption; lia).
    cbn [bind]. eapply Hk; [reflexivity| |intros Hx; apply G3| ].
    + apply (abs_groups_Forall ar (2 * j) j eq_refl). exact G2.
    + destruct gs; [reflexivity|discriminate].
    + rewrite (concat_length_const (2 * j) _ (abs_groups_Forall ar (2 * j) j eq_refl gs _ _ G2)).
      rewrite abs_groups_length. symmetry. apply concat_length_const. exact G2.
  - cbn [bind]. eapply Hk; eauto.
Qed.

Lemma groups_le {A} (n : nat) (gs : list (list A)) : (0 < n)%nat ->
  Forall (fun g => length g = n) gs -> (length gs <= length (concat gs))%nat.
Proof. intros Hn H. rewrite (concat_length_const n gs H). nia. Qed.

Ltac safe_idx := apply safe_index; cbn [length] in *; lia.
Ltac safe_tail := cbn [bind];
  repeat (apply safe_bind; [safe_idx | intros ? _]); apply safe_ok.

(* one `with_sets ... for_groups ... index ... fin` branch of exec *)
Ltac safe_branch n :=
  apply (with_sets_safe _ _ n);
  [ lia
  | let Hr := fresh "Hr" in intros Hr; first [exists (Nat.div2 n); reflexivity | discriminate Hr]
  | cbn [length]; lia
  | let p := fresh "p" in let gs := fresh "gs" in
    let Hall := fresh "Hall" in let Hne := fresh "Hne" in let Hlen := fresh "Hlen" in
    intros p gs -> Hall Hne Hlen;
    pose proof (groups_le n gs ltac:(lia) Hall);
    pose proof (concat_length_const n gs Hall);
    assert (1 <= length gs)%nat by (destruct gs; [congruence|cbn; lia]);
    rewrite (for_groups_concat n) by (try assumption; lia);
    safe_tail ].

Theorem exec_total ar rc s o pts : safe (exec ar rc s o pts).
Proof.
  unfold exec. cbv zeta.
  destruct (byte_is o 122 90).
  { destruct (negb _); [apply safe_ok|]. destruct (inp s); apply safe_ok. }
  destruct (byte_is o 109 77).
  { apply (with_sets_safe _ _ 2); [lia|intros _; exists 1%nat; reflexivity|cbn [length]; lia|].
    intros p gs -> Hall Hne Hlen.
    destruct gs as [|g0 gs]; [congruence|]. inversion Hall as [|? ? Hg0 Hall']; subst.
    destruct g0 as [|x0 [|y0 [|? ?]]]; cbn in Hg0; try lia.
    pose proof (groups_le 2 gs ltac:(lia) Hall').
    cbn [concat app] in *.
    apply safe_bind; [safe_idx|intros ? _].
    apply safe_bind; [safe_idx|intros ? _].
    pose proof (for_groups_from 2 269 step_line [x0; y0] gs) as Hfg.
    cbn [length app] in Hfg. change (Z.of_nat 2) with 2 in Hfg.
    rewrite Hfg by (try assumption; cbn [length] in *; lia).
    safe_tail. }
  destruct (byte_is o 108 76). { safe_branch 2%nat. }
  destruct (byte_is o 118 86).
  { apply safe_bind.
    { destruct (o =? 118)%N; [rewrite vals_to_abs_ok by lia|]; apply safe_ok. }
    intros pts1 Hp.
    assert (Hl1 : length pts1 = length pts).
    { destruct (o =? 118)%N.
      - rewrite vals_to_abs_ok in Hp by lia. inversion Hp. apply sums_length.
      - inversion Hp. reflexivity. }
    apply (with_sets_safe _ _ 1); [lia|discriminate|lia|].
    intros p gs -> Hall Hne Hlen.
    pose proof (groups_le 1 gs ltac:(lia) Hall).
    pose proof (concat_length_const 1 gs Hall).
    assert (1 <= length gs)%nat by (destruct gs; [congruence|cbn; lia]).
    rewrite (for_groups_concat 1) by (try assumption; lia).
    safe_tail. }
  destruct (byte_is o 104 72).
  { apply safe_bind.
    { destruct (o =? 104)%N; [rewrite vals_to_abs_ok by lia|]; apply safe_ok. }
    intros pts1 Hp.
    assert (Hl1 : length pts1 = length pts).
    { destruct (o =? 104)%N.
      - rewrite vals_to_abs_ok in Hp by lia. inversion Hp. apply sums_length.
      - inversion Hp. reflexivity. }
    apply (with_sets_safe _ _ 1); [lia|discriminate|lia|].
    intros p gs -> Hall Hne Hlen.
    pose proof (groups_le 1 gs ltac:(lia) Hall).
    pose proof (concat_length_const 1 gs Hall).
    assert (1 <= length gs)%nat by (destruct gs; [congruence|cbn; lia]).
    rewrite (for_groups_concat 1) by (try assumption; lia).
    safe_tail. }
  destruct (byte_is o 113 81). { safe_branch 4%nat. }
  destruct (byte_is o 116 84). { safe_branch 2%nat. }
  destruct (byte_is o 99 67). { safe_branch 6%nat. }
  destruct (byte_is o 115 83). { safe_branch 4%nat. }
  destruct (byte_is o 97 65). { safe_branch 7%nat. }
  apply safe_ok.
Qed.

(* ------------------------------------------------------------------ *)
(* the number scanner *)
Lemma consume_tail_length : forall l prev sd se,
  (length (snd (consume_tail prev sd se l)) <= length l)%nat.
Proof.
  induction l as [|c r IH]; intros prev sd se; cbn [consume_tail]; [cbn; lia|].
  destruct (is_digit c).
  { specialize (IH c sd se). destruct (consume_tail c sd se r). cbn [snd length] in *. lia. }
  destruct (c =? 46)%N.
  { destruct (sd || se); [cbn; lia|].
    specialize (IH c true se). destruct (consume_tail c true se r). cbn [snd length] in *. lia. }
  destruct ((c =? 45)%N || (c =? 43)%N).
  { destruct (is_e prev); [|cbn; lia].
    specialize (IH c sd se). destruct (consume_tail c sd se r). cbn [snd length] in *. lia. }
  destruct (is_e c); [|cbn; lia].
  specialize (IH c sd true). destruct (consume_tail c sd true r). cbn [snd length] in *. lia.
Qed.

Lemma parse_points_f_total cv is_arc : forall fuel data n acc,
  (length data < fuel)%nat -> safe (parse_points_f cv fuel is_arc data n acc).
Proof.
  induction fuel as [|f IH]; intros data n acc Hf; [lia|].
  destruct data as [|c r]; cbn [parse_points_f]; [apply safe_ok|].
  destruct (is_num_start c).
  - set (fl := is_arc && _).
    assert (Hrest : forall tl rest, (if fl then ([], r) else consume_tail c (c =? 46)%N false r) = (tl, rest) ->
                                    (length rest <= length r)%nat).
    { intros tl rest E. destruct fl.
      - inversion E. lia.
      - pose proof (consume_tail_length r c (c =? 46)%N false) as H. rewrite E in H. exact H. }
    destruct (if fl then ([], r) else consume_tail c (c =? 46)%N false r) as [tl rest] eqn:E.
    specialize (Hrest tl rest eq_refl).
    destruct (parse_float (c :: tl)) as [[m e]|]; [|apply safe_ok].
    destruct (cv m e); [|apply safe_ok].
    apply IH. cbn [length] in Hf. lia.
  - apply IH. cbn [length] in Hf. lia.
Qed.

Theorem parse_points_total cv is_arc data : safe (parse_points cv is_arc data).
Proof. apply parse_points_f_total. lia. Qed.

Lemma add_seg_total ar rc cv s seg : seg <> [] -> safe (add_seg ar rc cv s seg).
Proof.
  intros Hne. unfold add_seg. destruct seg as [|o r]; [congruence|].
  cbn [index Z.ltb Z.compare Z.to_nat nth_error bind].
  apply safe_bind; [apply parse_points_total|]. intros [pts|] _; [apply exec_total|apply safe_ok].
Qed.

Lemma run_segs_total ar rc cv : forall segs s, Forall (fun g => g <> []) segs ->
  safe (run_segs ar rc cv s segs).
Proof.
  induction segs as [|g segs IH]; intros s H; cbn [run_segs]; [apply safe_ok|].
  inversion H; subst. apply safe_bind; [apply add_seg_total; assumption|].
  intros [s'|] _; [apply IH; assumption|apply safe_ok].
Qed.

Lemma split_segs_nonempty : forall d, Forall (fun g => g <> []) (snd (split_segs d)).
Proof.
  induction d as [|c r IH]; cbn [split_segs]; [constructor|].
  destruct (split_segs r) as [p segs]. cbn [snd] in IH.
  destruct (is_cmd c); cbn [snd]; [constructor; [discriminate|exact IH]|exact IH].
Qed.

(* svg_parse_total: for every byte string and every arithmetic instance the
   path parser neither panics nor runs out of fuel *)
Theorem parse_path_total ar rc cv (d : list N) : safe (parse_path ar rc cv d).
Proof.
  unfold parse_path. apply safe_bind; [apply run_segs_total, split_segs_nonempty|].
  intros r _. apply safe_ok.
Qed.

Theorem parse_viewbox_total cv d : safe (parse_viewbox cv d).
Proof.
  unfold parse_viewbox. apply safe_bind; [apply parse_points_total|].
  intros [[|a [|b [|c [|e [|? ?]]]]]|] _; apply safe_ok.
Qed.

Lemma for_z_safe {S} : forall fuel i bound (body : Z -> S -> res S) (s : S),
  bound - i <= Z.of_nat fuel ->
  (forall j s, i <= j < bound -> safe (body j s)) ->
  safe (for_z fuel i bound 1 body s).
Proof.
  induction fuel as [|f IH]; intros i bound body s Hf Hb; cbn [for_z].
  - destruct (Z.ltb_spec i bound); [lia|apply safe_ok].
  - destruct (Z.ltb_spec i bound); [|apply safe_ok].
    apply safe_bind; [apply Hb; lia|]. intros s' _. apply IH; [lia|]. intros j s0 Hj. apply Hb. lia.
Qed.

Theorem parse_poly_total cv d : safe (parse_poly cv d).
Proof.
  unfold parse_poly. apply safe_bind; [apply parse_points_total|]. intros [pts|] _; [|apply safe_ok].
  apply safe_bind; [|intros; apply safe_ok].
  pose proof (Z.quot_pos (Z.of_nat (length pts)) 2 ltac:(lia) ltac:(lia)).
  assert (2 * Z.quot (Z.of_nat (length pts)) 2 <= Z.of_nat (length pts)).
  { rewrite Z.quot_div_nonneg by lia. apply Z.mul_div_le. lia. }
  apply for_z_safe; [lia|].
  intros j acc Hj. apply safe_bind; [apply safe_index; lia|]. intros x _.
  apply safe_bind; [apply safe_index; lia|]. intros y _. apply safe_ok.
Qed.

(* ================================================================== *)
(* interpreter = specification (exact rationals) *)
Open Scope Q_scope.

Notation rcE := (fun x : Q => x).
Notation execE := (exec exactQ rcE).

Fixpoint run2 (s : sstate) (ps : list prim) : list op * sstate :=
  match ps with
  | [] => ([], s)
  | p :: r => (fst (sem s p) ++ fst (run2 (snd (sem s p)) r), snd (run2 (snd (sem s p)) r))
  end.

Lemma run_run2 : forall ps s, run s ps = fst (run2 s ps).
Proof.
  induction ps as [|p r IH]; intros s; cbn [run run2 fst]; [reflexivity|].
  destruct (sem s p) as [o s']. cbn [fst snd]. rewrite IH. reflexivity.
Qed.

Lemma run2_app : forall ps qs s,
  run2 s (ps ++ qs) = (fst (run2 s ps) ++ fst (run2 (snd (run2 s ps)) qs), snd (run2 (snd (run2 s ps)) qs)).
Proof.
  induction ps as [|p r IH]; intros qs s; cbn [app run2 fst snd].
  - destruct (run2 s qs); reflexivity.
  - rewrite IH. cbn [fst snd]. rewrite app_assoc. reflexivity.
Qed.

(* one loop of the interpreter against the primitives of one command *)
Section Fold.
  Variables (G : Type) (flat : G -> list Q) (P : G -> prim) (step : list Q -> pst -> pst).
  Variable Inv : pst -> sstate -> Prop.
  Hypothesis Hstep : forall g s t, Inv s t ->
    Inv (step (flat g) s) (snd (sem t (P g))) /\
    ops (step (flat g) s) = rev (fst (sem t (P g))) ++ ops s.

  Lemma fold_sim : forall gs s t, Inv s t ->
    Inv (fold_left (fun s g => step g s) (map flat gs) s) (snd (run2 t (map P gs))) /\
    ops (fold_left (fun s g => step g s) (map flat gs) s) = rev (fst (run2 t (map P gs))) ++ ops s.
  Proof.
    induction gs as [|g gs IH]; intros s t HI; cbn [map fold_left run2 fst snd].
    - split; [exact HI|reflexivity].
    - destruct (Hstep g s t HI) as [H1 H2].
      destruct (IH _ _ H1) as [H3 H4]. split; [exact H3|].
      rewrite H4, H2, rev_app_distr, app_assoc. reflexivity.
  Qed.
End Fold.

(* relation between the interpreter state and the specification state *)
Definition cubic_keys : list N := [99; 67; 115; 83]%N.
Definition quad_keys : list N := [113; 81; 84; 116]%N.

Definition Rst (s : pst) (t : sstate) : Prop :=
  stx s = fst (start t) /\ sty s = snd (start t) /\ inp s = opened t.
Definition Rcur (s : pst) (t : sstate) : Prop :=
  curx s = fst (cur t) /\ cury s = snd (cur t).
Definition ctl_ok (s : pst) (t : sstate) : Prop :=
  match prev t with
  | CubicCtl k => key_in (lk s) cubic_keys = true /\ ctlx s = fst k /\ ctly s = snd k
  | QuadCtl k => key_in (lk s) quad_keys = true /\ ctlx s = fst k /\ ctly s = snd k
  | NoCtl => key_in (lk s) cubic_keys = false /\ key_in (lk s) quad_keys = false
  end.
Definition R (s : pst) (t : sstate) : Prop := Rst s t /\ Rcur s t /\ ctl_ok s t.

Lemma R_init : R init s0.
Proof. repeat split. Qed.

Lemma index_concat_last site (front : list (list Q)) (g : list Q) (k : nat) (d : Z) :
  (k < length g)%nat -> d = Z.of_nat (length g - k) ->
  index site (concat (front ++ [g])) (Z.of_nat (length (concat (front ++ [g]))) - d)%Z = Ok (nth k g 0).
Proof.
  intros Hk ->. rewrite concat_app. cbn [concat]. rewrite app_nil_r, app_length.
  replace (Z.of_nat (length (concat front) + length g) - Z.of_nat (length g - k))%Z
    with (Z.of_nat (length (concat front) + k)) by lia.
  pose proof (index_app_mid site (concat front) g [] k 0 Hk) as H. rewrite app_nil_r in H. exact H.
Qed.

Lemma with_sets_abs fuel (n : nat) s (gs : list (list Q)) k :
  (0 < n)%nat -> gs <> [] -> Forall (fun g => length g = n) gs ->
  with_sets_f exactQ fuel (Z.of_nat n) false s (concat gs) k = k (concat gs).
Proof. intros. unfold with_sets_f. rewrite has_sets_false by assumption. reflexivity. Qed.

Lemma with_sets_rel fuel (j : nat) s (gs : list (list Q)) k :
  (1 <= j)%nat -> gs <> [] -> Forall (fun g => length g = (2 * j)%nat) gs ->
  (length gs <= fuel)%nat -> (j <= fuel)%nat ->
  with_sets_f exactQ fuel (Z.of_nat (2 * j)) true s (concat gs) k
  = k (concat (abs_groups exactQ (curx s) (cury s) gs)).
Proof. intros. unfold with_sets_f. rewrite has_sets_true by assumption. reflexivity. Qed.

(* what each command must establish *)
Definition cmd_ok (c : cmd) : Prop := forall s t, R s t ->
  exists s', execE s (fst (flatten c)) (snd (flatten c)) = Ok (Some s') /\
             R s' (snd (run2 t (expand c))) /\
             ops s' = rev (fst (run2 t (expand c))) ++ ops s.

(* ---- closepath *)
Lemma close_ok rel : cmd_ok (CClose rel).
Proof.
  intros s t (Hst & Hcur & Hctl). destruct Hst as (H1 & H2 & H3).
  assert (E : execE s (letter 122 rel) [] =
              if inp s then Ok (Some (set_lk (set_cur (push s (OClose (stx s) (sty s))) (stx s) (sty s)) (letter 122 rel)))
              else Ok (Some (set_lk s (letter 122 rel)))) by (destruct rel; reflexivity).
  cbn [flatten fst snd expand run2 sem]. rewrite E. rewrite H3.
  destruct Hcur as [C1 C2].
  destruct (opened t) eqn:Eo; eexists; (split; [reflexivity|]);
    unfold R, Rst, Rcur, ctl_ok; destruct rel; cbn; rewrite ?H1, ?H2, ?H3, ?C1, ?C2, ?Eo;
    repeat split; reflexivity.
Qed.

(* ---- lineto *)
Lemma flat_pt_Forall (G : list pt) : Forall (fun g => length g = 2%nat) (map flat_pt G).
Proof. induction G; constructor; [reflexivity|assumption]. Qed.

Lemma line_step g s t : Rst s t ->
  Rst (step_line (flat_pt g) s) (snd (sem t (PLine false g))) /\
  ops (step_line (flat_pt g) s) = rev (fst (sem t (PLine false g))) ++ ops s.
Proof. intros H. split; [exact H|reflexivity]. Qed.

Lemma exec_L rel s pts : execE s (letter 108 rel) pts =
  with_sets_f exactQ (S (length pts)) 2 rel s pts (fun p =>
    let* s2 := for_groups (S (length pts)) 281 p 0 2 step_line s in
    let* lx := index 283 p (Z.of_nat (length pts) - 2)%Z in
    let* ly := index 284 p (Z.of_nat (length pts) - 1)%Z in
    Ok (Some (set_lk (set_cur s2 lx ly) (letter 108 rel)))).
Proof. destruct rel; reflexivity. Qed.

Lemma L_body (G : list pt) (o : N) (fuel : nat) (len : nat) s t :
  G <> [] -> Rst s t -> key_in o cubic_keys = false -> key_in o quad_keys = false ->
  len = length (concat (map flat_pt G)) -> (len < fuel)%nat ->
  exists s',
    (let p := concat (map flat_pt G) in
     let* s2 := for_groups fuel 281 p 0 2 step_line s in
     let* lx := index 283 p (Z.of_nat len - 2)%Z in
     let* ly := index 284 p (Z.of_nat len - 1)%Z in
     Ok (Some (set_lk (set_cur s2 lx ly) o))) = Ok (Some s') /\
    R s' (snd (run2 t (map (PLine false) G))) /\
    ops s' = rev (fst (run2 t (map (PLine false) G))) ++ ops s.
Proof.
  intros Hne Hst Hk1 Hk2 Hlen Hf. cbv zeta.
  pose proof (flat_pt_Forall G) as Hall.
  pose proof (groups_le 2 _ ltac:(lia) Hall) as Hle.
  rewrite (for_groups_concat 2) by (try assumption; lia). cbn [bind].
  destruct (fold_sim pt flat_pt (PLine false) step_line Rst line_step G s t Hst) as [F1 F2].
  destruct (exists_last Hne) as (front & g & ->).
  rewrite Hlen. rewrite !map_app in *. cbn [map] in *.
  rewrite (index_concat_last 283 _ (flat_pt g) 0 2) by (cbn; lia || reflexivity).
  rewrite (index_concat_last 284 _ (flat_pt g) 1 1) by (cbn; lia || reflexivity).
  cbn [bind nth flat_pt]. eexists. split; [reflexivity|]. split; [|exact F2].
  rewrite run2_app in *. cbn [run2 sem fst snd to_abs] in *.
  unfold R, Rst, Rcur, ctl_ok in *. cbn in *. intuition.
Qed.

Lemma line_abs_ok p more : cmd_ok (CLine false p more).
Proof.
  intros s t (Hst & Hcur & Hctl). cbn [flatten fst snd expand].
  rewrite exec_L. rewrite flat_map_concat_map.
  rewrite (with_sets_abs _ 2) by (try apply flat_pt_Forall; try discriminate; lia).
  apply (L_body (p :: more)); try assumption; try reflexivity; try discriminate. lia.
Qed.

(* ---- relative coordinates: pointsToAbs on the flat array = shifting every
   group by the end point of the previous one = the specification's
   "relative to the current point at the start of the group" *)
Section RelKind.
  Variables (G : Type) (flat : G -> list Q) (j : nat) (shift : pt -> G -> G) (endp : G -> pt).
  Hypothesis Hlen : forall g, length (flat g) = (2 * j)%nat.
  Hypothesis Hadd : forall lx ly g, add_alt exactQ lx ly (flat g) = flat (shift (lx, ly) g).
  Hypothesis Hend : forall g, nth (2 * j - 2) (flat g) 0 = fst (endp g) /\ nth (2 * j - 1) (flat g) 0 = snd (endp g).

  Fixpoint abs_typed (c : pt) (gs : list G) : list G :=
    match gs with
    | [] => []
    | g :: r => let g' := shift c g in g' :: abs_typed (endp g') r
    end.

  Lemma abs_groups_typed : forall gs lx ly,
    abs_groups exactQ lx ly (map flat gs) = map flat (abs_typed (lx, ly) gs).
  Proof.
    induction gs as [|g gs IH]; intros lx ly; cbn [map abs_groups abs_typed]; [reflexivity|].
    rewrite Hadd, Hlen. destruct (Hend (shift (lx, ly) g)) as [E1 E2]. rewrite E1, E2, IH.
    rewrite <- surjective_pairing. reflexivity.
  Qed.

  Lemma abs_typed_length : forall gs c, length (abs_typed c gs) = length gs.
  Proof. induction gs; intros; cbn; [reflexivity|]. f_equal. apply IHgs. Qed.

  Lemma flat_Forall (gs : list G) : Forall (fun g => length g = (2 * j)%nat) (map flat gs).
  Proof. induction gs; constructor; [apply Hlen|assumption]. Qed.

  Variable P : bool -> G -> prim.
  Hypothesis Hrel : forall t g, sem t (P true g) = sem t (P false (shift (cur t) g)).
  Hypothesis Hcur : forall t g, cur (snd (sem t (P false g))) = endp g.

  Lemma run2_rel : forall gs t,
    run2 t (map (P true) gs) = run2 t (map (P false) (abs_typed (cur t) gs)).
  Proof.
    induction gs as [|g gs IH]; intros t; cbn [map abs_typed run2]; [reflexivity|].
    rewrite Hrel. rewrite IH. rewrite Hcur. reflexivity.
  Qed.
End RelKind.

Definition shift_pt (c : pt) (p : pt) : pt := (fst p + fst c, snd p + snd c).

Lemma cur_pair s t : Rcur s t -> (curx s, cury s) = cur t.
Proof. intros [H1 H2]. rewrite H1, H2. symmetry. apply surjective_pairing. Qed.

Lemma abs_typed_nonempty {G} shift endp c (gs : list G) : gs <> [] -> abs_typed G shift endp c gs <> [].
Proof. destruct gs; [congruence|discriminate]. Qed.

Lemma line_rel_ok p more : cmd_ok (CLine true p more).
Proof.
  intros s t (Hst & Hcur & Hctl). cbn [flatten fst snd expand].
  rewrite exec_L. rewrite flat_map_concat_map.
  pose proof (flat_pt_Forall (p :: more)) as Hall.
  pose proof (groups_le 2 _ ltac:(lia) Hall) as Hle.
  rewrite (with_sets_rel _ 1) by (try assumption; try discriminate; cbn [length] in *; lia).
  rewrite (abs_groups_typed pt flat_pt 1 shift_pt (fun p => p)); try reflexivity.
  2:{ intros g. split; reflexivity. }
  rewrite (cur_pair s t Hcur).
  rewrite (run2_rel pt shift_pt (fun p => p) PLine); try reflexivity.
  eapply (L_body (abs_typed pt shift_pt (fun p => p) (cur t) (p :: more))); try eassumption; try reflexivity.
  - apply abs_typed_nonempty. discriminate.
  - rewrite (concat_length_const 2) by apply flat_pt_Forall.
    rewrite (concat_length_const 2) by apply flat_pt_Forall.
    rewrite !map_length, abs_typed_length. reflexivity.
  - lia.
Qed.

(* ---- moveto *)
Lemma exec_M rel s pts : execE s (letter 109 rel) pts =
  with_sets_f exactQ (S (length pts)) 2 rel s pts (fun p =>
    let* x0 := index 265 p 0 in
    let* y0 := index 265 p 1 in
    let s1 := push (set_start s x0 y0) (OMove x0 y0) in
    let* s2 := for_groups (S (length pts)) 269 p 2 2 step_line s1 in
    let* lx := index 271 p (Z.of_nat (length pts) - 2)%Z in
    let* ly := index 272 p (Z.of_nat (length pts) - 1)%Z in
    Ok (Some (set_lk (set_cur s2 lx ly) (letter 109 rel)))).
Proof. destruct rel; reflexivity. Qed.

Lemma M_body (g0 : pt) (more : list pt) (o : N) (fuel : nat) (len : nat) s t :
  key_in o cubic_keys = false -> key_in o quad_keys = false ->
  len = length (concat (map flat_pt (g0 :: more))) -> (len < fuel)%nat ->
  exists s',
    (let p := concat (map flat_pt (g0 :: more)) in
     let* x0 := index 265 p 0 in
     let* y0 := index 265 p 1 in
     let s1 := push (set_start s x0 y0) (OMove x0 y0) in
     let* s2 := for_groups fuel 269 p 2 2 step_line s1 in
     let* lx := index 271 p (Z.of_nat len - 2)%Z in
     let* ly := index 272 p (Z.of_nat len - 1)%Z in
     Ok (Some (set_lk (set_cur s2 lx ly) o))) = Ok (Some s') /\
    R s' (snd (run2 t (PMove false g0 :: map (PLine false) more))) /\
    ops s' = rev (fst (run2 t (PMove false g0 :: map (PLine false) more))) ++ ops s.
Proof.
  intros Hk1 Hk2 Hlen Hf. cbv zeta.
  pose proof (flat_pt_Forall more) as Hall.
  pose proof (groups_le 2 _ ltac:(lia) Hall) as Hle.
  cbn [map concat flat_pt app] in *.
  change (index 265 (fst g0 :: snd g0 :: concat (map flat_pt more)) 0) with (@Ok Q (fst g0)).
  change (index 265 (fst g0 :: snd g0 :: concat (map flat_pt more)) 1) with (@Ok Q (snd g0)).
  cbn [bind].
  pose proof (for_groups_from 2 269 step_line [fst g0; snd g0] (map flat_pt more)) as Hfg.
  cbn [length app] in Hfg. change (Z.of_nat 2) with 2%Z in Hfg.
  rewrite Hfg by (try assumption; cbn [length] in *; lia). clear Hfg. cbn [bind].
  set (s1 := push (set_start s (fst g0) (snd g0)) (OMove (fst g0) (snd g0))).
  set (t1 := snd (sem t (PMove false g0))).
  assert (Hst1 : Rst s1 t1) by (repeat split).
  destruct (fold_sim pt flat_pt (PLine false) step_line Rst line_step more s1 t1 Hst1) as [F1 F2].
  cbn [run2]. fold t1.
  assert (Hops : ops s1 = rev (fst (sem t (PMove false g0))) ++ ops s) by reflexivity.
  destruct more as [|m1 more'].
  - (* a single pair *)
    cbn [map concat fold_left run2 fst snd] in *. subst len.
    change (index 271 [fst g0; snd g0] (Z.of_nat (length [fst g0; snd g0]) - 2)%Z) with (@Ok Q (fst g0)).
    change (index 272 [fst g0; snd g0] (Z.of_nat (length [fst g0; snd g0]) - 1)%Z) with (@Ok Q (snd g0)).
    cbn [bind].
    eexists. split; [reflexivity|]. split.
    + unfold R, Rst, Rcur, ctl_ok. cbn. repeat split; assumption.
    + cbn. reflexivity.
  - assert (Hne : m1 :: more' <> []) by discriminate.
    destruct (exists_last Hne) as (front & g & E). rewrite E in *.
    assert (Hp : fst g0 :: snd g0 :: concat (map flat_pt (front ++ [g]))
                 = concat (map flat_pt ((g0 :: front) ++ [g]))) by reflexivity.
    rewrite Hp in *. rewrite Hlen. rewrite !map_app in *. cbn [map] in *.
    rewrite (index_concat_last 271 _ (flat_pt g) 0 2) by (cbn; lia || reflexivity).
    rewrite (index_concat_last 272 _ (flat_pt g) 1 1) by (cbn; lia || reflexivity).
    cbn [bind nth flat_pt]. eexists. split; [reflexivity|]. split.
    + rewrite run2_app in *. cbn [run2 sem fst snd to_abs] in *.
      unfold R, Rst, Rcur, ctl_ok in *. cbn in *. intuition.
    + cbn [ops set_lk set_cur]. rewrite F2, Hops. cbn [fst]. rewrite rev_app_distr, app_assoc. reflexivity.
Qed.

Lemma move_abs_ok p more : cmd_ok (CMove false p more).
Proof.
  intros s t _. cbn [flatten fst snd expand].
  rewrite exec_M. rewrite flat_map_concat_map.
  rewrite (with_sets_abs _ 2) by (try apply flat_pt_Forall; try discriminate; lia).
  apply M_body; try reflexivity. lia.
Qed.

Lemma move_rel_ok p more : cmd_ok (CMove true p more).
Proof.
  intros s t (Hst & Hcur & Hctl). cbn [flatten fst snd expand].
  rewrite exec_M. rewrite flat_map_concat_map.
  pose proof (flat_pt_Forall (p :: more)) as Hall.
  pose proof (groups_le 2 _ ltac:(lia) Hall) as Hle.
  rewrite (with_sets_rel _ 1) by (try assumption; try discriminate; cbn [length] in *; lia).
  rewrite (abs_groups_typed pt flat_pt 1 shift_pt (fun p => p)); try reflexivity.
  2:{ intros g. split; reflexivity. }
  rewrite (cur_pair s t Hcur). cbn [abs_typed].
  assert (Hrun : run2 t (PMove true p :: map (PLine true) more)
               = run2 t (PMove false (shift_pt (cur t) p)
                          :: map (PLine false) (abs_typed pt shift_pt (fun p => p) (shift_pt (cur t) p) more))).
  { cbn [run2].
    change (sem t (PMove true p)) with (sem t (PMove false (shift_pt (cur t) p))).
    rewrite (run2_rel pt shift_pt (fun p => p) PLine); try reflexivity. }
  rewrite Hrun.
  eapply M_body; try reflexivity.
  - cbn [map concat length app flat_pt].
    rewrite (concat_length_const 2) by apply flat_pt_Forall.
    rewrite (concat_length_const 2) by apply flat_pt_Forall.
    rewrite !map_length, abs_typed_length. reflexivity.
  - lia.
Qed.

(* ---- curveto *)
Definition flat_c (g : pt * pt * pt) : list Q := flat_pt (fst (fst g)) ++ flat_pt (snd (fst g)) ++ flat_pt (snd g).
Definition prim_c (rel : bool) (g : pt * pt * pt) : prim := PCubic rel (fst (fst g)) (snd (fst g)) (snd g).
Definition shift_c (c : pt) (g : pt * pt * pt) : pt * pt * pt :=
  ((shift_pt c (fst (fst g)), shift_pt c (snd (fst g))), shift_pt c (snd g)).

Lemma exec_C rel s pts : execE s (letter 99 rel) pts =
  with_sets_f exactQ (S (length pts)) 6 rel s pts (fun p =>
    let* s2 := for_groups (S (length pts)) 347 p 0 6 step_cubic s in
    let* c1 := index 352 p (Z.of_nat (length pts) - 4)%Z in
    let* c2 := index 352 p (Z.of_nat (length pts) - 3)%Z in
    let* lx := index 353 p (Z.of_nat (length pts) - 2)%Z in
    let* ly := index 354 p (Z.of_nat (length pts) - 1)%Z in
    Ok (Some (set_lk (set_cur (set_ctl s2 c1 c2) lx ly) (letter 99 rel)))).
Proof. destruct rel; reflexivity. Qed.

Lemma flat_c_Forall (G : list (pt * pt * pt)) : Forall (fun g => length g = 6%nat) (map flat_c G).
Proof. induction G; constructor; [reflexivity|assumption]. Qed.

Lemma cubic_step g s t : Rst s t ->
  Rst (step_cubic (flat_c g) s) (snd (sem t (prim_c false g))) /\
  ops (step_cubic (flat_c g) s) = rev (fst (sem t (prim_c false g))) ++ ops s.
Proof. intros H. split; [exact H|reflexivity]. Qed.

Lemma C_body (G : list (pt * pt * pt)) (o : N) (fuel : nat) (len : nat) s t :
  G <> [] -> Rst s t -> key_in o cubic_keys = true ->
  len = length (concat (map flat_c G)) -> (len < fuel)%nat ->
  exists s',
    (let p := concat (map flat_c G) in
     let* s2 := for_groups fuel 347 p 0 6 step_cubic s in
     let* c1 := index 352 p (Z.of_nat len - 4)%Z in
     let* c2 := index 352 p (Z.of_nat len - 3)%Z in
     let* lx := index 353 p (Z.of_nat len - 2)%Z in
     let* ly := index 354 p (Z.of_nat len - 1)%Z in
     Ok (Some (set_lk (set_cur (set_ctl s2 c1 c2) lx ly) o))) = Ok (Some s') /\
    R s' (snd (run2 t (map (prim_c false) G))) /\
    ops s' = rev (fst (run2 t (map (prim_c false) G))) ++ ops s.
Proof.
  intros Hne Hst Hk1 Hlen Hf. cbv zeta.
  pose proof (flat_c_Forall G) as Hall.
  pose proof (groups_le 6 _ ltac:(lia) Hall) as Hle.
  rewrite (for_groups_concat 6) by (try assumption; lia). cbn [bind].
  destruct (fold_sim _ flat_c (prim_c false) step_cubic Rst cubic_step G s t Hst) as [F1 F2].
  destruct (exists_last Hne) as (front & g & ->).
  rewrite Hlen. rewrite !map_app in *. cbn [map] in *.
  rewrite (index_concat_last 352 _ (flat_c g) 2 4) by (cbn; lia || reflexivity). cbn [bind].
  rewrite (index_concat_last 352 _ (flat_c g) 3 3) by (cbn; lia || reflexivity). cbn [bind].
  rewrite (index_concat_last 353 _ (flat_c g) 4 2) by (cbn; lia || reflexivity). cbn [bind].
  rewrite (index_concat_last 354 _ (flat_c g) 5 1) by (cbn; lia || reflexivity).
  cbn [bind nth flat_c flat_pt app]. eexists. split; [reflexivity|]. split; [|exact F2].
  rewrite run2_app in *. cbn [run2 sem fst snd to_abs prim_c] in *.
  unfold R, Rst, Rcur, ctl_ok in *. cbn in *. intuition.
Qed.

Lemma cubic_abs_ok g more : cmd_ok (CCubic false g more).
Proof.
  intros s t (Hst & Hcur & Hctl). cbn [flatten fst snd expand].
  rewrite exec_C. change (flat_map _ (g :: more)) with (flat_map flat_c (g :: more)).
  change (map _ (g :: more)) with (map (prim_c false) (g :: more)).
  rewrite flat_map_concat_map.
  rewrite (with_sets_abs _ 6) by (try apply flat_c_Forall; try discriminate; lia).
  apply (C_body (g :: more)); try assumption; try reflexivity; try discriminate. apply Nat.lt_succ_diag_r.
Qed.

Lemma cubic_rel_ok g more : cmd_ok (CCubic true g more).
Proof.
  intros s t (Hst & Hcur & Hctl). cbn [flatten fst snd expand].
  rewrite exec_C. change (flat_map _ (g :: more)) with (flat_map flat_c (g :: more)).
  change (map _ (g :: more)) with (map (prim_c true) (g :: more)).
  rewrite flat_map_concat_map.
  pose proof (flat_c_Forall (g :: more)) as Hall.
  pose proof (groups_le 6 _ ltac:(lia) Hall) as Hle.
  pose proof (concat_length_const 6 _ Hall) as Hcl. rewrite map_length in Hcl, Hle.
  rewrite (with_sets_rel _ 3) by (try assumption; try discriminate; rewrite ?map_length; cbn [length] in *; lia).
  rewrite (abs_groups_typed _ flat_c 3 shift_c snd); try reflexivity.
  2:{ intros x. split; reflexivity. }
  rewrite (cur_pair s t Hcur).
  rewrite (run2_rel _ shift_c snd prim_c); try reflexivity.
  eapply (C_body (abs_typed _ shift_c snd (cur t) (g :: more))); try eassumption; try reflexivity.
  - apply abs_typed_nonempty. discriminate.
  - rewrite (concat_length_const 6) by apply flat_c_Forall.
    rewrite (concat_length_const 6) by apply flat_c_Forall.
    rewrite !map_length, abs_typed_length. reflexivity.
  - lia.
Qed.

(* ---- quadratic curveto *)
Definition flat_2 (g : pt * pt) : list Q := flat_pt (fst g) ++ flat_pt (snd g).
Definition prim_q (rel : bool) (g : pt * pt) : prim := PQuad rel (fst g) (snd g).
Definition prim_s (rel : bool) (g : pt * pt) : prim := PSmooth rel (fst g) (snd g).
Definition shift_2 (c : pt) (g : pt * pt) : pt * pt := (shift_pt c (fst g), shift_pt c (snd g)).

Lemma flat_2_Forall (G : list (pt * pt)) : Forall (fun g => length g = 4%nat) (map flat_2 G).
Proof. induction G; constructor; [reflexivity|assumption]. Qed.

Lemma exec_Q rel s pts : execE s (letter 113 rel) pts =
  with_sets_f exactQ (S (length pts)) 4 rel s pts (fun p =>
    let* s2 := for_groups (S (length pts)) 316 p 0 4 (step_quad exactQ rcE) s in
    let* c1 := index 320 p (Z.of_nat (length pts) - 4)%Z in
    let* c2 := index 320 p (Z.of_nat (length pts) - 3)%Z in
    let* lx := index 321 p (Z.of_nat (length pts) - 2)%Z in
    let* ly := index 322 p (Z.of_nat (length pts) - 1)%Z in
    Ok (Some (set_lk (set_cur (set_ctl s2 c1 c2) lx ly) (letter 113 rel)))).
Proof. destruct rel; reflexivity. Qed.

Definition Rsc (s : pst) (t : sstate) : Prop := Rst s t /\ Rcur s t.

Lemma quad_step g s t : Rsc s t ->
  Rsc (step_quad exactQ rcE (flat_2 g) s) (snd (sem t (prim_q false g))) /\
  ops (step_quad exactQ rcE (flat_2 g) s) = rev (fst (sem t (prim_q false g))) ++ ops s.
Proof.
  intros [Hst [C1 C2]]. split; [split; [exact Hst|split; reflexivity]|].
  cbn. unfold quad_to_cubic, elevate, two_third. cbn. rewrite C1, C2. reflexivity.
Qed.

Lemma Q_body (G : list (pt * pt)) (o : N) (fuel : nat) (len : nat) s t :
  G <> [] -> Rsc s t -> key_in o quad_keys = true ->
  len = length (concat (map flat_2 G)) -> (len < fuel)%nat ->
  exists s',
    (let p := concat (map flat_2 G) in
     let* s2 := for_groups fuel 316 p 0 4 (step_quad exactQ rcE) s in
     let* c1 := index 320 p (Z.of_nat len - 4)%Z in
     let* c2 := index 320 p (Z.of_nat len - 3)%Z in
     let* lx := index 321 p (Z.of_nat len - 2)%Z in
     let* ly := index 322 p (Z.of_nat len - 1)%Z in
     Ok (Some (set_lk (set_cur (set_ctl s2 c1 c2) lx ly) o))) = Ok (Some s') /\
    R s' (snd (run2 t (map (prim_q false) G))) /\
    ops s' = rev (fst (run2 t (map (prim_q false) G))) ++ ops s.
Proof.
  intros Hne Hst Hk1 Hlen Hf. cbv zeta.
  pose proof (flat_2_Forall G) as Hall.
  pose proof (groups_le 4 _ ltac:(lia) Hall) as Hle.
  rewrite (for_groups_concat 4) by (try assumption; lia). cbn [bind].
  destruct (fold_sim _ flat_2 (prim_q false) (step_quad exactQ rcE) Rsc quad_step G s t Hst) as [F1 F2].
  destruct (exists_last Hne) as (front & g & ->).
  rewrite Hlen. rewrite !map_app in *. cbn [map] in *.
  rewrite (index_concat_last 320 _ (flat_2 g) 0 4) by (cbn; lia || reflexivity). cbn [bind].
  rewrite (index_concat_last 320 _ (flat_2 g) 1 3) by (cbn; lia || reflexivity). cbn [bind].
  rewrite (index_concat_last 321 _ (flat_2 g) 2 2) by (cbn; lia || reflexivity). cbn [bind].
  rewrite (index_concat_last 322 _ (flat_2 g) 3 1) by (cbn; lia || reflexivity).
  cbn [bind nth flat_2 flat_pt app]. eexists. split; [reflexivity|]. split; [|exact F2].
  rewrite run2_app in *. cbn [run2 sem fst snd to_abs prim_q] in *.
  unfold R, Rsc, Rst, Rcur, ctl_ok in *. cbn in *. intuition.
Qed.

Lemma quad_abs_ok g more : cmd_ok (CQuad false g more).
Proof.
  intros s t (Hst & Hcur & Hctl). cbn [flatten fst snd expand].
  rewrite exec_Q. change (flat_map _ (g :: more)) with (flat_map flat_2 (g :: more)).
  change (map _ (g :: more)) with (map (prim_q false) (g :: more)).
  rewrite flat_map_concat_map.
  rewrite (with_sets_abs _ 4) by (try apply flat_2_Forall; try discriminate; lia).
  apply (Q_body (g :: more)); try (split; assumption); try reflexivity; try discriminate.
  apply Nat.lt_succ_diag_r.
Qed.

Lemma quad_rel_ok g more : cmd_ok (CQuad true g more).
Proof.
  intros s t (Hst & Hcur & Hctl). cbn [flatten fst snd expand].
  rewrite exec_Q. change (flat_map _ (g :: more)) with (flat_map flat_2 (g :: more)).
  change (map _ (g :: more)) with (map (prim_q true) (g :: more)).
  rewrite flat_map_concat_map.
  pose proof (flat_2_Forall (g :: more)) as Hall.
  pose proof (groups_le 4 _ ltac:(lia) Hall) as Hle.
  pose proof (concat_length_const 4 _ Hall) as Hcl. rewrite map_length in Hcl, Hle.
  rewrite (with_sets_rel _ 2) by (try assumption; try discriminate; rewrite ?map_length; cbn [length] in *; lia).
  rewrite (abs_groups_typed _ flat_2 2 shift_2 snd); try reflexivity.
  2:{ intros x. split; reflexivity. }
  rewrite (cur_pair s t Hcur).
  rewrite (run2_rel _ shift_2 snd prim_q); try reflexivity.
  eapply (Q_body (abs_typed _ shift_2 snd (cur t) (g :: more))); try (split; eassumption); try reflexivity.
  - apply abs_typed_nonempty. discriminate.
  - rewrite (concat_length_const 4) by apply flat_2_Forall.
    rewrite (concat_length_const 4) by apply flat_2_Forall.
    rewrite !map_length, abs_typed_length. reflexivity.
  - lia.
Qed.

(* ---- smooth curveto / smooth quadratic curveto *)
Lemma keys_disjoint k : key_in k quad_keys = true -> key_in k cubic_keys = false.
Proof.
  unfold key_in, quad_keys, cubic_keys. cbn [existsb].
  destruct (N.eqb_spec k 113); [subst; reflexivity|].
  destruct (N.eqb_spec k 81); [subst; reflexivity|].
  destruct (N.eqb_spec k 84); [subst; reflexivity|].
  destruct (N.eqb_spec k 116); [subst; reflexivity|]. discriminate.
Qed.
Lemma keys_disjoint' k : key_in k cubic_keys = true -> key_in k quad_keys = false.
Proof.
  intros H. destruct (key_in k quad_keys) eqn:E; [|reflexivity].
  apply keys_disjoint in E. congruence.
Qed.

Lemma exec_S rel s pts : execE s (letter 115 rel) pts =
  with_sets_f exactQ (S (length pts)) 4 rel s pts (fun p =>
    let* s2 := for_groups (S (length pts)) 363 p 0 4 (step_smooth_cubic exactQ (letter 115 rel)) s in
    Ok (Some (set_lk s2 (letter 115 rel)))).
Proof. destruct rel; reflexivity. Qed.

Lemma smooth_step o (Ho : key_in o cubic_keys = true) g s t : R s t ->
  R (step_smooth_cubic exactQ o (flat_2 g) s) (snd (sem t (prim_s false g))) /\
  ops (step_smooth_cubic exactQ o (flat_2 g) s) = rev (fst (sem t (prim_s false g))) ++ ops s.
Proof.
  intros (Hst & [C1 C2] & Hctl).
  unfold step_smooth_cubic, reflect_control_cube, flat_2, flat_pt. cbn [app].
  change [99%N; 67%N; 115%N; 83%N] with cubic_keys.
  unfold ctl_ok in Hctl. cbn [sem prim_s fst snd to_abs].
  destruct (prev t) as [|k|k].
  - destruct Hctl as [K1 K2]. rewrite K1.
    split; [|cbn; rewrite C1, C2; reflexivity].
    unfold R, Rst, Rcur, ctl_ok in *. cbn. intuition.
  - destruct Hctl as (K1 & K2 & K3). rewrite K1.
    split; [|cbn; unfold reflect_x, reflect_y, reflect; cbn; rewrite C1, C2, K2, K3; reflexivity].
    unfold R, Rst, Rcur, ctl_ok in *. cbn. intuition.
  - destruct Hctl as (K1 & K2 & K3). rewrite (keys_disjoint _ K1).
    split; [|cbn; rewrite C1, C2; reflexivity].
    unfold R, Rst, Rcur, ctl_ok in *. cbn. intuition.
Qed.

Lemma set_lk_same s o : lk s = o -> set_lk s o = s.
Proof. destruct s. cbn. intros ->. reflexivity. Qed.

Lemma S_body (G : list (pt * pt)) (o : N) (fuel : nat) s t :
  G <> [] -> R s t -> key_in o cubic_keys = true -> (length (concat (map flat_2 G)) < fuel)%nat ->
  exists s',
    (let p := concat (map flat_2 G) in
     let* s2 := for_groups fuel 363 p 0 4 (step_smooth_cubic exactQ o) s in
     Ok (Some (set_lk s2 o))) = Ok (Some s') /\
    R s' (snd (run2 t (map (prim_s false) G))) /\
    ops s' = rev (fst (run2 t (map (prim_s false) G))) ++ ops s.
Proof.
  intros Hne HR Hk Hf. cbv zeta.
  pose proof (flat_2_Forall G) as Hall.
  pose proof (groups_le 4 _ ltac:(lia) Hall) as Hle.
  rewrite (for_groups_concat 4) by (try assumption; lia). cbn [bind].
  destruct (fold_sim _ flat_2 (prim_s false) (step_smooth_cubic exactQ o) R (smooth_step o Hk) G s t HR) as [F1 F2].
  rewrite set_lk_same.
  - eexists. split; [reflexivity|]. split; assumption.
  - destruct (exists_last Hne) as (front & g & ->).
    rewrite map_app, fold_left_app. reflexivity.
Qed.

Lemma smooth_abs_ok g more : cmd_ok (CSmooth false g more).
Proof.
  intros s t HR. cbn [flatten fst snd expand].
  rewrite exec_S. change (flat_map _ (g :: more)) with (flat_map flat_2 (g :: more)).
  change (map _ (g :: more)) with (map (prim_s false) (g :: more)).
  rewrite flat_map_concat_map.
  rewrite (with_sets_abs _ 4) by (try apply flat_2_Forall; try discriminate; lia).
  apply (S_body (g :: more)); try assumption; try reflexivity; try discriminate.
  apply Nat.lt_succ_diag_r.
Qed.

Lemma smooth_rel_ok g more : cmd_ok (CSmooth true g more).
Proof.
  intros s t HR. pose proof HR as (Hst & Hcur & Hctl). cbn [flatten fst snd expand].
  rewrite exec_S. change (flat_map _ (g :: more)) with (flat_map flat_2 (g :: more)).
  change (map _ (g :: more)) with (map (prim_s true) (g :: more)).
  rewrite flat_map_concat_map.
  pose proof (flat_2_Forall (g :: more)) as Hall.
  pose proof (groups_le 4 _ ltac:(lia) Hall) as Hle.
  pose proof (concat_length_const 4 _ Hall) as Hcl. rewrite map_length in Hcl, Hle.
  rewrite (with_sets_rel _ 2) by (try assumption; try discriminate; rewrite ?map_length; cbn [length] in *; lia).
  rewrite (abs_groups_typed _ flat_2 2 shift_2 snd); try reflexivity.
  2:{ intros x. split; reflexivity. }
  rewrite (cur_pair s t Hcur).
  rewrite (run2_rel _ shift_2 snd prim_s); try reflexivity.
  eapply (S_body (abs_typed _ shift_2 snd (cur t) (g :: more))); try eassumption; try reflexivity.
  - apply abs_typed_nonempty. discriminate.
  - rewrite (concat_length_const 4) by apply flat_2_Forall.
    rewrite (concat_length_const 4) by apply flat_2_Forall.
    rewrite !map_length, abs_typed_length. lia.
Qed.

Lemma exec_T rel s pts : execE s (letter 116 rel) pts =
  with_sets_f exactQ (S (length pts)) 2 rel s pts (fun p =>
    let* s2 := for_groups (S (length pts)) 331 p 0 2 (step_smooth_quad exactQ rcE (letter 116 rel)) s in
    Ok (Some (set_lk s2 (letter 116 rel)))).
Proof. destruct rel; reflexivity. Qed.

Lemma smooth_quad_step o (Ho : key_in o quad_keys = true) g s t : R s t ->
  R (step_smooth_quad exactQ rcE o (flat_pt g) s) (snd (sem t (PSmoothQuad false g))) /\
  ops (step_smooth_quad exactQ rcE o (flat_pt g) s) = rev (fst (sem t (PSmoothQuad false g))) ++ ops s.
Proof.
  intros (Hst & [C1 C2] & Hctl).
  unfold step_smooth_quad, reflect_control_quad, flat_pt.
  change [113%N; 81%N; 84%N; 116%N] with quad_keys.
  unfold ctl_ok in Hctl. cbn [sem fst snd to_abs].
  destruct (prev t) as [|k|k].
  - destruct Hctl as [K1 K2]. rewrite K2.
    split; [|cbn; unfold quad_to_cubic, elevate, two_third; cbn; rewrite C1, C2; reflexivity].
    unfold R, Rst, Rcur, ctl_ok in *. cbn. rewrite C1, C2. intuition.
  - destruct Hctl as (K1 & K2 & K3). rewrite (keys_disjoint' _ K1).
    split; [|cbn; unfold quad_to_cubic, elevate, two_third; cbn; rewrite C1, C2; reflexivity].
    unfold R, Rst, Rcur, ctl_ok in *. cbn. rewrite C1, C2. intuition.
  - destruct Hctl as (K1 & K2 & K3). rewrite K1.
    split; [|cbn; unfold quad_to_cubic, elevate, two_third, reflect_x, reflect_y, reflect; cbn;
             rewrite C1, C2, K2, K3; reflexivity].
    unfold R, Rst, Rcur, ctl_ok, reflect_x, reflect_y, reflect in *. cbn. rewrite C1, C2, K2, K3. intuition.
Qed.

Lemma T_body (G : list pt) (o : N) (fuel : nat) s t :
  G <> [] -> R s t -> key_in o quad_keys = true -> (length (concat (map flat_pt G)) < fuel)%nat ->
  exists s',
    (let p := concat (map flat_pt G) in
     let* s2 := for_groups fuel 331 p 0 2 (step_smooth_quad exactQ rcE o) s in
     Ok (Some (set_lk s2 o))) = Ok (Some s') /\
    R s' (snd (run2 t (map (PSmoothQuad false) G))) /\
    ops s' = rev (fst (run2 t (map (PSmoothQuad false) G))) ++ ops s.
Proof.
  intros Hne HR Hk Hf. cbv zeta.
  pose proof (flat_pt_Forall G) as Hall.
  pose proof (groups_le 2 _ ltac:(lia) Hall) as Hle.
  rewrite (for_groups_concat 2) by (try assumption; lia). cbn [bind].
  destruct (fold_sim _ flat_pt (PSmoothQuad false) (step_smooth_quad exactQ rcE o) R (smooth_quad_step o Hk) G s t HR) as [F1 F2].
  rewrite set_lk_same.
  - eexists. split; [reflexivity|]. split; assumption.
  - destruct (exists_last Hne) as (front & g & ->).
    rewrite map_app, fold_left_app. reflexivity.
Qed.

Lemma smooth_quad_abs_ok p more : cmd_ok (CSmoothQuad false p more).
Proof.
  intros s t HR. cbn [flatten fst snd expand].
  rewrite exec_T. rewrite flat_map_concat_map.
  rewrite (with_sets_abs _ 2) by (try apply flat_pt_Forall; try discriminate; lia).
  apply (T_body (p :: more)); try assumption; try reflexivity; try discriminate.
  apply Nat.lt_succ_diag_r.
Qed.

Lemma smooth_quad_rel_ok p more : cmd_ok (CSmoothQuad true p more).
Proof.
  intros s t HR. pose proof HR as (Hst & Hcur & Hctl). cbn [flatten fst snd expand].
  rewrite exec_T. rewrite flat_map_concat_map.
  pose proof (flat_pt_Forall (p :: more)) as Hall.
  pose proof (groups_le 2 _ ltac:(lia) Hall) as Hle.
  rewrite (with_sets_rel _ 1) by (try assumption; try discriminate; cbn [length] in *; lia).
  rewrite (abs_groups_typed pt flat_pt 1 shift_pt (fun p => p)); try reflexivity.
  2:{ intros g. split; reflexivity. }
  rewrite (cur_pair s t Hcur).
  rewrite (run2_rel pt shift_pt (fun p => p) PSmoothQuad); try reflexivity.
  eapply (T_body (abs_typed pt shift_pt (fun p => p) (cur t) (p :: more))); try eassumption; try reflexivity.
  - apply abs_typed_nonempty. discriminate.
  - rewrite (concat_length_const 2) by apply flat_pt_Forall.
    rewrite (concat_length_const 2) by apply flat_pt_Forall.
    rewrite !map_length, abs_typed_length. lia.
Qed.

(* ---- elliptical arc (up to the end points) *)
Lemma exec_A rel s pts : execE s (letter 97 rel) pts =
  with_sets_f exactQ (S (length pts)) 7 false s pts (fun p =>
    let* s2 := for_groups (S (length pts)) 379 p 0 7 (step_arc exactQ rel) s in
    Ok (Some (set_lk s2 (letter 97 rel)))).
Proof. destruct rel; reflexivity. Qed.

Lemma flat_arc_Forall (G : list arc_arg) : Forall (fun g => length g = 7%nat) (map flat_arc G).
Proof. induction G; constructor; [reflexivity|assumption]. Qed.

Lemma arc_step rel a s t : Rsc s t ->
  Rsc (step_arc exactQ rel (flat_arc a) s) (snd (sem t (PArc rel a))) /\
  ops (step_arc exactQ rel (flat_arc a) s) = rev (fst (sem t (PArc rel a))) ++ ops s.
Proof.
  intros [Hst [C1 C2]]. unfold step_arc, flat_arc. cbn [sem]. unfold pt_eqb, to_abs.
  rewrite C1, C2.
  destruct rel; cbn [fst snd add exactQ];
    (destruct (Qeq_bool _ _ && Qeq_bool _ _); [split; [split; [exact Hst|split; assumption]|reflexivity]|]);
    (destruct (Qeq_bool (a_rx a) 0 || Qeq_bool (a_ry a) 0);
     (split; [split; [exact Hst|split; reflexivity]|cbn; rewrite ?C1, ?C2; reflexivity])).
Qed.

Lemma arc_prev rel a t : prev (snd (sem t (PArc rel a))) = NoCtl.
Proof.
  cbn [sem]. destruct (pt_eqb _ _); [reflexivity|]. destruct (_ || _); reflexivity.
Qed.

Lemma arc_ok rel a more : cmd_ok (CArc rel a more).
Proof.
  intros s t (Hst & Hcur & Hctl). cbn [flatten fst snd expand].
  rewrite exec_A. rewrite flat_map_concat_map.
  pose proof (flat_arc_Forall (a :: more)) as Hall.
  pose proof (groups_le 7 _ ltac:(lia) Hall) as Hle.
  rewrite (with_sets_abs _ 7) by (try assumption; try discriminate; lia).
  rewrite (for_groups_concat 7) by (try assumption; lia). cbn [bind].
  destruct (fold_sim _ flat_arc (PArc rel) (step_arc exactQ rel) Rsc (arc_step rel) (a :: more) s t (conj Hst Hcur)) as [[F0 F1] F2].
  eexists. split; [reflexivity|]. split; [|exact F2].
  split; [exact F0|]. split; [exact F1|].
  assert (Hne : a :: more <> []) by discriminate.
  destruct (exists_last Hne) as (front & g & E). rewrite E.
  rewrite !map_app. cbn [map]. rewrite run2_app. cbn [run2 snd].
  unfold ctl_ok. rewrite arc_prev. destruct rel; split; reflexivity.
Qed.

(* ---- horizontal / vertical lineto *)
Definition flat_1 (x : Q) : list Q := [x].
Lemma flat_1_Forall (G : list Q) : Forall (fun g => length g = 1%nat) (map flat_1 G).
Proof. induction G; constructor; [reflexivity|assumption]. Qed.
Lemma concat_flat_1 (G : list Q) : concat (map flat_1 G) = G.
Proof. induction G; cbn; [reflexivity|]. f_equal. assumption. Qed.

Lemma exec_H rel s pts : execE s (letter 104 rel) pts =
  let* pts1 := if rel then vals_to_abs exactQ (S (length pts)) pts (curx s) else Ok pts in
  with_sets_f exactQ (S (length pts)) 1 false s pts1 (fun p =>
    let* s2 := for_groups (S (length pts)) 304 p 0 1 step_h s in
    let* lx := index 306 p (Z.of_nat (length pts) - 1)%Z in
    Ok (Some (set_lk (set_curx s2 lx) (letter 104 rel)))).
Proof. destruct rel; reflexivity. Qed.

Lemma exec_V rel s pts : execE s (letter 118 rel) pts =
  let* pts1 := if rel then vals_to_abs exactQ (S (length pts)) pts (cury s) else Ok pts in
  with_sets_f exactQ (S (length pts)) 1 false s pts1 (fun p =>
    let* s2 := for_groups (S (length pts)) 293 p 0 1 step_v s in
    let* ly := index 295 p (Z.of_nat (length pts) - 1)%Z in
    Ok (Some (set_lk (set_cury s2 ly) (letter 118 rel)))).
Proof. destruct rel; reflexivity. Qed.

Definition Rh (s : pst) (t : sstate) : Prop := Rst s t /\ cury s = snd (cur t).
Definition Rv (s : pst) (t : sstate) : Prop := Rst s t /\ curx s = fst (cur t).

Lemma h_step x s t : Rh s t ->
  Rh (step_h (flat_1 x) s) (snd (sem t (PHoriz false x))) /\
  ops (step_h (flat_1 x) s) = rev (fst (sem t (PHoriz false x))) ++ ops s.
Proof. intros [Hst C]. split; [split; [exact Hst|exact C]|cbn; rewrite C; reflexivity]. Qed.

Lemma v_step y s t : Rv s t ->
  Rv (step_v (flat_1 y) s) (snd (sem t (PVert false y))) /\
  ops (step_v (flat_1 y) s) = rev (fst (sem t (PVert false y))) ++ ops s.
Proof. intros [Hst C]. split; [split; [exact Hst|exact C]|cbn; rewrite C; reflexivity]. Qed.

Lemma H_body (G : list Q) (o : N) (fuel len : nat) s t :
  G <> [] -> Rh s t -> key_in o cubic_keys = false -> key_in o quad_keys = false ->
  len = length G -> (len < fuel)%nat ->
  exists s',
    (let* s2 := for_groups fuel 304 G 0 1 step_h s in
     let* lx := index 306 G (Z.of_nat len - 1)%Z in
     Ok (Some (set_lk (set_curx s2 lx) o))) = Ok (Some s') /\
    R s' (snd (run2 t (map (PHoriz false) G))) /\
    ops s' = rev (fst (run2 t (map (PHoriz false) G))) ++ ops s.
Proof.
  intros Hne Hst Hk1 Hk2 Hlen Hf.
  replace (for_groups fuel 304 G 0 1 step_h s) with (for_groups fuel 304 (concat (map flat_1 G)) 0 1 step_h s)
    by (rewrite concat_flat_1; reflexivity).
  replace (index 306 G (Z.of_nat len - 1)%Z) with (index 306 (concat (map flat_1 G)) (Z.of_nat (length (concat (map flat_1 G))) - 1)%Z)
    by (rewrite concat_flat_1, Hlen; reflexivity).
  pose proof (flat_1_Forall G) as Hall.
  pose proof (groups_le 1 _ ltac:(lia) Hall) as Hle. rewrite map_length in Hle.
  rewrite (for_groups_concat 1) by (try assumption; rewrite ?map_length; lia). cbn [bind].
  destruct (fold_sim _ flat_1 (PHoriz false) step_h Rh h_step G s t Hst) as [F1 F2].
  destruct (exists_last Hne) as (front & g & ->).
  rewrite !map_app in *. cbn [map] in *.
  rewrite (index_concat_last 306 _ (flat_1 g) 0 1) by (cbn; lia || reflexivity).
  cbn [bind nth flat_1]. eexists. split; [reflexivity|]. split; [|exact F2].
  rewrite run2_app in *. cbn [run2 sem fst snd] in *.
  unfold R, Rh, Rst, Rcur, ctl_ok in *. cbn in *. intuition.
Qed.

Lemma V_body (G : list Q) (o : N) (fuel len : nat) s t :
  G <> [] -> Rv s t -> key_in o cubic_keys = false -> key_in o quad_keys = false ->
  len = length G -> (len < fuel)%nat ->
  exists s',
    (let* s2 := for_groups fuel 293 G 0 1 step_v s in
     let* ly := index 295 G (Z.of_nat len - 1)%Z in
     Ok (Some (set_lk (set_cury s2 ly) o))) = Ok (Some s') /\
    R s' (snd (run2 t (map (PVert false) G))) /\
    ops s' = rev (fst (run2 t (map (PVert false) G))) ++ ops s.
Proof.
  intros Hne Hst Hk1 Hk2 Hlen Hf.
  replace (for_groups fuel 293 G 0 1 step_v s) with (for_groups fuel 293 (concat (map flat_1 G)) 0 1 step_v s)
    by (rewrite concat_flat_1; reflexivity).
  replace (index 295 G (Z.of_nat len - 1)%Z) with (index 295 (concat (map flat_1 G)) (Z.of_nat (length (concat (map flat_1 G))) - 1)%Z)
    by (rewrite concat_flat_1, Hlen; reflexivity).
  pose proof (flat_1_Forall G) as Hall.
  pose proof (groups_le 1 _ ltac:(lia) Hall) as Hle. rewrite map_length in Hle.
  rewrite (for_groups_concat 1) by (try assumption; rewrite ?map_length; lia). cbn [bind].
  destruct (fold_sim _ flat_1 (PVert false) step_v Rv v_step G s t Hst) as [F1 F2].
  destruct (exists_last Hne) as (front & g & ->).
  rewrite !map_app in *. cbn [map] in *.
  rewrite (index_concat_last 295 _ (flat_1 g) 0 1) by (cbn; lia || reflexivity).
  cbn [bind nth flat_1]. eexists. split; [reflexivity|]. split; [|exact F2].
  rewrite run2_app in *. cbn [run2 sem fst snd] in *.
  unfold R, Rv, Rst, Rcur, ctl_ok in *. cbn in *. intuition.
Qed.

Lemma sums_nonempty l xs : xs <> [] -> sums exactQ l xs <> [].
Proof. destruct xs; [congruence|discriminate]. Qed.

Lemma run2_h_rel : forall xs t,
  run2 t (map (PHoriz true) xs) = run2 t (map (PHoriz false) (sums exactQ (fst (cur t)) xs)).
Proof.
  induction xs as [|x xs IH]; intros t; cbn [map sums run2]; [reflexivity|].
  change (sem t (PHoriz true x)) with (sem t (PHoriz false (fst (cur t) + x))).
  rewrite IH. reflexivity.
Qed.

Lemma run2_v_rel : forall ys t,
  run2 t (map (PVert true) ys) = run2 t (map (PVert false) (sums exactQ (snd (cur t)) ys)).
Proof.
  induction ys as [|y ys IH]; intros t; cbn [map sums run2]; [reflexivity|].
  change (sem t (PVert true y)) with (sem t (PVert false (snd (cur t) + y))).
  rewrite IH. reflexivity.
Qed.

Lemma with_sets_1 fuel s (G : list Q) k : G <> [] ->
  with_sets_f exactQ fuel 1 false s G k = k G.
Proof.
  intros Hne. rewrite <- (concat_flat_1 G).
  apply (with_sets_abs fuel 1); [lia| |apply flat_1_Forall].
  destruct G; [congruence|discriminate].
Qed.

Lemma horiz_ok rel x more : cmd_ok (CHoriz rel x more).
Proof.
  intros s t (Hst & [C1 C2] & Hctl). cbn [flatten fst snd expand].
  rewrite exec_H. destruct rel.
  - rewrite vals_to_abs_ok by lia. cbn [bind].
    rewrite with_sets_1 by (apply sums_nonempty; discriminate).
    rewrite run2_h_rel. rewrite <- C1.
    apply H_body; try reflexivity; try (split; assumption).
    + apply sums_nonempty. discriminate.
    + rewrite sums_length. reflexivity.
    + lia.
  - cbn [bind]. rewrite with_sets_1 by discriminate.
    apply H_body; try reflexivity; try (split; assumption); try discriminate. lia.
Qed.

Lemma vert_ok rel y more : cmd_ok (CVert rel y more).
Proof.
  intros s t (Hst & [C1 C2] & Hctl). cbn [flatten fst snd expand].
  rewrite exec_V. destruct rel.
  - rewrite vals_to_abs_ok by lia. cbn [bind].
    rewrite with_sets_1 by (apply sums_nonempty; discriminate).
    rewrite run2_v_rel. rewrite <- C2.
    apply V_body; try reflexivity; try (split; assumption).
    + apply sums_nonempty. discriminate.
    + rewrite sums_length. reflexivity.
    + lia.
  - cbn [bind]. rewrite with_sets_1 by discriminate.
    apply V_body; try reflexivity; try (split; assumption); try discriminate. lia.
Qed.

(* ---- all commands *)
Lemma cmd_all_ok : forall c, cmd_ok c.
Proof.
  intros [rel p more|rel p more|rel x more|rel y more|rel g more|rel g more|rel g more|rel p more|rel a more|rel];
    try (destruct rel).
  - apply move_rel_ok. - apply move_abs_ok.
  - apply line_rel_ok. - apply line_abs_ok.
  - apply horiz_ok. - apply horiz_ok.
  - apply vert_ok. - apply vert_ok.
  - apply cubic_rel_ok. - apply cubic_abs_ok.
  - apply smooth_rel_ok. - apply smooth_abs_ok.
  - apply quad_rel_ok. - apply quad_abs_ok.
  - apply smooth_quad_rel_ok. - apply smooth_quad_abs_ok.
  - apply arc_ok. - apply arc_ok.
  - apply close_ok. - apply close_ok.
Qed.

Lemma interp_sim : forall cmds s t, R s t ->
  exists s', interp exactQ rcE s (map flatten cmds) = Ok (Some s') /\
             ops s' = rev (fst (run2 t (flat_map expand cmds))) ++ ops s.
Proof.
  induction cmds as [|c cmds IH]; intros s t HR; cbn [map interp flat_map].
  - exists s. split; reflexivity.
  - destruct (cmd_all_ok c s t HR) as (s1 & E1 & R1 & O1).
    destruct (flatten c) as [o pts]. cbn [fst snd] in E1. rewrite E1. cbn [bind].
    destruct (IH s1 _ R1) as (s2 & E2 & O2).
    exists s2. split; [exact E2|].
    rewrite run2_app. cbn [fst]. rewrite O2, O1, rev_app_distr, app_assoc. reflexivity.
Qed.

(* path_interp_spec: on every abstract command list the interpreter's op list
   is the one SVG 1.1 section 8.3 defines *)
Theorem path_interp_spec : forall cmds : list cmd,
  interp_ops exactQ rcE (map flatten cmds) = Ok (Some (denote cmds)).
Proof.
  intros cmds. unfold interp_ops, denote.
  destruct (interp_sim cmds init s0 R_init) as (s' & E & O).
  rewrite E. cbn [bind option_map]. rewrite O. cbn [ops init]. rewrite app_nil_r, rev_involutive.
  rewrite run_run2. reflexivity.
Qed.

(* ================================================================== *)
(* arcs, for every arithmetic instance: an arc segment starts at the current
   point and ends at the given point; identical end points: omitted; a zero
   radius: a straight line *)
Theorem arc_endpoints (ar : arith) (rel : bool) (rx ry rot la sw x y : Q) (s : pst) :
  let ex := if rel then add ar x (curx s) else x in
  let ey := if rel then add ar y (cury s) else y in
  let s' := step_arc ar rel [rx; ry; rot; la; sw; x; y] s in
  if Qeq_bool ex (curx s) && Qeq_bool ey (cury s) then s' = s
  else curx s' = ex /\ cury s' = ey /\
       exists o, ops s' = o :: ops s /\ op_end o = (ex, ey) /\
                 o = if Qeq_bool rx 0 || Qeq_bool ry 0 then OLine ex ey
                     else OArc (curx s) (cury s) rx ry rot la sw ex ey.
Proof.
  cbv zeta. unfold step_arc.
  destruct (Qeq_bool _ _ && Qeq_bool _ _); [reflexivity|].
  destruct (Qeq_bool rx 0 || Qeq_bool ry 0); cbn; repeat split; eexists; repeat split.
Qed.
