(* Geom/SvgLexProofs.v -- the number scanner against the SVG number grammar
   (SvgPathSpec.literal): a legal literal is read back with the value it
   denotes, and the scanner stops exactly at its end. *)
From Coq Require Import QArith List ZArith NArith Bool Lia ZifyBool ZifyNat ZifyN.
From Verif Require Import Base.GoSem Base.F32 Geom.SvgPath Geom.Shapes Geom.SvgPathSpec.
Import ListNotations.
Open Scope Z_scope.

Definition dstep (a : Z) (d : N) : Z := a * 10 + Z.of_N d.

Lemma digits_val_fold l : digits_val l = fold_left dstep l 0.
Proof. reflexivity. Qed.

Lemma spelled_digit d : (d <? 10)%N = true ->
  is_digit (d + 48) = true /\ digit_val (d + 48) = Z.of_N d.
Proof. intros H. unfold is_digit, digit_val. split; lia. Qed.

Lemma read_digits_spell : forall ds acc n rest, digits_ok ds = true ->
  read_digits acc n (spell_digits ds ++ rest)
  = read_digits (fold_left dstep ds acc) (n + Z.of_nat (length ds)) rest.
Proof.
  induction ds as [|d ds IH]; intros acc n rest Hok; cbn [spell_digits map app fold_left length].
  - replace (n + Z.of_nat 0) with n by lia. reflexivity.
  - cbn [digits_ok forallb] in Hok. apply andb_true_iff in Hok. destruct Hok as [Hd Hok].
    destruct (spelled_digit d Hd) as [E1 E2]. cbn [read_digits]. rewrite E1, E2.
    change (map (fun d0 : N => (d0 + 48)%N) ds) with (spell_digits ds).
    rewrite IH by exact Hok. unfold dstep at 2. f_equal. lia.
Qed.

Definition not_digit_head (l : list N) : bool :=
  match l with [] => true | c :: _ => negb (is_digit c) end.

Lemma read_digits_stop acc n rest : not_digit_head rest = true -> read_digits acc n rest = (acc, n, rest).
Proof.
  destruct rest as [|c r]; cbn; [reflexivity|]. intros H. apply negb_true_iff in H. rewrite H. reflexivity.
Qed.

Lemma read_digits_all ds acc n rest : digits_ok ds = true -> not_digit_head rest = true ->
  read_digits acc n (spell_digits ds ++ rest) = (fold_left dstep ds acc, n + Z.of_nat (length ds), rest).
Proof. intros H1 H2. rewrite read_digits_spell by exact H1. apply read_digits_stop. exact H2. Qed.

Definition sign_bytes (neg plus : bool) : list N := if neg then [45%N] else if plus then [43%N] else [].

Lemma read_sign_spec neg plus body : negb (neg && plus) = true ->
  (match body with [] => true | c :: _ => negb (c =? 45)%N && negb (c =? 43)%N end) = true ->
  read_sign (sign_bytes neg plus ++ body) = (neg, body).
Proof.
  intros Hs Hb. destruct neg; [reflexivity|]. destruct plus; [reflexivity|].
  cbn [sign_bytes app]. unfold read_sign. destruct body as [|c r]; [reflexivity|].
  apply andb_true_iff in Hb. destruct Hb as [H1 H2].
  apply negb_true_iff in H1. apply negb_true_iff in H2. rewrite H1, H2. reflexivity.
Qed.

Lemma spell_head_not_sign ds rest : digits_ok ds = true -> ds <> [] ->
  (match spell_digits ds ++ rest with [] => true | c :: _ => negb (c =? 45)%N && negb (c =? 43)%N end) = true.
Proof.
  destruct ds as [|d ds]; [congruence|]. intros H _. cbn in *.
  apply andb_true_iff in H. destruct H as [Hd _]. lia.
Qed.

(* exponent part *)
Definition exp_bytes (e : option (bool * bool * list N * bool)) : list N :=
  match e with
  | None => []
  | Some (upper, neg, ds, plus) => (if upper then 69%N else 101%N) :: sign_bytes neg plus ++ spell_digits ds
  end.

Lemma lit_spelling_eq l : lit_spelling l =
  sign_bytes (l_neg l) (l_plus l) ++ spell_digits (l_int l) ++ (if l_dot l then [46%N] else [])
  ++ spell_digits (l_frac l) ++ exp_bytes (l_exp l).
Proof. unfold lit_spelling, sign_bytes, exp_bytes. destruct (l_exp l) as [[[[u n] ds] p]|]; reflexivity. Qed.

Lemma exp_head_not_digit e : not_digit_head (exp_bytes e) = true.
Proof. destruct e as [[[[u n] ds] p]|]; [destruct u|]; reflexivity. Qed.

(* strconv.ParseFloat's syntax on a legal SVG number: accepted, with the
   mantissa and decimal exponent the grammar gives it *)
Theorem parse_float_spec (l : literal) : lit_ok l = true ->
  parse_float (lit_spelling l) = Some (lit_value l).
Proof.
  intros Hok. unfold lit_ok in Hok.
  repeat (apply andb_true_iff in Hok; destruct Hok as [Hok ?]).
  rename H into Hexp, H0 into Hdot, H1 into Hne, H2 into Hsign, H3 into Hfrac, Hok into Hint.
  rewrite lit_spelling_eq. unfold parse_float, lit_value.
  (* sign *)
  rewrite read_sign_spec; [|exact Hsign|].
  2:{ destruct (l_int l) as [|d ds] eqn:Ei.
      - cbn [spell_digits map app]. destruct (l_dot l) eqn:Ed; [reflexivity|].
        cbn in Hdot. destruct (l_frac l); [discriminate Hne|discriminate Hdot].
      - rewrite <- Ei in *. apply spell_head_not_sign; [exact Hint|congruence]. }
  (* integer digits *)
  assert (Hnd1 : not_digit_head ((if l_dot l then [46%N] else []) ++ spell_digits (l_frac l) ++ exp_bytes (l_exp l)) = true).
  { destruct (l_dot l) eqn:Ed; [reflexivity|]. cbn [app].
    cbn in Hdot. destruct (l_frac l); [|discriminate Hdot]. cbn [spell_digits map app]. apply exp_head_not_digit. }
  rewrite read_digits_all by assumption. cbn [Z.add].
  (* fraction *)
  set (ip := fold_left dstep (l_int l) 0).
  assert (Hfr : (match (if l_dot l then [46%N] else []) ++ spell_digits (l_frac l) ++ exp_bytes (l_exp l) with
                 | c :: r => if (c =? 46)%N then read_digits ip 0 r
                             else (ip, 0, (if l_dot l then [46%N] else []) ++ spell_digits (l_frac l) ++ exp_bytes (l_exp l))
                 | [] => (ip, 0, (if l_dot l then [46%N] else []) ++ spell_digits (l_frac l) ++ exp_bytes (l_exp l))
                 end) = (fold_left dstep (l_frac l) ip, Z.of_nat (length (l_frac l)), exp_bytes (l_exp l))).
  { destruct (l_dot l) eqn:Ed.
    - cbn [app]. change (46 =? 46)%N with true. cbv iota.
      rewrite read_digits_all by (try assumption; apply exp_head_not_digit). reflexivity.
    - cbn in Hdot. destruct (l_frac l); [|discriminate Hdot]. cbn [spell_digits map app fold_left length].
      destruct (l_exp l) as [[[[u n] ds] p]|]; [|reflexivity].
      cbn [exp_bytes]. destruct u; reflexivity. }
  rewrite Hfr. clear Hfr.
  match goal with |- context [if (?a =? 0) then None else _] =>
    destruct (Z.eqb_spec a 0) as [E|_];
    [exfalso; destruct (l_int l); destruct (l_frac l); cbn [length] in *; try discriminate Hne; lia|] end.
  assert (Hm : fold_left dstep (l_frac l) ip = digits_val (l_int l ++ l_frac l)).
  { unfold ip. rewrite digits_val_fold, fold_left_app. reflexivity. }
  rewrite Hm.
  destruct (l_exp l) as [[[[u n] ds] p]|]; cbn [exp_bytes].
  - apply andb_true_iff in Hexp. destruct Hexp as [Hexp Hdsne].
    apply andb_true_iff in Hexp. destruct Hexp as [Hds Hes].
    assert (He : is_e (if u then 69%N else 101%N) = true) by (destruct u; reflexivity).
    rewrite He.
    rewrite <- (app_nil_r (spell_digits ds)).
    rewrite read_sign_spec; [|exact Hes|].
    2:{ apply spell_head_not_sign; [exact Hds|]. destruct ds; [discriminate Hdsne|congruence]. }
    rewrite read_digits_all by (try assumption; reflexivity).
    match goal with |- context [if (?a =? 0) then None else _] =>
      destruct (Z.eqb_spec a 0) as [E|_];
      [exfalso; destruct ds; [discriminate Hdsne|cbn [length] in *; lia]|] end.
    destruct n; reflexivity.
  - reflexivity.
Qed.

(* ------------------------------------------------------------------ *)
(* consumeNumber stops exactly at the end of a legal literal *)
Lemma ct_pair {A B} (c : A) (X : list A * B) :
  (let '(a, b) := X in (c :: a, b)) = (c :: fst X, snd X).
Proof. destruct X; reflexivity. Qed.

Lemma last_cons {A} (c : A) l d : last (c :: l) d = last l c.
Proof. revert c. induction l as [|x l IH]; intros c; [reflexivity|]. cbn [last] in *. destruct l; [reflexivity|apply IH]. Qed.

Lemma ct_digits : forall ds prev sd se rest, digits_ok ds = true ->
  consume_tail prev sd se (spell_digits ds ++ rest)
  = (spell_digits ds ++ fst (consume_tail (last (spell_digits ds) prev) sd se rest),
     snd (consume_tail (last (spell_digits ds) prev) sd se rest)).
Proof.
  induction ds as [|d ds IH]; intros prev sd se rest Hok.
  - cbn [spell_digits map app last]. destruct (consume_tail prev sd se rest); reflexivity.
  - cbn [digits_ok forallb] in Hok. apply andb_true_iff in Hok. destruct Hok as [Hd Hok].
    destruct (spelled_digit d Hd) as [E1 _].
    cbn [spell_digits map app consume_tail]. rewrite E1. rewrite ct_pair.
    change (map (fun d0 : N => (d0 + 48)%N) ds) with (spell_digits ds).
    rewrite IH by exact Hok. cbn [fst snd]. rewrite last_cons. reflexivity.
Qed.

Lemma last_digit_not_e ds prev : digits_ok ds = true -> is_e prev = false ->
  is_e (last (spell_digits ds) prev) = false.
Proof.
  revert prev. induction ds as [|d ds IH]; intros prev Hok Hp; [exact Hp|].
  cbn [digits_ok forallb] in Hok. apply andb_true_iff in Hok. destruct Hok as [Hd Hok].
  cbn [spell_digits map]. rewrite last_cons. apply IH; [exact Hok|]. unfold is_e. lia.
Qed.

(* what may follow a number: nothing, or a byte that cannot continue it *)
Definition stops (prev : N) (sd se : bool) (rest : list N) : bool :=
  match rest with
  | [] => true
  | c :: _ => negb (is_digit c) && negb (is_e c) &&
              (negb (c =? 46)%N || sd || se) &&
              (negb ((c =? 45)%N || (c =? 43)%N) || negb (is_e prev))
  end.

Lemma ct_stop prev sd se rest : stops prev sd se rest = true ->
  consume_tail prev sd se rest = ([], rest).
Proof.
  destruct rest as [|c r]; [reflexivity|]. unfold stops. intros H.
  repeat (apply andb_true_iff in H; destruct H as [H ?]).
  apply negb_true_iff in H. apply negb_true_iff in H2.
  cbn [consume_tail]. rewrite H.
  destruct (c =? 46)%N eqn:E46.
  { cbn in H1. rewrite H1. reflexivity. }
  destruct ((c =? 45)%N || (c =? 43)%N) eqn:Es.
  { cbn in H0. apply negb_true_iff in H0. rewrite H0. reflexivity. }
  rewrite H2. reflexivity.
Qed.

(* the unsigned part of a literal, scanned from a state whose previous byte is
   not an exponent marker *)
Lemma ct_unsigned (int : list N) (dot : bool) (frac : list N) (e : option (bool * bool * list N * bool))
      (prev : N) (sd : bool) (rest : list N) :
  digits_ok int = true -> digits_ok frac = true ->
  (dot = true -> sd = false) ->
  (match e with None => true
   | Some (_, neg, ds, plus) => digits_ok ds && negb (neg && plus) && match ds with [] => false | _ => true end end) = true ->
  is_e prev = false ->
  (forall prev', is_e prev' = false -> stops prev' (sd || dot) (match e with None => false | _ => true end) rest = true) ->
  consume_tail prev sd false
    (spell_digits int ++ (if dot then [46%N] else []) ++ spell_digits frac ++ exp_bytes e ++ rest)
  = (spell_digits int ++ (if dot then [46%N] else []) ++ spell_digits frac ++ exp_bytes e, rest).
Proof.
  intros Hint Hfrac Hsd He Hprev Hstop.
  rewrite ct_digits by exact Hint.
  set (p1 := last (spell_digits int) prev).
  assert (Hp1 : is_e p1 = false) by (apply last_digit_not_e; assumption).
  (* after the optional dot and the fraction digits *)
  assert (Hmid : forall p sd', is_e p = false -> sd' = (sd || dot)%bool ->
            consume_tail p sd' false (exp_bytes e ++ rest) = (exp_bytes e, rest)).
  { intros p sd' Hp ->. destruct e as [[[[u n] ds] pl]|].
    - apply andb_true_iff in He. destruct He as [He Hne]. apply andb_true_iff in He. destruct He as [Hds Hs].
      cbn [exp_bytes app].
      assert (Hc : consume_tail p (sd || dot) false ((if u then 69%N else 101%N) :: sign_bytes n pl ++ spell_digits ds ++ rest)
                   = ((if u then 69%N else 101%N) :: fst (consume_tail (if u then 69%N else 101%N) (sd || dot) true (sign_bytes n pl ++ spell_digits ds ++ rest)),
                      snd (consume_tail (if u then 69%N else 101%N) (sd || dot) true (sign_bytes n pl ++ spell_digits ds ++ rest)))).
      { destruct u; cbn [consume_tail is_digit is_e N.leb N.eqb N.compare Pos.compare Pos.compare_cont Pos.eqb andb orb];
          rewrite ct_pair; reflexivity. }
      rewrite <- app_assoc. cbn [app]. rewrite Hc. clear Hc.
      assert (Hs2 : forall pe, is_e pe = true ->
                consume_tail pe (sd || dot) true (sign_bytes n pl ++ spell_digits ds ++ rest)
                = (sign_bytes n pl ++ spell_digits ds, rest)).
      { intros pe Hpe.
        assert (Hd : forall q, consume_tail q (sd || dot) true (spell_digits ds ++ rest) = (spell_digits ds, rest)).
        { intros q. rewrite ct_digits by exact Hds.
          assert (Hl : is_e (last (spell_digits ds) q) = false).
          { destruct ds as [|d ds']; [discriminate Hne|].
            cbn [digits_ok forallb] in Hds. apply andb_true_iff in Hds. destruct Hds as [Hd0 Hds'].
            cbn [spell_digits map]. rewrite last_cons. apply last_digit_not_e; [exact Hds'|]. unfold is_e. lia. }
          rewrite ct_stop by (apply (Hstop _ Hl)). cbn [fst snd]. rewrite app_nil_r. reflexivity. }
        destruct n; [|destruct pl]; cbn [sign_bytes app].
        - cbn [consume_tail is_digit N.leb N.eqb N.compare Pos.compare Pos.compare_cont Pos.eqb andb orb].
          rewrite Hpe, ct_pair, Hd. reflexivity.
        - cbn [consume_tail is_digit N.leb N.eqb N.compare Pos.compare Pos.compare_cont Pos.eqb andb orb].
          rewrite Hpe, ct_pair, Hd. reflexivity.
        - apply Hd. }
      rewrite Hs2 by (destruct u; reflexivity). cbn [fst snd]. reflexivity.
    - cbn [exp_bytes app]. apply ct_stop. apply Hstop. exact Hp. }
  destruct dot.
  - specialize (Hsd eq_refl). subst sd. cbn [app].
    cbn [consume_tail is_digit N.leb N.eqb N.compare Pos.compare Pos.compare_cont Pos.eqb andb orb].
    rewrite ct_pair. rewrite ct_digits by exact Hfrac.
    rewrite Hmid; [|apply last_digit_not_e; [exact Hfrac|reflexivity]|reflexivity].
    cbn [fst snd]. reflexivity.
  - cbn [app]. rewrite ct_digits by exact Hfrac.
    rewrite Hmid; [|apply last_digit_not_e; [exact Hfrac|exact Hp1]|rewrite orb_false_r; reflexivity].
    cbn [fst snd]. reflexivity.
Qed.

(* ------------------------------------------------------------------ *)
(* parsePoints on one number of the grammar followed by a legal continuation:
   the number is read with the value it denotes and scanning resumes right
   after it.  (A literal with an explicit '+' is read by skipping the '+' as a
   separator: second statement.) *)
Definition unsigned_tail_stops (l : literal) (rest : list N) : Prop :=
  forall prev', is_e prev' = false ->
    stops prev' (l_dot l) (match l_exp l with None => false | _ => true end) rest = true.

Lemma parse_points_skip cv fuel is_arc c r n acc : is_num_start c = false ->
  parse_points_f cv (S fuel) is_arc (c :: r) n acc = parse_points_f cv fuel is_arc r n acc.
Proof. intros H. cbn [parse_points_f]. rewrite H. reflexivity. Qed.

Theorem lex_number_spec cv fuel is_arc (l : literal) rest n acc :
  lit_ok l = true -> l_plus l = false ->
  (is_arc && ((n mod 7 =? 3)%N || (n mod 7 =? 4)%N)) = false ->
  unsigned_tail_stops l rest ->
  parse_points_f cv (S fuel) is_arc (lit_spelling l ++ rest) n acc
  = match cv (fst (lit_value l)) (snd (lit_value l)) with
    | None => Ok None
    | Some v => parse_points_f cv fuel is_arc rest (n + 1)%N (v :: acc)
    end.
Proof.
  intros Hok Hplus Hflag Hstop.
  pose proof (parse_float_spec l Hok) as Hpf.
  pose proof Hok as Hok'. unfold lit_ok in Hok'.
  repeat (apply andb_true_iff in Hok'; destruct Hok' as [Hok' ?]).
  rename H into Hexp, H0 into Hdot, H1 into Hne, H2 into Hsign, H3 into Hfrac, Hok' into Hint.
  (* the scanner consumes exactly the spelling *)
  assert (Hscan : exists c0 tl, lit_spelling l = c0 :: tl /\ is_num_start c0 = true /\
            consume_tail c0 (c0 =? 46)%N false (tl ++ rest) = (tl, rest)).
  { rewrite lit_spelling_eq. rewrite Hplus. unfold unsigned_tail_stops in Hstop.
    destruct (l_neg l) eqn:En.
    - (* '-' body *)
      cbn [sign_bytes app]. eexists 45%N, _. split; [reflexivity|]. split; [reflexivity|].
      rewrite <- !app_assoc.
      apply (ct_unsigned (l_int l) (l_dot l) (l_frac l) (l_exp l) 45%N false rest);
        try assumption; try reflexivity; try (intros _; reflexivity).
    - cbn [sign_bytes app]. destruct (l_int l) as [|d ds] eqn:Ei.
      + (* '.' frac *)
        destruct (l_dot l) eqn:Ed.
        2:{ cbn in Hdot. destruct (l_frac l); [discriminate Hne|discriminate Hdot]. }
        cbn [spell_digits map app]. eexists 46%N, _. split; [reflexivity|]. split; [reflexivity|].
        change (46 =? 46)%N with true. rewrite <- !app_assoc.
        pose proof (ct_unsigned [] false (l_frac l) (l_exp l) 46%N true rest) as Hc.
        cbn [spell_digits map app] in Hc. apply Hc; try assumption; try reflexivity; try discriminate.
      + (* digit ... *)
        cbn [digits_ok forallb] in Hint. apply andb_true_iff in Hint. destruct Hint as [Hd Hds].
        destruct (spelled_digit d Hd) as [E1 _].
        cbn [spell_digits map app]. eexists (d + 48)%N, _. split; [reflexivity|].
        split; [unfold is_num_start; rewrite E1; reflexivity|].
        assert (E46 : ((d + 48) =? 46)%N = false) by lia. rewrite E46.
        change (map (fun d0 : N => (d0 + 48)%N) ds) with (spell_digits ds).
        rewrite <- !app_assoc.
        apply (ct_unsigned ds (l_dot l) (l_frac l) (l_exp l) (d + 48)%N false rest);
          try assumption; try reflexivity; try (intros _; reflexivity); try (unfold is_e; lia). }
  destruct Hscan as (c0 & tl & Hsp & Hstart & Hct).
  rewrite Hsp in *. cbn [app parse_points_f]. rewrite Hstart, Hflag, Hct, Hpf.
  destruct (lit_value l) as [m e]. reflexivity.
Qed.

Theorem lex_plus_number_spec cv fuel is_arc (l : literal) rest n acc :
  lit_ok l = true -> l_plus l = true ->
  (is_arc && ((n mod 7 =? 3)%N || (n mod 7 =? 4)%N)) = false ->
  unsigned_tail_stops l rest ->
  parse_points_f cv (S (S fuel)) is_arc (lit_spelling l ++ rest) n acc
  = match cv (fst (lit_value l)) (snd (lit_value l)) with
    | None => Ok None
    | Some v => parse_points_f cv fuel is_arc rest (n + 1)%N (v :: acc)
    end.
Proof.
  intros Hok Hplus Hflag Hstop.
  set (l' := mklit (l_neg l) false (l_int l) (l_dot l) (l_frac l) (l_exp l)).
  assert (Hneg : l_neg l = false).
  { unfold lit_ok in Hok. repeat (apply andb_true_iff in Hok; destruct Hok as [Hok ?]).
    rewrite Hplus in H2. destruct (l_neg l); [discriminate H2|reflexivity]. }
  assert (Hsp : lit_spelling l = 43%N :: lit_spelling l').
  { unfold lit_spelling, l'. cbn [l_neg l_plus l_int l_dot l_frac l_exp]. rewrite Hneg, Hplus. reflexivity. }
  assert (Hok' : lit_ok l' = true).
  { unfold lit_ok in *. unfold l'. cbn [l_neg l_plus l_int l_dot l_frac l_exp]. rewrite Hneg, Hplus in Hok. rewrite Hneg. exact Hok. }
  rewrite Hsp. cbn [app]. rewrite parse_points_skip by reflexivity.
  rewrite (lex_number_spec cv fuel is_arc l' rest n acc Hok' eq_refl Hflag Hstop).
  reflexivity.
Qed.


(* ------------------------------------------------------------------ *)
(* a whole number list: separators (any bytes that cannot start a number:
   white space, comma, '+') and literals, each literal followed by something
   that cannot continue it *)
Record ntok := mktok { t_sep : list N; t_lit : literal }.

Definition sep_ok (s : list N) : bool := forallb (fun c => negb (is_num_start c)) s.

Definition spell_toks (toks : list ntok) (trail : list N) : list N :=
  flat_map (fun t => t_sep t ++ lit_spelling (t_lit t)) toks ++ trail.

Fixpoint toks_ok (toks : list ntok) (trail : list N) : Prop :=
  match toks with
  | [] => True
  | t :: r => lit_ok (t_lit t) = true /\ sep_ok (t_sep t) = true /\
              unsigned_tail_stops (t_lit t) (spell_toks r trail) /\ toks_ok r trail
  end.

Fixpoint values (cv : Z -> Z -> option Q) (toks : list ntok) : option (list Q) :=
  match toks with
  | [] => Some []
  | t :: r => match cv (fst (lit_value (t_lit t))) (snd (lit_value (t_lit t))) with
              | None => None
              | Some v => option_map (cons v) (values cv r)
              end
  end.

Lemma skip_all cv is_arc : forall s d fuel n acc, sep_ok s = true -> (length s <= fuel)%nat ->
  parse_points_f cv fuel is_arc (s ++ d) n acc = parse_points_f cv (fuel - length s) is_arc d n acc.
Proof.
  induction s as [|c s IH]; intros d fuel n acc Hs Hf; cbn [app length].
  - rewrite Nat.sub_0_r. reflexivity.
  - cbn [sep_ok forallb] in Hs. apply andb_true_iff in Hs. destruct Hs as [Hc Hs].
    apply negb_true_iff in Hc.
    destruct fuel as [|fuel]; [cbn in Hf; lia|].
    rewrite parse_points_skip by exact Hc. rewrite IH by (try assumption; cbn in Hf; lia).
    reflexivity.
Qed.

Lemma lit_spelling_length l : lit_ok l = true -> (1 <= length (lit_spelling l))%nat /\
  (l_plus l = true -> (2 <= length (lit_spelling l))%nat).
Proof.
  intros Hok. unfold lit_ok in Hok.
  repeat (apply andb_true_iff in Hok; destruct Hok as [Hok ?]).
  rewrite lit_spelling_eq. rewrite !app_length. unfold spell_digits. rewrite !map_length.
  assert (1 <= length (l_int l) + length (l_frac l))%nat.
  { destruct (l_int l); destruct (l_frac l); cbn [length] in *; try discriminate H1; lia. }
  split; [lia|]. intros Hp. rewrite Hp in *. destruct (l_neg l); [discriminate H2|]. cbn [sign_bytes length]. lia.
Qed.

Lemma lex_gen cv trail : sep_ok trail = true ->
  forall toks fuel n acc, toks_ok toks trail -> (length (spell_toks toks trail) < fuel)%nat ->
  parse_points_f cv fuel false (spell_toks toks trail) n acc
  = Ok (option_map (fun vs => rev acc ++ vs) (values cv toks)).
Proof.
  intros Htrail. induction toks as [|t r IH]; intros fuel n acc Hok Hf.
  - unfold spell_toks in *. cbn [flat_map app] in *.
    rewrite <- (app_nil_r trail). rewrite skip_all by (try assumption; lia).
    destruct (fuel - length trail)%nat; cbn [parse_points_f values option_map]; rewrite app_nil_r; reflexivity.
  - destruct Hok as (Hl & Hs & Hst & Hr).
    assert (Hsp : spell_toks (t :: r) trail = t_sep t ++ lit_spelling (t_lit t) ++ spell_toks r trail).
    { unfold spell_toks. cbn [flat_map]. rewrite <- !app_assoc. reflexivity. }
    rewrite Hsp in *. rewrite !app_length in Hf.
    destruct (lit_spelling_length (t_lit t) Hl) as [L1 L2].
    rewrite skip_all by (try assumption; lia).
    cbn [values].
    destruct (l_plus (t_lit t)) eqn:Ep.
    + specialize (L2 eq_refl).
      destruct (fuel - length (t_sep t))%nat as [|[|f]] eqn:Ef; try lia.
      rewrite lex_plus_number_spec by (try assumption; reflexivity).
      destruct (cv _ _) as [v|]; [|reflexivity].
      rewrite IH by (try assumption; lia).
      destruct (values cv r); cbn [option_map rev]; [rewrite <- app_assoc|]; reflexivity.
    + destruct (fuel - length (t_sep t))%nat as [|f] eqn:Ef; try lia.
      rewrite lex_number_spec by (try assumption; reflexivity).
      destruct (cv _ _) as [v|]; [|reflexivity].
      rewrite IH by (try assumption; lia).
      destruct (values cv r); cbn [option_map rev]; [rewrite <- app_assoc|]; reflexivity.
Qed.

(* lex_spec: parsePoints (non-arc mode) on any legal spelling of a number list
   returns exactly the denoted values, in order *)
Theorem lex_spec cv toks trail : toks_ok toks trail -> sep_ok trail = true ->
  parse_points cv false (spell_toks toks trail) = Ok (values cv toks).
Proof.
  intros Hok Htrail. unfold parse_points.
  rewrite (lex_gen cv trail Htrail toks _ 0%N [] Hok) by lia.
  destruct (values cv toks); reflexivity.
Qed.

(* arc flags: at argument positions 3 and 4 (mod 7) of an A/a command one
   byte '0' or '1' is a complete number, whatever follows ("a1 1 0 00.5.5") *)
Theorem lex_flag_spec cv fuel (b : bool) r n acc :
  ((n mod 7 =? 3)%N || (n mod 7 =? 4)%N) = true ->
  parse_points_f cv (S fuel) true ((if b then 49%N else 48%N) :: r) n acc
  = match cv (if b then 1 else 0) 0 with
    | None => Ok None
    | Some v => parse_points_f cv fuel true r (n + 1)%N (v :: acc)
    end.
Proof. intros H. cbn [parse_points_f]. destruct b; cbn [is_num_start is_digit N.leb N.compare Pos.compare Pos.compare_cont andb orb]; rewrite H; reflexivity. Qed.

(* ------------------------------------------------------------------ *)
(* argument lists of A/a: numbers and flags *)
Inductive atok := ANum (sep : list N) (l : literal) | AFlag (sep : list N) (b : bool).

Definition flagpos (n : N) : bool := (n mod 7 =? 3)%N || (n mod 7 =? 4)%N.

Definition spell_atok (t : atok) : list N :=
  match t with
  | ANum sep l => sep ++ lit_spelling l
  | AFlag sep b => sep ++ [if b then 49%N else 48%N]
  end.
Definition spell_atoks (toks : list atok) (trail : list N) : list N := flat_map spell_atok toks ++ trail.

(* n = index of the first token; flags exactly at positions 3 and 4 mod 7 *)
Fixpoint atoks_ok (n : N) (toks : list atok) (trail : list N) : Prop :=
  match toks with
  | [] => True
  | ANum sep l :: r => flagpos n = false /\ lit_ok l = true /\ sep_ok sep = true /\
                       unsigned_tail_stops l (spell_atoks r trail) /\ atoks_ok (n + 1) r trail
  | AFlag sep b :: r => flagpos n = true /\ sep_ok sep = true /\ atoks_ok (n + 1) r trail
  end.

Fixpoint avalues (cv : Z -> Z -> option Q) (toks : list atok) : option (list Q) :=
  match toks with
  | [] => Some []
  | ANum _ l :: r => match cv (fst (lit_value l)) (snd (lit_value l)) with
                     | None => None
                     | Some v => option_map (cons v) (avalues cv r)
                     end
  | AFlag _ b :: r => match cv (if b then 1 else 0) 0 with
                      | None => None
                      | Some v => option_map (cons v) (avalues cv r)
                      end
  end.

Lemma lex_arc_gen cv trail : sep_ok trail = true ->
  forall toks fuel n acc, atoks_ok n toks trail -> (length (spell_atoks toks trail) < fuel)%nat ->
  parse_points_f cv fuel true (spell_atoks toks trail) n acc
  = Ok (option_map (fun vs => rev acc ++ vs) (avalues cv toks)).
Proof.
  intros Htrail. induction toks as [|t r IH]; intros fuel n acc Hok Hf.
  - unfold spell_atoks in *. cbn [flat_map app] in *.
    rewrite <- (app_nil_r trail). rewrite skip_all by (try assumption; lia).
    destruct (fuel - length trail)%nat; cbn [parse_points_f avalues option_map]; rewrite app_nil_r; reflexivity.
  - destruct t as [sep l|sep b].
    + destruct Hok as (Hfp & Hl & Hs & Hst & Hr).
      assert (Hsp : spell_atoks (ANum sep l :: r) trail = sep ++ lit_spelling l ++ spell_atoks r trail).
      { unfold spell_atoks. cbn [flat_map spell_atok]. rewrite <- !app_assoc. reflexivity. }
      rewrite Hsp in *. rewrite !app_length in Hf.
      destruct (lit_spelling_length l Hl) as [L1 L2].
      rewrite skip_all by (try assumption; lia).
      cbn [avalues].
      assert (Hflag : (true && ((n mod 7 =? 3)%N || (n mod 7 =? 4)%N)) = false) by exact Hfp.
      destruct (l_plus l) eqn:Ep.
      * specialize (L2 eq_refl).
        destruct (fuel - length sep)%nat as [|[|f]] eqn:Ef; try lia.
        rewrite lex_plus_number_spec by assumption.
        destruct (cv _ _) as [v|]; [|reflexivity].
        rewrite IH by (try assumption; lia).
        destruct (avalues cv r); cbn [option_map rev]; [rewrite <- app_assoc|]; reflexivity.
      * destruct (fuel - length sep)%nat as [|f] eqn:Ef; try lia.
        rewrite lex_number_spec by assumption.
        destruct (cv _ _) as [v|]; [|reflexivity].
        rewrite IH by (try assumption; lia).
        destruct (avalues cv r); cbn [option_map rev]; [rewrite <- app_assoc|]; reflexivity.
    + destruct Hok as (Hfp & Hs & Hr).
      assert (Hsp : spell_atoks (AFlag sep b :: r) trail = sep ++ (if b then 49%N else 48%N) :: spell_atoks r trail).
      { unfold spell_atoks. cbn [flat_map spell_atok]. rewrite <- !app_assoc. reflexivity. }
      rewrite Hsp in *. rewrite !app_length in Hf. cbn [length] in Hf.
      rewrite skip_all by (try assumption; lia).
      cbn [avalues].
      destruct (fuel - length sep)%nat as [|f] eqn:Ef; try lia.
      rewrite lex_flag_spec by exact Hfp.
      destruct (cv _ _) as [v|]; [|reflexivity].
      rewrite IH by (try assumption; lia).
      destruct (avalues cv r); cbn [option_map rev]; [rewrite <- app_assoc|]; reflexivity.
Qed.

Theorem lex_arc_spec cv toks trail : atoks_ok 0 toks trail -> sep_ok trail = true ->
  parse_points cv true (spell_atoks toks trail) = Ok (avalues cv toks).
Proof.
  intros Hok Htrail. unfold parse_points.
  rewrite (lex_arc_gen cv trail Htrail toks _ 0%N [] Hok) by lia.
  destruct (avalues cv toks); reflexivity.
Qed.
