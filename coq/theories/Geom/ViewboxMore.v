(* C18 final round: viewBox slice covers the viewport; none fills it exactly *)
From Verif Require Import Base.GoSem Geom.Matrix Geom.TransformSpec Geom.MatrixProofs.
From Coq Require Import QArith List.
Local Notation viewbox_transform := (Matrix.viewbox_transform exactQ).

Lemma Qmaxf_ge_l a b : a <= Qmaxf a b.
Proof. unfold Qmaxf. destruct (Qle_bool a b) eqn:E; [apply Qle_bool_iff; exact E|apply Qle_refl]. Qed.
Lemma Qmaxf_ge_r a b : b <= Qmaxf a b.
Proof. unfold Qmaxf. destruct (Qle_bool a b) eqn:E; [apply Qle_refl|].
  destruct (Qlt_le_dec b a) as [H|H]; [apply Qlt_le_weak; exact H|].
  apply Qle_bool_iff in H. congruence. Qed.

Theorem viewbox_slice_covers p w h vx vy vw vh : 0 < vw -> 0 < vh ->
  par_none p = false -> par_slice p = true ->
  let '(sx, sy, _, _) := viewbox_transform p w h vx vy vw vh in
  sx == sy /\ w <= vw * sx /\ h <= vh * sy.
Proof.
  intros Hw Hh Hn Hs. unfold viewbox_transform. rewrite Hn, Hs.
  destruct (Qeq_bool vw 0) eqn:E1.
  { apply Qeq_bool_iff in E1. rewrite E1 in Hw. exfalso. apply (Qlt_irrefl 0 Hw). }
  destruct (Qeq_bool vh 0) eqn:E2.
  { apply Qeq_bool_iff in E2. rewrite E2 in Hh. exfalso. apply (Qlt_irrefl 0 Hh). }
  split; [reflexivity|]. split.
  - apply Qle_trans with (vw * (w / vw)).
    + apply Qle_lteq. right. field. intros H. rewrite H in Hw. apply (Qlt_irrefl 0 Hw).
    + apply Qmult_le_l; [exact Hw | apply Qmaxf_ge_l].
  - apply Qle_trans with (vh * (h / vh)).
    + apply Qle_lteq. right. field. intros H. rewrite H in Hh. apply (Qlt_irrefl 0 Hh).
    + apply Qmult_le_l; [exact Hh | apply Qmaxf_ge_r].
Qed.

Theorem viewbox_none_fills p w h vx vy vw vh : ~ vw == 0 -> ~ vh == 0 ->
  par_none p = true ->
  let '(sx, sy, _, _) := viewbox_transform p w h vx vy vw vh in
  vw * sx == w /\ vh * sy == h.
Proof.
  intros Hw Hh Hn. unfold viewbox_transform. rewrite Hn.
  destruct (Qeq_bool vw 0) eqn:E1; [apply Qeq_bool_iff in E1; contradiction|].
  destruct (Qeq_bool vh 0) eqn:E2; [apply Qeq_bool_iff in E2; contradiction|].
  split; [change (vw * (w / vw) == w)|change (vh * (h / vh) == h)]; field; assumption.
Qed.
