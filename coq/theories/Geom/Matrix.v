(* Geom/Matrix.v -- model of /repo/matrix/matrix.go, of getMatrix
   (/repo/html/document/document.go) and of the SVG transform normalisation /
   application (/repo/svg/parser.go parseTransform, /repo/svg/elements.go applyTo,
   /repo/svg/svg.go aggregateTransforms), over exact rationals.

   Model only: no proofs here (the correspondence check keeps running when a
   proof breaks).  float32 is modelled by Q; the correspondence check compares
   by equality only on inputs for which every intermediate value is exactly
   representable (see Check/C17.v), and trigonometric values enter as
   arguments: the *structure* (which entry gets which value, with which sign)
   is what is modelled. *)
From Coq Require Export QArith List.
From Verif Require Export Base.F32.
Export ListNotations.
Open Scope Q_scope.

Record T : Type := mk { A : Q; B : Q; C : Q; D : Q; E : Q; F : Q }.

(* Em: relative to the box's computed font size (computed_values.go length_: value * fontSize);
   only generated for translate() arguments *)
Inductive dim := Px (v : Q) | Pct (v : Q) | Em (v : Q).
Inductive tfun :=
| TScale (sx sy : Q)
| TRotate (c s : Q)               (* cos, sin of the angle *)
| TTranslate (x y : dim)
| TSkew (tx ty : Q)               (* tan of the two angles *)
| TMatrix (a b c d e f : Q).
Record box_geom := { bbx : Q; bby : Q; bw : Q; bh : Q; orx : dim; ory : dim; fsz : Q }.
Inductive svg_src :=
| SRotate1 (a : Q) | SRotate3 (a cx cy : Q)
| STranslate1 (x : Q) | STranslate2 (x y : Q)
| SSkew2 (ax ay : Q) | SSkewX (a : Q) | SSkewY (a : Q)
| SScale1 (s : Q) | SScale2 (sx sy : Q)
| SMatrix (a b c d e f : Q).
Inductive svg_norm :=
| NRotate (a : Q) | NRotateO (a cx cy : Q)
| NTranslate (x y : Q) | NSkew (ax ay : Q) | NScale (sx sy : Q)
| NMatrix (a b c d e f : Q).
(* trig oracle: angle in degrees (as written) -> (cos, sin, tan) of it *)
Definition trig := Q -> Q * Q * Q.
Definition tcos (tr : trig) a := fst (fst (tr a)).
Definition tsin (tr : trig) a := snd (fst (tr a)).
Definition ttan (tr : trig) a := snd (tr a).
Inductive align := AMin | AMid | AMax.
Record par := { xpos : align; ypos : align; par_none : bool; par_slice : bool }.
Definition Qmaxf (a b : Q) := if Qle_bool a b then b else a.
Definition Qminf (a b : Q) := if Qle_bool a b then a else b.

(* CSS source level: a function of the `transform` property as written
   (after tokenisation; names are ASCII case-insensitive), before
   css/validation/validation.go transformFunction normalises it. *)
Inductive angle_unit := Deg | Grad | Rad | Turn.
Inductive css_src :=
| CRotate (v : Q) (u : angle_unit)
| CSkewX (v : Q) (u : angle_unit) | CSkewY (v : Q) (u : angle_unit)
| CSkew1 (v : Q) (u : angle_unit)                 (* skew(a) *)
| CTranslate1 (x : dim) | CTranslate2 (x y : dim) | CTranslateX (x : dim) | CTranslateY (y : dim)
| CScale1 (s : Q) | CScale2 (sx sy : Q) | CScaleX (s : Q) | CScaleY (s : Q)
| CMatrix (a b c d e f : Q).
(* trig oracle for CSS angles: (value, unit) -> cos, sin, tan of the angle *)
Definition ctrig := Q -> angle_unit -> Q * Q * Q.
(* validation.go:3884-3952 transformFunction (+ getMatrix's reading of the
   normalised value): rotate keeps the angle; skewx/skew(a) -> skew(a, 0);
   skewy -> skew(0, a); translatex/translate(x) -> translate(x, 0);
   translatey -> translate(0, y); scalex -> scale(s, 1); scaley -> scale(1, s);
   scale(s) -> scale(s, s).  tan 0 is 0 (math.Tan(0) == 0). *)
Definition css_normalise (tr : ctrig) (f : css_src) : tfun :=
  match f with
  | CRotate v u => TRotate (fst (fst (tr v u))) (snd (fst (tr v u)))
  | CSkewX v u | CSkew1 v u => TSkew (snd (tr v u)) 0
  | CSkewY v u => TSkew 0 (snd (tr v u))
  | CTranslate1 x | CTranslateX x => TTranslate x (Px 0)
  | CTranslate2 x y => TTranslate x y
  | CTranslateY y => TTranslate (Px 0) y
  | CScale1 s => TScale s s
  | CScale2 sx sy => TScale sx sy
  | CScaleX s => TScale s 1
  | CScaleY s => TScale 1 s
  | CMatrix a b c d e f => TMatrix a b c d e f
  end.

(* Everything below is written against an arithmetic record `ar`:
   ar = exactQ is the instance the theorems are about, ar = f32 the instance
   the correspondence check runs (Base/F32.v). Negation is exact in both. *)
Section WithArith.
Variable ar : arith.
Local Notation "x +. y" := (add ar x y) (at level 50, left associativity).
Local Notation "x -. y" := (sub ar x y) (at level 50, left associativity).
Local Notation "x *. y" := (mul ar x y) (at level 40, left associativity).
Local Notation "x /. y" := (div ar x y) (at level 40, left associativity).

(* matrix.go:37-45 *)
Definition identity : T := mk 1 0 0 1 0 0.
(* matrix.go:47-50 *)
Definition translation (tx ty : Q) : T := mk 1 0 0 1 tx ty.
(* matrix.go:52-55 *)
Definition scaling (sx sy : Q) : T := mk sx 0 0 sy 0 0.
(* matrix.go:63-66 : Transform{cos, sin, -sin, cos, 0, 0} *)
Definition rotation_cs (c s : Q) : T := mk c s (- s) c 0 0.
(* matrix.go:68-72 Skew(thetax, thetay): tx = tan thetax, ty = tan thetay.
   Transform{1, tan thetay, tan thetax, 1, 0, 0} *)
Definition skew_t (tx ty : Q) : T := mk 1 ty tx 1 0 0.

(* matrix.go:76-78 *)
Definition determinant (t : T) : Q := A t *. D t -. B t *. C t.

(* matrix.go:81-88 mult(t1, t2, out) *)
Definition mult (t1 t2 : T) : T :=
  mk (A t1 *. A t2 +. C t1 *. B t2)
     (B t1 *. A t2 +. D t1 *. B t2)
     (A t1 *. C t2 +. C t1 *. D t2)
     (B t1 *. C t2 +. D t1 *. D t2)
     (A t1 *. E t2 +. C t1 *. F t2 +. E t1)
     (B t1 *. E t2 +. D t1 *. F t2 +. F t1).

Definition mmul (t u : T) : T := mult t u.
(* matrix.go:100-105: mult(S,T,&out); mult(R,out,&out)  (mult reads before it
   writes each field it depends on? no: it writes out.A then reads t2.A when
   out aliases t2.  The Go code passes `out` by value as t2 -- `mult(R, out,
   &out)` copies out into the parameter -- so there is no aliasing.) *)
Definition mul3 (r s t : T) : T := mult r (mult s t).
Definition left_mult_by (t u : T) : T := mult u t.
Definition right_mult_by (t u : T) : T := mult t u.

(* matrix.go:117-131 Invert: None when det == 0 *)
Definition invert (t : T) : option T :=
  let det := determinant t in
  if Qeq_bool det 0 then None
  else
    let a := D t /. det in
    let d := A t /. det in
    let b := (- B t) /. det in
    let c := (- C t) /. det in
    let e := - (a *. E t +. c *. F t) in
    let f := - (b *. E t +. d *. F t) in
    Some (mk a b c d e f).

(* matrix.go:135-139 *)
Definition apply (t : T) (x y : Q) : Q * Q :=
  (A t *. x +. C t *. y +. E t, B t *. x +. D t *. y +. F t).

(* matrix.go:152-155 *)
Definition translate (t : T) (tx ty : Q) : T :=
  mk (A t) (B t) (C t) (D t) (E t +. (A t *. tx +. C t *. ty)) (F t +. (B t *. tx +. D t *. ty)).
(* matrix.go:168-173 *)
Definition scale (t : T) (sx sy : Q) : T :=
  mk (A t *. sx) (B t *. sx) (C t *. sy) (D t *. sy) (E t) (F t).
(* matrix.go:186, 195 *)
Definition rotate_cs (t : T) (c s : Q) : T := right_mult_by t (rotation_cs c s).
Definition skew_tt (t : T) (tx ty : Q) : T := right_mult_by t (skew_t tx ty).

(* ------------------------------------------------------------------ *)
(* CSS: getMatrix (document.go:35-84).  A length-or-percentage is
   resolved against a reference length as pr.ResolvePercentage does. *)
Definition resolve_pct (d : dim) (ref : Q) : Q :=
  match d with Px v => v | Pct v => ref *. v /. 100%Q | Em v => v end.
(* a translate() argument: em lengths were made absolute at computed-value time
   (computed_values.go transforms -> length_: value * fontSize) *)
Definition resolve_dim (g : box_geom) (d : dim) (ref : Q) : Q :=
  match d with Em v => v *. fsz g | _ => resolve_pct d ref end.

(* The computed value of `transform` after validation (validation.go
   transformFunction): names scale, rotate, translate, skew, matrix.  Trig
   values of the angles are supplied with the function (oracle for Go's
   math.Cos/Sin/Tan). *)
Definition right_mat (g : box_geom) (f : tfun) : T :=
  match f with
  | TScale sx sy => scale identity sx sy
  | TRotate c s => rotate_cs identity c s
  | TTranslate x y => translate identity (resolve_dim g x (bw g)) (resolve_dim g y (bh g))
  | TSkew tx ty => skew_tt identity tx ty
  | TMatrix a b c d e f => mk a b c d e f
  end.

Definition origin_x (g : box_geom) : Q := bbx g +. resolve_pct (orx g) (bw g).
Definition origin_y (g : box_geom) : Q := bby g +. resolve_pct (ory g) (bh g).

Definition css_matrix (g : box_geom) (fs : list tfun) : T :=
  let ox := origin_x g in
  let oy := origin_y g in
  let m := fold_left (fun m f => right_mult_by m (right_mat g f)) fs (mk 1 0 0 1 ox oy) in
  translate m (- ox) (- oy).

(* ------------------------------------------------------------------ *)
(* SVG: parseTransform normalisation +. applyTo +. aggregateTransforms.
   `svg_src` is the function as written in the attribute (after number
   parsing); `svg_norm` is parser.go's normalised `transform`. *)
(* parser.go:267-325 *)
Definition svg_normalise (s : svg_src) : svg_norm :=
  match s with
  | SRotate1 a => NRotate a
  | SRotate3 a cx cy => NRotateO a cx cy
  | STranslate1 x => NTranslate x 0
  | STranslate2 x y => NTranslate x y
  | SSkew2 ax ay => NSkew ax ay
  | SSkewX a => NSkew a 0
  | SSkewY a => NSkew 0 a
  | SScale1 s => NScale s s
  | SScale2 sx sy => NScale sx sy
  | SMatrix a b c d e f => NMatrix a b c d e f
  end.

(* elements.go:703-734 *)
Definition svg_apply_to (tr : trig) (m : T) (n : svg_norm) : T :=
  match n with
  | NRotate a => rotate_cs m (tcos tr a) (tsin tr a)
  | NRotateO a x y =>
      translate (rotate_cs (translate m x y) (tcos tr a) (tsin tr a)) (- x) (- y)
  | NTranslate x y => translate m x y
  | NSkew ax ay => skew_tt m (ttan tr ax) (ttan tr ay)
  | NScale sx sy => scale m sx sy
  | NMatrix a b c d e f => right_mult_by m (mk a b c d e f)
  end.

(* svg.go:379-386 *)
Definition svg_aggregate (tr : trig) (l : list svg_src) : T :=
  fold_left (fun m s => svg_apply_to tr m (svg_normalise s)) l identity.

(* svg.go:332-377 resolveTransforms (viewBox /. preserveAspectRatio), with
   translate = nil.  pos: 0 = min, 1 = mid, 2 = max *)
Definition viewbox_transform (p : par) (width height vx vy vw vh : Q) : Q * Q * Q * Q :=
  let sx0 := if Qeq_bool vw 0 then 1 else width /. vw in
  let sy0 := if Qeq_bool vh 0 then 1 else height /. vh in
  let sx := if par_none p then sx0 else
              if par_slice p then Qmaxf sx0 sy0 else Qminf sx0 sy0 in
  let sy := if par_none p then sy0 else sx in
  let tx := match xpos p with
            | AMin => 0 | AMid => (width -. vw *. sx) /. 2%Q | AMax => width -. vw *. sx end in
  let ty := match ypos p with
            | AMin => 0 | AMid => (height -. vh *. sy) /. 2%Q | AMax => height -. vh *. sy end in
  (sx, sy, tx -. vx *. sx, ty -. vy *. sy).
End WithArith.
