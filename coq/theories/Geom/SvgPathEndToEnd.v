(* Geom/SvgPathEndToEnd.v -- lexer and interpreter together: for every
   abstract command list and every legal spelling of it (SVG path grammar),
   parsePath returns the op list SVG 1.1 section 8.3 defines. *)
From Coq Require Import QArith List ZArith NArith Bool Lia.
From Verif Require Import Base.GoSem Base.F32 Geom.SvgPath Geom.Shapes Geom.SvgPathSpec.
From Verif Require Import Geom.SvgPathProofs Geom.SvgLexProofs.
Import ListNotations.

(* the spelling of one command's arguments *)
Inductive aspell :=
| SNums (toks : list ntok) (trail : list N)      (* every command but A/a *)
| SArc (toks : list atok) (trail : list N).      (* A/a *)

Definition spell_args (a : aspell) : list N :=
  match a with SNums toks trail => spell_toks toks trail | SArc toks trail => spell_atoks toks trail end.

Definition is_arc_cmd (c : cmd) : bool := match c with CArc _ _ _ => true | _ => false end.

(* the spelling denotes the command's numbers, with exact values *)
Definition args_ok (c : cmd) (a : aspell) : Prop :=
  match a with
  | SNums toks trail => is_arc_cmd c = false /\ toks_ok toks trail /\ sep_ok trail = true /\
                        values cv_exact toks = Some (snd (flatten c))
  | SArc toks trail => is_arc_cmd c = true /\ atoks_ok 0 toks trail /\ sep_ok trail = true /\
                       avalues cv_exact toks = Some (snd (flatten c))
  end.

Definition no_cmd (l : list N) : bool := forallb (fun b => negb (is_cmd b)) l.

Record sseg := mkseg { s_cmd : cmd; s_args : aspell }.
Definition seg_ok (s : sseg) : Prop := args_ok (s_cmd s) (s_args s) /\ no_cmd (spell_args (s_args s)) = true.

Definition seg_bytes (s : sseg) : list N := fst (flatten (s_cmd s)) :: spell_args (s_args s).
Definition spell_path (lead : list N) (segs : list sseg) : list N := lead ++ flat_map seg_bytes segs.

Lemma letter_is_cmd c : is_cmd (fst (flatten c)) = true.
Proof. destruct c as [[]|[]|[]|[]|[]|[]|[]|[]|[]|[]]; reflexivity. Qed.

Lemma arc_letter c : byte_is (fst (flatten c)) 97 65 = is_arc_cmd c.
Proof. destruct c as [[]|[]|[]|[]|[]|[]|[]|[]|[]|[]]; reflexivity. Qed.

Lemma split_no_cmd : forall l rest, no_cmd l = true ->
  split_segs (l ++ rest) = (l ++ fst (split_segs rest), snd (split_segs rest)).
Proof.
  induction l as [|b l IH]; intros rest H; cbn [app].
  - destruct (split_segs rest); reflexivity.
  - cbn [no_cmd forallb] in H. apply andb_true_iff in H. destruct H as [Hb Hl].
    apply negb_true_iff in Hb. cbn [split_segs]. rewrite IH by exact Hl. rewrite Hb. reflexivity.
Qed.

Lemma split_segs_spell : forall segs, Forall seg_ok segs ->
  split_segs (flat_map seg_bytes segs) = ([], map seg_bytes segs).
Proof.
  induction segs as [|s segs IH]; intros H; [reflexivity|].
  inversion H as [|? ? [_ Hn] Hr]; subst. cbn [flat_map map]. unfold seg_bytes at 1. cbn [app split_segs].
  rewrite split_no_cmd by exact Hn. rewrite IH by exact Hr. cbn [fst snd].
  rewrite letter_is_cmd. rewrite app_nil_r. reflexivity.
Qed.

Lemma add_seg_spell ar rc s0 (s : sseg) : seg_ok s ->
  add_seg ar rc cv_exact s0 (seg_bytes s) = exec ar rc s0 (fst (flatten (s_cmd s))) (snd (flatten (s_cmd s))).
Proof.
  intros [Ha _]. unfold add_seg, seg_bytes.
  cbn [index Z.ltb Z.compare Z.to_nat nth_error bind skipn]. rewrite arc_letter.
  destruct (s_args s) as [toks trail|toks trail]; cbn [args_ok spell_args] in *;
    destruct Ha as (Hc & Hok & Htr & Hv); rewrite Hc.
  - rewrite lex_spec by assumption. rewrite Hv. reflexivity.
  - rewrite lex_arc_spec by assumption. rewrite Hv. reflexivity.
Qed.

Lemma run_segs_spell ar rc : forall segs s0, Forall seg_ok segs ->
  run_segs ar rc cv_exact s0 (map seg_bytes segs) = interp ar rc s0 (map (fun s => flatten (s_cmd s)) segs).
Proof.
  induction segs as [|s segs IH]; intros s0 H; [reflexivity|].
  inversion H; subst. cbn [map run_segs interp]. rewrite add_seg_spell by assumption.
  destruct (flatten (s_cmd s)) as [o pts]. cbn [fst snd].
  destruct (exec ar rc s0 o pts) as [[s1|]| |]; cbn [bind]; try reflexivity. apply IH. assumption.
Qed.

(* for every command list and every legal spelling of it *)
Theorem path_string_spec : forall (lead : list N) (segs : list sseg),
  no_cmd lead = true -> Forall seg_ok segs ->
  parse_path exactQ (fun x => x) cv_exact (spell_path lead segs) = Ok (Some (denote (map s_cmd segs))).
Proof.
  intros lead segs Hl Hs. unfold parse_path, spell_path.
  rewrite split_no_cmd by exact Hl. rewrite split_segs_spell by exact Hs. cbn [snd].
  rewrite run_segs_spell by exact Hs.
  pose proof (path_interp_spec (map s_cmd segs)) as H. unfold interp_ops in H.
  rewrite map_map in H. exact H.
Qed.
