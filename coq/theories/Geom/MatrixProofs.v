(* Geom/MatrixProofs.v -- group laws of the matrix model and model = spec. *)
From Verif Require Import Geom.Matrix Geom.TransformSpec.
From Coq Require Import Setoid Morphisms Qfield.
Open Scope Q_scope.

(* all statements are about the exact-rational instance of the model *)
Local Notation determinant := (Matrix.determinant exactQ).
Local Notation mult := (Matrix.mult exactQ).
Local Notation mul := (Matrix.mmul exactQ).
Local Notation mul3 := (Matrix.mul3 exactQ).
Local Notation left_mult_by := (Matrix.left_mult_by exactQ).
Local Notation right_mult_by := (Matrix.right_mult_by exactQ).
Local Notation invert := (Matrix.invert exactQ).
Local Notation apply := (Matrix.apply exactQ).
Local Notation translate := (Matrix.translate exactQ).
Local Notation scale := (Matrix.scale exactQ).
Local Notation rotate_cs := (Matrix.rotate_cs exactQ).
Local Notation skew_tt := (Matrix.skew_tt exactQ).
Local Notation resolve_pct := (Matrix.resolve_pct exactQ).
Local Notation resolve_dim := (Matrix.resolve_dim exactQ).
Local Notation right_mat := (Matrix.right_mat exactQ).
Local Notation origin_x := (Matrix.origin_x exactQ).
Local Notation origin_y := (Matrix.origin_y exactQ).
Local Notation css_matrix := (Matrix.css_matrix exactQ).
Local Notation svg_apply_to := (Matrix.svg_apply_to exactQ).
Local Notation svg_aggregate := (Matrix.svg_aggregate exactQ).
Local Notation viewbox_transform := (Matrix.viewbox_transform exactQ).

Definition meq (t u : T) : Prop :=
  A t == A u /\ B t == B u /\ C t == C u /\ D t == D u /\ E t == E u /\ F t == F u.

Lemma meq_refl t : meq t t.
Proof. unfold meq; repeat split; reflexivity. Qed.
Lemma meq_sym t u : meq t u -> meq u t.
Proof. unfold meq; intros (a&b&c&d&e&f); repeat split; symmetry; assumption. Qed.
Lemma meq_trans t u v : meq t u -> meq u v -> meq t v.
Proof.
  unfold meq; intros (a&b&c&d&e&f) (a'&b'&c'&d'&e'&f'); repeat split;
    etransitivity; eassumption.
Qed.
Global Instance meq_equiv : Equivalence meq.
Proof. split; [exact meq_refl | exact meq_sym | exact meq_trans]. Qed.

Ltac mring := unfold meq; cbn -[Qeq Qplus Qmult Qopp Qminus Qdiv Qinv]; repeat split; ring.

Global Instance mult_proper : Proper (meq ==> meq ==> meq) mult.
Proof.
  intros t t' (a&b&c&d&e&f) u u' (a'&b'&c'&d'&e'&f').
  unfold meq; cbn; repeat split;
    rewrite ?a, ?b, ?c, ?d, ?e, ?f, ?a', ?b', ?c', ?d', ?e', ?f'; reflexivity.
Qed.

Lemma prod_is_mult t u : prod t u = mult t u.
Proof. reflexivity. Qed.

(* --- group laws --------------------------------------------------- *)
Lemma mul_assoc t u v : meq (mul (mul t u) v) (mul t (mul u v)).
Proof. mring. Qed.
Lemma mul_id_l t : meq (mul identity t) t.
Proof. mring. Qed.
Lemma mul_id_r t : meq (mul t identity) t.
Proof. mring. Qed.

Lemma apply_mul t u x y :
  fst (apply (mul t u) x y) == fst (apply t (fst (apply u x y)) (snd (apply u x y))) /\
  snd (apply (mul t u) x y) == snd (apply t (fst (apply u x y)) (snd (apply u x y))).
Proof. cbn; split; ring. Qed.

Lemma apply_identity x y : fst (apply identity x y) == x /\ snd (apply identity x y) == y.
Proof. cbn; split; ring. Qed.

Lemma mul3_eq r s t : meq (mul3 r s t) (mul r (mul s t)).
Proof. mring. Qed.
Lemma left_mult_by_eq t u : meq (left_mult_by t u) (mul u t).
Proof. mring. Qed.
Lemma right_mult_by_eq t u : meq (right_mult_by t u) (mul t u).
Proof. mring. Qed.

Lemma translate_eq_rightmult t tx ty : meq (translate t tx ty) (mul t (translation tx ty)).
Proof. mring. Qed.
Lemma scale_eq_rightmult t sx sy : meq (scale t sx sy) (mul t (scaling sx sy)).
Proof. mring. Qed.
Lemma rotate_eq_rightmult t c s : meq (rotate_cs t c s) (mul t (rotation_cs c s)).
Proof. mring. Qed.
Lemma skew_eq_rightmult t tx ty : meq (skew_tt t tx ty) (mul t (skew_t tx ty)).
Proof. mring. Qed.

Lemma det_mul t u : determinant (mul t u) == determinant t * determinant u.
Proof. unfold determinant; cbn; ring. Qed.

Lemma invert_none_iff t : invert t = None <-> determinant t == 0.
Proof.
  unfold invert. destruct (Qeq_bool (determinant t) 0) eqn:Hd.
  - apply Qeq_bool_iff in Hd. split; auto.
  - split; [discriminate|]. intros H. apply Qeq_bool_iff in H. congruence.
Qed.

Lemma invert_two_sided t t' : invert t = Some t' ->
  meq (mul t t') identity /\ meq (mul t' t) identity.
Proof.
  unfold invert. destruct (Qeq_bool (determinant t) 0) eqn:Hd; [discriminate|].
  assert (Hnz : ~ determinant t == 0).
  { intros H. apply Qeq_bool_iff in H. congruence. }
  intros Heq; injection Heq as <-.
  unfold determinant in *.
  split; unfold meq; cbn; repeat split; field; exact Hnz.
Qed.

Lemma invert_involutive_det t t' : invert t = Some t' ->
  determinant t' * determinant t == 1.
Proof.
  intros H. destruct (invert_two_sided _ _ H) as [_ H2].
  rewrite <- det_mul. destruct H2 as (a&b&c&d&_&_).
  unfold determinant. rewrite a, b, c, d. cbn. ring.
Qed.

(* --- model = spec: CSS -------------------------------------------- *)
Lemma resolve_pct_spec d r : resolve_pct d r = spec_resolve d r.
Proof. destruct d; reflexivity. Qed.
Lemma resolve_dim_spec g d r : resolve_dim g d r = spec_length g d r.
Proof. destruct d; reflexivity. Qed.
Lemma origin_x_spec g : origin_x g = spec_origin_x g.
Proof. unfold Matrix.origin_x, spec_origin_x. rewrite resolve_pct_spec. reflexivity. Qed.
Lemma origin_y_spec g : origin_y g = spec_origin_y g.
Proof. unfold Matrix.origin_y, spec_origin_y. rewrite resolve_pct_spec. reflexivity. Qed.

Lemma right_mat_spec g f : meq (right_mat g f) (css_fun_matrix g f).
Proof.
  destruct f; try mring.
  unfold Matrix.right_mat, css_fun_matrix.
  rewrite (resolve_dim_spec g x), (resolve_dim_spec g y). mring.
Qed.

Lemma product_app l1 l2 : meq (product (l1 ++ l2)) (prod (product l1) (product l2)).
Proof.
  induction l1 as [|m l1 IH]; cbn [product app].
  - mring.
  - change prod with mult in *. rewrite IH. symmetry. apply mul_assoc.
Qed.

Lemma fold_right_mult_spec g fs m :
  meq (fold_left (fun m f => right_mult_by m (right_mat g f)) fs m)
      (mult m (product (map (css_fun_matrix g) fs))).
Proof.
  revert m; induction fs as [|f fs IH]; intros m; cbn [fold_left map product].
  - symmetry. apply mul_id_r.
  - rewrite IH. unfold right_mult_by. change prod with mult.
    rewrite (right_mat_spec g f). apply mul_assoc.
Qed.

Theorem css_matrix_spec g fs : meq (css_matrix g fs) (css_spec g fs).
Proof.
  unfold Matrix.css_matrix, css_spec, conjugate. rewrite origin_x_spec, origin_y_spec.
  rewrite translate_eq_rightmult. unfold mul.
  rewrite fold_right_mult_spec. change prod with mult.
  rewrite mul_assoc. unfold mul. reflexivity.
Qed.

(* source level: normalisation (validation.go) followed by getMatrix *)
Lemma css_normalise_spec tr g f :
  meq (css_fun_matrix g (css_normalise tr f)) (css_src_matrix tr g f).
Proof. destruct f; mring. Qed.

Lemma product_map_meq {X} (f h : X -> T) l :
  (forall x, meq (f x) (h x)) -> meq (product (map f l)) (product (map h l)).
Proof.
  intros H. induction l as [|x l IH]; cbn [map product]; [reflexivity|].
  change prod with mult. rewrite (H x), IH. reflexivity.
Qed.

Theorem css_source_spec tr g fs :
  meq (css_matrix g (map (css_normalise tr) fs)) (css_src_spec tr g fs).
Proof.
  rewrite css_matrix_spec. unfold css_spec, css_src_spec, conjugate.
  change prod with mult. rewrite map_map.
  rewrite (product_map_meq _ _ fs (css_normalise_spec tr g)). reflexivity.
Qed.

(* --- model = spec: SVG -------------------------------------------- *)
(* The code turns skewX(a) into Skew(a, 0): the second tangent is tan 0, which
   must be 0 (Go: math.Tan(0) == 0 exactly).  Hypothesis forced by the proof. *)
Definition trig_ok (tr : trig) : Prop := ttan tr 0 == 0.

Lemma svg_apply_to_spec tr m s : trig_ok tr ->
  meq (svg_apply_to tr m (svg_normalise s)) (mult m (svg_fun_matrix tr s)).
Proof.
  unfold trig_ok; intros H0.
  destruct s; unfold meq; cbn -[Qeq Qplus Qmult Qopp Qminus Qdiv Qinv];
    rewrite ?H0; repeat split; ring.
Qed.

Lemma svg_fold_spec tr l m : trig_ok tr ->
  meq (fold_left (fun m s => svg_apply_to tr m (svg_normalise s)) l m)
      (mult m (product (map (svg_fun_matrix tr) l))).
Proof.
  intros H0. revert m; induction l as [|s l IH]; intros m; cbn [fold_left map product].
  - symmetry. apply mul_id_r.
  - rewrite IH. change prod with mult. rewrite (svg_apply_to_spec tr m s H0). apply mul_assoc.
Qed.

Theorem svg_transform_spec tr l : trig_ok tr -> meq (svg_aggregate tr l) (svg_spec tr l).
Proof. intros H0. unfold svg_aggregate, svg_spec. rewrite (svg_fold_spec _ _ _ H0). apply mul_id_l. Qed.

(* skewX / skewY land where the specifications put them *)
Lemma svg_skewX_entry tr a : trig_ok tr ->
  C (svg_aggregate tr [SSkewX a]) == ttan tr a /\ B (svg_aggregate tr [SSkewX a]) == 0.
Proof. unfold trig_ok; intros H0. cbn -[Qeq Qplus Qmult Qopp Qminus Qdiv Qinv]. rewrite H0. split; ring. Qed.
Lemma svg_skewY_entry tr a : trig_ok tr ->
  B (svg_aggregate tr [SSkewY a]) == ttan tr a /\ C (svg_aggregate tr [SSkewY a]) == 0.
Proof. unfold trig_ok; intros H0. cbn -[Qeq Qplus Qmult Qopp Qminus Qdiv Qinv]. rewrite H0. split; ring. Qed.

(* --- viewBox ------------------------------------------------------ *)
Definition q4eq (a b : Q * Q * Q * Q) : Prop :=
  let '(a1, a2, a3, a4) := a in let '(b1, b2, b3, b4) := b in
  a1 == b1 /\ a2 == b2 /\ a3 == b3 /\ a4 == b4.

Theorem viewbox_spec p w h vx vy vw vh : ~ vw == 0 -> ~ vh == 0 ->
  q4eq (viewbox_transform p w h vx vy vw vh) (vb_spec p w h vx vy vw vh).
Proof.
  intros Hw Hh. unfold viewbox_transform, vb_spec, q4eq.
  destruct (Qeq_bool vw 0) eqn:E1; [apply Qeq_bool_iff in E1; contradiction|].
  destruct (Qeq_bool vh 0) eqn:E2; [apply Qeq_bool_iff in E2; contradiction|].
  repeat split; reflexivity.
Qed.

(* meet: the scaled viewBox fits inside the viewport; slice: it covers it *)
Lemma Qminf_le_l a b : Qminf a b <= a.
Proof. unfold Qminf. destruct (Qle_bool a b) eqn:E; [apply Qle_refl|].
  destruct (Qlt_le_dec b a) as [H|H]; [apply Qlt_le_weak; exact H|].
  apply Qle_bool_iff in H. congruence. Qed.
Lemma Qminf_le_r a b : Qminf a b <= b.
Proof. unfold Qminf. destruct (Qle_bool a b) eqn:E; [apply Qle_bool_iff; exact E|apply Qle_refl]. Qed.

Theorem viewbox_meet_fits p w h vx vy vw vh : 0 < vw -> 0 < vh ->
  par_none p = false -> par_slice p = false ->
  let '(sx, sy, _, _) := viewbox_transform p w h vx vy vw vh in
  sx == sy /\ vw * sx <= w /\ vh * sy <= h.
Proof.
  intros Hw Hh Hn Hs. unfold viewbox_transform. rewrite Hn, Hs.
  destruct (Qeq_bool vw 0) eqn:E1.
  { apply Qeq_bool_iff in E1. rewrite E1 in Hw. exfalso. apply (Qlt_irrefl 0 Hw). }
  destruct (Qeq_bool vh 0) eqn:E2.
  { apply Qeq_bool_iff in E2. rewrite E2 in Hh. exfalso. apply (Qlt_irrefl 0 Hh). }
  split; [reflexivity|]. split.
  - apply Qle_trans with (vw * (w / vw)).
    + apply Qmult_le_l; [exact Hw | apply Qminf_le_l].
    + apply Qle_lteq. right. field. intros H. rewrite H in Hw. apply (Qlt_irrefl 0 Hw).
  - apply Qle_trans with (vh * (h / vh)).
    + apply Qmult_le_l; [exact Hh | apply Qminf_le_r].
    + apply Qle_lteq. right. field. intros H. rewrite H in Hh. apply (Qlt_irrefl 0 Hh).
Qed.
