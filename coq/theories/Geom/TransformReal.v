(* Geom/TransformReal.v -- the trigonometric laws, over Coq's real numbers.
   Uses the axioms of Coq.Reals (named in the trusted base). The Q development
   does not depend on this file. *)
From Coq Require Import Reals Lra.
Open Scope R_scope.

Record RT := rmk { rA : R; rB : R; rC : R; rD : R; rE : R; rF : R }.
Definition rprod (t u : RT) : RT :=
  rmk (rA t * rA u + rC t * rB u) (rB t * rA u + rD t * rB u)
      (rA t * rC u + rC t * rD u) (rB t * rC u + rD t * rD u)
      (rA t * rE u + rC t * rF u + rE t) (rB t * rE u + rD t * rF u + rF t).
Definition rdet t := rA t * rD t - rB t * rC t.
(* rotate(theta) = matrix(cos, sin, -sin, cos, 0, 0) *)
Definition rrotate (th : R) : RT := rmk (cos th) (sin th) (- sin th) (cos th) 0 0.
(* skew(ax, ay) = matrix(1, tan ay, tan ax, 1, 0, 0) *)
Definition rskew (ax ay : R) : RT := rmk 1 (tan ay) (tan ax) 1 0 0.

Lemma rotation_hom a b : rrotate (a + b) = rprod (rrotate a) (rrotate b).
Proof.
  unfold rrotate, rprod; cbn. rewrite cos_plus, sin_plus. f_equal; ring.
Qed.
Lemma rotation_det_1 a : rdet (rrotate a) = 1.
Proof. unfold rdet, rrotate; cbn. pose proof (sin2_cos2 a) as H. unfold Rsqr in H. lra. Qed.
Lemma rotation_zero : rrotate 0 = rmk 1 0 0 1 0 0.
Proof. unfold rrotate. rewrite cos_0, sin_0. f_equal; ring. Qed.
Lemma skew_det ax ay : rdet (rskew ax ay) = 1 - tan ax * tan ay.
Proof. unfold rdet, rskew; cbn. ring. Qed.
