(* Geom/UseGraphProofs.v -- reference following terminates on every graph,
   cycles included: the in-use list never holds an id twice and only ids the
   graph defines, so one unit of fuel per defined id is enough. *)
From Coq Require Import List NArith ZArith Bool Lia.
From Verif Require Import Base.GoSem Geom.UseGraph.
Import ListNotations.

Definition keys (g : graph) : list N := map fst g.
Definition terminates {A} (r : res A) : Prop := exists a, r = Ok a.

Lemma lookup_in g id c : lookup g id = Some c -> In id (keys g).
Proof.
  induction g as [|[k v] g IH]; cbn; [discriminate|].
  destruct (N.eqb_spec k id); [intros _; left; assumption|intros H; right; apply IH; exact H].
Qed.

Lemma mem_false_not_in id l : mem id l = false -> ~ In id l.
Proof.
  unfold mem. intros H Hin.
  assert (existsb (N.eqb id) l = true) by (apply existsb_exists; exists id; split; [assumption|apply N.eqb_refl]).
  congruence.
Qed.

Lemma expand_terminates b g : forall fuel inuse its,
  NoDup inuse -> incl inuse (keys g) -> (length (keys g) < fuel + length inuse)%nat ->
  terminates (expand b g fuel inuse its).
Proof.
  induction fuel as [|f IHf]; intros inuse its Hnd Hincl Hlen.
  - (* no fuel left: every defined id is in use, so no reference is followed *)
    induction its as [|[n|id] r IH]; cbn.
    + eexists; reflexivity.
    + cbn in IH. destruct IH as [x ->]. eexists; reflexivity.
    + cbn in IH. destruct (mem id inuse) eqn:Em; [destruct b; [eexists; reflexivity|exact IH]|].
      destruct (lookup g id) eqn:El; [|exact IH]. exfalso.
      assert (NoDup (id :: inuse)) by (constructor; [apply mem_false_not_in; assumption|assumption]).
      assert (incl (id :: inuse) (keys g)) by (intros x [<-|Hx]; [eapply lookup_in; eassumption|apply Hincl; assumption]).
      pose proof (NoDup_incl_length H H0). cbn in *. lia.
  - induction its as [|[n|id] r IH]; cbn.
    + eexists; reflexivity.
    + cbn in IH. destruct IH as [x ->]. eexists; reflexivity.
    + cbn in IH.
      destruct (mem id inuse) eqn:Em; [destruct b; [eexists; reflexivity|exact IH]|].
      destruct (lookup g id) as [content|] eqn:El; [|exact IH].
      destruct (IHf (id :: inuse) content) as [a Ha].
      * constructor; [apply mem_false_not_in; assumption|assumption].
      * intros x [<-|Hx]; [eapply lookup_in; eassumption|apply Hincl; assumption].
      * cbn. lia.
      * rewrite Ha. cbn. destruct a as [la|]; [|eexists; reflexivity].
        destruct IH as [x ->]. eexists; reflexivity.
Qed.

(* use_graph_terminates: for every reference graph (cyclic or not, with
   dangling references or not) and every policy, resolution finishes with the
   fuel `fuel_for g`: neither OutOfFuel nor Panic *)
Theorem resolve_terminates g its : terminates (resolve g its).
Proof.
  apply expand_terminates; [constructor|intros x []|].
  unfold fuel_for, keys. rewrite map_length. cbn. lia.
Qed.

Theorem draw_refs_terminates g its : terminates (draw_refs g its).
Proof.
  apply expand_terminates; [constructor|intros x []|].
  unfold fuel_for, keys. rewrite map_length. cbn. lia.
Qed.

Lemma all_defs_ok_terminates g : forall defs, terminates (all_defs_ok g defs).
Proof.
  induction defs as [|[k content] r IH]; cbn [all_defs_ok]; [eexists; reflexivity|].
  destruct (resolve_terminates g content) as [a ->]. cbn [bind].
  destruct a; [exact IH|eexists; reflexivity].
Qed.

Theorem document_terminates g root : terminates (document g root).
Proof.
  unfold document. destruct (all_defs_ok_terminates g g) as [ok ->]. cbn [bind].
  destruct ok; [apply resolve_terminates|eexists; reflexivity].
Qed.

(* a reference to an id that is being resolved is not followed: it is an
   error (<use>) or ignored (drawing-time references); an undefined id is
   ignored *)
Lemma cyclic_ref b g fuel inuse id r : mem id inuse = true ->
  expand b g fuel inuse (Ref id :: r) = if b then Ok None else expand b g fuel inuse r.
Proof. intros H. destruct fuel; cbn; rewrite H; reflexivity. Qed.

Lemma dangling_ref b g fuel inuse id r : mem id inuse = false -> lookup g id = None ->
  expand b g fuel inuse (Ref id :: r) = expand b g fuel inuse r.
Proof. intros H1 H2. destruct fuel; cbn; rewrite H1, H2; reflexivity. Qed.


(* the recursive calls `expand` makes: from (in-use chain, content) to the
   content of a referenced, defined id that is not in the chain *)
Inductive follows (g : graph) : list N * list item -> list N * list item -> Prop :=
| follows_ref inuse its id content :
    In (Ref id) its -> mem id inuse = false -> lookup g id = Some content ->
    follows g (inuse, its) (id :: inuse, content).

Inductive reach (g : graph) : list N * list item -> list N * list item -> Prop :=
| reach_refl x : reach g x x
| reach_step x y z : reach g x y -> follows g y z -> reach g x z.

(* every id is in a chain at most once, and chains are no longer than the graph *)
Theorem chain_nodup g root inuse its : reach g ([], root) (inuse, its) ->
  NoDup inuse /\ incl inuse (keys g) /\ (length inuse <= length g)%nat.
Proof.
  intros H. remember ([], root) as x eqn:Ex. remember (inuse, its) as y eqn:Ey.
  revert inuse its Ey. induction H as [x|x y z Hxy IH Hyz]; intros inuse its Ey.
  - subst x. inversion Ey; subst. repeat split; [constructor|intros a []|cbn; lia].
  - destruct Hyz as [iu its0 id content Hin Hmem Hl]. inversion Ey; subst.
    destruct (IH eq_refl iu its0 eq_refl) as (N1 & N2 & N3).
    assert (Hnd : NoDup (id :: iu)) by (constructor; [apply mem_false_not_in; assumption|assumption]).
    assert (Hinc : incl (id :: iu) (keys g)) by (intros a [<-|Ha]; [eapply lookup_in; eassumption|apply N2; assumption]).
    repeat split; try assumption.
    pose proof (NoDup_incl_length Hnd Hinc) as Hl'. unfold keys in Hl'. rewrite map_length in Hl'. exact Hl'.
Qed.
