(* Geom/UseGraphProofs.v -- reference following terminates on every graph,
   cycles included: the in-use list never holds an id twice and only ids the
   graph defines, so one unit of fuel per defined id is enough. *)
From Coq Require Import List NArith ZArith Bool Lia.
From Verif Require Import Base.GoSem Geom.UseGraph.
Import ListNotations.

Definition keys (g : graph) : list N := map fst g.
Definition terminates {A} (r : res A) : Prop := exists a, r = Ok a.

Lemma lookup_in g id c : lookup g id = Some c -> In id (keys g).
Proof.
  induction g as [|[k v] g IH]; cbn; [discriminate|].
  destruct (N.eqb_spec k id); [intros _; left; assumption|intros H; right; apply IH; exact H].
Qed.

Lemma mem_false_not_in id l : mem id l = false -> ~ In id l.
Proof.
  unfold mem. intros H Hin.
  assert (existsb (N.eqb id) l = true) by (apply existsb_exists; exists id; split; [assumption|apply N.eqb_refl]).
  congruence.
Qed.

Lemma expand_terminates b g : forall fuel inuse its,
  NoDup inuse -> incl inuse (keys g) -> (length (keys g) < fuel + length inuse)%nat ->
  terminates (expand b g fuel inuse its).
Proof.
  induction fuel as [|f IHf]; intros inuse its Hnd Hincl Hlen.
  - (* no fuel left: every defined id is in use, so no reference is followed *)
    induction its as [|[n|id] r IH]; cbn.
    + eexists; reflexivity.
    + cbn in IH. destruct IH as [x ->]. eexists; reflexivity.
    + cbn in IH. destruct (mem id inuse) eqn:Em; [destruct b; [eexists; reflexivity|exact IH]|].
      destruct (lookup g id) eqn:El; [|exact IH]. exfalso.
      assert (NoDup (id :: inuse)) by (constructor; [apply mem_false_not_in; assumption|assumption]).
      assert (incl (id :: inuse) (keys g)) by (intros x [<-|Hx]; [eapply lookup_in; eassumption|apply Hincl; assumption]).
      pose proof (NoDup_incl_length H H0). cbn in *. lia.
  - induction its as [|[n|id] r IH]; cbn.
    + eexists; reflexivity.
    + cbn in IH. destruct IH as [x ->]. eexists; reflexivity.
    + cbn in IH.
      destruct (mem id inuse) eqn:Em; [destruct b; [eexists; reflexivity|exact IH]|].
      destruct (lookup g id) as [content|] eqn:El; [|exact IH].
      destruct (IHf (id :: inuse) content) as [a Ha].
      * constructor; [apply mem_false_not_in; assumption|assumption].
      * intros x [<-|Hx]; [eapply lookup_in; eassumption|apply Hincl; assumption].
      * cbn. lia.
      * rewrite Ha. cbn. destruct a as [la|]; [|eexists; reflexivity].
        destruct IH as [x ->]. eexists; reflexivity.
Qed.

(* use_graph_terminates: for every reference graph (cyclic or not, with
   dangling references or not) and every policy, resolution finishes with the
   fuel `fuel_for g`: neither OutOfFuel nor Panic *)
Theorem resolve_terminates g its : terminates (resolve g its).
Proof.
  apply expand_terminates; [constructor|intros x []|].
  unfold fuel_for, keys. rewrite map_length. cbn. lia.
Qed.

Theorem draw_refs_terminates g its : terminates (draw_refs g its).
Proof.
  apply expand_terminates; [constructor|intros x []|].
  unfold fuel_for, keys. rewrite map_length. cbn. lia.
Qed.

Lemma all_defs_ok_terminates g : forall defs, terminates (all_defs_ok g defs).
Proof.
  induction defs as [|[k content] r IH]; cbn [all_defs_ok]; [eexists; reflexivity|].
  destruct (resolve_terminates g content) as [a ->]. cbn [bind].
  destruct a; [exact IH|eexists; reflexivity].
Qed.

Theorem document_terminates g root : terminates (document g root).
Proof.
  unfold document. destruct (all_defs_ok_terminates g g) as [ok ->]. cbn [bind].
  destruct ok; [apply resolve_terminates|eexists; reflexivity].
Qed.

(* a reference to an id that is being resolved is not followed: it is an
   error (<use>) or ignored (drawing-time references); an undefined id is
   ignored *)
Lemma cyclic_ref b g fuel inuse id r : mem id inuse = true ->
  expand b g fuel inuse (Ref id :: r) = if b then Ok None else expand b g fuel inuse r.
Proof. intros H. destruct fuel; cbn; rewrite H; reflexivity. Qed.

Lemma dangling_ref b g fuel inuse id r : mem id inuse = false -> lookup g id = None ->
  expand b g fuel inuse (Ref id :: r) = expand b g fuel inuse r.
Proof. intros H1 H2. destruct fuel; cbn; rewrite H1, H2; reflexivity. Qed.


(* the recursive calls `expand` makes: from (in-use chain, content) to the
   content of a referenced, defined id that is not in the chain *)
Inductive follows (g : graph) : list N * list item -> list N * list item -> Prop :=
| follows_ref inuse its id content :
    In (Ref id) its -> mem id inuse = false -> lookup g id = Some content ->
    follows g (inuse, its) (id :: inuse, content).

Inductive reach (g : graph) : list N * list item -> list N * list item -> Prop :=
| reach_refl x : reach g x x
| reach_step x y z : reach g x y -> follows g y z -> reach g x z.

(* every id is in a chain at most once, and chains are no longer than the graph *)
Theorem chain_nodup g root inuse its : reach g ([], root) (inuse, its) ->
  NoDup inuse /\ incl inuse (keys g) /\ (length inuse <= length g)%nat.
Proof.
  intros H. remember ([], root) as x eqn:Ex. remember (inuse, its) as y eqn:Ey.
  revert inuse its Ey. induction H as [x|x y z Hxy IH Hyz]; intros inuse its Ey.
  - subst x. inversion Ey; subst. repeat split; [constructor|intros a []|cbn; lia].
  - destruct Hyz as [iu its0 id content Hin Hmem Hl]. inversion Ey; subst.
    destruct (IH eq_refl iu its0 eq_refl) as (N1 & N2 & N3).
    assert (Hnd : NoDup (id :: iu)) by (constructor; [apply mem_false_not_in; assumption|assumption]).
    assert (Hinc : incl (id :: iu) (keys g)) by (intros a [<-|Ha]; [eapply lookup_in; eassumption|apply N2; assumption]).
    repeat split; try assumption.
    pose proof (NoDup_incl_length Hnd Hinc) as Hl'. unfold keys in Hl'. rewrite map_length in Hl'. exact Hl'.
Qed.

(* ------------------------------------------------------------------ *)
(* instances of <use> (UseGraph.draw_use / draw_uses) *)
From Coq Require Import QArith.
From Verif Require Import Base.F32 Geom.Matrix Geom.Shapes.

Section UseInstProofs.
Variable ar : arith.
Variable rc : Q -> Q.
Variable cv : Z -> Z -> option Q.

Lemma seq_ops_app l1 l2 a b :
  seq_ops l1 = Ok (Some a) -> seq_ops l2 = Ok (Some b) -> seq_ops (l1 ++ l2) = Ok (Some (a ++ b)).
Proof.
  revert a. induction l1 as [|x l1 IH]; intros a H1 H2; cbn in *.
  - inversion H1; subst. exact H2.
  - destruct x as [[lx|]| |]; cbn in *; try discriminate.
    destruct (seq_ops l1) as [[y|]| |] eqn:E; cbn in *; try discriminate.
    inversion H1; subst. rewrite (IH y eq_refl H2). cbn. rewrite app_assoc. reflexivity.
Qed.

(* what the k-th <use> of a document contributes is draw_use of the
   definitions and of that <use>: the same whatever instances come before or
   after it, of the same id or not *)
Lemma use_instance_at ds us k u :
  nth_error us k = Some u ->
  nth_error (map (draw_use ar rc cv ds) us) k = Some (draw_use ar rc cv ds u).
Proof. intros H. apply map_nth_error. exact H. Qed.

Lemma use_after_prefix ds pre u post lpre lu lpost :
  draw_uses ar rc cv ds pre = Ok (Some lpre) ->
  draw_use ar rc cv ds u = Ok (Some lu) ->
  draw_uses ar rc cv ds post = Ok (Some lpost) ->
  draw_uses ar rc cv ds (pre ++ u :: post) = Ok (Some (lpre ++ lu ++ lpost)).
Proof.
  unfold draw_uses. intros H1 H2 H3. rewrite map_app. cbn [map].
  apply seq_ops_app; [exact H1|]. cbn. rewrite H2. cbn. rewrite H3. reflexivity.
Qed.

(* a <use> without width / height draws a viewport element with the element's
   own width and height; with both, with those of the <use>; the width and
   height of a <use> have no effect on other elements *)
Lemma use_size_default id x y st sw ds tx ty w h vb p clip content :
  lookup_def ds id = Some (TView tx ty w h vb p clip content) ->
  draw_use ar rc cv ds (UseI id x y NoSize st sw) = draw_use ar rc cv ds (UseI id x y (Size w h) st sw).
Proof. intros H. cbn. rewrite H. reflexivity. Qed.

Lemma use_size_ignored id x y sz st sw ds t :
  lookup_def ds id = Some t -> (forall tx ty w h vb p clip content, t <> TView tx ty w h vb p clip content) ->
  draw_use ar rc cv ds (UseI id x y sz st sw) = draw_use ar rc cv ds (UseI id x y NoSize st sw).
Proof.
  intros H Hn. cbn. rewrite H. destruct t; [exfalso; eapply Hn; reflexivity| |]; reflexivity.
Qed.

(* the clip rectangle and the viewBox transform of an instance are those of
   the viewport (w, h) = view_size own (use's size) *)
Lemma use_view_frame id x y sz st sw ds tx ty w h vb p clip content c :
  lookup_def ds id = Some (TView tx ty w h vb p clip content) ->
  content_ops ar rc cv content = Ok (Some c) ->
  draw_use ar rc cv ds (UseI id x y sz st sw) =
  Ok (Some (stroke_ops st (cascaded_width NoQ sw) ++ UTrans 1 0 0 1 x y ::
            stroke_ops st (cascaded_width NoQ sw) ++
            view_frame ar tx ty (fst (view_size w h sz)) (snd (view_size w h sz)) vb p clip ++ c)).
Proof.
  intros H Hc. cbn. rewrite H. cbn. destruct (view_size w h sz) as [vw vh]. cbn. rewrite Hc. reflexivity.
Qed.
End UseInstProofs.
