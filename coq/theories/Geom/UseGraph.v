(* Geom/UseGraph.v -- model of reference following in /repo/svg over an
   abstract reference graph.

   resolveUse (elements.go:412-496) with the in-use id set (tree.go:31-33
   inUseIDs): a <use href="#id"> whose id is being resolved makes the whole
   parse fail ("invalid recursive <use>"), an undefined id is ignored (nil
   node), otherwise the id is added to the set while the target's content is
   processed (processNode, svg.go:474-548) and removed afterwards.

   The same engine with the `skip` policy models drawing-time references
   (clip-path / mask / marker, svg.go drawNode, applyClipPath, applyMask,
   drawMarkers): a reference to an element that is being drawn is ignored.

   A graph maps an id to the content of the element carrying it: the leaves it
   draws and the references it contains, in document order.  Model only. *)
From Coq Require Export List NArith ZArith Bool.
From Verif Require Export Base.GoSem.
Export ListNotations.

Inductive item := Leaf (n : N) | Ref (id : N).
Definition graph := list (N * list item).

Fixpoint lookup (g : graph) (id : N) : option (list item) :=
  match g with
  | [] => None
  | (k, v) :: r => if (k =? id)%N then Some v else lookup r id
  end.

Definition mem (id : N) (l : list N) : bool := existsb (N.eqb id) l.

(* on_cycle_error = true: resolveUse (error); false: ignored.
   Result: Ok None = error returned; Ok (Some leaves) = leaves in drawing order.
   One unit of fuel per nesting level of reference following. *)
Fixpoint expand (on_cycle_error : bool) (g : graph) (fuel : nat) (inuse : list N) (its : list item)
  {struct fuel} : res (option (list N)) :=
  (fix go (its : list item) : res (option (list N)) :=
     match its with
     | [] => Ok (Some [])
     | Leaf n :: r =>
         let* x := go r in Ok (option_map (cons n) x)
     | Ref id :: r =>
         if mem id inuse then
           (if on_cycle_error then Ok None else go r)      (* elements.go:428-430 *)
         else match lookup g id with
              | None => go r                                (* elements.go:431-434: ignored *)
              | Some content =>
                  match fuel with
                  | O => OutOfFuel
                  | S f =>
                      let* a := expand on_cycle_error g f (id :: inuse) content in
                      match a with
                      | None => Ok None
                      | Some la => let* x := go r in Ok (option_map (app la) x)
                      end
                  end
              end
     end) its.

Definition fuel_for (g : graph) : nat := S (length g).

Definition resolve (g : graph) (its : list item) : res (option (list N)) :=
  expand true g (fuel_for g) [] its.

(* svg.go ParseNode -> processNode on the root: every element of the document
   is processed, also the content of <defs> that nothing refers to; the first
   error aborts.  `root` is what the root <svg> draws. *)
Fixpoint all_defs_ok (g : graph) (defs : graph) : res bool :=
  match defs with
  | [] => Ok true
  | (_, content) :: r =>
      let* a := resolve g content in
      match a with None => Ok false | Some _ => all_defs_ok g r end
  end.

Definition document (g : graph) (root : list item) : res (option (list N)) :=
  let* ok := all_defs_ok g g in
  if ok then resolve g root else Ok None.

(* drawing-time references with the in-progress set *)
Definition draw_refs (g : graph) (its : list item) : res (option (list N)) :=
  expand false g (fuel_for g) [] its.

(* ------------------------------------------------------------------ *)
(* Instances of <use>: what one <use x y [width height] [stroke stroke-width]
   href="#id"> draws (elements.go:412-529 resolveUse + use.draw, 301-327
   svg.draw, paint.go:84-107 applyPainters).

   resolveUse works on a COPY of the referenced element (cascadedNode.copy:
   the attribute map is duplicated): on the copy, when the element is an <svg>
   or a <symbol> and the <use> carries both width and height, these replace the
   element's own; then every inherited attribute of the <use> the element does
   not specify itself is added (here: stroke, stroke-width).  The definition is
   left as it was, so an instance is a function of the definitions and of its
   own attributes only.

   Drawing: Transform(translation x y of the <use>); on the element: its
   stroke width when it is stroked; for a viewport element the translation by
   its own x / y, the clip rectangle (0, 0, width, height) unless overflow is
   visible, the viewBox / preserveAspectRatio transform for that width and
   height; then the content.  Model only. *)
From Verif Require Import Base.F32 Geom.Matrix Geom.Shapes.
Local Open Scope Q_scope.

Inductive ovb := NoVb | SomeVb (x y w h : Q).
Inductive osize := NoSize | Size (w h : Q).

(* the referenced element *)
Inductive utarget :=
| TView (x y w h : Q) (vb : ovb) (p : par) (clip : bool) (content : list shape)   (* <svg> / <symbol> *)
| TGroup (content : list shape)                                                    (* <g> *)
| TShape (stroke : bool) (sw : oq) (s : shape).                                    (* a basic shape or path *)
Inductive udef := UDef (id : N) (t : utarget).
Inductive use_inst := UseI (id : N) (x y : Q) (size : osize) (stroke : bool) (sw : oq).

(* backend calls *)
Inductive use_op :=
| UTrans (a b c d e f : Q)       (* State().Transform *)
| ULineWidth (w : Q)             (* State().SetLineWidth *)
| UShape (o : shape_op).         (* path construction; SRect also for the clip rectangle *)

Fixpoint lookup_def (ds : list udef) (id : N) : option utarget :=
  match ds with
  | [] => None
  | UDef k t :: r => if (k =? id)%N then Some t else lookup_def r id
  end.

(* the attributes of the copy the instance works on *)
Definition view_size (own_w own_h : Q) (u : osize) : Q * Q :=
  match u with Size w h => (w, h) | NoSize => (own_w, own_h) end.          (* elements.go:483-492 *)
Definition cascaded_stroke (own use : bool) : bool := own || use.            (* elements.go:495-502 *)
Definition cascaded_width (own use : oq) : Q :=
  match own, use with
  | SomeQ w, _ => w
  | NoQ, SomeQ w => w
  | NoQ, NoQ => 1                                                            (* tree.go:228-233 *)
  end.

(* paint.go:84-107: the line width is set when the node is stroked *)
Definition stroke_ops (stroke : bool) (w : Q) : list use_op :=
  if stroke && Qltb 0 w then [ULineWidth w] else [].

Section UseInst.
Variable ar : arith.
Variable rc : Q -> Q.
Variable cv : Z -> Z -> option Q.

Fixpoint content_ops (l : list shape) : res (option (list use_op)) :=
  match l with
  | [] => Ok (Some [])
  | s :: r => let* a := shape_ops_opt ar rc cv s in
              match a with
              | None => Ok None
              | Some la => let* b := content_ops r in Ok (option_map (app (map UShape la)) b)
              end
  end.

(* svg.draw (elements.go:301-327) on the copy *)
Definition view_frame (x y w h : Q) (vb : ovb) (p : par) (clip : bool) : list use_op :=
  let '(sx, sy, tx, ty) := match vb with
                           | NoVb => (1, 1, 0, 0)
                           | SomeVb a b c d => viewbox_transform ar p w h a b c d
                           end in
  UTrans 1 0 0 1 x y :: (if clip then [UShape (SRect 0 0 w h)] else []) ++ [UTrans sx 0 0 sy tx ty].

Definition draw_target (t : utarget) (size : osize) (ustroke : bool) (usw : oq) : res (option (list use_op)) :=
  match t with
  | TView x y w h vb p clip content =>
      let '(vw, vh) := view_size w h size in
      let* c := content_ops content in
      Ok (option_map (fun c => stroke_ops ustroke (cascaded_width NoQ usw) ++ view_frame x y vw vh vb p clip ++ c) c)
  | TGroup content =>
      let* c := content_ops content in
      Ok (option_map (fun c => stroke_ops ustroke (cascaded_width NoQ usw) ++ c) c)
  | TShape stroke sw s =>
      let* c := content_ops [s] in
      Ok (option_map (fun c => stroke_ops (cascaded_stroke stroke ustroke) (cascaded_width sw usw) ++ c) c)
  end.

(* one instance: a function of the definitions and of the <use> alone *)
Definition draw_use (ds : list udef) (u : use_inst) : res (option (list use_op)) :=
  let '(UseI id x y size stroke sw) := u in
  match lookup_def ds id with
  | None => Ok (Some [])                    (* elements.go:438-441, svg.go:610-612: no node at all *)
  | Some t =>
      let* c := draw_target t size stroke sw in
      Ok (option_map (fun c => stroke_ops stroke (cascaded_width NoQ sw) ++ UTrans 1 0 0 1 x y :: c) c)
  end.

(* the document: the instances in order; the first error aborts *)
Fixpoint seq_ops (l : list (res (option (list use_op)))) : res (option (list use_op)) :=
  match l with
  | [] => Ok (Some [])
  | a :: r => let* x := a in
              match x with
              | None => Ok None
              | Some lx => let* y := seq_ops r in Ok (option_map (app lx) y)
              end
  end.
Definition draw_uses (ds : list udef) (us : list use_inst) : res (option (list use_op)) :=
  seq_ops (map (draw_use ds) us).
End UseInst.
