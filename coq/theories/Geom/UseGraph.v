(* Geom/UseGraph.v -- model of reference following in /repo/svg over an
   abstract reference graph.

   resolveUse (elements.go:412-496) with the in-use id set (tree.go:31-33
   inUseIDs): a <use href="#id"> whose id is being resolved makes the whole
   parse fail ("invalid recursive <use>"), an undefined id is ignored (nil
   node), otherwise the id is added to the set while the target's content is
   processed (processNode, svg.go:474-548) and removed afterwards.

   The same engine with the `skip` policy models drawing-time references
   (clip-path / mask / marker, svg.go drawNode, applyClipPath, applyMask,
   drawMarkers): a reference to an element that is being drawn is ignored.

   A graph maps an id to the content of the element carrying it: the leaves it
   draws and the references it contains, in document order.  Model only. *)
From Coq Require Export List NArith ZArith Bool.
From Verif Require Export Base.GoSem.
Export ListNotations.

Inductive item := Leaf (n : N) | Ref (id : N).
Definition graph := list (N * list item).

Fixpoint lookup (g : graph) (id : N) : option (list item) :=
  match g with
  | [] => None
  | (k, v) :: r => if (k =? id)%N then Some v else lookup r id
  end.

Definition mem (id : N) (l : list N) : bool := existsb (N.eqb id) l.

(* on_cycle_error = true: resolveUse (error); false: ignored.
   Result: Ok None = error returned; Ok (Some leaves) = leaves in drawing order.
   One unit of fuel per nesting level of reference following. *)
Fixpoint expand (on_cycle_error : bool) (g : graph) (fuel : nat) (inuse : list N) (its : list item)
  {struct fuel} : res (option (list N)) :=
  (fix go (its : list item) : res (option (list N)) :=
     match its with
     | [] => Ok (Some [])
     | Leaf n :: r =>
         let* x := go r in Ok (option_map (cons n) x)
     | Ref id :: r =>
         if mem id inuse then
           (if on_cycle_error then Ok None else go r)      (* elements.go:428-430 *)
         else match lookup g id with
              | None => go r                                (* elements.go:431-434: ignored *)
              | Some content =>
                  match fuel with
                  | O => OutOfFuel
                  | S f =>
                      let* a := expand on_cycle_error g f (id :: inuse) content in
                      match a with
                      | None => Ok None
                      | Some la => let* x := go r in Ok (option_map (app la) x)
                      end
                  end
              end
     end) its.

Definition fuel_for (g : graph) : nat := S (length g).

Definition resolve (g : graph) (its : list item) : res (option (list N)) :=
  expand true g (fuel_for g) [] its.

(* svg.go ParseNode -> processNode on the root: every element of the document
   is processed, also the content of <defs> that nothing refers to; the first
   error aborts.  `root` is what the root <svg> draws. *)
Fixpoint all_defs_ok (g : graph) (defs : graph) : res bool :=
  match defs with
  | [] => Ok true
  | (_, content) :: r =>
      let* a := resolve g content in
      match a with None => Ok false | Some _ => all_defs_ok g r end
  end.

Definition document (g : graph) (root : list item) : res (option (list N)) :=
  let* ok := all_defs_ok g g in
  if ok then resolve g root else Ok None.

(* drawing-time references with the in-progress set *)
Definition draw_refs (g : graph) (its : list item) : res (option (list N)) :=
  expand false g (fuel_for g) [] its.
