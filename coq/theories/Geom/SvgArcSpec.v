(* Geom/SvgArcSpec.v -- the ellipse an SVG elliptical arc lies on: SVG 1.1
   implementation notes F.6.2 (out-of-range parameters), F.6.5 (conversion from
   endpoint to centre parameterisation) and F.6.6 (correction of out-of-range
   radii), written over exact rationals.  Independent of the code.

   The arc goes from (x1, y1) to (x2, y2) on an ellipse with radii rx, ry whose
   x-axis is rotated by phi; cos phi and sin phi enter as the two numbers c, s
   (an oracle, like the trigonometric values of Geom/Matrix.v: the theorems
   assume c^2 + s^2 = 1).  Square roots do not exist in Q: wherever F.6.5 /
   F.6.6 take a square root, the root is a universally quantified rational k
   with its defining equation as hypothesis (k >= 0, k^2 * Lambda = 1 - Lambda),
   and the predicates evaluated by the correspondence check (`arc_pred`,
   `arc_dev`) are stated without roots.

   Normalised coordinates: N(P) = S^-1 R^-1 (P - M), M the chord's midpoint,
   R the rotation by phi, S = diag(rx, ry).  N maps every ellipse with radii
   (l rx, l ry) and rotation phi to a circle of radius l. *)
From Coq Require Import QArith Qabs List Bool.
Import ListNotations.
Open Scope Q_scope.

Definition sq (x : Q) : Q := x * x.

(* ------------------------------------------------------------------ *)
(* an ellipse: centre (cx, cy), radii rx ry, x-axis rotated by the angle whose
   cosine / sine are c / s.  Implicit equation (F.6.3 read backwards): the
   point, translated to the centre, rotated back and divided by the radii, is on
   the unit circle. *)
Definition nrm_u (c s rx : Q) (cx cy px py : Q) : Q := (c * (px - cx) + s * (py - cy)) / rx.
Definition nrm_v (c s ry : Q) (cx cy px py : Q) : Q := (- s * (px - cx) + c * (py - cy)) / ry.

Definition on_ellipse (c s rx ry cx cy px py : Q) : Prop :=
  sq (nrm_u c s rx cx cy px py) + sq (nrm_v c s ry cx cy px py) == 1.

(* F.6.3: the point of parameter theta, (ct, st) = (cos theta, sin theta) *)
Definition ellipse_x (c s rx ry cx : Q) (ct st : Q) : Q := c * (rx * ct) - s * (ry * st) + cx.
Definition ellipse_y (c s rx ry cy : Q) (ct st : Q) : Q := s * (rx * ct) + c * (ry * st) + cy.

(* squared normalised radius of the point with normalised coordinates (u, v)
   relative to the arc's ellipse: lam = Lambda; (p, q) = the normalised centre
   when Lambda <= 1 (used by `arc_dev` below) *)
Definition dev_of (lam p q u v : Q) : Q :=
  if Qlt_le_dec 1 lam then (sq u + sq v) / lam
  else sq (u - p) + sq (v - q).

(* ------------------------------------------------------------------ *)
Section Arc.
(* endpoint parameterisation.  rx, ry: F.6.6 step 2 takes absolute values
   first (see `arc_abs` below); the theorems assume 0 < rx, 0 < ry. *)
Variables x1 y1 rx ry c s : Q.
Variables fa fs : bool.            (* large-arc-flag, sweep-flag *)
Variables x2 y2 : Q.

Definition mid_x : Q := (x1 + x2) / 2.
Definition mid_y : Q := (y1 + y2) / 2.

(* F.6.5.1 *)
Definition x1p : Q := c * ((x1 - x2) / 2) + s * ((y1 - y2) / 2).
Definition y1p : Q := - s * ((x1 - x2) / 2) + c * ((y1 - y2) / 2).

(* F.6.6.2: Lambda = x1'^2 / rx^2 + y1'^2 / ry^2.  A rational number. *)
Definition lambda : Q := sq x1p / sq rx + sq y1p / sq ry.

(* the sign of F.6.5.2: + if fA <> fS, - if fA = fS *)
Definition sigma : Q := if Bool.eqb fa fs then -1 else 1.

(* F.6.5.2 / F.6.5.3 with the square root
     k = sqrt ((rx^2 ry^2 - rx^2 y1'^2 - ry^2 x1'^2) / (rx^2 y1'^2 + ry^2 x1'^2))
       = sqrt ((1 - Lambda) / Lambda)
   given: (cx', cy') = sigma k (rx y1' / ry, - ry x1' / rx),
          (cx, cy) = R (cx', cy') + M *)
Definition cxp (k : Q) : Q := sigma * k * (rx * y1p / ry).
Definition cyp (k : Q) : Q := sigma * k * - (ry * x1p / rx).
Definition centre_x (k : Q) : Q := c * cxp k - s * cyp k + mid_x.
Definition centre_y (k : Q) : Q := s * cxp k + c * cyp k + mid_y.

(* k is the square root F.6.5.2 asks for *)
Definition is_root (k : Q) : Prop := 0 <= k /\ sq k * lambda == 1 - lambda.
(* l is the factor sqrt Lambda of F.6.6.3 *)
Definition is_scale (l : Q) : Prop := 0 < l /\ sq l == lambda.

(* The ellipse of the arc (radii, centre), F.6.5 + F.6.6:
   Lambda <= 1: the given radii, the centre of F.6.5.3;
   Lambda > 1 : radii scaled by sqrt Lambda; then the radicand of F.6.5.2 is 0
                and the centre is the midpoint of the chord. *)
Definition arc_ellipse (rx' ry' cx cy : Q) : Prop :=
  (lambda <= 1 /\ rx' == rx /\ ry' == ry /\
   exists k, is_root k /\ cx == centre_x k /\ cy == centre_y k)
  \/
  (1 < lambda /\ exists l, is_scale l /\ rx' == l * rx /\ ry' == l * ry /\ cx == mid_x /\ cy == mid_y).

(* ------------------------------------------------------------------ *)
(* without square roots.  (u, v) = N(P); (a1, b1) = N(P1) = (x1'/rx, y1'/ry),
   |N(P1)|^2 = Lambda; the normalised centre is sigma k (b1, -a1). *)
Definition nu (px py : Q) : Q := nrm_u c s rx mid_x mid_y px py.
Definition nv (px py : Q) : Q := nrm_v c s ry mid_x mid_y px py.
Definition a1 : Q := x1p / rx.
Definition b1 : Q := y1p / ry.

(* |N(P)|^2 - Lambda and N(P) . (b1, -a1) *)
Definition arc_t (px py : Q) : Q := sq (nu px py) + sq (nv px py) - lambda.
Definition arc_w (px py : Q) : Q := nu px py * b1 - nv px py * a1.

(* P lies on the arc's ellipse.
   Lambda > 1 : |N(P)|^2 = Lambda  (circle of radius sqrt Lambda about N(M) = 0)
   Lambda <= 1: |N(P) - sigma k (b1,-a1)|^2 = 1  <=>  t = 2 sigma k w
                <=>  t^2 Lambda = 4 (1 - Lambda) w^2  and  sigma t w >= 0 *)
Definition arc_pred (px py : Q) : Prop :=
  if Qlt_le_dec 1 lambda then arc_t px py == 0
  else sq (arc_t px py) * lambda == 4 * (1 - lambda) * sq (arc_w px py)
       /\ 0 <= sigma * arc_t px py * arc_w px py.

(* The same as a number that is 1 on the ellipse, for a given approximation k
   of the root (Lambda <= 1) -- the squared distance of N(P) to the normalised
   centre sigma k (b1, -a1) -- resp. |N(P)|^2 / Lambda (Lambda > 1): the squared "radius" of P
   relative to the arc's ellipse.  Evaluated by Check/C18.v with a tolerance. *)
Definition arc_dev (k : Q) (px py : Q) : Q :=
  dev_of lambda (sigma * k * b1) (- (sigma * k * a1)) (nu px py) (nv px py).

(* orientation of three points (twice the signed area); positive = the
   direction of increasing angle theta of F.6.3 *)
Definition orient (ax ay bx by_ cx cy : Q) : Q := (bx - ax) * (cy - ay) - (by_ - ay) * (cx - ax).
End Arc.

(* F.6.6 step 2: rx, ry are replaced by their absolute values *)
Definition arc_abs (r : Q) : Q := Qabs r.
