(* Geom/SvgUnits.v -- lengths with units in the geometry attributes of the
   basic shapes: model of /repo/svg/parser.go:20-110 (Unit, toPx, Value,
   Value.Resolve), /repo/svg/svg.go:564-568 (drawingDims.point) and of how
   elements.go (line 58-61, rect 105-111, ellipse / circle 206-250) resolves
   its attributes, over an arithmetic record (exactQ for the theorem, f32 for
   the bit-exact comparison); and the specification: CSS absolute units (CSS
   Values 3 section 5.2: 1in = 96px = 2.54cm, 1mm = 1/10 cm, 1Q = 1/40 cm,
   1pt = 1/72 in, 1pc = 12pt), em = the font size, ex = 0.5em when the
   x-height is not known (section 5.1.1), percentages of x / width / cx / rx
   resp. y / height / cy / ry = of the viewport's width resp. height in user
   units (SVG 1.1 section 7.10).  Model only, no proofs. *)
From Verif Require Export Geom.Shapes.
Open Scope Q_scope.

Inductive unit := UPx | UCm | UMm | UPt | UIn | UQ | UPc | UPerc | UEm | UEx.
Inductive uval := UV (v : Q) (u : unit).
Inductive ouval := NoUV | SomeUV (x : uval).

(* parser.go:50-53 toPx: untyped constant expressions, converted to Fl *)
Definition to_px_q (u : unit) : Q :=
  match u with
  | UCm => 96 / (254 # 100)
  | UMm => (96 # 10) / (254 # 100)
  | UPt => 96 / 72
  | UIn => 96
  | UQ => 96 / 40 / (254 # 100)
  | UPc => 96 / 6
  | _ => 1
  end.

(* drawing context: font size, viewport width / height in user units
   (svg.go:99-107: the root viewBox's size, else the concrete size; 16px) *)
Record sdims := mkdims { d_font : Q; d_w : Q; d_h : Q }.

Section Units.
Variable ar : arith.
Variable rc : Q -> Q.
Local Notation "x *. y" := (mul ar x y) (at level 40, left associativity).
Local Notation "x /. y" := (div ar x y) (at level 40, left associativity).

(* parser.go:93-108 Value.Resolve *)
Definition resolve_len (x : uval) (font ref : Q) : Q :=
  let '(UV v u) := x in
  match u with
  | UPx => v
  | UPerc => v *. ref /. 100
  | UEm => v *. font
  | UEx => v *. font /. 2
  | _ => v *. rc (to_px_q u)
  end.

(* svg.go:564-568 point *)
Definition res_x (d : sdims) (x : uval) : Q := resolve_len x (d_font d) (d_w d).
Definition res_y (d : sdims) (y : uval) : Q := resolve_len y (d_font d) (d_h d).
Definition res_o (r : sdims -> uval -> Q) (d : sdims) (o : ouval) : oq :=
  match o with NoUV => NoQ | SomeUV x => SomeQ (r d x) end.
End Units.

(* shapes with unit-carrying attributes *)
Inductive ushape :=
| UPlain (s : shape)
| URect (x y w h : uval) (rx ry : ouval)
| UCircle (cx cy r : uval)          (* r: absolute units / em / ex only *)
| UEllipse (cx cy rx ry : uval)
| ULine (x1 y1 x2 y2 : uval).

(* elements.go: rect 105-111 (newRect 80-102: a missing rx takes ry's *value
   with its unit* and is then resolved against the width, and conversely),
   ellipse 240-247, circle = ellipse with rx = ry = r (211-219), line 58-59 *)
Definition resolve_shape (ar : arith) (rc : Q -> Q) (d : sdims) (s : ushape) : shape :=
  match s with
  | UPlain s => s
  | URect x y w h rx ry =>
      let rx' := match rx, ry with NoUV, SomeUV b => SomeUV b | _, _ => rx end in
      let ry' := match ry, rx with NoUV, SomeUV a => SomeUV a | _, _ => ry end in
      ShRect (res_x ar rc d x) (res_y ar rc d y) (res_x ar rc d w) (res_y ar rc d h)
             (res_o (res_x ar rc) d rx') (res_o (res_y ar rc) d ry')
  | UCircle cx cy r => ShEllipse (res_x ar rc d cx) (res_y ar rc d cy) (res_x ar rc d r) (res_y ar rc d r)
  | UEllipse cx cy rx ry => ShEllipse (res_x ar rc d cx) (res_y ar rc d cy) (res_x ar rc d rx) (res_y ar rc d ry)
  | ULine x1 y1 x2 y2 => ShLine (res_x ar rc d x1) (res_y ar rc d y1) (res_x ar rc d x2) (res_y ar rc d y2)
  end.

(* ------------------------------------------------------------------ *)
(* specification: the length in user units (px) a unit-carrying value denotes *)
Definition px_per_in : Q := 96.
Definition unit_px (u : unit) : Q :=
  match u with
  | UPx => 1
  | UIn => px_per_in
  | UCm => px_per_in / (254 # 100)              (* 2.54cm = 1in *)
  | UMm => px_per_in / (254 # 100) / 10         (* 10mm = 1cm *)
  | UQ => px_per_in / (254 # 100) / 40          (* 40Q = 1cm *)
  | UPt => px_per_in / 72                       (* 72pt = 1in *)
  | UPc => px_per_in / 72 * 12                  (* 1pc = 12pt *)
  | _ => 1
  end.
Definition length_spec (x : uval) (font ref : Q) : Q :=
  let '(UV v u) := x in
  match u with
  | UPerc => v / 100 * ref
  | UEm => v * font
  | UEx => v * (font / 2)
  | _ => v * unit_px u
  end.
