(* Geom/Shapes.v -- model of the basic-shape emitters of /repo/svg/elements.go
   (line 58-70, rect 104-146, polyline/polygon 180-203, ellipse/circle 245-262)
   on attributes already resolved to user units (plain numbers: dims.point is
   the identity on `px` values, parser.go:94-97).  Model only, no proofs. *)
From Verif Require Export Geom.SvgPath.
Open Scope Q_scope.

Inductive oq := NoQ | SomeQ (q : Q).           (* an optional attribute *)

Inductive shape :=
| ShRect (x y w h : Q) (rx ry : oq)            (* rx / ry attributes, NoQ = absent *)
| ShCircle (cx cy r : Q)
| ShEllipse (cx cy rx ry : Q)
| ShLine (x1 y1 x2 y2 : Q)
| ShPoly (closed : bool) (d : list N)         (* the `points` attribute, bytes *)
| ShPath (d : list N).                        (* the `d` attribute, bytes *)

(* what reaches the backend: Rectangle(x,y,w,h), or a path operation whose
   control points are determined by SVG (strict) or are an approximation choice *)
Inductive shape_op :=
| SRect (x y w h : Q)
| SOp (strict : bool) (o : op).

(* 4 (sqrt 2 - 1) / 3 and sqrt pi, to 30 digits (Go converts the exact
   constant to float32 once) *)
Definition arc_to_bezier_q : Q := 552284749830793398402251632279 # 1000000000000000000000000000000.
Definition sqrt_pi_q : Q := 1772453850905516027298167483341 # 1000000000000000000000000000000.

Section Shapes.
Variable ar : arith.
Variable rc : Q -> Q.
Local Notation "x +. y" := (add ar x y) (at level 50, left associativity).
Local Notation "x -. y" := (sub ar x y) (at level 50, left associativity).
Local Notation "x *. y" := (mul ar x y) (at level 40, left associativity).
Local Notation "x /. y" := (div ar x y) (at level 40, left associativity).

Definition Qltb (a b : Q) : bool := negb (Qle_bool b a).

(* elements.go:80-102 newRect: a missing rx takes ry's value and conversely;
   parseValue("") = 0 *)
Definition rect_radii (rx ry : oq) : Q * Q :=
  match rx, ry with
  | NoQ, NoQ => (0, 0)
  | SomeQ a, NoQ => (a, a)
  | NoQ, SomeQ b => (b, b)
  | SomeQ a, SomeQ b => (a, b)
  end.

(* elements.go:104-146 rect.draw *)
Definition rect_ops (x y width height : Q) (orx ory : oq) : list shape_op :=
  if Qle_bool width 0 || Qle_bool height 0 then [] else
  let '(rx0, ry0) := rect_radii orx ory in
  if Qeq_bool rx0 0 || Qeq_bool ry0 0 then [SRect x y width height] else
  let rx := if Qltb (width /. 2) rx0 then width /. 2 else rx0 in
  let ry := if Qltb (height /. 2) ry0 then height /. 2 else ry0 in
  let k := rc arc_to_bezier_q in
  let c1 := k *. rx in
  let c2 := k *. ry in
  map (SOp false)
  [ OMove (x +. rx) y;
    OLine (x +. width -. rx) y;
    OCubic (x +. width -. rx +. c1) y (x +. width) (y +. c2) (x +. width) (y +. ry);
    OLine (x +. width) (y +. height -. ry);
    OCubic (x +. width) (y +. height -. ry +. c2) (x +. width +. c1 -. rx) (y +. height)
           (x +. width -. rx) (y +. height);
    OLine (x +. rx) (y +. height);
    OCubic (x +. rx -. c1) (y +. height) x (y +. height -. c2) x (y +. height -. ry);
    OLine x (y +. ry);
    OCubic x (y +. ry -. c2) (x +. rx -. c1) y (x +. rx) y;
    OLine (x +. rx) y ].

(* elements.go:245-262 ellipse.draw (circle: rx = ry = r, 211-219) *)
Definition ellipse_ops (cx cy rx ry : Q) : list shape_op :=
  if Qeq_bool rx 0 || Qeq_bool ry 0 then [] else
  let sp := rc sqrt_pi_q in
  let ratio_x := rx /. sp in
  let ratio_y := ry /. sp in
  map (SOp false)
  [ OMove (cx +. rx) cy;
    OCubic (cx +. rx) (cy +. ratio_y) (cx +. ratio_x) (cy +. ry) cx (cy +. ry);
    OCubic (cx -. ratio_x) (cy +. ry) (cx -. rx) (cy +. ratio_y) (cx -. rx) cy;
    OCubic (cx -. rx) (cy -. ratio_y) (cx -. ratio_x) (cy -. ry) cx (cy -. ry);
    OCubic (cx +. ratio_x) (cy -. ry) (cx +. rx) (cy -. ratio_y) (cx +. rx) cy;
    OLine (cx +. rx) cy ].

(* elements.go:58-70 line.draw *)
Definition line_ops (x1 y1 x2 y2 : Q) : list shape_op :=
  map (SOp true) [OMove x1 y1; OLine x2 y2].

(* elements.go:180-203 polyline.draw *)
Definition poly_ops (closed : bool) (pts : list (Q * Q)) : list shape_op :=
  match pts with
  | [] => []
  | (x, y) :: r =>
      map (SOp true) (OMove x y :: map (fun p => OLine (fst p) (snd p)) r
                       ++ (if closed then [OClose x y] else []))
  end.
End Shapes.

(* a shape whose attribute is rejected makes svg.Parse fail: None *)
Definition shape_ops_opt (ar : arith) (rc : Q -> Q) (cv : Z -> Z -> option Q) (s : shape)
  : res (option (list shape_op)) :=
  match s with
  | ShRect x y w h rx ry => Ok (Some (rect_ops ar rc x y w h rx ry))
  | ShCircle cx cy r => Ok (Some (ellipse_ops ar rc cx cy r r))
  | ShEllipse cx cy rx ry => Ok (Some (ellipse_ops ar rc cx cy rx ry))
  | ShLine x1 y1 x2 y2 => Ok (Some (line_ops x1 y1 x2 y2))
  | ShPoly closed d =>
      let* r := parse_poly cv d in Ok (option_map (poly_ops closed) r)
  | ShPath d =>
      let* r := parse_path ar rc cv d in Ok (option_map (map (SOp true)) r)
  end.
