(* Geom/ShapesProofs.v -- the shape emitters trace the outlines SVG defines
   (exact-rational instance). *)
From Coq Require Import QArith List Bool.
From Verif Require Import Base.F32 Geom.SvgPath Geom.Shapes Geom.SvgPathSpec.
Import ListNotations.
Open Scope Q_scope.

Notation rcE := (fun x : Q => x).

Definition sop_end (m : shape_op) : pt :=
  match m with SRect x y _ _ => (x, y) | SOp _ o => op_end o end.
Definition is_path_op (m : shape_op) : bool := match m with SOp _ _ => true | SRect _ _ _ _ => false end.

(* rect: nothing when width or height is not positive; a Rectangle call when a
   radius is zero; otherwise a path through the nine on-curve points of SVG
   1.1 9.2 (radii clamped to half the size), returning to the first one *)
Theorem rect_spec x y w h orx ory :
  match rect_outline x y w h orx ory with
  | None => rect_ops exactQ rcE x y w h orx ory = []
  | Some pts =>
      if Qeq_bool (fst (rect_radii orx ory)) 0 || Qeq_bool (snd (rect_radii orx ory)) 0
      then rect_ops exactQ rcE x y w h orx ory = [SRect x y w h]
      else map sop_end (rect_ops exactQ rcE x y w h orx ory) = pts ++ [hd (0, 0) pts] /\
           forallb is_path_op (rect_ops exactQ rcE x y w h orx ory) = true
  end.
Proof.
  unfold rect_outline, rect_ops.
  destruct (Qle_bool w 0 || Qle_bool h 0); [reflexivity|].
  assert (Hr : rect_radii orx ory =
               (match orx, ory with SomeQ a, _ => a | NoQ, SomeQ b => b | NoQ, NoQ => 0 end,
                match ory, orx with SomeQ b, _ => b | NoQ, SomeQ a => a | NoQ, NoQ => 0 end))
    by (destruct orx, ory; reflexivity).
  rewrite Hr. cbn [fst snd].
  set (rx0 := match orx, ory with SomeQ a, _ => a | NoQ, SomeQ b => b | NoQ, NoQ => 0 end).
  set (ry0 := match ory, orx with SomeQ b, _ => b | NoQ, SomeQ a => a | NoQ, NoQ => 0 end).
  destruct (Qeq_bool rx0 0 || Qeq_bool ry0 0); [reflexivity|].
  unfold Qltb, Qmin. cbn [div exactQ].
  destruct (Qle_bool rx0 (w / 2)); destruct (Qle_bool ry0 (h / 2)); cbn; split; reflexivity.
Qed.

(* ellipse / circle: nothing when a radius is zero, otherwise from (cx+rx, cy)
   through (cx, cy+ry), (cx-rx, cy), (cx, cy-ry) back to the start *)
Theorem ellipse_spec cx cy rx ry :
  match ellipse_outline cx cy rx ry with
  | None => ellipse_ops exactQ rcE cx cy rx ry = []
  | Some pts => map sop_end (ellipse_ops exactQ rcE cx cy rx ry) = pts ++ [hd (0, 0) pts] /\
                forallb is_path_op (ellipse_ops exactQ rcE cx cy rx ry) = true
  end.
Proof.
  unfold ellipse_outline, ellipse_ops.
  destruct (Qeq_bool rx 0 || Qeq_bool ry 0); [reflexivity|]. cbn. split; reflexivity.
Qed.

(* the clamping rule itself: the corner radii never exceed half the size *)
Lemma Qmin_le_r a b : Qmin a b <= b.
Proof.
  unfold Qmin. destruct (Qle_bool a b) eqn:E; [apply Qle_bool_iff; exact E|apply Qle_refl].
Qed.

Theorem line_spec x1 y1 x2 y2 :
  line_ops x1 y1 x2 y2 = [SOp true (OMove x1 y1); SOp true (OLine x2 y2)].
Proof. reflexivity. Qed.

(* polyline / polygon: a moveto to the first point, a lineto to each other
   point in order, and a closepath for the polygon only *)
Theorem poly_spec closed p ps :
  poly_ops closed (p :: ps) =
  map (SOp true) (OMove (fst p) (snd p) :: map (fun q => OLine (fst q) (snd q)) ps)
  ++ (if closed then [SOp true (OClose (fst p) (snd p))] else []).
Proof. unfold poly_ops. destruct p as [x y]. cbn [fst snd]. destruct closed; cbn [map]; rewrite ?map_app, ?app_nil_r; reflexivity. Qed.

Theorem poly_empty closed : poly_ops closed [] = [].
Proof. reflexivity. Qed.

(* parsePoly: consecutive pairs; "if the attribute contains an odd number of
   coordinates, the last one will be ignored" *)
From Coq Require Import ZArith Lia.
From Verif Require Import Base.GoSem Geom.SvgPathProofs.

Fixpoint pairs (l : list Q) : list (Q * Q) :=
  match l with
  | a :: b :: r => (a, b) :: pairs r
  | _ => []
  end.

Lemma pairs_length : forall k l, (length l <= k)%nat -> (2 * length (pairs l) <= length l)%nat /\ (length l <= 2 * length (pairs l) + 1)%nat.
Proof.
  induction k; intros l H.
  - destruct l; cbn in *; [lia|lia].
  - destruct l as [|a [|b r]]; cbn [pairs length] in *; try lia.
    destruct (IHk r); lia.
Qed.

Lemma poly_loop (pts : list Q) : forall (k : nat) (rest pre : list Q) (acc : list (Q * Q)) (fuel : nat),
  (length rest <= k)%nat -> pts = pre ++ rest -> (length pre = 2 * (length pre / 2))%nat ->
  (length (pairs rest) <= fuel)%nat ->
  for_z fuel (Z.of_nat (length pre / 2)) (Z.quot (Z.of_nat (length pts)) 2) 1
    (fun i acc => let* x := index 160 pts (2 * i) in
                  let* y := index 161 pts (2 * i + 1) in Ok ((x, y) :: acc)) acc
  = Ok (rev (pairs rest) ++ acc).
Proof.
  induction k; intros rest pre acc fuel Hk Hp Hpre Hf.
  - destruct rest; [|cbn in Hk; lia]. cbn [pairs rev app].
    rewrite app_nil_r in Hp. subst pts.
    assert (Z.quot (Z.of_nat (length pre)) 2 = Z.of_nat (length pre / 2)).
    { rewrite Z.quot_div_nonneg by lia. rewrite Nat2Z.inj_div. reflexivity. }
    rewrite H. destruct fuel; cbn [for_z]; rewrite Z.ltb_irrefl; reflexivity.
  - destruct rest as [|a [|b r]].
    + apply (IHk [] pre acc fuel); [cbn; lia|assumption|assumption|assumption].
    + (* one coordinate left: ignored *)
      cbn [pairs rev app]. subst pts. rewrite app_length. cbn [length].
      assert (Z.quot (Z.of_nat (length pre + 1)) 2 = Z.of_nat (length pre / 2)).
      { rewrite Z.quot_div_nonneg by lia.
        replace (Z.of_nat (length pre + 1)) with (1 + Z.of_nat (length pre / 2) * 2)%Z by lia.
        rewrite Z.div_add by lia. reflexivity. }
      rewrite H. destruct fuel; cbn [for_z]; rewrite Z.ltb_irrefl; reflexivity.
    + cbn [pairs rev length] in *.
      assert (Hq : (Z.of_nat (length pre / 2) < Z.quot (Z.of_nat (length pts)) 2)%Z).
      { subst pts. rewrite app_length. cbn [length]. rewrite Z.quot_div_nonneg by lia.
        replace (Z.of_nat (length pre + S (S (length r)))) with (Z.of_nat (length r) + (Z.of_nat (length pre / 2) + 1) * 2)%Z by lia.
        rewrite Z.div_add by lia. pose proof (Z.div_pos (Z.of_nat (length r)) 2). lia. }
      destruct fuel as [|fuel]; [lia|]. cbn [for_z].
      destruct (Z.ltb_spec (Z.of_nat (length pre / 2)) (Z.quot (Z.of_nat (length pts)) 2)); [|lia].
      rewrite Hp at 1.
      rewrite (index_at 160 pre a (b :: r)) by lia. cbn [bind].
      rewrite Hp at 1.
      replace (pre ++ a :: b :: r) with ((pre ++ [a]) ++ b :: r) by (rewrite <- app_assoc; reflexivity).
      rewrite (index_at 161 (pre ++ [a]) b r) by (rewrite app_length; cbn [length]; lia). cbn [bind].
      specialize (IHk r (pre ++ [a; b]) ((a, b) :: acc) fuel).
      rewrite app_length in IHk. cbn [length] in IHk.
      assert (Hd : ((length pre + 2) / 2 = length pre / 2 + 1)%nat).
      { replace (length pre + 2)%nat with (length pre + 1 * 2)%nat by lia. rewrite Nat.div_add by lia. reflexivity. }
      rewrite Hd in IHk.
      replace (Z.of_nat (length pre / 2) + 1)%Z with (Z.of_nat (length pre / 2 + 1)) by lia.
      rewrite IHk; [rewrite <- app_assoc; reflexivity|lia|rewrite Hp, <- app_assoc; reflexivity|lia|lia].
Qed.

Theorem parse_poly_spec cv d :
  parse_poly cv d = let* r := parse_points cv false d in Ok (option_map pairs r).
Proof.
  unfold parse_poly. destruct (parse_points cv false d) as [[pts|]| |]; cbn [bind]; try reflexivity.
  destruct (pairs_length (length pts) pts (le_n _)) as [P1 P2].
  pose proof (poly_loop pts (length pts) pts [] [] (S (length pts)) (le_n _) eq_refl eq_refl ltac:(lia)) as H.
  cbn [length Nat.div Nat.divmod fst Z.of_nat] in H. rewrite H. cbn [bind option_map].
  rewrite app_nil_r, rev_involutive. reflexivity.
Qed.
