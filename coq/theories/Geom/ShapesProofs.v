(* Geom/ShapesProofs.v -- the shape emitters trace the outlines SVG defines
   (exact-rational instance). *)
From Coq Require Import QArith List Bool.
From Verif Require Import Base.F32 Geom.SvgPath Geom.Shapes Geom.SvgPathSpec.
Import ListNotations.
Open Scope Q_scope.

Notation rcE := (fun x : Q => x).

Definition sop_end (m : shape_op) : pt :=
  match m with SRect x y _ _ => (x, y) | SOp _ o => op_end o end.
Definition is_path_op (m : shape_op) : bool := match m with SOp _ _ => true | SRect _ _ _ _ => false end.

(* rect: nothing when width or height is not positive; a Rectangle call when a
   radius is zero; otherwise a path through the nine on-curve points of SVG
   1.1 9.2 (radii clamped to half the size), returning to the first one *)
Theorem rect_spec x y w h orx ory :
  match rect_outline x y w h orx ory with
  | None => rect_ops exactQ rcE x y w h orx ory = []
  | Some pts =>
      if Qeq_bool (fst (rect_radii orx ory)) 0 || Qeq_bool (snd (rect_radii orx ory)) 0
      then rect_ops exactQ rcE x y w h orx ory = [SRect x y w h]
      else map sop_end (rect_ops exactQ rcE x y w h orx ory) = pts ++ [hd (0, 0) pts] /\
           forallb is_path_op (rect_ops exactQ rcE x y w h orx ory) = true
  end.
Proof.
  unfold rect_outline, rect_ops.
  destruct (Qle_bool w 0 || Qle_bool h 0); [reflexivity|].
  assert (Hr : rect_radii orx ory =
               (match orx, ory with SomeQ a, _ => a | NoQ, SomeQ b => b | NoQ, NoQ => 0 end,
                match ory, orx with SomeQ b, _ => b | NoQ, SomeQ a => a | NoQ, NoQ => 0 end))
    by (destruct orx, ory; reflexivity).
  rewrite Hr. cbn [fst snd].
  set (rx0 := match orx, ory with SomeQ a, _ => a | NoQ, SomeQ b => b | NoQ, NoQ => 0 end).
  set (ry0 := match ory, orx with SomeQ b, _ => b | NoQ, SomeQ a => a | NoQ, NoQ => 0 end).
  destruct (Qeq_bool rx0 0 || Qeq_bool ry0 0); [reflexivity|].
  unfold Qltb, Qmin. cbn [div exactQ].
  destruct (Qle_bool rx0 (w / 2)); destruct (Qle_bool ry0 (h / 2)); cbn; split; reflexivity.
Qed.

(* ellipse / circle: nothing when a radius is zero, otherwise from (cx+rx, cy)
   through (cx, cy+ry), (cx-rx, cy), (cx, cy-ry) back to the start *)
Theorem ellipse_spec cx cy rx ry :
  match ellipse_outline cx cy rx ry with
  | None => ellipse_ops exactQ rcE cx cy rx ry = []
  | Some pts => map sop_end (ellipse_ops exactQ rcE cx cy rx ry) = pts ++ [hd (0, 0) pts] /\
                forallb is_path_op (ellipse_ops exactQ rcE cx cy rx ry) = true
  end.
Proof.
  unfold ellipse_outline, ellipse_ops.
  destruct (Qeq_bool rx 0 || Qeq_bool ry 0); [reflexivity|]. cbn. split; reflexivity.
Qed.

(* the clamping rule itself: the corner radii never exceed half the size *)
Lemma Qmin_le_r a b : Qmin a b <= b.
Proof.
  unfold Qmin. destruct (Qle_bool a b) eqn:E; [apply Qle_bool_iff; exact E|apply Qle_refl].
Qed.

Theorem line_spec x1 y1 x2 y2 :
  line_ops x1 y1 x2 y2 = [SOp true (OMove x1 y1); SOp true (OLine x2 y2)].
Proof. reflexivity. Qed.

(* polyline / polygon: a moveto to the first point, a lineto to each other
   point in order, and a closepath for the polygon only *)
Theorem poly_spec closed p ps :
  poly_ops closed (p :: ps) =
  map (SOp true) (OMove (fst p) (snd p) :: map (fun q => OLine (fst q) (snd q)) ps)
  ++ (if closed then [SOp true (OClose (fst p) (snd p))] else []).
Proof. unfold poly_ops. destruct p as [x y]. cbn [fst snd]. destruct closed; cbn [map]; rewrite ?map_app, ?app_nil_r; reflexivity. Qed.

Theorem poly_empty closed : poly_ops closed [] = [].
Proof. reflexivity. Qed.
