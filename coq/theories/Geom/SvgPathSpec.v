(* Geom/SvgPathSpec.v -- SVG 1.1 section 8.3 (path data) as a denotational
   semantics over the abstract command list, SVG 1.1 section 9 / SVG 2 section
   10 (basic shapes) as sequences of on-curve points, and the number grammar.
   Independent of the code: no flat coordinate arrays, no index arithmetic, no
   `lastKey` byte -- a command with several argument groups is first expanded
   into single-group primitives (8.3.1: "the command letter can be eliminated
   on subsequent commands", 8.3.2: extra moveto pairs are linetos), every
   primitive is interpreted against the current point, the sub-path start and
   the control point left by the previous primitive. *)
From Coq Require Import QArith List Bool NArith ZArith.
From Verif Require Import Geom.SvgPath Geom.Shapes.
Import ListNotations.
Open Scope Q_scope.

Definition pt := (Q * Q)%type.

Record arc_arg := mkarc {
  a_rx : Q; a_ry : Q; a_rot : Q; a_large : Q; a_sweep : Q; a_to : pt
}.

(* a command letter followed by one or more argument groups *)
Inductive cmd :=
| CMove (rel : bool) (p : pt) (more : list pt)
| CLine (rel : bool) (p : pt) (more : list pt)
| CHoriz (rel : bool) (x : Q) (more : list Q)
| CVert (rel : bool) (y : Q) (more : list Q)
| CCubic (rel : bool) (g : pt * pt * pt) (more : list (pt * pt * pt))      (* c1, c2, end *)
| CSmooth (rel : bool) (g : pt * pt) (more : list (pt * pt))               (* c2, end *)
| CQuad (rel : bool) (g : pt * pt) (more : list (pt * pt))                 (* c, end *)
| CSmoothQuad (rel : bool) (p : pt) (more : list pt)
| CArc (rel : bool) (a : arc_arg) (more : list arc_arg)
| CClose (rel : bool).                                                     (* Z / z *)

(* one command, one argument group *)
Inductive prim :=
| PMove (rel : bool) (p : pt)
| PLine (rel : bool) (p : pt)
| PHoriz (rel : bool) (x : Q)
| PVert (rel : bool) (y : Q)
| PCubic (rel : bool) (c1 c2 p : pt)
| PSmooth (rel : bool) (c2 p : pt)
| PQuad (rel : bool) (c p : pt)
| PSmoothQuad (rel : bool) (p : pt)
| PArc (rel : bool) (a : arc_arg)
| PClose.

(* 8.3.2: "If a moveto is followed by multiple pairs of coordinates, the
   subsequent pairs are treated as implicit lineto commands", relative if the
   moveto is relative; every other command repeats itself *)
Definition expand (c : cmd) : list prim :=
  match c with
  | CMove rel p more => PMove rel p :: map (PLine rel) more
  | CLine rel p more => map (PLine rel) (p :: more)
  | CHoriz rel x more => map (PHoriz rel) (x :: more)
  | CVert rel y more => map (PVert rel) (y :: more)
  | CCubic rel g more => map (fun g => PCubic rel (fst (fst g)) (snd (fst g)) (snd g)) (g :: more)
  | CSmooth rel g more => map (fun g => PSmooth rel (fst g) (snd g)) (g :: more)
  | CQuad rel g more => map (fun g => PQuad rel (fst g) (snd g)) (g :: more)
  | CSmoothQuad rel p more => map (PSmoothQuad rel) (p :: more)
  | CArc rel a more => map (PArc rel) (a :: more)
  | CClose _ => [PClose]
  end.

(* the control point the previous primitive left behind *)
Inductive ctl := NoCtl | CubicCtl (c : pt) | QuadCtl (c : pt).

Record sstate := mks {
  cur : pt;            (* current point *)
  start : pt;          (* initial point of the current sub-path *)
  prev : ctl;
  opened : bool        (* a moveto has been seen *)
}.

Definition s0 : sstate := mks (0, 0) (0, 0) NoCtl false.

(* relative coordinates are offsets from the current point (at the start of
   the primitive, i.e. per argument group) *)
Definition to_abs (rel : bool) (c : pt) (p : pt) : pt :=
  if rel then (fst p + fst c, snd p + snd c) else p.
Definition reflect (c : pt) (k : pt) : pt := (fst c * 2 - fst k, snd c * 2 - snd k).
Definition pt_eqb (a b : pt) : bool := Qeq_bool (fst a) (fst b) && Qeq_bool (snd a) (snd b).

(* 8.3.6 / implementation notes: quadratic (p0, q, p2) elevated to the cubic
   (p0, p0 + 2/3 (q - p0), p2 + 2/3 (q - p2), p2) *)
Definition elevate (p0 q p2 : pt) : op :=
  OCubic (fst p0 + (2 # 3) * (fst q - fst p0)) (snd p0 + (2 # 3) * (snd q - snd p0))
         (fst p2 + (2 # 3) * (fst q - fst p2)) (snd p2 + (2 # 3) * (snd q - snd p2))
         (fst p2) (snd p2).

Definition sem (s : sstate) (p : prim) : list op * sstate :=
  let c := cur s in
  match p with
  | PMove rel p =>
      let p' := to_abs rel c p in
      ([OMove (fst p') (snd p')], mks p' p' NoCtl true)
  | PLine rel p =>
      let p' := to_abs rel c p in
      ([OLine (fst p') (snd p')], mks p' (start s) NoCtl (opened s))
  | PHoriz rel x =>
      let x' := if rel then fst c + x else x in
      ([OLine x' (snd c)], mks (x', snd c) (start s) NoCtl (opened s))
  | PVert rel y =>
      let y' := if rel then snd c + y else y in
      ([OLine (fst c) y'], mks (fst c, y') (start s) NoCtl (opened s))
  | PCubic rel c1 c2 p =>
      let c1' := to_abs rel c c1 in
      let c2' := to_abs rel c c2 in
      let p' := to_abs rel c p in
      ([OCubic (fst c1') (snd c1') (fst c2') (snd c2') (fst p') (snd p')],
       mks p' (start s) (CubicCtl c2') (opened s))
  | PSmooth rel c2 p =>
      (* 8.3.6: first control point = reflection of the second control point of
         the previous command if it was C/c/S/s, else the current point *)
      let c1' := match prev s with CubicCtl k => reflect c k | _ => c end in
      let c2' := to_abs rel c c2 in
      let p' := to_abs rel c p in
      ([OCubic (fst c1') (snd c1') (fst c2') (snd c2') (fst p') (snd p')],
       mks p' (start s) (CubicCtl c2') (opened s))
  | PQuad rel q p =>
      let q' := to_abs rel c q in
      let p' := to_abs rel c p in
      ([elevate c q' p'], mks p' (start s) (QuadCtl q') (opened s))
  | PSmoothQuad rel p =>
      (* 8.3.7: control point = reflection of the previous command's control
         point if it was Q/q/T/t, else the current point *)
      let q' := match prev s with QuadCtl k => reflect c k | _ => c end in
      let p' := to_abs rel c p in
      ([elevate c q' p'], mks p' (start s) (QuadCtl q') (opened s))
  | PArc rel a =>
      let p' := to_abs rel c (a_to a) in
      (* F.6.2: identical end points: the segment is omitted; rx = 0 or ry = 0:
         a straight line *)
      if pt_eqb p' c then ([], mks c (start s) NoCtl (opened s))
      else if Qeq_bool (a_rx a) 0 || Qeq_bool (a_ry a) 0
           then ([OLine (fst p') (snd p')], mks p' (start s) NoCtl (opened s))
           else ([OArc (fst c) (snd c) (a_rx a) (a_ry a) (a_rot a) (a_large a) (a_sweep a) (fst p') (snd p')],
                 mks p' (start s) NoCtl (opened s))
  | PClose =>
      (* 8.3.3: closes the current sub-path; the next sub-path starts at the
         same initial point.  Before any moveto (not valid path data) nothing
         is drawn. *)
      if opened s then ([OClose (fst (start s)) (snd (start s))], mks (start s) (start s) NoCtl true)
      else ([], mks c (start s) NoCtl false)
  end.

Fixpoint run (s : sstate) (ps : list prim) : list op :=
  match ps with
  | [] => []
  | p :: r => let '(o, s') := sem s p in o ++ run s' r
  end.

Definition denote (cs : list cmd) : list op := run s0 (flat_map expand cs).

(* ------------------------------------------------------------------ *)
(* the concrete form the interpreter receives: command letter, numbers *)
Definition letter (lower : N) (rel : bool) : N := if rel then lower else (lower - 32)%N.
Definition flat_pt (p : pt) : list Q := [fst p; snd p].
Definition flat_arc (a : arc_arg) : list Q :=
  [a_rx a; a_ry a; a_rot a; a_large a; a_sweep a; fst (a_to a); snd (a_to a)].

Definition flatten (c : cmd) : N * list Q :=
  match c with
  | CMove rel p more => (letter 109 rel, flat_map flat_pt (p :: more))
  | CLine rel p more => (letter 108 rel, flat_map flat_pt (p :: more))
  | CHoriz rel x more => (letter 104 rel, x :: more)
  | CVert rel y more => (letter 118 rel, y :: more)
  | CCubic rel g more =>
      (letter 99 rel, flat_map (fun g => flat_pt (fst (fst g)) ++ flat_pt (snd (fst g)) ++ flat_pt (snd g)) (g :: more))
  | CSmooth rel g more => (letter 115 rel, flat_map (fun g => flat_pt (fst g) ++ flat_pt (snd g)) (g :: more))
  | CQuad rel g more => (letter 113 rel, flat_map (fun g => flat_pt (fst g) ++ flat_pt (snd g)) (g :: more))
  | CSmoothQuad rel p more => (letter 116 rel, flat_map flat_pt (p :: more))
  | CArc rel a more => (letter 97 rel, flat_map flat_arc (a :: more))
  | CClose rel => (letter 122 rel, [])
  end.

(* ------------------------------------------------------------------ *)
(* number grammar (SVG 1.1 8.3.9 BNF, Go-independent):
     number   ::= sign? (digits ("." digits?)? | "." digits) exponent?
     exponent ::= ("e" | "E") sign? digits
   denoting  (-1)^s * (int.frac) * 10^exp.   A literal is described by its parts. *)
Record literal := mklit {
  l_neg : bool; l_plus : bool;        (* explicit sign: '-' / '+' / none *)
  l_int : list N; l_dot : bool; l_frac : list N;    (* digit values 0..9 *)
  l_exp : option (bool * bool * list N * bool)      (* upper-case E?, negative?, digits, explicit '+'? *)
}.

Definition digits_ok (l : list N) : bool := forallb (fun d => (d <? 10)%N) l.
Definition lit_ok (l : literal) : bool :=
  digits_ok (l_int l) && digits_ok (l_frac l) &&
  negb (l_neg l && l_plus l) &&
  (match l_int l, l_frac l with [], [] => false | _, _ => true end) &&
  (l_dot l || match l_frac l with [] => true | _ => false end) &&
  match l_exp l with
  | None => true
  | Some (_, neg, ds, plus) => digits_ok ds && negb (neg && plus) && match ds with [] => false | _ => true end
  end.

Definition digits_val (l : list N) : Z := fold_left (fun a d => (a * 10 + Z.of_N d)%Z) l 0%Z.
Definition spell_digits (l : list N) : list N := map (fun d => (d + 48)%N) l.

Definition lit_spelling (l : literal) : list N :=
  (if l_neg l then [45%N] else if l_plus l then [43%N] else []) ++
  spell_digits (l_int l) ++ (if l_dot l then [46%N] else []) ++ spell_digits (l_frac l) ++
  match l_exp l with
  | None => []
  | Some (upper, neg, ds, plus) =>
      (if upper then 69%N else 101%N) :: (if neg then [45%N] else if plus then [43%N] else []) ++ spell_digits ds
  end.

(* mantissa and decimal exponent of the denoted value m * 10^e *)
Definition lit_value (l : literal) : Z * Z :=
  let m := digits_val (l_int l ++ l_frac l) in
  let e := match l_exp l with
           | None => 0%Z
           | Some (_, neg, ds, _) => if neg then (- digits_val ds)%Z else digits_val ds
           end in
  (if l_neg l then (- m)%Z else m, (e - Z.of_nat (length (l_frac l)))%Z).

(* ------------------------------------------------------------------ *)
(* basic shapes: the on-curve points of the outline, in drawing order
   (SVG 1.1 9.2 rect with the rx / ry clamping rules, SVG 2 10.3 / 10.4 for the
   ellipse's starting point and direction, 9.5 - 9.7) *)
Definition Qmin (a b : Q) : Q := if Qle_bool a b then a else b.

Definition rect_outline (x y w h : Q) (orx ory : oq) : option (list pt) :=
  (* "a value of zero disables rendering"; negative is an error *)
  if Qle_bool w 0 || Qle_bool h 0 then None else
  (* a missing rx takes ry's value and conversely; both missing: 0 *)
  let rx0 := match orx, ory with SomeQ a, _ => a | NoQ, SomeQ b => b | NoQ, NoQ => 0 end in
  let ry0 := match ory, orx with SomeQ b, _ => b | NoQ, SomeQ a => a | NoQ, NoQ => 0 end in
  (* "if rx is greater than half of width, then set rx to half of width" *)
  let rx := Qmin rx0 (w / 2) in
  let ry := Qmin ry0 (h / 2) in
  Some [ (x + rx, y); (x + w - rx, y); (x + w, y + ry); (x + w, y + h - ry);
         (x + w - rx, y + h); (x + rx, y + h); (x, y + h - ry); (x, y + ry); (x + rx, y) ].

Definition ellipse_outline (cx cy rx ry : Q) : option (list pt) :=
  if Qeq_bool rx 0 || Qeq_bool ry 0 then None else
  Some [ (cx + rx, cy); (cx, cy + ry); (cx - rx, cy); (cx, cy - ry); (cx + rx, cy) ].

(* the on-curve point an op ends at *)
Definition op_end (o : op) : pt :=
  match o with
  | OMove x y | OLine x y | OClose x y => (x, y)
  | OCubic _ _ _ _ x y => (x, y)
  | OArc _ _ _ _ _ _ _ x y => (x, y)
  end.
