(* Layout/PageLoopLater.v -- termination and panic-freedom of EVERY round of the
   re-pagination loop (layout.go 138-178), including the rounds after the first
   one, where makeAllPages (pages.go 997-1034) re-uses the pages of the previous
   round that are still up to date.

   Measure.  B = F + 3 + 2 * mu None bounds the first-round measure W of page 0.
   Invariant of the pageMaker, item by item (not link by link, so a stale item
   left behind by a previous round is covered too):
       item j has a non-nil resume point  ->  F + 2 + 2*mu(resume) + mismatch + j <= B
   and of the loop state (i, pageMaker[i], fn):   W i pageMaker[i] fn + i <= B.
   A re-made page writes pageMaker[i+1] with W strictly smaller (step_decreases
   of the first round) or keeps the old item, which satisfies the item invariant
   (ResumeStack.Equals only has to agree on nil / non-nil, which resume_eqb does
   by construction: no hypothesis on R_eqb); a re-used page moves to
   pageMaker[i+1], non-nil, covered by the item invariant.  Hence i <= B.
   len(pageMaker) = len(pages) + 1 between rounds makes pageMaker[i+1] of the
   re-use branch (site 1019) an index in range. *)
From Verif Require Import Base.GoSem Layout.PageLoop Layout.PageLoopProofs.
From Coq Require Import List Arith Bool Lia.
Import ListNotations.

Lemma set_nth_length {A} (x : A) : forall l n, length (set_nth l n x) = length l.
Proof. induction l as [|a l IH]; intros [|n]; simpl; auto. Qed.

Lemma nth_error_set_nth_eq {A} (x : A) : forall l n, n < length l ->
  nth_error (set_nth l n x) n = Some x.
Proof.
  induction l as [|a l IH]; intros [|n] H; simpl in *; try lia; auto. apply IH. lia.
Qed.

Lemma nth_error_set_nth_neq {A} (x : A) : forall l n j, j <> n ->
  nth_error (set_nth l n x) j = nth_error l j.
Proof.
  induction l as [|a l IH]; intros [|n] [|j] H; simpl in *; auto; try congruence.
Qed.

Lemma nth_error_firstn_some {A} : forall n (l : list A) j a,
  nth_error (firstn n l) j = Some a -> nth_error l j = Some a.
Proof.
  induction n as [|n IH]; intros [|b l] [|j] a H; simpl in *; try discriminate; auto.
Qed.

Lemma idx_ok {A} site (l : list A) n a : nth_error l n = Some a -> idx site l n = Ok a.
Proof. unfold idx. now intros ->. Qed.

Section Later.
  Variable R : Type.
  Variable R_eqb : R -> R -> bool.
  Variable layout_content : option R -> nat -> (option R * brk * nat) * (bool * bool).
  Variable layout_blank : nat -> nat * (bool * bool).
  Variable state_changed : nat -> bool.
  Variable mu : option R -> nat.
  Variable F : nat.

  Hypothesis H_progress : forall r fn r' b fn' fl,
    layout_content r fn = ((Some r', b, fn'), fl) -> mu (Some r') < mu r.
  Hypothesis H_fn_content : forall r fn r' b fn' fl,
    layout_content r fn = ((r', b, fn'), fl) -> fn' <= F.
  Hypothesis H_fn_blank : forall fn fn' fl,
    layout_blank fn = (fn', fl) -> fn' <= fn /\ (0 < fn -> fn' < fn).

  Notation item := (item R).
  Notation remake_page := (remake_page R R_eqb layout_content layout_blank state_changed).
  Notation make_all_pages := (make_all_pages R R_eqb layout_content layout_blank state_changed).
  Notation layout_document := (layout_document R R_eqb layout_content layout_blank state_changed).
  Notation page_step := (page_step R layout_content layout_blank).
  Notation W := (W R mu F).
  Notation live := (live R).

  (* remakePage at ANY index of the pageMaker (PageLoopProofs.remake_page_last is
     the special case of the last index): what it returns and what it writes *)
  Lemma remake_page_spec i pm (it : item) fn :
    nth_error pm i = Some it ->
    exists pg ra nb fn' cc pw,
      page_step it fn = (pg, ra, nb, fn', (cc, pw)) /\
      exists pm2,
        remake_page i pm fn = Ok (pg, ra, fn', pm2) /\
        length pm <= length pm2 /\ i + 2 <= length pm2 /\
        (forall j, j <> i -> j <> i + 1 -> nth_error pm2 j = nth_error pm j) /\
        nth_error pm2 i = Some (mk_item (i_resume it) (i_brk it) (i_right it) cc pw) /\
        exists nx, nth_error pm2 (i + 1) = Some nx /\
          (nx = mk_item ra nb (negb (i_right it)) (is_some ra) false \/
           (nth_error pm (i + 1) = Some nx /\ resume_eqb R R_eqb (i_resume nx) ra = true)).
  Proof.
    intros Hi.
    assert (Hlt : i < length pm) by (apply nth_error_Some; congruence).
    assert (Tail : forall (pg : page) (ra : option R) (nb : brk) (fn' : nat) (cc pw : bool),
      exists pm2 : list item,
      (let pm1 := set_nth pm i (mk_item (i_resume it) (i_brk it) (i_right it) cc pw) in
       let right' := negb (i_right it) in
       let* next_changed :=
         if length pm1 <=? i + 1 then Ok true
         else
           let* next := idx 966 pm1 (i + 1) in
           Ok (negb (resume_eqb R R_eqb (i_resume next) ra) || negb (brk_eqb (i_brk next) nb)
               || negb (Bool.eqb (i_right next) right') || state_changed i) in
       let pm2 :=
         if next_changed then
           let it' := mk_item ra nb right' (is_some ra) false in
           if length pm1 <=? i + 1 then pm1 ++ [it'] else set_nth pm1 (i + 1) it'
         else pm1 in
       Ok (pg, ra, fn', pm2)) = Ok (pg, ra, fn', pm2) /\
      length pm <= length pm2 /\ i + 2 <= length pm2 /\
      (forall j, j <> i -> j <> i + 1 -> nth_error pm2 j = nth_error pm j) /\
      nth_error pm2 i = Some (mk_item (i_resume it) (i_brk it) (i_right it) cc pw) /\
      exists nx, nth_error pm2 (i + 1) = Some nx /\
        (nx = mk_item ra nb (negb (i_right it)) (is_some ra) false \/
         (nth_error pm (i + 1) = Some nx /\ resume_eqb R R_eqb (i_resume nx) ra = true))).
    { intros pg ra nb fn' cc pw. cbv zeta.
      set (pm1 := set_nth pm i _).
      assert (Hl1 : length pm1 = length pm) by apply set_nth_length.
      assert (Hi1 : nth_error pm1 i = Some (mk_item (i_resume it) (i_brk it) (i_right it) cc pw))
        by (apply nth_error_set_nth_eq; exact Hlt).
      assert (Hn1 : forall j, j <> i -> nth_error pm1 j = nth_error pm j)
        by (intros j Hj; apply nth_error_set_nth_neq; exact Hj).
      destruct (length pm1 <=? i + 1) eqn:Hlen.
      - apply Nat.leb_le in Hlen. cbn [bind]. eexists. split; [reflexivity|].
        rewrite app_length. cbn [length]. repeat split; try lia.
        + intros j Hj Hj'. destruct (lt_dec j (length pm1)) as [Hs|Hs].
          * rewrite nth_error_app1 by exact Hs. now apply Hn1.
          * rewrite (proj2 (nth_error_None _ _)) by (rewrite app_length; cbn [length]; lia).
            symmetry. apply nth_error_None. lia.
        + rewrite nth_error_app1 by lia. exact Hi1.
        + eexists. split; [|left; reflexivity].
          rewrite nth_error_app2 by lia. replace (i + 1 - length pm1) with 0 by lia. reflexivity.
      - apply Nat.leb_gt in Hlen.
        destruct (nth_error pm1 (i + 1)) as [next|] eqn:Hnx;
          [|apply nth_error_None in Hnx; lia].
        rewrite (idx_ok _ _ _ _ Hnx). cbn [bind].
        assert (Hnx0 : nth_error pm (i + 1) = Some next) by (rewrite <- Hn1 by lia; exact Hnx).
        destruct (negb (resume_eqb R R_eqb (i_resume next) ra) || negb (brk_eqb (i_brk next) nb)
                  || negb (Bool.eqb (i_right next) (negb (i_right it))) || state_changed i) eqn:Hch.
        + eexists. split; [reflexivity|]. rewrite set_nth_length. repeat split; try lia.
          * intros j Hj Hj'. rewrite nth_error_set_nth_neq by exact Hj'. now apply Hn1.
          * rewrite nth_error_set_nth_neq by lia. exact Hi1.
          * eexists. split; [apply nth_error_set_nth_eq; lia | left; reflexivity].
        + eexists. split; [reflexivity|]. repeat split; try lia.
          * intros j Hj _. now apply Hn1.
          * exact Hi1.
          * exists next. split; [exact Hnx|]. right. split; [exact Hnx0|].
            apply orb_false_iff in Hch as [Hch _]. apply orb_false_iff in Hch as [Hch _].
            apply orb_false_iff in Hch as [Hch _]. now apply negb_false_iff in Hch. }
    unfold PageLoop.remake_page, PageLoopProofs.page_step.
    rewrite (idx_ok _ _ _ _ Hi). cbn [bind].
    destruct (side_mismatch (i_brk it) (i_right it) || (negb (fn =? 0) && is_none (i_resume it))).
    - destruct (layout_blank fn) as [fn' [cc pw]].
      do 6 eexists. split; [reflexivity|]. apply Tail.
    - destruct (layout_content (i_resume it) fn) as [[[r' b'] fn'] [cc pw]].
      do 6 eexists. split; [reflexivity|]. apply Tail.
  Qed.

  (* ---- the invariant of the pageMaker *)
  Definition B : nat := F + 3 + 2 * mu None.

  Definition item_weight (it : item) : nat :=
    F + 2 + 2 * mu (i_resume it) + (if side_mismatch (i_brk it) (i_right it) then 1 else 0).

  Definition good_item (j : nat) (it : item) : Prop :=
    is_some (i_resume it) = true -> item_weight it + j <= B.

  Definition good_pm (pm : list item) : Prop :=
    (forall it, nth_error pm 0 = Some it -> i_resume it = None) /\
    (forall j it, nth_error pm j = Some it -> good_item j it).

  Definition same_core (x y : item) : Prop :=
    i_resume x = i_resume y /\ i_brk x = i_brk y /\ i_right x = i_right y.

  Lemma W_some i (it : item) fn : is_some (i_resume it) = true -> W i it fn = item_weight it.
  Proof. intros H. unfold PageLoopProofs.W, item_weight. now rewrite H, orb_true_r. Qed.

  Lemma W_none i (it : item) fn : is_some (i_resume it) = false -> W (S i) it fn = fn.
  Proof. intros H. unfold PageLoopProofs.W. now rewrite H. Qed.

  Lemma W_first (it : item) fn : i_resume it = None -> W 0 it fn <= B.
  Proof.
    intros H. unfold PageLoopProofs.W, B. rewrite H. cbn [Nat.eqb orb].
    destruct (side_mismatch (i_brk it) (i_right it)); lia.
  Qed.

  Lemma good_pm_update (pm pm' : list item) :
    good_pm pm ->
    (forall j x, nth_error pm' j = Some x ->
       (exists y, nth_error pm j = Some y /\ same_core x y) \/ (1 <= j /\ good_item j x)) ->
    good_pm pm'.
  Proof.
    intros [G0 G] H. split.
    - intros x Hx. destruct (H _ _ Hx) as [(y & Hy & Hr & _)|[Hj _]]; [|lia].
      rewrite Hr. now apply G0.
    - intros j x Hx. destruct (H _ _ Hx) as [(y & Hy & Hr & Hb & Hs)|[_ Hg]]; [|exact Hg].
      specialize (G _ _ Hy). unfold good_item, item_weight in *. rewrite Hr, Hb, Hs. exact G.
  Qed.

  Lemma same_core_refl x : same_core x x.
  Proof. now repeat split. Qed.

  Lemma good_pm_firstn n pm : good_pm pm -> good_pm (firstn n pm).
  Proof.
    intros G. apply (good_pm_update pm); [exact G|].
    intros j x Hx. left. exists x. split; [now apply nth_error_firstn_some in Hx | apply same_core_refl].
  Qed.

  (* resetting / setting the RemakeState flags of item i *)
  Lemma good_pm_flags pm i (it : item) c w :
    good_pm pm -> nth_error pm i = Some it ->
    good_pm (set_nth pm i (mk_item (i_resume it) (i_brk it) (i_right it) c w)).
  Proof.
    intros G Hi. apply (good_pm_update pm); [exact G|].
    intros j x Hx. left. destruct (Nat.eq_dec j i) as [->|Hne].
    - rewrite nth_error_set_nth_eq in Hx by (apply nth_error_Some; congruence).
      inversion Hx; subst. exists it. split; [exact Hi | now repeat split].
    - rewrite nth_error_set_nth_neq in Hx by exact Hne. exists x. split; [exact Hx | apply same_core_refl].
  Qed.

  Lemma resume_eqb_is_some (a b : option R) :
    resume_eqb R R_eqb a b = true -> is_some a = is_some b.
  Proof. destruct a, b; cbn; congruence. Qed.

  (* one re-made page, at any index, in any round: no panic, the invariant is
     kept, and the loop either stops or goes on from a state below the bound *)
  Lemma remake_step i pm (it : item) fn :
    good_pm pm -> nth_error pm i = Some it -> fn <= F -> live i it fn = true ->
    W i it fn + i <= B ->
    exists pg ra fn' pm2,
      remake_page i pm fn = Ok (pg, ra, fn', pm2) /\
      good_pm pm2 /\ length pm <= length pm2 /\ i + 2 <= length pm2 /\ fn' <= F /\
      (is_none ra && (fn' =? 0) = false ->
       exists nx, nth_error pm2 (i + 1) = Some nx /\ live (i + 1) nx fn' = true /\
                  W (i + 1) nx fn' + (i + 1) <= B).
  Proof.
    intros G Hi HF Hlive HW.
    destruct (remake_page_spec i pm it fn Hi)
      as (pg & ra & nb & fn' & cc & pw & Hstep & pm2 & Hrm & Hlen & Hlen2 & Hother & Hith & nx & Hnx & Hcase).
    destruct (step_decreases R layout_content layout_blank mu F H_progress H_fn_content H_fn_blank
                _ _ _ _ _ _ _ _ HF Hlive Hstep) as [HF' Hdec].
    cbv zeta in Hdec. rewrite Nat.add_1_r in *.
    set (it' := mk_item ra nb (negb (i_right it)) (is_some ra) false) in *.
    assert (Hit' : is_some ra = true -> item_weight it' + S i <= B).
    { intros Hs. destruct Hdec as [_ Hw]; [destruct ra; [reflexivity|discriminate]|].
      rewrite (W_some (S i) it' fn') in Hw by exact Hs. lia. }
    exists pg, ra, fn', pm2. split; [exact Hrm|]. split; [|repeat split; try lia].
    - apply (good_pm_update pm); [exact G|]. intros j x Hx.
      destruct (Nat.eq_dec j i) as [->|Hne]; [|destruct (Nat.eq_dec j (S i)) as [->|Hne']].
      + rewrite Hith in Hx. inversion Hx; subst. left. exists it. split; [exact Hi | now repeat split].
      + rewrite Hnx in Hx. inversion Hx; subst x. destruct Hcase as [->|[Hold _]].
        * right. split; [lia|]. exact Hit'.
        * left. exists nx. split; [exact Hold | apply same_core_refl].
      + rewrite Hother in Hx by lia. left. exists x. split; [exact Hx | apply same_core_refl].
    - intros Hcont. destruct (Hdec Hcont) as [Hl Hw]. exists nx. split; [exact Hnx|].
      destruct Hcase as [->|[Hold Heq]]; [split; [exact Hl | lia]|].
      apply resume_eqb_is_some in Heq.
      destruct (is_some (i_resume nx)) eqn:Hs.
      + split; [unfold PageLoopProofs.live; now rewrite Hs, orb_true_r|].
        rewrite W_some by exact Hs. destruct G as [_ G]. exact (G _ _ Hold Hs).
      + split.
        * unfold PageLoopProofs.live in *. cbn [i_resume it'] in Hl. rewrite Hs, Heq. exact Hl.
        * rewrite W_none by exact Hs. rewrite (W_none i it' fn') in Hw by (symmetry; exact Heq). lia.
  Qed.

  (* ANY ROUND of makeAllPages (old = len(pages) of the previous round, 0 on the
     first one) from a state below the bound: returns, without panic, keeps the
     invariant, and len(pageMaker) = len(pages) + 1 on return *)
  Lemma later_round_loop : forall fuel pm old fn i out (it : item),
    good_pm pm -> old < length pm -> nth_error pm i = Some it ->
    fn <= F -> live i it fn = true -> W i it fn + i <= B -> length out = i ->
    B + 1 - i <= fuel ->
    exists pm' out', make_all_pages fuel pm old fn i out = Ok (pm', out') /\
      good_pm pm' /\ length pm' = length out' + 1.
  Proof.
    induction fuel as [|fuel IH]; intros pm old fn i out it G Hold Hi HF Hlive HW Hout Hfuel; [lia|].
    cbn [PageLoop.make_all_pages]. rewrite (idx_ok _ _ _ _ Hi). cbn [bind].
    assert (Hlt : i < length pm) by (apply nth_error_Some; congruence).
    destruct ((old =? 0) || (old <=? i) || i_changed it || i_wanted it) eqn:Hc.
    - (* the page is made *)
      set (it1 := mk_item (i_resume it) (i_brk it) (i_right it) false false).
      assert (Hi1 : nth_error (set_nth pm i it1) i = Some it1) by (now apply nth_error_set_nth_eq).
      destruct (remake_step i (set_nth pm i it1) it1 fn (good_pm_flags pm i it false false G Hi)
                  Hi1 HF Hlive HW)
        as (pg & ra & fn' & pm2 & Hrm & G2 & Hlen & Hlen2 & HF' & Hnext).
      rewrite set_nth_length in Hlen. rewrite Hrm. cbn [bind].
      destruct (is_none ra && (fn' =? 0)) eqn:Hcont.
      + do 2 eexists. split; [reflexivity|]. split; [now apply good_pm_firstn|].
        rewrite firstn_length, app_length. cbn [length]. lia.
      + destruct (Hnext eq_refl) as (nx & Hnx & Hl & Hw).
        apply (IH pm2 old fn' (i + 1) (out ++ [pg]) nx); try assumption; try lia.
        rewrite app_length. cbn [length]. lia.
    - (* the page of the previous round is re-used *)
      apply orb_false_iff in Hc as [Hc Hw]. apply orb_false_iff in Hc as [Hc Hch].
      apply orb_false_iff in Hc as [H0 Hoi]. apply Nat.leb_gt in Hoi.
      destruct (nth_error pm (i + 1)) as [next|] eqn:Hnx; [|apply nth_error_None in Hnx; lia].
      rewrite (idx_ok _ _ _ _ Hnx). cbn [bind].
      replace (i <? old) with true by (symmetry; apply Nat.ltb_lt; exact Hoi). cbn [bind].
      destruct (i_resume next) as [r|] eqn:Hr; cbn [is_none andb Nat.eqb].
      + assert (Hs : is_some (i_resume next) = true) by (now rewrite Hr).
        apply (IH pm old fn (i + 1) (out ++ [PContent]) next); try assumption; try lia.
        * unfold PageLoopProofs.live. now rewrite Hs, orb_true_r.
        * rewrite W_some by exact Hs. destruct G as [_ G]. exact (G _ _ Hnx Hs).
        * rewrite app_length. cbn [length]. lia.
      + do 2 eexists. split; [reflexivity|]. split; [now apply good_pm_firstn|].
        rewrite firstn_length, app_length. cbn [length]. lia.
  Qed.

  (* ---- between two rounds (layout.go 147-176) *)
  Definition round_inv (pm : list item) (pages : list page) : Prop :=
    good_pm pm /\ length pm = length pages + 1.

  Notation fuel0 := (first_round_fuel R mu F).

  Theorem round_terminates pm pages :
    round_inv pm pages ->
    exists pm' pages',
      make_all_pages fuel0 pm (length pages) 0 0 [] = Ok (pm', pages') /\ round_inv pm' pages'.
  Proof.
    intros [G Hlen]. destruct pm as [|it0 pm]; [cbn [length] in Hlen; lia|].
    apply (later_round_loop fuel0 (it0 :: pm) (length pages) 0 0 [] it0); try reflexivity; try lia.
    - exact G.
    - pose proof (W_first it0 0 (proj1 G it0 eq_refl)). lia.
    - unfold first_round_fuel, B. lia.
  Qed.

  Lemma initial_round_inv b right : round_inv (initial_page_maker R b right) [].
  Proof.
    unfold initial_page_maker. split; [split|reflexivity].
    - intros it H. cbn in H. inversion H; subst. reflexivity.
    - intros [|j] it H; cbn in H.
      + inversion H; subst. intros Hs. discriminate.
      + destruct j; discriminate.
  Qed.

  Lemma doc_loop_terminates : forall k rounds pm pages,
    round_inv pm pages ->
    exists r, doc_loop R (fun pm old => make_all_pages fuel0 pm old 0 0 []) k rounds pm pages = Ok r.
  Proof.
    induction k as [|k IH]; intros rounds pm pages Hinv; cbn [PageLoop.doc_loop]; [eauto|].
    destruct (round_terminates pm pages Hinv) as (pm1 & pages1 & Heq & Hinv1).
    rewrite Heq. cbn [bind].
    destruct (negb (existsb i_changed pm1) &&
              negb (existsb i_wanted pm1 && negb (length pages =? length pages1))); eauto.
  Qed.

  (* EVERY round of the re-pagination loop returns without panic within the
     fuel of the first round, whatever flags the pages set and whatever pages
     are re-used: layoutDocument returns *)
  Theorem later_rounds_terminate : forall max_loops b right,
    exists r, layout_document fuel0 max_loops b right = Ok r.
  Proof.
    intros ml b right. unfold PageLoop.layout_document.
    apply doc_loop_terminates. apply initial_round_inv.
  Qed.
End Later.

(* ---- the theorem is not vacuous on later rounds: a document of 4 units, one
   unit per page, whose page starting at unit 2 sets PagesWanted (a
   target-counter on the page count).  Round 1 makes 4 pages; round 2 re-uses
   pages 0, 1 and 3 (sites 1019 / 1021 in range) and re-makes page 2; the page
   count is stable, so the loop stops after 2 rounds. *)
Definition wanted_content (r : option nat) (fn : nat) : (option nat * brk * nat) * (bool * bool) :=
  let k := match r with None => 0 | Some k => k end in
  ((if S k <? 4 then Some (S k) else None, BAny, 0), (false, k =? 2)).

Definition wanted_mu (r : option nat) : nat := 4 - match r with None => 0 | Some k => k end.

Lemma wanted_progress : forall r fn r' b fn' fl,
  wanted_content r fn = ((Some r', b, fn'), fl) -> wanted_mu (Some r') < wanted_mu r.
Proof.
  intros r fn r' b fn' fl H. unfold wanted_content in H.
  destruct (S match r with None => 0 | Some k => k end <? 4) eqn:E; [|discriminate].
  apply Nat.ltb_lt in E. inversion H; subst. unfold wanted_mu. lia.
Qed.

Example wanted_two_rounds :
  layout_document nat Nat.eqb wanted_content (fun fn => (0, (false, false))) (fun _ => false)
    (first_round_fuel nat wanted_mu 0) None BAny true
  = Ok (2, [PContent; PContent; PContent; PContent]).
Proof. vm_compute. reflexivity. Qed.

(* ContentChanged set on every round: the loop gives up after maxLoops = 8 rounds,
   every one of them returning *)
Example changed_eight_rounds :
  layout_document nat Nat.eqb
    (fun r fn => let '(x, _) := wanted_content r fn in (x, (true, false)))
    (fun fn => (0, (false, false))) (fun _ => false)
    (first_round_fuel nat wanted_mu 0) None BAny true
  = Ok (8, [PContent; PContent; PContent; PContent]).
Proof. vm_compute. reflexivity. Qed.
