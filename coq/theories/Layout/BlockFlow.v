(* Layout/BlockFlow.v -- model of /repo/html/layout's normal-flow block layout
   for trees of in-flow, non-replaced, left-to-right block boxes on one
   unbounded page:

     resolve_percentages      percentages.go:17-34, 52-157 (resolveOnePercentage, resolvePercentages)
     block_level_width_       blocks.go:172-251          (blockLevelWidth_)
     handle_min_max_width     min_max.go:21-39           (handleMinMaxWidth wrapper)
     collapse_margin          blocks.go:1026-1036        (collapseMargin)
     layout_block             blocks.go:29-80, 119-155, 307-587, 829-1023
                              (blockLevelLayout / blockBoxLayout / blockContainerLayout /
                               inFlowLayout, the in-flow non-paginated path)
     css pr.* helpers         css/properties/float.go:21-76, 116-129 (V, Is, Min, Max, ResolvePercentage)
     box geometry             html/boxes/boxes.go:363-422

   Model only: no proofs here.  Everything is written against an arithmetic
   record (Base/F32.v): `exactQ` is the instance the theorems are about, `f32`
   the instance the correspondence check compares bit for bit with the
   implementation's float32 results; the order of the arithmetic operations
   mirrors the Go expressions exactly.

   Partial operations: on this domain the ported code has none that can fail
   (the `panic` calls of percentages.go:87,129 are on units / box-sizing
   keywords outside the types below; no indexing, no division by a variable),
   so the functions are plain total functions and not in the `res` monad.

   Not modelled (the generators keep them out): floats / clearance, RTL,
   replaced blocks, tables, flex / grid children, relative positioning,
   pagination, multi-column, border-collapse. *)
From Coq Require Export QArith List Bool.
From Verif Require Export Base.F32.
Export ListNotations.
Open Scope Q_scope.

(* ------------------------------------------------------------------ values *)

(* pr.MaybeFloat: a number or `auto` (pr.AutoF) *)
Definition mf := option Q.
(* MaybeFloat.V(): float.go:21-25 *)
Definition V (m : mf) : Q := match m with Some x => x | None => 0 end.
Definition is_auto (m : mf) : bool := match m with None => true | Some _ => false end.

(* a float that may be +Inf (max-width / max-height: `none` is stored as +Inf px,
   css/properties/properties.go:418) *)
Inductive ext := Fin (q : Q) | PInf.

(* computed values, as stored in box.Style *)
Inductive len := LPx (v : Q) | LPct (v : Q) | LAuto.      (* margins, width, height, min-* *)
Inductive plen := PPx (v : Q) | PPct (v : Q).             (* paddings: never auto *)
Inductive mlen := MPx (v : Q) | MPct (v : Q) | MNone.     (* max-width, max-height *)
Inductive sizing := ContentBox | PaddingBox | BorderBox.

Record style := mkStyle {
  s_mt : len; s_mr : len; s_mb : len; s_ml : len;
  s_pt : plen; s_pr : plen; s_pb : plen; s_pl : plen;
  s_bt : Q; s_br : Q; s_bb : Q; s_bl : Q;
  s_w : len; s_h : len; s_minw : len; s_minh : len;
  s_maxw : mlen; s_maxh : mlen;
  s_sizing : sizing }.

(* a tree of block boxes before layout *)
Inductive node := Node (s : style) (cs : list node).

(* the layout fields of bo.BoxFields used here *)
Record ubox := mkU {
  ux : Q; uy : Q;                                   (* PositionX, PositionY: margin box corner *)
  umt : mf; umr : mf; umb : mf; uml : mf;
  upt : Q; upr : Q; upb : Q; upl : Q;
  ubt : Q; ubr : Q; ubb : Q; ubl : Q;
  uw : mf; uh : mf;
  uminw : Q; uminh : Q;
  umaxw : ext; umaxh : ext }.

(* a laid out box; `over` = the width equation was over-constrained in the
   last run of blockLevelWidth_ (the stored right margin is then the specified one);
   `hc` = the computed height the box had before layout (None = auto;
   box.Height after resolvePercentages), kept for the specification *)
Inductive lbox := LBox (u : ubox) (over : bool) (hc : mf) (cs : list lbox).

Definition Qgtb (a b : Q) : bool := negb (Qle_bool a b).   (* a > b *)
Definition Qltb (a b : Q) : bool := negb (Qle_bool b a).   (* a < b *)
(* pr.Is on a Float: non zero (float.go:35-43) *)
Definition nz (a : Q) : bool := negb (Qeq_bool a 0).
(* pr.Max / pr.Min: float.go:64-76 *)
Definition fmax (x y : Q) : Q := if Qgtb x y then x else y.
Definition fmin (x y : Q) : Q := if Qltb x y then x else y.
(* pr.Min(x, y) with y possibly +Inf *)
Definition fmin_ext (x : Q) (y : ext) : Q := match y with Fin y => fmin x y | PInf => x end.
(* x > y with y possibly +Inf *)
Definition gt_ext (x : Q) (y : ext) : bool := match y with Fin y => Qgtb x y | PInf => false end.

(* collapseMargin: blocks.go:1026-1036.  The two running values. *)
Fixpoint collapse_go (l : list Q) (maxPos minNeg : Q) : Q * Q :=
  match l with
  | [] => (maxPos, minNeg)
  | m :: r => if Qgtb m maxPos then collapse_go r m minNeg
              else if Qltb m minNeg then collapse_go r maxPos m
              else collapse_go r maxPos minNeg
  end.

Section WithArith.
Variable ar : arith.
Local Notation "x +. y" := (add ar x y) (at level 50, left associativity).
Local Notation "x -. y" := (sub ar x y) (at level 50, left associativity).
Local Notation "x *. y" := (mul ar x y) (at level 40, left associativity).
Local Notation "x /. y" := (div ar x y) (at level 40, left associativity).

(* blocks.go:1035 `return maxPos + minNeg` *)
Definition collapse_margin (l : list Q) : Q :=
  let '(p, n) := collapse_go l 0 0 in p +. n.

(* ------------------------------------------------------------------ percentages.go *)

(* pr.ResolvePercentage, float.go:116-129: `referTo * value.Value / 100.` *)
Definition resolve_len (v : len) (refer : Q) : mf :=
  match v with
  | LAuto => None
  | LPx x => Some x
  | LPct p => Some (refer *. p /. 100)
  end.
Definition resolve_plen (v : plen) (refer : Q) : Q :=
  match v with
  | PPx x => x
  | PPct p => refer *. p /. 100
  end.
(* resolveOnePercentage for min-width / min-height with mainFlexDirection = 0
   (percentages.go:21-25): auto -> 0 *)
Definition resolve_min (v : len) (refer : Q) : Q :=
  match resolve_len v refer with Some x => x | None => 0 end.
(* max-width / max-height against a finite reference *)
Definition resolve_max (v : mlen) (refer : Q) : ext :=
  match v with
  | MNone => PInf
  | MPx x => Fin x
  | MPct p => Fin (refer *. p /. 100)
  end.
(* max-height when the containing block's height is auto (percentages.go:92):
   a percentage is treated as `none` *)
Definition resolve_max_auto_cb (v : mlen) : ext :=
  match v with
  | MNone => PInf
  | MPx x => Fin x
  | MPct _ => PInf
  end.

(* pr.Max(0, x - delta) on a possibly infinite x: percentages.go:139,148 *)
Definition shrink_ext (x : ext) (delta : Q) : ext :=
  match x with Fin x => Fin (fmax 0 (x -. delta)) | PInf => PInf end.
Definition shrink_mf (x : mf) (delta : Q) : mf :=
  match x with Some x => Some (fmax 0 (x -. delta)) | None => None end.

(* resolvePercentages, percentages.go:52-157, for a box that is not a page
   (maybeHeight = cbWidth), border-collapse: separate.  x, y: the position the
   caller has set on the box. *)
Definition resolve_percentages (s : style) (cbw : Q) (cbh : mf) (x y : Q) : ubox :=
  let ml := resolve_len (s_ml s) cbw in                       (* :65 *)
  let mr := resolve_len (s_mr s) cbw in                       (* :66 *)
  let mt := resolve_len (s_mt s) cbw in                       (* :67 *)
  let mb := resolve_len (s_mb s) cbw in                       (* :68 *)
  let pl := resolve_plen (s_pl s) cbw in                      (* :69 *)
  let pr := resolve_plen (s_pr s) cbw in                      (* :70 *)
  let pt := resolve_plen (s_pt s) cbw in                      (* :71 *)
  let pb := resolve_plen (s_pb s) cbw in                      (* :72 *)
  let w := resolve_len (s_w s) cbw in                         (* :73 *)
  let minw := resolve_min (s_minw s) cbw in                   (* :74 *)
  let maxw := resolve_max (s_maxw s) cbw in                   (* :75 *)
  let '(h, minh, maxh) :=
    match cbh with
    | None =>                                                 (* :79-92 *)
        (match s_h s with LPx v => Some v | _ => None end,
         resolve_min (s_minh s) 0,
         resolve_max_auto_cb (s_maxh s))
    | Some ch =>                                              (* :94-96 *)
        (resolve_len (s_h s) ch, resolve_min (s_minh s) ch, resolve_max (s_maxh s) ch)
    end in
  let bt := s_bt s in let br := s_br s in let bb := s_bb s in let bl := s_bl s in   (* :101-112 *)
  let '(hd, vd) :=                                            (* :117-130 *)
    match s_sizing s with
    | BorderBox => (pl +. pr +. bl +. br, pt +. pb +. bt +. bb)
    | PaddingBox => (pl +. pr, pt +. pb)
    | ContentBox => (0, 0)
    end in
  let '(w, maxw, minw) :=                                     (* :135-143 *)
    if Qgtb hd 0 then (shrink_mf w hd, shrink_ext maxw hd, fmax 0 (minw -. hd))
    else (w, maxw, minw) in
  let '(h, maxh, minh) :=                                     (* :144-152 *)
    if Qgtb vd 0 then (shrink_mf h vd, shrink_ext maxh vd, fmax 0 (minh -. vd))
    else (h, maxh, minh) in
  mkU x y mt mr mb ml pt pr pb pl bt br bb bl w h minw minh maxw maxh.

(* ------------------------------------------------------------------ blocks.go:172-251 *)

Definition set_margins_w (u : ubox) (ml mr w : mf) : ubox :=
  mkU (ux u) (uy u) (umt u) mr (umb u) ml (upt u) (upr u) (upb u) (upl u)
      (ubt u) (ubr u) (ubb u) (ubl u) w (uh u) (uminw u) (uminh u) (umaxw u) (umaxh u).

(* blockLevelWidth_ against a left-to-right containing block of width cbw.
   Returns the box and whether the equation was over-constrained (:223). *)
Definition block_level_width_ (u : ubox) (cbw : Q) : ubox * bool :=
  let marginL := uml u in
  let marginR := umr u in
  let width := uw u in
  let ppb := upl u +. upr u +. ubl u +. ubr u in               (* :203 *)
  (* :204-222 *)
  let '(marginL, marginR) :=
    match width with
    | Some wv =>
        let total := ppb +. wv in
        let total := match marginL with Some m => total +. m | None => total end in
        let total := match marginR with Some m => total +. m | None => total end in
        if Qgtb total cbw then
          (match marginL with None => Some 0 | _ => marginL end,
           match marginR with None => Some 0 | _ => marginR end)
        else (marginL, marginR)
    | None => (marginL, marginR)
    end in
  (* :223-228, ltr: nothing to do *)
  let over := negb (is_auto width) && negb (is_auto marginL) && negb (is_auto marginR) in
  (* :229-240 *)
  let '(marginL, marginR, width) :=
    match width with
    | None =>
        let marginL := match marginL with None => Some 0 | _ => marginL end in
        let marginR := match marginR with None => Some 0 | _ => marginR end in
        (marginL, marginR, Some (cbw -. (ppb +. V marginL +. V marginR)))
    | Some _ => (marginL, marginR, width)
    end in
  let marginSum := cbw -. ppb -. V width in                    (* :241 *)
  let '(ml', mr') :=                                           (* :242-249 *)
    match marginL, marginR with
    | None, None => (Some (marginSum /. 2), Some (marginSum /. 2))
    | None, Some r => (Some (marginSum -. r), marginR)
    | Some l, None => (marginL, Some (marginSum -. l))
    | Some _, Some _ => (marginL, marginR)
    end in
  (set_margins_w u ml' mr' width, over).

(* handleMinMaxWidth(blockLevelWidth_): min_max.go:21-39 *)
Definition handle_min_max_width (u : ubox) (cbw : Q) : ubox * bool :=
  let cml := uml u in
  let cmr := umr u in
  let '(u1, o1) := block_level_width_ u cbw in
  let '(u2, o2) :=
    if gt_ext (V (uw u1)) (umaxw u1) then
      block_level_width_
        (set_margins_w u1 cml cmr (match umaxw u1 with Fin m => Some m | PInf => uw u1 end)) cbw
    else (u1, o1) in
  if Qltb (V (uw u2)) (uminw u2) then
    block_level_width_ (set_margins_w u2 cml cmr (Some (uminw u2))) cbw
  else (u2, o2).

(* ------------------------------------------------------------------ box geometry, boxes.go *)

(* ContentBoxX, boxes.go:395-397 *)
Definition content_box_x (u : ubox) : Q := ux u +. V (uml u) +. upl u +. ubl u.
(* ContentBoxY at a given PositionY, boxes.go:400-402 *)
Definition content_box_y_at (u : ubox) (y : Q) : Q := y +. V (umt u) +. upt u +. ubt u.
(* BorderBoxY() + BorderHeight(), boxes.go:368-380, 420-422 (blocks.go:928) *)
Definition border_bottom (u : ubox) : Q :=
  (uy u +. V (umt u)) +. (V (uh u) +. upt u +. upb u +. ubt u +. ubb u).

Definition set_y_h (u : ubox) (y : Q) (h : mf) : ubox :=
  mkU (ux u) y (umt u) (umr u) (umb u) (uml u) (upt u) (upr u) (upb u) (upl u)
      (ubt u) (ubr u) (ubb u) (ubl u) (uw u) h (uminw u) (uminh u) (umaxw u) (umaxh u).
Definition set_vmargins (u : ubox) (mt mb : mf) : ubox :=
  mkU (ux u) (uy u) mt (umr u) mb (uml u) (upt u) (upr u) (upb u) (upl u)
      (ubt u) (ubr u) (ubb u) (ubl u) (uw u) (uh u) (uminw u) (uminh u) (umaxw u) (umaxh u).

Definition box_of (b : lbox) : ubox := match b with LBox u _ _ _ => u end.

(* ------------------------------------------------------------------ block layout *)

(* result of blockLevelLayout on one box:
   r_box  the laid out box (children included);
   r_adj  blockLayout.adjoiningMargins (blocks.go:583-586);
   r_ct   blockLayout.collapsingThrough;
   r_var  the final value of the caller's slice variable `*adjoiningMargins`
          that was passed by pointer: the box appends its top margin to it
          (:334) and, while it collapses with its first child, hands the same
          pointer down (:411-413).  Go's `append` on the copies of the slice
          header never writes below their length, so a value semantics is
          faithful; what matters is that the parent's `thisBoxAdjoiningMargins`
          (:335, read at :493) sees exactly these appends and not the later
          ones made on the copies (:956-959). *)
Record bl_result := mkR { r_box : lbox; r_adj : list Q; r_ct : bool; r_var : list Q }.

(* the loop over the in-flow children, blocks.go:379-469, with inFlowLayout :829-1023.
   rec c y adj: blockLevelLayout of the child c placed at y (:383-384, :905);
   first: no child laid out yet; cwc: collapsingWithChildren.
   Returns the final positionY, *adjoiningMargins, the final value of the slice
   variable thisBoxAdjoiningMargins points to, and the new children. *)
Definition kids_loop (rec : node -> Q -> list Q -> bl_result) (cwc : bool) :=
  fix loop (cs : list node) (first : bool) (position_y : Q) (adj_cur var : list Q) {struct cs}
    : Q * list Q * list Q * list lbox :=
    match cs with
    | [] => (position_y, adj_cur, var, [])
    | c :: rest =>
        let r := rec c position_y adj_cur in
        let cu := box_of (r_box r) in
        (* :926-954 (no page overflow) *)
        let position_y := if r_ct r then position_y else border_bottom cu in
        (* :956-959 *)
        let adj_next := r_adj r ++ [V (umb cu)] in
        (* the pointer of :335 is handed to the first child only *)
        let var := if first && cwc then r_var r else var in
        let '(py, a, v, ks) := loop rest false position_y adj_next var in
        (py, a, v, r_box r :: ks)
    end.

(* blockLevelLayout, blocks.go:46-53 (percentages; auto vertical margins are 0; no
   floats, hence no clearance :69-76), then blockBoxLayout :142 (blockLevelWidth) *)
Definition prelude (s : style) (cbw : Q) (cbh : mf) (x y : Q) : ubox * bool :=
  let u := resolve_percentages s cbw cbh x y in
  let u := set_vmargins u (Some (V (umt u))) (Some (V (umb u))) in
  handle_min_max_width u cbw.

(* blockContainerLayout before the loop over the children, :334-350 *)
(* collapsingWithChildren :337-338 *)
Definition cwc_of (u : ubox) (is_root : bool) : bool := negb (nz (ubt u) || nz (upt u) || is_root).
(* *adjoiningMargins after :334 *)
Definition adj1_of (u : ubox) (adj : list Q) : list Q := adj ++ [V (umt u)].
(* box.PositionY after :345 *)
Definition py1_of (u : ubox) (is_root : bool) (y : Q) (adj : list Q) : Q :=
  if cwc_of u is_root then y else y +. (collapse_margin (adj1_of u adj) -. V (umt u)).
(* positionY :343, :347 *)
Definition start_y (u : ubox) (is_root : bool) (y : Q) (adj : list Q) : Q :=
  if cwc_of u is_root then y else content_box_y_at u (py1_of u is_root y adj).
(* *adjoiningMargins :346 *)
Definition start_adj (u : ubox) (is_root : bool) (adj : list Q) : list Q :=
  if cwc_of u is_root then adj1_of u adj else [].

(* blockContainerLayout after the loop, :492-587.  leaf: no (in-flow) child;
   lp: result of the loop (positionY, *adjoiningMargins, *thisBoxAdjoiningMargins, new children) *)
Definition finish (u : ubox) (over is_root : bool) (y : Q) (adj : list Q) (leaf : bool)
                  (lp : Q * list Q * list Q * list lbox) : bl_result :=
  let position_y := fst (fst (fst lp)) in
  let adj_cur := snd (fst (fst lp)) in
  let var := snd (fst lp) in
  let kids := snd lp in
  let mt := V (umt u) in
  let cwc := cwc_of u is_root in
  (* :492-494 *)
  let py2 := if cwc then y +. (collapse_margin var -. mt) else py1_of u is_root y adj in
  (* :503-522 *)
  let ct :=
    leaf &&
    ((match uh u with None => true | Some hv => Qeq_bool hv 0 end)
     && Qeq_bool (uminh u) 0 && Qeq_bool (ubt u) 0 && Qeq_bool (upt u) 0
     && Qeq_bool (ubb u) 0 && Qeq_bool (upb u) 0) in
  let pa :=
    if leaf then (if ct then (position_y, adj_cur) else (position_y +. collapse_margin adj_cur, []))
    else (if is_auto (uh u) then (position_y, adj_cur) else (position_y, [])) in
  (* :524-528 *)
  let pa :=
    if nz (ubb u) || nz (upb u) || is_root
    then (fst pa +. collapse_margin (snd pa), [])
    else pa in
  let position_y := fst pa in
  let adj_cur := snd pa in
  (* :534-546 (the margins collapse through the box: height 0) *)
  let h := match uh u with
           | None => if ct then 0 else position_y -. content_box_y_at u py2
           | Some hv => hv
           end in
  (* :566 *)
  let h := fmax (fmin_ext h (umaxh u)) (uminh u) in
  mkR (LBox (set_y_h u py2 (Some h)) over (uh u) kids) adj_cur ct var.

Fixpoint layout_block (n : node) (is_root : bool) (cbw : Q) (cbh : mf) (x y : Q) (adj : list Q)
  : bl_result :=
  match n with
  | Node s cs =>
    let uo := prelude s cbw cbh x y in
    let u := fst uo in
    let lp := kids_loop (fun c py a => layout_block c false (V (uw u)) (uh u) (content_box_x u) py a)
                        (cwc_of u is_root) cs true
                        (start_y u is_root y adj) (start_adj u is_root adj) (adj1_of u adj) in
    finish u (snd uo) is_root y adj (match cs with [] => true | _ :: _ => false end) lp
  end.

(* makePage, pages.go:678-679, 749-750: the root box against the page's content box *)
Definition layout_doc (cbx cby cbw cbh : Q) (root : node) : lbox :=
  r_box (layout_block root true cbw (Some cbh) cbx cby []).

End WithArith.

(* pre-order list of the boxes *)
Fixpoint flatten (b : lbox) : list (ubox * bool) :=
  match b with
  | LBox u o _ cs => (u, o) :: flat_map flatten cs
  end.
