(* Layout/BlockMarginMore.v -- algebra of the collapsed-margin function
   (collapse_margin of Layout/BlockFlow.v, exact-rational instance):
   merging two adjoining sets, permutation invariance, zero neutrality, bounds. *)
From Coq Require Import QArith Qminmax List Bool Lqa Lia Permutation.
From Verif Require Import Base.F32 Layout.BlockFlow Layout.Css21BlockSpec Layout.BlockProofs.
Import ListNotations.
Open Scope Q_scope.

Lemma maxpos_cons m r : maxpos (m :: r) = Qmax m (maxpos r).
Proof. reflexivity. Qed.
Lemma minneg_cons m r : minneg (m :: r) = Qmin m (minneg r).
Proof. reflexivity. Qed.

Lemma maxpos_app : forall a b, maxpos (a ++ b) == Qmax (maxpos a) (maxpos b).
Proof.
  induction a as [|m r IH]; intros b.
  - cbn [app]. change (maxpos []) with 0. pose proof (maxpos_nonneg b). qmm.
  - cbn [app]. rewrite !maxpos_cons. specialize (IH b).
    set (x := maxpos (r ++ b)) in *. set (y := maxpos r) in *. set (z := maxpos b) in *.
    qmm.
Qed.

Lemma minneg_app : forall a b, minneg (a ++ b) == Qmin (minneg a) (minneg b).
Proof.
  induction a as [|m r IH]; intros b.
  - cbn [app]. change (minneg []) with 0. pose proof (minneg_nonpos b). qmm.
  - cbn [app]. rewrite !minneg_cons. specialize (IH b).
    set (x := minneg (r ++ b)) in *. set (y := minneg r) in *. set (z := minneg b) in *.
    qmm.
Qed.

(* merging two adjoining margin sets: the result is computed from the parts *)
Theorem collapse_margin_app : forall a b,
  collapse_margin exactQ (a ++ b) ==
  Qmax (maxpos a) (maxpos b) + Qmin (minneg a) (minneg b).
Proof.
  intros a b. rewrite collapse_margin_spec. unfold collapsed.
  rewrite maxpos_app, minneg_app. reflexivity.
Qed.

(* bounds: most negative <= collapsed <= largest positive *)
Theorem collapse_margin_bounds : forall l,
  minneg l <= collapse_margin exactQ l <= maxpos l.
Proof.
  intros l. rewrite collapse_margin_spec. unfold collapsed.
  pose proof (maxpos_nonneg l). pose proof (minneg_nonpos l). split; lra.
Qed.

Lemma maxpos_minneg_perm : forall l l', Permutation l l' ->
  maxpos l == maxpos l' /\ minneg l == minneg l'.
Proof.
  intros l l' HP. induction HP as [|x l l' HP [IH1 IH2]|x y l|l l' l'' HP1 [A1 A2] HP2 [B1 B2]].
  - split; reflexivity.
  - rewrite !maxpos_cons, !minneg_cons.
    set (a := maxpos l) in *. set (b := maxpos l') in *.
    set (c := minneg l) in *. set (d := minneg l') in *. split; qmm.
  - rewrite !maxpos_cons, !minneg_cons.
    set (a := maxpos l). set (c := minneg l). split; qmm.
  - split; [rewrite A1; exact B1 | rewrite A2; exact B2].
Qed.

(* the collapsed margin does not depend on the order of the adjoining margins *)
Theorem collapse_margin_perm : forall l l', Permutation l l' ->
  collapse_margin exactQ l == collapse_margin exactQ l'.
Proof.
  intros l l' HP. rewrite !collapse_margin_spec. unfold collapsed.
  destruct (maxpos_minneg_perm l l' HP) as [A B]. rewrite A, B. reflexivity.
Qed.

(* a zero margin anywhere in the set is neutral *)
Theorem collapse_margin_zero_neutral : forall a b,
  collapse_margin exactQ (a ++ 0 :: b) == collapse_margin exactQ (a ++ b).
Proof.
  intros a b. rewrite !collapse_margin_app. rewrite maxpos_cons, minneg_cons.
  pose proof (maxpos_nonneg b). pose proof (minneg_nonpos b).
  set (x := maxpos a). set (y := maxpos b) in *.
  set (z := minneg a). set (w := minneg b) in *. qmm.
Qed.
