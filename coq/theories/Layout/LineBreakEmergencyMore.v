(* Further unbounded facts about break_lines_e (final round): the number of lines is bounded
   by the number of tagged pieces, no line when (and only when) there is no item, and a
   paragraph without forced break whose whole content fits the first line is ONE line
   (consequence of the uniqueness theorem break_unique_e). *)
From Verif Require Import Layout.LineBreak Layout.LineBreakSpec Layout.LineBreakProofs
  Layout.LineBreakEmergency Layout.LineBreakEmergencyUnique.
From Coq Require Import List ZArith QArith Bool Lia.
Import ListNotations.
Open Scope Z_scope.

Lemma concat_nonempty_length {A} : forall ls : list (list A),
  Forall (fun g => g <> []) ls -> (length ls <= length (concat ls))%nat.
Proof.
  intros ls H. induction H as [|g r Hg _ IH]; [apply Nat.le_refl|].
  cbn [concat length]. rewrite app_length.
  destruct g as [|x g]; [congruence|]. cbn [length]. lia.
Qed.

(* every line holds at least one piece: there are at most as many lines as pieces *)
Theorem line_count_le_e : forall avail indent items,
  (length (break_lines_e avail indent items) <= length (tsub items))%nat.
Proof.
  intros. destruct (break_partition_e avail indent items) as [Hc Hne].
  rewrite <- Hc. now apply concat_nonempty_length.
Qed.

Lemma cat_tsub : forall items, cat (tsub items) = items.
Proof. intros. unfold tsub. rewrite cat_concat_tpieces. apply units_concat. Qed.

(* progress: no line exactly when there is no item *)
Theorem no_line_iff_e : forall avail indent items,
  break_lines_e avail indent items = [] <-> items = [].
Proof.
  intros. split; intros H.
  - rewrite <- (concat_lines_e avail indent items), H. reflexivity.
  - subst items. pose proof (line_count_le_e avail indent []) as Hl.
    change (tsub []) with (@nil tpiece) in Hl.
    destruct (break_lines_e avail indent []); [reflexivity|cbn [length] in Hl; lia].
Qed.

(* a paragraph without forced break that fits the first line is one line, with or without
   emergency opportunities *)
Theorem single_line_e : forall avail indent items,
  wf items -> items <> [] -> existsb is_hard items = false -> lw items <= avail - indent ->
  break_lines_e avail indent items = [tsub items].
Proof.
  intros avail indent items Hwf Hne Hh Hfit. symmetry. apply break_unique_e; [exact Hwf|..].
  - split; [cbn [concat]; apply app_nil_r|].
    constructor; [|constructor]. intros E. apply Hne. rewrite <- (cat_tsub items), E. reflexivity.
  - cbn [FitsE]. split; [|exact I]. left. rewrite cat_tsub. exact Hfit.
  - cbn [MaximalE]. split; exact I.
  - cbn [EmergencyOnly]. split; exact I.
  - unfold flat_e. cbn [map]. constructor; [|constructor]. rewrite cat_tsub.
    now apply hard_closes_nohard.
Qed.

Lemma Forall_concat_iff {A} (P : A -> Prop) : forall ls : list (list A),
  Forall P (concat ls) <-> Forall (Forall P) ls.
Proof.
  induction ls as [|g r IH]; cbn [concat].
  - split; intros _; constructor.
  - rewrite Forall_app, IH. split.
    + intros [Ha Hb]. constructor; assumption.
    + intros H. inversion H; split; assumption.
Qed.

Lemma tsub_pieces_nonempty : forall items,
  Forall (fun tp : bool * list item => snd tp <> []) (tsub items).
Proof.
  intros. unfold tsub. apply Forall_concat_iff. rewrite Forall_map.
  apply Forall_forall. intros u _. unfold tpieces, pieces.
  destruct (seg ecut_b [] [] u) as [|p r] eqn:E; cbn [tag_pieces]; [constructor|].
  assert (H : Forall (fun u : list item => u <> []) (p :: r)) by (rewrite <- E; apply seg_nonempty).
  inversion H as [|? ? Hp Hr]. constructor; [exact Hp|]. rewrite Forall_map. exact Hr.
Qed.

(* progress: every line holds at least one item *)
Theorem lines_content_nonempty_e : forall avail indent items,
  Forall (fun l => l <> []) (flat_e (break_lines_e avail indent items)).
Proof.
  intros. destruct (break_partition_e avail indent items) as [Hc Hne].
  pose proof (tsub_pieces_nonempty items) as Hp.
  rewrite <- Hc in Hp. apply Forall_concat_iff in Hp. unfold flat_e. rewrite Forall_map.
  revert Hne Hp. generalize (break_lines_e avail indent items). intros ls Hne Hp.
  rewrite Forall_forall in *. intros g Hg. specialize (Hne g Hg). specialize (Hp g Hg).
  destruct g as [|[t p] g]; [congruence|]. inversion Hp as [|? ? Hp1 _]. cbn [snd] in Hp1.
  unfold cat. cbn [map concat snd]. intros E. apply app_eq_nil in E. destruct E; congruence.
Qed.
