(* Layout/PaginateCountersProofs.v -- counters in page-margin boxes: what a margin box shows
   depends on the page's counter state and on its own rule only. *)
From Verif Require Import Layout.PaginateCounters.
From Coq Require Import List ZArith NArith Bool Lia.
Import ListNotations.
Local Open Scope Z_scope.

(* ---------------------------------------------------------------- independence *)

Lemma margin_texts_nth : forall cv pre b post,
  nth (length pre) (margin_texts cv (pre ++ b :: post)) [] = box_text cv b.
Proof.
  intros cv pre b post. unfold margin_texts. rewrite map_app. cbn [map].
  rewrite app_nth2 by (rewrite map_length; lia).
  rewrite map_length, Nat.sub_diag. reflexivity.
Qed.

(* the text of a margin box is the one it has when it is the only margin box of the page:
   neither the boxes generated before it nor those after it matter *)
Lemma margin_boxes_independent_proof : forall cv pre b post,
  nth (length pre) (margin_texts cv (pre ++ b :: post)) [] = nth 0 (margin_texts cv [b]) [].
Proof. intros. rewrite margin_texts_nth. reflexivity. Qed.

Lemma margin_texts_length : forall cv bs, length (margin_texts cv bs) = length bs.
Proof. intros. apply map_length. Qed.

(* ---------------------------------------------------------------- untouched counters *)

Lemma cv_get_put_same : forall cv n v, cv_get (cv_put cv n v) n = v.
Proof.
  induction cv as [|[k w] r IH]; intros n v; cbn [cv_put cv_get].
  - rewrite N.eqb_refl. reflexivity.
  - destruct (N.eqb k n) eqn:E; cbn [cv_get]; rewrite E; auto.
Qed.

Lemma cv_get_put_other : forall cv n m v, n <> m -> cv_get (cv_put cv n v) m = cv_get cv m.
Proof.
  induction cv as [|[k w] r IH]; intros n m v Hne; cbn [cv_put cv_get].
  - destruct (N.eqb n m) eqn:E; [apply N.eqb_eq in E; contradiction | reflexivity].
  - destruct (N.eqb k n) eqn:E; cbn [cv_get].
    + apply N.eqb_eq in E. subst k.
      destruct (N.eqb n m) eqn:E2; [apply N.eqb_eq in E2; contradiction | reflexivity].
    + destruct (N.eqb k m); auto.
Qed.

Lemma ensure_other : forall st n m, n <> m -> cv_get (ms_values (ensure st n)) m = cv_get (ms_values st) m.
Proof.
  intros st n m Hne. unfold ensure. destruct (cv_get (ms_values st) n); cbn [ms_values]; auto.
  apply cv_get_put_other; auto.
Qed.

Lemma do_reset_other : forall st nv m, fst nv <> m ->
  cv_get (ms_values (do_reset st nv)) m = cv_get (ms_values st) m.
Proof.
  intros st [n v] m Hne. cbn [fst] in Hne. unfold do_reset.
  destruct (in_scope (ms_scope st) n); cbn [ms_values]; apply cv_get_put_other; auto.
Qed.

Lemma do_set_other : forall st nv m, fst nv <> m ->
  cv_get (ms_values (do_set st nv)) m = cv_get (ms_values st) m.
Proof.
  intros st [n v] m Hne. cbn [fst] in Hne. unfold do_set. cbn [ms_values].
  rewrite cv_get_put_other by auto. apply ensure_other; auto.
Qed.

Lemma do_incr_other : forall st nv m, fst nv <> m ->
  cv_get (ms_values (do_incr st nv)) m = cv_get (ms_values st) m.
Proof.
  intros st [n v] m Hne. cbn [fst] in Hne. unfold do_incr. cbn [ms_values].
  rewrite cv_get_put_other by auto. apply ensure_other; auto.
Qed.

Lemma fold_other : forall (f : mstate -> N * Z -> mstate) m,
  (forall st nv, fst nv <> m -> cv_get (ms_values (f st nv)) m = cv_get (ms_values st) m) ->
  forall l st, existsb (fun nv => N.eqb (fst nv) m) l = false ->
  cv_get (ms_values (fold_left f l st)) m = cv_get (ms_values st) m.
Proof.
  intros f m Hf. induction l as [|nv r IH]; intros st Hl; cbn [fold_left]; auto.
  cbn [existsb] in Hl. apply orb_false_iff in Hl. destruct Hl as [H1 H2].
  rewrite IH by exact H2. apply Hf. intro E. rewrite E, N.eqb_refl in H1. discriminate.
Qed.

Lemma existsb_filter_false : forall (A : Type) (p q : A -> bool) l,
  existsb p l = false -> existsb p (filter q l) = false.
Proof.
  induction l as [|a r IH]; cbn [filter existsb]; auto.
  intro H. apply orb_false_iff in H. destruct H as [H1 H2].
  destruct (q a); cbn [existsb]; [rewrite H1, IH by exact H2; reflexivity | apply IH; exact H2].
Qed.

(* a margin rule that does not name counter n leaves the value of n it reads untouched *)
Lemma update_counters_untouched : forall cv b n,
  touches b n = false -> cv_get (ms_values (update_counters cv b)) n = cv_get cv n.
Proof.
  intros cv b n Ht. unfold touches in Ht. rewrite !existsb_app in Ht.
  apply orb_false_iff in Ht. destruct Ht as [Hr Ht]. apply orb_false_iff in Ht. destruct Ht as [Hs Hi].
  unfold update_counters.
  rewrite (fold_other do_incr n (fun st nv => do_incr_other st nv n)) by (apply existsb_filter_false; exact Hi).
  rewrite (fold_other do_set n (fun st nv => do_set_other st nv n)) by (apply existsb_filter_false; exact Hs).
  rewrite (fold_other do_reset n (fun st nv => do_reset_other st nv n)) by (apply existsb_filter_false; exact Hr).
  reflexivity.
Qed.

(* counter(page) in a margin box whose own rule does not manipulate `page` is the position of
   the page, whatever the other margin boxes of the page do *)
Lemma margin_page_counter_proof : forall i total pre b post k,
  touches b c_page = false ->
  nth_error (mb_reads b) k = Some (RCounter c_page) ->
  nth_error (nth (length pre) (margin_texts (page_values i total) (pre ++ b :: post)) []) k
  = Some [Z.of_nat (S i)].
Proof.
  intros i total pre b post k Ht Hk. rewrite margin_texts_nth.
  unfold box_text, box_run. cbn [fst]. rewrite nth_error_map, Hk. cbn [option_map read_one].
  rewrite update_counters_untouched by exact Ht. reflexivity.
Qed.

Lemma margin_pages_counter_proof : forall i total pre b post k,
  nth_error (mb_reads b) k = Some (RCounter c_pages) ->
  nth_error (nth (length pre) (margin_texts (page_values i total) (pre ++ b :: post)) []) k
  = Some [Z.of_nat total].
Proof.
  intros i total pre b post k Hk. rewrite margin_texts_nth.
  unfold box_text, box_run. cbn [fst]. rewrite nth_error_map, Hk. cbn [option_map read_one].
  (* operations on `pages` are dropped *)
  assert (H : forall (f : mstate -> N * Z -> mstate) l st,
            (forall st nv, fst nv <> c_pages -> cv_get (ms_values (f st nv)) c_pages = cv_get (ms_values st) c_pages) ->
            cv_get (ms_values (fold_left f (drop_pages l) st)) c_pages = cv_get (ms_values st) c_pages).
  { intros f l st Hf. apply fold_other; auto. unfold drop_pages.
    induction l as [|a r IH]; cbn [filter existsb]; auto.
    destruct (N.eqb (fst a) c_pages) eqn:E; cbn [negb]; auto. cbn [existsb]. rewrite E. exact IH. }
  unfold update_counters.
  rewrite (H do_incr) by (intros; apply do_incr_other; auto).
  rewrite (H do_set) by (intros; apply do_set_other; auto).
  rewrite (H do_reset) by (intros; apply do_reset_other; auto).
  reflexivity.
Qed.

(* ---------------------------------------------------------------- the shared state *)

Definition no_ops (b : mbox) : bool :=
  match mb_resets b, mb_sets b, mb_incrs b with [], [], [] => true | _, _, _ => false end.

(* without any counter-* declaration in the margin rules the copy cannot be observed (the
   ordinary `counter(page) "/" counter(pages)` footers) *)
Lemma shared_agrees_without_ops : forall bs cv,
  forallb no_ops bs = true -> margin_texts_shared cv bs = margin_texts cv bs.
Proof.
  induction bs as [|b r IH]; intros cv H; cbn [margin_texts_shared margin_texts map]; auto.
  cbn [forallb] in H. apply andb_true_iff in H. destruct H as [Hb Hr].
  assert (E : box_run cv b = (box_text cv b, cv)).
  { unfold box_text, box_run, update_counters, no_ops in *.
    destruct (mb_resets b); [|discriminate]. destruct (mb_sets b); [|discriminate].
    destruct (mb_incrs b); [|discriminate]. reflexivity. }
  rewrite E. f_equal. apply IH. exact Hr.
Qed.

(* ... with one, it can: @top-left { counter-increment: page 100; content: counter(page) }
   @bottom-center { content: counter(page) "/" counter(pages) } on page 1 of 3 *)
Definition ex_top_left : mbox := mkMBox [] [] [(c_page, 100)] [RCounter c_page].
Definition ex_bottom_center : mbox := mkMBox [] [] [] [RCounter c_page; RCounter c_pages].

Lemma shared_state_refuted_proof :
  margin_texts (page_values 0 3) [ex_top_left; ex_bottom_center] = [[[101]]; [[1]; [3]]] /\
  margin_texts_shared (page_values 0 3) [ex_top_left; ex_bottom_center] = [[[101]]; [[101]; [3]]].
Proof. split; vm_compute; reflexivity. Qed.
