(* Layout/LineBreakEmergencyUnique.v -- C11: uniqueness of the division into lines WITH
   emergency break opportunities (overflow-wrap: anywhere | break-word).  A division of
   the tagged pieces `tsub items` into non-empty lines that fits (FitsE), is maximal
   (MaximalE), breaks at an emergency opportunity only on a line without regular one
   (EmergencyOnly) and respects forced breaks (hard_closes) IS `break_lines_e`.  No extra
   tie-breaking clause is needed: MaximalE at an emergency boundary already says that the
   next piece does not fit, i.e. the emergency break is taken at the last position that
   fits.  Structure = LineBreakProofs.fill_unique: the first line is determined, then the
   suffix; `chop_unique` is the same argument inside one unit. *)
From Verif Require Import Layout.LineBreak Layout.LineBreakSpec Layout.LineBreakProofs
  Layout.LineBreakEmergency.
From Coq Require Import List ZArith QArith Bool Lia.
Import ListNotations.
Open Scope Z_scope.

(* ------------------------------------------------------------------ candidates *)
(* what is asked of a division (everything but "concatenates to the input"); `av` is the
   room of its first line *)
Definition Cand (avail av : Z) (ls : list (list (bool * list item))) : Prop :=
  Forall (fun g => g <> []) ls /\ FitsE avail av ls /\ MaximalE avail av ls /\
  EmergencyOnly ls /\ Forall (fun g => hard_closes (cat g)) ls /\
  Forall (fun g => wf (cat g)) ls.

Lemma Cand_tl : forall avail av g r, Cand avail av (g :: r) -> Cand avail avail r.
Proof.
  intros avail av g r (Hne & Hf & Hm & He & Hh & Hw).
  inversion Hne; inversion Hh; inversion Hw; subst.
  destruct Hf as [_ Hf]. destruct Hm as [_ Hm]. destruct He as [_ He].
  repeat split; assumption.
Qed.

Lemma Cand_nil : forall avail av, Cand avail av [].
Proof. intros. repeat split; constructor. Qed.

(* a unit does not start with an end edge when a break opportunity precedes it *)
Definition nch (u : list item) : Prop := forall s l, u = s :: l -> is_close s = false.

Lemma units_nch : forall items, Forall nch (tl (units items)).
Proof.
  intros items. apply Forall_forall. intros v Hin.
  destruct (units items) as [|u0 r] eqn:EU; [destruct Hin|]. cbn [tl] in Hin.
  destruct (in_split _ _ Hin) as [a [b E]]. subst r.
  intros s l Ev. subst v.
  assert (H : units items = (u0 :: a) ++ ((s :: l) :: b)) by (rewrite EU; reflexivity).
  apply units_boundary in H; [|discriminate|discriminate].
  cbn [concat app] in H.
  destruct (is_close s) eqn:Hs; [|reflexivity].
  rewrite (cut_not_before_close _ s _ Hs) in H. discriminate.
Qed.

(* the forced break of a unit is in its last piece only *)
Lemma nohard_init : forall u P q, hard_tail u -> pieces u = P ++ [q] ->
  existsb is_hard (concat P) = false.
Proof.
  intros u P q Ht EP. apply not_true_is_false. intros H.
  pose proof (pieces_concat u) as EC. rewrite EP, concat_snoc in EC.
  assert (Hh : ends_hard u = true).
  { unfold ends_hard. rewrite <- EC, existsb_app, H. reflexivity. }
  pose proof (hard_in_last_piece u P q Ht Hh EP) as Hq.
  destruct (existsb_hard_split _ H) as [x [y E]].
  assert (Hc : forallb is_close (y ++ q) = true).
  { apply (Ht x). rewrite <- EC, E, <- app_assoc. reflexivity. }
  rewrite forallb_app in Hc. apply andb_true_iff in Hc. destruct Hc as [_ Hc].
  apply existsb_exists in Hq. destruct Hq as [i [Hi1 Hi2]].
  rewrite forallb_forall in Hc. specialize (Hc i Hi1). destruct i; discriminate.
Qed.

(* generic: two ways of cutting the same list *)
Lemma app_split {A} : forall (t B X R : list A), t ++ B = X ++ R ->
  (exists t', t = X ++ t') \/ (exists x X2, X = t ++ x :: X2 /\ B = x :: X2 ++ R).
Proof.
  induction t as [|a t IH]; intros B X R E.
  - destruct X as [|x X2]; [left; exists []; reflexivity|].
    right. exists x, X2. split; [reflexivity|exact E].
  - destruct X as [|x X2]; [left; exists (a :: t); reflexivity|].
    cbn [app] in E. injection E as Ea E. subst x.
    destruct (IH _ _ _ E) as [[t' H]|[x [X3 [H1 H2]]]].
    + left. exists t'. now rewrite H.
    + right. exists x, X3. split; [now rewrite H1|exact H2].
Qed.

Lemma removelast_hard : forall (p : list item) F,
  existsb is_hard (concat (removelast (p :: F))) = false ->
  existsb is_hard (concat (removelast F)) = false /\
  (F <> [] -> existsb is_hard p = false).
Proof.
  intros p F H. destruct F as [|f F'].
  - split; [reflexivity|congruence].
  - change (removelast (p :: f :: F')) with (p :: removelast (f :: F')) in H.
    cbn [concat] in H. rewrite existsb_app in H. apply orb_false_iff in H.
    destruct H as [H1 H2]. split; [exact H2|intros _; exact H1].
Qed.

Lemma cat_snoc : forall cur t p, cat (cur ++ [(t, p)]) = cat cur ++ p.
Proof. intros. rewrite cat_app. unfold cat. cbn. now rewrite app_nil_r. Qed.

Lemma cat_cons : forall t p r, cat ((t, p) :: r) = p ++ cat r.
Proof. reflexivity. Qed.

(* ------------------------------------------------------------------ inside one unit *)
(* the pieces of a unit that started a line: a candidate division whose current line
   starts with `cur` goes through the same lines as `chop` *)
Lemma chop_unique : forall F avail av cur ls R ls0 c a,
  cur <> [] ->
  (F <> [] -> existsb is_hard (cat cur) = false) ->
  existsb is_hard (concat (removelast F)) = false ->
  chop avail av cur (map (pair false) F) = (ls0, c, a) ->
  Cand avail av ls ->
  (exists t r, ls = (cur ++ t) :: r) ->
  concat ls = cur ++ map (pair false) F ++ R ->
  exists ls', ls = ls0 ++ ls' /\ Cand avail a ls' /\
              (exists t r, ls' = (c ++ t) :: r) /\ concat ls' = c ++ R.
Proof.
  induction F as [|p F' IH]; intros avail av cur ls R ls0 c a Hcur H1 H2 Hchop HC Hhead Hcat.
  - cbn in Hchop. injection Hchop as E1 E2 E3. subst ls0 c a.
    cbn [map app] in Hcat. exists ls.
    split; [reflexivity|]. split; [exact HC|]. split; assumption.
  - cbn [map] in Hchop. rewrite chop_eq in Hchop. cbn [snd] in Hchop.
    destruct Hhead as [t [r E]]. subst ls.
    cbn [concat] in Hcat. rewrite <- app_assoc in Hcat. apply app_inv_head in Hcat.
    assert (Hnil : is_nil cur = false) by (destruct cur; [congruence|reflexivity]).
    assert (Hnh : existsb is_hard (cat cur) = false) by (apply H1; discriminate).
    destruct (removelast_hard p F' H2) as [H2' Hp].
    rewrite Hnil in Hchop. cbn [orb] in Hchop.
    pose proof (Cand_tl _ _ _ _ HC) as HC2. pose proof HC as HC0.
    destruct HC as (Hne & Hf & Hm & He & Hh & Hw).
    destruct t as [|x t'].
    + (* the candidate breaks before p: p does not fit *)
      rewrite app_nil_r in *. cbn [app map] in Hcat.
      destruct r as [|g2 r']; [discriminate|].
      inversion Hne as [|? ? _ Hne2]; subst. inversion Hne2 as [|? ? Hg2 _]; subst.
      destruct g2 as [|x g2']; [congruence|].
      cbn [concat app] in Hcat. injection Hcat as Hx Hcat. subst x.
      cbn [MaximalE] in Hm. destruct Hm as [Hm _].
      unfold ends_hard_t in Hm. rewrite Hnh in Hm.
      destruct Hm as [Hm|Hm]; [discriminate|].
      apply Z.leb_gt in Hm. rewrite Hm in Hchop.
      destruct (chop avail avail [(false, p)] (map (pair false) F')) as [[ls1 c1] a1] eqn:E1.
      injection Hchop as E2 E3 E4. subst ls0 c a.
      destruct (IH avail avail [(false, p)] (((false, p) :: g2') :: r') R ls1 c1 a1) as [ls' [EL HL]];
        [ discriminate
        | intros HF; rewrite cat_cons; cbn; rewrite app_nil_r; exact (Hp HF)
        | exact H2' | exact E1 | exact HC2
        | exists g2', r'; reflexivity
        | cbn [concat app]; now rewrite Hcat | ].
      exists ls'. split; [cbn [app]; now rewrite EL|exact HL].
    + (* the candidate goes on with p: p fits, by monotonicity *)
      cbn [app map] in Hcat. injection Hcat as Hx Hcat. subst x.
      destruct Hf as [Hok Hf]. destruct Hok as [Hok|Hok].
      2:{ rewrite app_length in Hok. destruct cur; [congruence|]. cbn in Hok. lia. }
      assert (Hle : lw (cat cur ++ p) <= av).
      { eapply Z.le_trans; [|exact Hok].
        inversion Hw as [|? ? Hw1 _]; subst.
        rewrite cat_app, cat_cons, app_assoc. apply lw_app_mono.
        rewrite cat_app, cat_cons, app_assoc in Hw1. exact Hw1. }
      apply Z.leb_le in Hle. rewrite Hle in Hchop.
      apply (IH avail av (cur ++ [(false, p)]) ((cur ++ (false, p) :: t') :: r) R ls0 c a);
        [ intros HH; apply app_eq_nil in HH; destruct HH; discriminate
        | intros HF; rewrite cat_snoc, existsb_app, Hnh; exact (Hp HF)
        | exact H2' | exact Hchop
        | exact HC0
        | exists t', r; now rewrite <- app_assoc
        | cbn [concat]; rewrite <- !app_assoc; cbn [app]; now rewrite Hcat ].
Qed.

(* ------------------------------------------------------------------ forced breaks *)
(* a line that holds a forced break takes nothing of the next unit *)
Lemma hard_stop : forall c t rr r,
  existsb is_hard (cat c) = true ->
  hard_closes (cat (c ++ t)) ->
  t ++ concat rr = concat (map tpieces r) ->
  Forall (fun u => u <> []) r -> Forall nch r ->
  t = [].
Proof.
  intros c t rr r Hc Hhc Hcat Hne Hn.
  destruct t as [|[tg q] t']; [reflexivity|]. exfalso.
  destruct r as [|v r']; [discriminate|].
  inversion Hne as [|? ? Hv _]; subst. inversion Hn as [|? ? Hnv _]; subst.
  destruct (tpieces_head v Hv) as [p0 [F [E EP]]].
  cbn [map concat] in Hcat. rewrite E in Hcat. cbn [app] in Hcat.
  injection Hcat as Etg Eq _. subst tg q.
  destruct (existsb_hard_split _ Hc) as [x [y Ec]].
  assert (Hq : forallb is_close (y ++ p0 ++ cat t') = true).
  { apply (Hhc x). rewrite cat_app, cat_cons, Ec, <- app_assoc. reflexivity. }
  rewrite !forallb_app in Hq. apply andb_true_iff in Hq. destruct Hq as [_ Hq].
  apply andb_true_iff in Hq. destruct Hq as [Hq _].
  pose proof (seg_nonempty ecut_b v [] []) as Hp. fold (pieces v) in Hp. rewrite EP in Hp.
  inversion Hp as [|? ? Hp0 _]; subst.
  destruct p0 as [|s p0']; [congruence|].
  pose proof (pieces_concat v) as EC. rewrite EP in EC. cbn [concat app] in EC.
  symmetry in EC. specialize (Hnv s _ EC).
  cbn [forallb] in Hq. rewrite Hnv in Hq. discriminate.
Qed.

(* the line that `chop` leaves open holds the last piece of the unit, hence its forced
   break if it has one, and none if it has none *)
Lemma chop_open_hard : forall u avail a ls c a',
  u <> [] -> hard_tail u ->
  chop avail a [] (tpieces u) = (ls, c, a') ->
  existsb is_hard (cat c) = ends_hard u.
Proof.
  intros u avail a ls c a' Hu Ht E.
  destruct (ends_hard u) eqn:Hh.
  - destruct (tpieces_head u Hu) as [p0 [F [ET EP]]].
    destruct (exists_last (l := pieces u)) as [P [q EQ]]; [rewrite EP; discriminate|].
    pose proof (hard_in_last_piece u P q Ht Hh EQ) as Hq.
    destruct (tpieces_last u P q EQ) as [T [tg ETL]].
    destruct (last_piece_in_chop _ _ _ _ _ _ _ T (tg, q) E) as [c' Ec]; [exact ETL|].
    subst c. rewrite cat_snoc, existsb_app, Hq. apply orb_true_r.
  - destruct (chop_segments u avail a ls c a' E c) as [P [Q EU]];
      [apply in_or_app; right; now left|].
    exact (nohard_segment u P (cat c) Q Hh EU).
Qed.

Lemma nohard_init_pieces : forall u, hard_tail u ->
  existsb is_hard (concat (removelast (pieces u))) = false.
Proof.
  intros u Ht. destruct (pieces u) as [|p0 F] eqn:EP; [reflexivity|].
  destruct (exists_last (l := p0 :: F)) as [P [q EQ]]; [discriminate|].
  rewrite EQ, removelast_last. rewrite EQ in EP. exact (nohard_init u P q Ht EP).
Qed.

(* ------------------------------------------------------------------ the induction *)
(* "every candidate division of cur ++ r whose current line starts with cur is fill_e" *)
Definition unique_for (r : list (list item)) : Prop :=
  forall avail av cur ls,
    existsb is_hard (cat cur) = false ->
    concat ls = cur ++ concat (map tpieces r) ->
    (cur <> [] -> exists t rs, ls = (cur ++ t) :: rs) ->
    Cand avail av ls ->
    ls = fill_e avail av cur r.

(* a unit that starts a line *)
Lemma start_unique : forall u r,
  u <> [] -> hard_tail u -> Forall (fun u => u <> []) r -> Forall nch r -> unique_for r ->
  forall avail av ls,
    concat ls = tpieces u ++ concat (map tpieces r) -> Cand avail av ls ->
    ls = start_e avail av u r.
Proof.
  intros u r Hu Ht Hne Hn IHr avail av ls Hcat HC. unfold unique_for in IHr.
  unfold start_e. destruct (chop avail av [] (tpieces u)) as [[ls0 c] a'] eqn:E.
  pose proof (chop_open_hard u avail av ls0 c a' Hu Ht E) as Hoh.
  destruct (tpieces_head u Hu) as [p0 [F [ET EP]]].
  pose proof (nohard_init_pieces u Ht) as HI. rewrite EP in HI.
  destruct (removelast_hard p0 F HI) as [H2 Hp].
  rewrite ET in E, Hcat. rewrite chop_eq in E. cbn [is_nil orb app] in E.
  destruct ls as [|g1 rest]; [discriminate|].
  assert (Hg1 : g1 <> []) by (destruct HC as [Hn1 _]; now inversion Hn1).
  destruct g1 as [|x g1']; [congruence|].
  cbn [concat app] in Hcat. injection Hcat as Hx Hcat. subst x.
  destruct (chop_unique F avail av [(true, p0)] (((true, p0) :: g1') :: rest)
              (concat (map tpieces r)) ls0 c a') as [ls' [EL [HC' [[t [rr Els']] Hcat']]]];
    [ discriminate
    | intros HF; rewrite cat_cons; cbn; rewrite app_nil_r; exact (Hp HF)
    | exact H2 | exact E | exact HC
    | exists g1', rest; reflexivity
    | cbn [concat app]; now rewrite Hcat | ].
  rewrite EL. subst ls'.
  cbn [concat] in Hcat'. rewrite <- app_assoc in Hcat'. apply app_inv_head in Hcat'.
  destruct (ends_hard u) eqn:Hh.
  - assert (t = []).
    { apply (hard_stop c t rr r Hoh); [|exact Hcat'|exact Hne|exact Hn].
      destruct HC' as (_ & _ & _ & _ & Hhc & _). now inversion Hhc. }
    subst t. rewrite app_nil_r in *. apply f_equal. apply f_equal.
    apply IHr; [reflexivity|exact Hcat'|congruence|exact (Cand_tl _ _ _ _ HC')].
  - apply f_equal. apply IHr; [exact Hoh| |intros _; exists t, rr; reflexivity|exact HC'].
    cbn [concat]. rewrite <- app_assoc. now rewrite Hcat'.
Qed.

Lemma MaximalE_reg : forall avail av g p g2 r,
  MaximalE avail av (g :: ((true, p) :: g2) :: r) ->
  ends_hard_t g = true \/ av < lw (cat g ++ first_unit (concat (((true, p) :: g2) :: r))).
Proof. intros avail av g p g2 r [H _]. exact H. Qed.

Lemma EmergencyOnly_em : forall g p g2 r,
  EmergencyOnly (g :: ((false, p) :: g2) :: r) -> all_emergency (tl g) = true.
Proof. intros g p g2 r [H _]. exact H. Qed.

Lemma fill_e_unique : forall us,
  Forall (fun u => u <> []) us -> Forall hard_tail us -> Forall nch (tl us) ->
  unique_for us.
Proof.
  induction us as [|u r IH]; intros Hne Hts Hn avail av cur ls Hcur Hcat Hhead HC.
  - rewrite fill_e_nil. cbn [map concat] in Hcat. rewrite app_nil_r in Hcat.
    destruct HC as [Hne1 _]. destruct cur as [|c0 c].
    + apply concat_nil_nonempty; assumption.
    + destruct Hhead as [t [rs E]]; [discriminate|]. subst ls.
      cbn [concat] in Hcat. rewrite <- app_assoc in Hcat.
      rewrite <- (app_nil_r (c0 :: c)) in Hcat at 2. apply app_inv_head in Hcat.
      apply app_eq_nil in Hcat. destruct Hcat as [Et Er]. subst t.
      inversion Hne1; subst. rewrite (concat_nil_nonempty rs); auto. now rewrite app_nil_r.
  - inversion Hne as [|? ? Hu Hne']; subst. inversion Hts as [|? ? Ht Hts']; subst.
    cbn [tl] in Hn.
    assert (IHr : unique_for r).
    { apply IH; [exact Hne'|exact Hts'|]. destruct r; [constructor|now inversion Hn]. }
    pose proof (start_unique u r Hu Ht Hne' Hn IHr) as Hstart.
    rewrite fill_e_eq. destruct cur as [|c0 c].
    + cbn [is_nil]. apply Hstart; [exact Hcat|exact HC].
    + destruct Hhead as [t [rest E]]; [discriminate|]. subst ls.
      remember (c0 :: c) as cur eqn:Ecur.
      assert (Hnil : is_nil cur = false) by (subst cur; reflexivity). rewrite Hnil.
      cbn [concat map] in Hcat. rewrite <- app_assoc in Hcat. apply app_inv_head in Hcat.
      pose proof (Cand_tl _ _ _ _ HC) as HC2. pose proof HC as HC0.
      destruct HC as (Hne1 & Hf & Hm & He & Hh & Hw).
      destruct (tpieces_head u Hu) as [p0 [F [ET EP]]].
      destruct (app_split _ _ _ _ Hcat) as [[t' Et]|[x [X2 [EX ER]]]].
      * (* the candidate takes the whole unit: it fits, by monotonicity *)
        subst t. rewrite <- app_assoc in Hcat. apply app_inv_head in Hcat.
        destruct Hf as [Hok Hf]. destruct Hok as [Hok|Hok].
        2:{ rewrite app_length, app_length, ET in Hok. cbn [length] in Hok.
            destruct cur; [discriminate|]. cbn [length] in Hok. lia. }
        assert (Hle : lw (cat cur ++ u) <= av).
        { eapply Z.le_trans; [|exact Hok].
          apply Forall_cons_iff in Hw. destruct Hw as [Hw1 _].
          rewrite !cat_app, cat_tpieces, app_assoc. apply lw_app_mono.
          rewrite !cat_app, cat_tpieces, app_assoc in Hw1. exact Hw1. }
        apply Z.leb_le in Hle. rewrite Hle.
        destruct (ends_hard u) eqn:Hhu.
        -- assert (t' = []).
           { apply (hard_stop (cur ++ tpieces u) t' rest r); [ | |exact Hcat|exact Hne'|exact Hn].
             - rewrite cat_app, cat_tpieces, existsb_app. unfold ends_hard in Hhu.
               rewrite Hhu. apply orb_true_r.
             - apply Forall_cons_iff in Hh. destruct Hh as [Hh1 _].
               rewrite <- app_assoc. exact Hh1. }
           subst t'. rewrite app_nil_r in *. apply f_equal.
           apply IHr; [reflexivity|exact Hcat|congruence|exact HC2].
        -- apply IHr.
           ++ rewrite cat_app, cat_tpieces, existsb_app, Hcur. exact Hhu.
           ++ cbn [concat]. rewrite <- !app_assoc. now rewrite Hcat.
           ++ intros _. exists t', rest. now rewrite <- app_assoc.
           ++ exact HC0.
      * (* the candidate breaks before or inside the unit *)
        destruct rest as [|g2 rest']; [discriminate|].
        assert (Hg2 : g2 <> []).
        { apply Forall_cons_iff in Hne1. destruct Hne1 as [_ Hne2].
          apply Forall_cons_iff in Hne2. tauto. }
        destruct g2 as [|x' g2']; [congruence|].
        assert (x' = x) by (cbn [concat app] in ER; congruence). subst x'.
        destruct t as [|y t1].
        -- (* before it, at a regular opportunity: by maximality the unit does not fit *)
           cbn [app] in EX. rewrite app_nil_r in *.
           assert (ER' : concat ((x :: g2') :: rest') = tpieces u ++ concat (map tpieces r))
             by (rewrite EX; exact ER).
           rewrite ET in EX. injection EX as Ex EX2. subst x.
           apply MaximalE_reg in Hm. rewrite ER', first_unit_tpieces in Hm by assumption.
           unfold ends_hard_t in Hm. rewrite Hcur in Hm.
           destruct Hm as [Hm|Hm]; [discriminate|].
           apply Z.leb_gt in Hm. rewrite Hm. apply f_equal.
           apply Hstart; [exact ER'|exact HC2].
        -- (* inside it, at an emergency opportunity: the line holds a regular one *)
           exfalso. rewrite ET in EX. cbn [app] in EX. injection EX as Ey EX. subst y.
           pose proof (Forall_false_map F) as HF. rewrite EX in HF.
           apply Forall_app in HF. destruct HF as [_ HF].
           apply Forall_cons_iff in HF. destruct HF as [Hx _].
           destruct x as [tx px]. cbn in Hx. subst tx.
           apply EmergencyOnly_em in He. subst cur. cbn [tl app] in He.
           rewrite all_emergency_app in He. cbn in He. rewrite andb_false_r in He.
           discriminate.
Qed.

(* ------------------------------------------------------------------ break_lines_e *)
Lemma wf_lines : forall ls : list (list (bool * list item)),
  wf (cat (concat ls)) -> Forall (fun g => wf (cat g)) ls.
Proof.
  induction ls as [|g r IH]; intros H; [constructor|].
  cbn [concat] in H. rewrite cat_app in H. apply Forall_app in H. destruct H as [H1 H2].
  constructor; [exact H1|exact (IH H2)].
Qed.

(* the division is determined by the property: a division of the tagged pieces into
   non-empty lines that fits, is maximal, breaks at an emergency opportunity only on a
   line without regular one and respects forced breaks IS break_lines_e.  The hypotheses
   are, word for word, the conclusions of break_partition_e, lines_fit_e,
   greedy_maximal_e, emergency_only and forced_respected_e. *)
Theorem break_unique_e : forall avail indent items ls,
  wf items -> PartitionE (tsub items) ls ->
  FitsE avail (avail - indent) ls -> MaximalE avail (avail - indent) ls ->
  EmergencyOnly ls -> Forall hard_closes (flat_e ls) ->
  ls = break_lines_e avail indent items.
Proof.
  intros avail indent items ls Hwf [Hcat Hne] Hfit Hmax Hem Hf.
  unfold break_lines_e.
  apply (fill_e_unique (units items) (units_nonempty items) (units_all_hard_tail items)
           (units_nch items)).
  - reflexivity.
  - exact Hcat.
  - intros H; congruence.
  - repeat split; try assumption.
    + unfold flat_e in Hf. rewrite Forall_map in Hf. exact Hf.
    + apply wf_lines. rewrite Hcat. unfold tsub. rewrite cat_concat_tpieces, units_concat.
      exact Hwf.
Qed.

(* break_lines_e is a candidate (the five statements + well-formedness), so the theorem
   is an equivalence: the predicates characterise break_lines_e *)
Theorem break_unique_e_iff : forall avail indent items ls,
  wf items ->
  (ls = break_lines_e avail indent items <->
   PartitionE (tsub items) ls /\ FitsE avail (avail - indent) ls /\
   MaximalE avail (avail - indent) ls /\ EmergencyOnly ls /\
   Forall hard_closes (flat_e ls)).
Proof.
  intros avail indent items ls Hwf. split.
  - intros E. subst ls.
    repeat split; [apply break_partition_e|apply break_partition_e|apply lines_fit_e
                  |apply greedy_maximal_e|apply emergency_only|apply forced_respected_e].
  - intros (H1 & H2 & H3 & H4 & H5). now apply break_unique_e.
Qed.
