(* Layout/TableGeomAuto.v -- model of autoTableLayout and of the top-level
   call of distributeExcessWidth of /repo/html/layout/tables.go, over the
   arithmetic record of Base/F32.v:

     autoTableLayout                                   912-1048
       used table width from available / min- / max-content width  936-948
       the four guesses                                             955-974
       choice of the lower / upper guess and interpolation          976-1010
       excess: distributeExcessWidth, shrinking the table or
       "breaking the rules"                                        1011-1046
     distributeExcessWidth (columnSlice = all columns)  1119-1292

   Inputs are what tableAndColumnsPreferredWidths (NOT modelled) returned for
   the table: per column min-content / max-content width, intrinsic
   percentage, constrainedness, whether a cell originates in the column and
   whether all those cells have a zero max-content width; the table's
   min-content / max-content width and total horizontal border spacing.
   Model only: proofs in Layout/TableGeomAutoProofs.v. *)
From Coq Require Export QArith List ZArith.
From Verif Require Export Base.F32 Base.GoSem Layout.TableGeom.
Export ListNotations.
Open Scope Q_scope.

Record acol := mkAC {
  ac_min : Q; ac_max : Q; ac_pct : Q; ac_constr : bool;
  ac_cell : bool;       (* a cell originates in the column (grid column not empty) *)
  ac_nomax : bool       (* ... and every such cell has max-content width 0 *)
}.

Definition Qeq_b (a b : Q) : bool := Qeq_bool a b.

Section Auto.
  Variable ar : arith.
  Notation "a +. b" := (add ar a b) (at level 50, left associativity).
  Notation "a -. b" := (sub ar a b) (at level 50, left associativity).
  Notation "a *. b" := (mul ar a b) (at level 40, left associativity).
  Notation "a /. b" := (div ar a b) (at level 40, left associativity).

  (* tables.go:903-909 *)
  Definition sumf (l : list Q) : Q := fold_left (fun s v => s +. v) l 0.

  (* columnWidths[i] += d *)
  Definition add_at_idx (cw : list Q) (i : nat) (d : Q) : list Q :=
    firstn i cw ++ match skipn i cw with [] => [] | w :: r => (w +. d) :: r end.

  (* for k := range ds { columnWidths[idx[k]] += ds[k] } *)
  Fixpoint add_all (cw : list Q) (idx : list nat) (ds : list Q) : list Q :=
    match idx, ds with
    | i :: idx', d :: ds' => add_all (add_at_idx cw i d) idx' ds'
    | _, _ => cw
    end.

  (* indices of the columns satisfying p *)
  Fixpoint filter_idx (p : acol -> bool) (i : nat) (cols : list acol) : list nat :=
    match cols with
    | [] => []
    | c :: r => if p c then i :: filter_idx p (S i) r else filter_idx p (S i) r
    end.

  (* 1141-1154 / 1191-1204 / 1251-1259: scale the differences when they exceed
     the excess, subtract their (unscaled) sum from the excess, add them *)
  Definition apply_differences (cw : list Q) (idx : list nat) (ds : list Q) (excess : Q) : list Q * Q :=
    let sumD := fold_left (fun s d => s +. d) ds 0 in
    let ds' := if Qlt_b excess sumD then map (fun d => d /. sumD *. excess) ds else ds in
    (add_all cw idx ds', excess -. sumD).

  (* first and third group, 1122-1155 and 1175-1205.  The differences are
     computed from columnMaxContentWidths[k] for k = 0, 1, .. (position in the
     selection), as the code does *)
  Definition group13 (idx : list nat) (maxs cw : list Q) (excess : Q) : list Q * Q :=
    match idx with
    | [] => (cw, excess)
    | _ =>
        let current := map (fun i => nth i cw 0) idx in
        let ds := map (fun mc => Qmax_ 0 (fst mc -. snd mc)) (combine maxs current) in
        apply_differences cw idx ds excess
    end.

  (* fourth group, 1210-1260 *)
  Definition group4 (cols : list acol) (idx : list nat) (cw : list Q) (excess : Q) : list Q * Q :=
    match idx with
    | [] => (cw, excess)
    | _ =>
        let n := length cols in
        let fixed_width :=
          fold_left (fun s j => if existsb (Nat.eqb j) idx then s else s +. nth j cw 0) (seq 0 n) 0 in
        let pct_width := fold_left (fun s i => s +. ac_pct (nth i cols (mkAC 0 0 0 false false false))) idx 0 in
        let ratio :=
          if negb (Qeq_b fixed_width 0) && Qle_b 100 pct_width then excess
          else if Qeq_b fixed_width 0 then excess
          else fixed_width /. (100 -. pct_width) in
        let ds := map (fun i => ac_pct (nth i cols (mkAC 0 0 0 false false false)) *. ratio -. nth i cw 0) idx in
        apply_differences cw idx ds excess
    end.

  (* 1119-1292 with columnSlice = [0, n]; returns the widths and the excess
     that could not be distributed *)
  Definition distribute_excess (cols : list acol) (cw : list Q) (excess : Q) : list Q * Q :=
    let maxs := map ac_max cols in
    let unconstrained c := negb (ac_constr c) && Qeq_b (ac_pct c) 0 in
    let '(cw1, e1) := group13 (filter_idx (fun c => unconstrained c && Qlt_b 0 (ac_max c)) 0 cols) maxs cw excess in
    if Qle_b e1 0 then (cw1, 0)                                                        (* 1156-1158 *)
    else
      match filter_idx unconstrained 0 cols with                                      (* 1160-1173 *)
      | (_ :: _) as idx2 =>
          let share := e1 /. of_nat (length idx2) in
          (add_all cw1 idx2 (map (fun _ => share) idx2), 0)
      | [] =>
          let '(cw3, e3) :=
            group13 (filter_idx (fun c => ac_constr c && Qeq_b (ac_pct c) 0 && Qlt_b 0 (ac_max c)) 0 cols) maxs cw1 e1 in
          if Qle_b e3 0 then (cw3, 0)                                                  (* 1206-1208 *)
          else
            let '(cw4, e4) := group4 cols (filter_idx (fun c => Qlt_b 0 (ac_pct c)) 0 cols) cw3 e3 in
            if Qle_b e4 0 then (cw4, 0)                                                (* 1261-1263 *)
            else
              match filter_idx (fun c => ac_cell c && Qeq_b (ac_pct c) 0 && ac_nomax c) 0 cols with   (* 1272-1290 *)
              | (_ :: _) as idx5 =>
                  let share := e4 /. of_nat (length idx5) in
                  (add_all cw4 idx5 (map (fun _ => share) idx5), 0)
              | [] => (cw4, e4)                                                        (* 1291 *)
              end
      end.

  (* 955-974 *)
  Definition guess1 (a : Q) (c : acol) : Q :=
    if negb (Qeq_b (ac_pct c) 0) then Qmax_ (ac_pct c /. 100 *. a) (ac_min c) else ac_min c.
  Definition guess2 (a : Q) (c : acol) : Q :=
    if negb (Qeq_b (ac_pct c) 0) then guess1 a c else if ac_constr c then ac_max c else ac_min c.
  Definition guess3 (a : Q) (c : acol) : Q :=
    if negb (Qeq_b (ac_pct c) 0) then guess1 a c else ac_max c.

  (* 982-988: the last guess of the initial run of guesses whose sum does not
     exceed the assignable width (default: the first) *)
  Fixpoint lower_index (a : Q) (sums : list Q) (k best : nat) : nat :=
    match sums with
    | [] => best
    | s :: r => if Qle_b s a then lower_index a r (S k) k else best
    end.
  (* 989-996: scanning from the last guess down (default: the last) *)
  Definition upper_index (a : Q) (sums : list Q) : nat :=
    let n := length sums in
    (fix go (rs : list Q) (k best : nat) : nat :=
       match rs with
       | [] => best
       | s :: r => if Qle_b a s then go r (pred k) k else best
       end) (rev sums) (pred n) (pred n).

  (* 955-1046: a table with at least one column, W = the width after 936-948 *)
  Definition auto_columns (W tmin spacing : Q) (cols : list acol) : list Q * Q :=
    let a := W -. spacing in                                                                        (* 955 *)
    let g0 := map ac_min cols in
    let g1 := map (guess1 a) cols in
    let g2 := map (guess2 a) cols in
    let g3 := map (guess3 a) cols in
    let guesses := [g0; g1; g2; g3] in
    if Qle_b a (sumf g3) then                                                                       (* 976 *)
      let sums := map sumf guesses in
      let li := lower_index a sums 0 0 in
      let ui := upper_index a sums in
      if Nat.eqb ui li then (nth ui guesses [], W)                                                  (* 997-998 *)
      else
        let lower := nth li guesses [] in
        let upper := nth ui guesses [] in
        let added := map (fun ul => fst ul -. snd ul) (combine upper lower) in                     (* 1000-1005 *)
        let sl := sumf lower in
        let saw := sumf added in
        let ratio := if negb (Qeq_b saw 0) then (a -. sl) /. saw else 0 in                         (* 1006-1008 *)
        (map (fun la => fst la +. snd la *. ratio) (combine lower added), W)                       (* 1009-1013 *)
    else
      let excess := a -. sumf g3 in                                                                 (* 1016 *)
      let '(cw, e) := distribute_excess cols g3 excess in
      if Qeq_b e 0 then (cw, W)
      else if Qlt_b tmin (W -. e) then (cw, W -. e)                                                 (* 1020-1023 *)
      else
        let idx := filter_idx ac_cell 0 cols in                                                     (* 1026-1041 *)
        (add_all cw idx (map (fun _ => e /. of_nat (length idx)) idx), W).

  (* 936-948 *)
  Definition used_width (width : option Q) (avail tmin tmax : Q) : Q :=
    match width with
    | None => if Qle_b avail tmin then tmin else if Qlt_b avail tmax then avail else tmax           (* 937-943 *)
    | Some w => if Qlt_b w tmin then tmin else w                                                    (* 945-947 *)
    end.

  (* 912-1048.  width: the table's width after resolvePercentages (None =
     auto); avail: the containing block width minus the wrapper's margins and
     the table's padding and borders.  Result: column widths, used width *)
  Definition auto_table_layout (width : option Q) (avail tmin tmax spacing : Q) (cols : list acol)
    : list Q * Q :=
    let W := used_width width avail tmin tmax in
    match cols with
    | [] => ([], W)                                                                                 (* 950-953 *)
    | _ => auto_columns W tmin spacing cols
    end.
End Auto.
