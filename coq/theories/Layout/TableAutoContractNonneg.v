(* Layout/TableAutoContractNonneg.v -- the contract of Properties/C13.v for
   model_auto_layout reduced to its single open conjunct: whenever the widths
   returned are non negative (branch condition stated explicitly as a
   hypothesis on the RESULT), the whole auto_contract 0 holds. *)
From Verif Require Import Base.F32 Base.GoSem Layout.TableGeom Layout.TableGeomSpec Layout.TableGeomProofs
  Layout.TableGeomAuto Layout.TableGeomAutoProofs Layout.TableAutoContract.
From Coq Require Import QArith List ZArith Lia Lqa Bool.
Import ListNotations.
Open Scope Q_scope.

Theorem model_auto_layout_contract_of_nonneg avail spec has bsx mins maxs :
  mins <> [] -> length mins = length maxs ->
  let '(table_w, widths) := model_auto_layout avail spec has bsx mins maxs in
  Forall (fun w => 0 <= w) widths ->
  length widths = length mins /\ auto_contract 0 table_w spec bsx has widths = true.
Proof.
  intros Hne Hl.
  pose proof (model_auto_layout_contract_partial avail spec has bsx mins maxs Hne Hl) as P.
  destruct (model_auto_layout avail spec has bsx mins maxs) as [tw ws].
  destruct P as [F1 [F2 F3]]. intros Hnn. split; [exact F1|].
  unfold auto_contract. apply andb_true_intro; split; [apply andb_true_intro; split|].
  - apply forallb_forall. intros w Hin. apply Qle_bool_iff.
    rewrite Forall_forall in Hnn. apply Hnn. exact Hin.
  - cbv zeta. destruct ws as [|w0 ws']; [reflexivity|].
    apply andb_true_intro; split; apply Qle_bool_iff; rewrite F2; lra.
  - destruct has; [|reflexivity]. apply Qle_bool_iff. specialize (F3 eq_refl). lra.
Qed.

(* the hypotheses (result included) are inhabited: max-content branch *)
Example model_auto_layout_nonneg_example :
  model_auto_layout 300 0 false 2 [10; 20] [100; 60] = (166, [100; 60]) /\
  Forall (fun w => 0 <= w) [100; 60] /\
  auto_contract 0 166 0 2 false [100; 60] = true.
Proof.
  split; [vm_compute; reflexivity|]. split; [|vm_compute; reflexivity].
  repeat constructor; discriminate.
Qed.

(* ---- a branch where the non negativity IS derived from the inputs ---- *)
Definition good_col (c : acol) : Prop := 0 <= ac_min c /\ 0 <= ac_max c /\ ac_pct c = 0.

Lemma contract_cols_good mins : forall maxs,
  Forall (fun w => 0 <= w) mins -> Forall (fun w => 0 <= w) maxs ->
  Forall good_col (contract_cols mins maxs).
Proof.
  unfold contract_cols. induction mins as [|m r IH]; intros maxs Hm Hx; [constructor|].
  destruct maxs as [|x maxs]; [constructor|]. cbn [combine map fst snd].
  inversion Hm; subst. inversion Hx; subst. constructor; [|apply IH; assumption].
  unfold good_col. cbn [ac_min ac_max ac_pct]. repeat split; assumption.
Qed.

Lemma map_good_nonneg (f : acol -> Q) cols :
  (forall c, good_col c -> 0 <= f c) -> Forall good_col cols -> Forall (fun w => 0 <= w) (map f cols).
Proof. intros Hf Hg. induction Hg as [|c l Hc _ IH]; cbn [map]; constructor; auto. Qed.

Lemma guesses_nonneg a cols : Forall good_col cols -> forall k,
  Forall (fun w => 0 <= w)
    (nth k [map ac_min cols; map (guess1 exactQ a) cols; map (guess2 exactQ a) cols; map (guess3 exactQ a) cols] []).
Proof.
  intros Hg k.
  destruct k as [|[|[|[|k]]]]; cbn [nth]; [| | | |destruct k; constructor];
    (apply map_good_nonneg; [|exact Hg]); intros c [A [B C]].
  - exact A.
  - unfold guess1. rewrite C. change (Qeq_b 0 0) with true. cbn [negb]. exact A.
  - unfold guess2. rewrite C. change (Qeq_b 0 0) with true. cbn [negb]. destruct (ac_constr c); assumption.
  - unfold guess3. rewrite C. change (Qeq_b 0 0) with true. cbn [negb]. exact B.
Qed.

(* branch 997-998 of autoTableLayout: the assignable width does not exceed the
   sum of the last guess and the lower and upper guess coincide *)
Theorem auto_columns_same_guess_nonneg W tmin spacing cols :
  Forall good_col cols ->
  let a := sub exactQ W spacing in
  let guesses := [map ac_min cols; map (guess1 exactQ a) cols; map (guess2 exactQ a) cols; map (guess3 exactQ a) cols] in
  Qle_b a (sumf exactQ (map (guess3 exactQ a) cols)) = true ->
  Nat.eqb (upper_index a (map (sumf exactQ) guesses)) (lower_index a (map (sumf exactQ) guesses) 0 0) = true ->
  Forall (fun w => 0 <= w) (fst (auto_columns exactQ W tmin spacing cols)).
Proof.
  intros Hg a guesses H1 H2. unfold auto_columns. cbv zeta.
  fold a. fold guesses. rewrite H1. rewrite H2. cbn [fst]. apply guesses_nonneg. exact Hg.
Qed.

(* the same branch for the adapter: there the whole contract holds, from sign
   hypotheses on the INPUTS only (0 <= mins, 0 <= maxs) *)
Theorem model_auto_layout_same_guess_contract avail spec (has : bool) bsx mins maxs :
  mins <> [] -> length mins = length maxs ->
  Forall (fun w => 0 <= w) mins -> Forall (fun w => 0 <= w) maxs ->
  let spacing := inject_Z (Z.of_nat (S (length mins))) * bsx in
  let tmin := sumQ mins + spacing in
  let tmax := Qmax_ tmin (sumQ maxs + spacing) in
  let W := used_width (if has then Some spec else None) avail tmin tmax in
  let cols := contract_cols mins maxs in
  let a := sub exactQ W spacing in
  let guesses := [map ac_min cols; map (guess1 exactQ a) cols; map (guess2 exactQ a) cols; map (guess3 exactQ a) cols] in
  Qle_b a (sumf exactQ (map (guess3 exactQ a) cols)) = true ->
  Nat.eqb (upper_index a (map (sumf exactQ) guesses)) (lower_index a (map (sumf exactQ) guesses) 0 0) = true ->
  let '(table_w, widths) := model_auto_layout avail spec has bsx mins maxs in
  length widths = length mins /\ auto_contract 0 table_w spec bsx has widths = true.
Proof.
  intros Hne Hl Hm Hx spacing tmin tmax W cols a guesses H1 H2.
  pose proof (model_auto_layout_contract_of_nonneg avail spec has bsx mins maxs Hne Hl) as P.
  assert (E : snd (model_auto_layout avail spec has bsx mins maxs) = fst (auto_columns exactQ W tmin spacing cols)).
  { clear H1 H2 P. subst guesses a cols W tmax tmin spacing.
    unfold model_auto_layout, auto_table_layout. cbv zeta.
    pose proof (contract_cols_length mins maxs Hl) as Hc.
    destruct (contract_cols mins maxs) as [|c0 l0] eqn:Ec.
    - exfalso. destruct mins; [contradiction|discriminate].
    - destruct (auto_columns exactQ _ _ _ _) as [cw W']. reflexivity. }
  destruct (model_auto_layout avail spec has bsx mins maxs) as [tw ws]. cbn [snd] in E.
  apply P. rewrite E. apply auto_columns_same_guess_nonneg.
  - apply contract_cols_good; assumption.
  - exact H1.
  - exact H2.
Qed.

(* the branch is inhabited: the table gets its max-content width *)
Example model_auto_layout_same_guess_example :
  let spacing := inject_Z (Z.of_nat 3) * 2 in
  let a := sub exactQ (used_width None 300 (30 + spacing) (Qmax_ (30 + spacing) (160 + spacing))) spacing in
  let cols := contract_cols [10; 20] [100; 60] in
  let guesses := [map ac_min cols; map (guess1 exactQ a) cols; map (guess2 exactQ a) cols; map (guess3 exactQ a) cols] in
  Qle_b a (sumf exactQ (map (guess3 exactQ a) cols)) = true /\
  Nat.eqb (upper_index a (map (sumf exactQ) guesses)) (lower_index a (map (sumf exactQ) guesses) 0 0) = true.
Proof. vm_compute. split; reflexivity. Qed.
