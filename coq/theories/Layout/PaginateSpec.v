(* Layout/PaginateSpec.v -- what property C12 requires of a pagination,
   stated on (flow, pages) independently of how pages are computed.

   Part 1 (generic): a pagination of n units is a list of content pages
   (state, s, e) = "the page made in state `st` holds units s .. e-1".
   The predicates are the sentences of the property text:

     chain                     the pages hold every unit exactly once, in order, and every
                               page holds at least one (used by C02 / C01)
     forced_inside_free        a forced break never lies inside a page
     no_avoidable_overflow     content extends below the page's content box only if no
                               earlier legal break point exists on that page
     no_early_end              a page ends before its content box is full only at a forced
                               break or because the content up to the next legal break does not fit
     soft_if_possible          avoid / orphans / widows are honoured whenever a conforming
                               break exists

   Part 2 (documents): page sequence (sides, blank pages, first, index, names),
   page box geometry (the block-width-like equation per axis, CSS Page 3 / CSS 2.1
   10.3.3) and page counters.

   Each predicate comes with a boolean decision procedure (`..._b`) evaluated by
   Check/C12.v on the implementation's pages; Layout/PaginateProofs.v proves
   them equivalent to the predicates. *)
From Verif Require Export Layout.Paginate.
Local Open Scope nat_scope.

Section Spec.
  Variable St : Type.
  Variable n : nat.
  Variable forced : nat -> bool.
  Variable allowed : nat -> nat -> bool.
  Variable fits : St -> nat -> nat -> bool.
  Variable next_st : St -> nat -> St.

  (* the first forced boundary after s, or the end of the flow -- stated
     declaratively (the model computes it with `cap`) *)
  Definition is_cap (s c : nat) : Prop :=
    s < c /\ c <= n /\ (c = n \/ forced c = true) /\ forall b, s < b -> b < c -> forced b = false.

  (* a break before unit b ends a page that starts at s legally: allowed by the
     soft constraints, or b is a forced break / the end of the flow *)
  Definition legal_break (s b : nat) : Prop :=
    allowed s b = true \/ b = n \/ forced b = true.

  Fixpoint chain (st : St) (s : nat) (ps : list (St * nat * nat)) : Prop :=
    match ps with
    | [] => s = n
    | (st', s', e) :: r => st' = st /\ s' = s /\ s < e /\ e <= n /\ chain (next_st st s) e r
    end.

  Definition forced_inside_free (p : St * nat * nat) : Prop :=
    let '(_, s, e) := p in forall b, s < b -> b < e -> forced b = false.

  Definition no_avoidable_overflow (p : St * nat * nat) : Prop :=
    let '(st, s, e) := p in
    fits st s e = false -> forall b, s < b -> b < e -> allowed s b = false.

  Definition no_early_end (p : St * nat * nat) : Prop :=
    let '(st, s, e) := p in
    e < n -> forced e = false ->
    forall b c, is_cap s c -> e < b -> b <= c -> fits st s b = true -> ~ legal_break s b.

  Definition soft_if_possible (p : St * nat * nat) : Prop :=
    let '(st, s, e) := p in
    ~ legal_break s e ->
    forall b c, is_cap s c -> s < b -> b <= c -> fits st s b = true -> ~ legal_break s b.

  Definition page_ok (p : St * nat * nat) : Prop :=
    forced_inside_free p /\ no_avoidable_overflow p /\ no_early_end p /\ soft_if_possible p.

  Definition pagination_ok (init : St) (ps : list (St * nat * nat)) : Prop :=
    chain init 0 ps /\ Forall page_ok ps.

  (* the class on which the predicates determine the pagination: wherever a page
     of ps starts, some legal break fits (no conflicting avoid constraints, every
     unit shorter than its page) *)
  Definition conforming_exists (p : St * nat * nat) : Prop :=
    let '(st, s, _) := p in
    exists b c, is_cap s c /\ s < b /\ b <= c /\ fits st s b = true /\ legal_break s b.

  (* ---------------------------------------------------------------- deciders *)

  Definition range (a b : nat) : list nat := seq a (b - a).     (* a .. b-1 *)

  Definition legal_b (s b : nat) : bool := legal n forced allowed s b.

  Fixpoint chain_b (s : nat) (ps : list (St * nat * nat)) : bool :=
    match ps with
    | [] => s =? n
    | (_, s', e) :: r => (s' =? s) && (s <? e) && (e <=? n) && chain_b e r
    end.

  Definition forced_inside_free_b (p : St * nat * nat) : bool :=
    let '(_, s, e) := p in forallb (fun b => negb (forced b)) (range (S s) e).

  Definition no_avoidable_overflow_b (p : St * nat * nat) : bool :=
    let '(st, s, e) := p in
    fits st s e || forallb (fun b => negb (allowed s b)) (range (S s) e).

  Definition no_early_end_b (p : St * nat * nat) : bool :=
    let '(st, s, e) := p in
    (n <=? e) || forced e ||
    forallb (fun b => negb (fits st s b && legal_b s b)) (range (S e) (S (cap n forced s))).

  Definition soft_if_possible_b (p : St * nat * nat) : bool :=
    let '(st, s, e) := p in
    legal_b s e ||
    forallb (fun b => negb (fits st s b && legal_b s b)) (range (S s) (S (cap n forced s))).

  Definition conforming_exists_b (p : St * nat * nat) : bool :=
    let '(st, s, _) := p in
    existsb (fun b => fits st s b && legal_b s b) (range (S s) (S (cap n forced s))).
End Spec.

(* ------------------------------------------------------------------ documents *)

(* --- page selectors (CSS Page 3, 3.1 / 3.2 and Selectors an+b) *)
Definition page_type_match_spec (s : psel) (p : ptype) : Prop :=
  (s_side s = 0%N \/ s_side s = p_side p) /\
  (s_blank s = true -> p_blank p = true) /\
  (s_first s = true -> p_first p = true) /\
  (s_name s = 0%N \/ s_name s = p_name p) /\
  match s_nth s with
  | Some (NthAB a b) => exists k : Z, (0 <= k)%Z /\ (p_index p + 1 = a * k + b)%Z
  | None => True
  end.

(* --- the cascade among @page declarations: the winner for a property is a
   declaration of maximal weight, the last such in application order *)
Definition weight_lt (w o : weight) : Prop := weight_le w o = true /\ weight_le o w = false.

Definition cascade_winner (l : list (weight * decl)) (p : pprop) (r : option pval) : Prop :=
  match r with
  | None => forall w d, In (w, d) l -> d_prop d <> p
  | Some v =>
      exists l1 w d l2, l = l1 ++ (w, d) :: l2 /\ d_prop d = p /\ d_val d = v /\
        (forall w' d', In (w', d') l1 -> d_prop d' = p -> weight_le w' w = true) /\
        (forall w' d', In (w', d') l2 -> d_prop d' = p -> weight_lt w' w)
  end.

(* --- page box: "the width and horizontal margins of the page box are calculated
   exactly as for a non-replaced block element in normal flow; the height and
   vertical margins analogously; if over-constrained the containing block is
   resized instead of ignoring a margin" (CSS Page 3, 5.3; CSS 2.1 10.3.3) *)
Definition axis_spec (cb pb : Q) (inner ma mb : mf) (r : mf * mf * mf) : Prop :=
  let '(i', a', b') := r in
  (* specified values are kept *)
  (forall x, inner = Some x -> i' = Some x) /\
  (forall x, ma = Some x -> a' = Some x) /\
  (forall x, mb = Some x -> b' = Some x) /\
  (* no auto left *)
  (exists i a b, i' = Some i /\ a' = Some a /\ b' = Some b /\
     (* the equation holds unless all three were specified *)
     ((inner = None \/ ma = None \/ mb = None) -> a + pb + i + b == cb) /\
     (* auto inner: auto margins are zero *)
     (inner = None -> (ma = None -> a == 0) /\ (mb = None -> b == 0)) /\
     (* both margins auto: centred *)
     (inner <> None -> ma = None -> mb = None -> a == b))%Q.

(* --- page sequence.  `brks` = for each content page the side its incoming break
   requests (0 none) and the page name of its first unit. *)
Record pinfo := mkPI { pi_type : ptype; pi_content : option (N * N) (* Some (req side, name) for a content page *) }.

Fixpoint page_seq_ok (right : bool) (idx : Z) (ps : list pinfo) : Prop :=
  match ps with
  | [] => True
  | p :: r =>
      let t := pi_type p in
      p_index t = idx /\ p_side t = side_of right /\ p_first t = (idx =? 0)%Z /\
      match pi_content p with
      | Some (req, name) =>
          p_blank t = false /\ p_name t = name /\ (req = 0%N \/ req = p_side t)
      | None =>
          (* a blank page: only when the next page's content asked for the other side *)
          p_blank t = true /\ p_name t = 0%N /\
          match r with
          | q :: _ => exists req name, pi_content q = Some (req, name) /\ req = side_of (negb right)
          | [] => False
          end
      end /\
      page_seq_ok (negb right) (idx + 1)%Z r
  end.

Fixpoint page_seq_ok_b (right : bool) (idx : Z) (ps : list pinfo) : bool :=
  match ps with
  | [] => true
  | p :: r =>
      let t := pi_type p in
      (p_index t =? idx)%Z && N.eqb (p_side t) (side_of right) && Bool.eqb (p_first t) (idx =? 0)%Z &&
      match pi_content p with
      | Some (req, name) =>
          negb (p_blank t) && N.eqb (p_name t) name && (N.eqb req 0 || N.eqb req (p_side t))
      | None =>
          p_blank t && N.eqb (p_name t) 0 &&
          match r with
          | q :: _ => match pi_content q with
                      | Some (req, _) => N.eqb req (side_of (negb right))
                      | None => false
                      end
          | [] => false
          end
      end &&
      page_seq_ok_b (negb right) (idx + 1)%Z r
  end.

(* --- page counters: counter(page) is the page's position, counter(pages) the total *)
Definition counters_ok (ps : list page) : Prop :=
  forall i p, nth_error ps i = Some p ->
    pg_counter p = N.of_nat (S i) /\ pg_pages p = N.of_nat (length ps).

(* ------------------------------------------------------------------ Part 3: the values that meet at a boundary
   (CSS Fragmentation 3, 3.1 / CSS Page 3 "allowed page breaks": a break between two
   sibling boxes takes the break-after values of the first box and of every box that ENDS
   with it -- its last child, that one's last child, ... -- and the break-before values of
   the second box and of every box that STARTS it -- its first child, ...).  Stated on the
   flow tree, independently of the linearisation of Layout/Paginate.v. *)

(* break-after of the boxes that end with f, innermost first *)
Fixpoint closing_ba (f : flow) : list brk :=
  match f with
  | Blk _ _ _ _ _ ba _ _ kids =>
      (fix go (ks : list flow) : list brk :=
         match ks with
         | [] => []
         | [k] => closing_ba k
         | _ :: r => go r
         end) kids ++ [ba]
  | _ => []
  end.

(* break-before of the boxes that start with f, outermost first *)
Fixpoint opening_bb (f : flow) : list brk :=
  match f with
  | Blk _ _ _ _ bb _ _ _ kids =>
      bb :: match kids with k :: _ => opening_bb k | [] => [] end
  | _ => []
  end.

(* the break value of the boundary between two sibling boxes *)
Definition sibling_break (before after : flow) : brk :=
  block_level_page_break (closing_ba before ++ opening_bb after).
