(* Layout/Css21BlockSpec.v -- CSS 2.1 (REC 2011) rules for block-level,
   non-replaced boxes in normal flow, transcribed as an independent
   specification over exact rationals.  Nothing here is shaped like the
   implementation: the horizontal rules are relations between computed and
   used values, the vertical rules are a list of equations that a laid out
   tree must satisfy, phrased with the *adjoining margins* of 8.3.1 computed
   as pure functions of the tree (no threaded state).

     10.3.3  css_10_3_3          the seven-term equation and its case analysis
     10.4    css_10_4            tentative width, then max-width, then min-width
     8.3/8.4/10.2/10.5/10.7, css-ui box-sizing   pct_spec
     8.3.1   through / top_run / bottom_run / all_margins, collapsed
     9.4.1, 8.3.1 (positions), 10.6.3, 10.7       vertical_eqs

   Values are those of the laid out tree (Layout/BlockFlow.v `lbox`, used
   margins / paddings / borders / heights, positions) so that the statement
   "the model satisfies CSS 2.1" is `forall input, spec (model input)`. *)
From Coq Require Import QArith Qminmax List Bool.
From Verif Require Import Base.F32 Layout.BlockFlow.
Import ListNotations.
Open Scope Q_scope.

(* ------------------------------------------------------------------ 10.3.3 *)

(* used values of one box; `wu_mr` is the USED right margin: the one that
   satisfies the equation *)
Record wused := mkW { wu_ml : Q; wu_w : Q; wu_mr : Q }.

Definition zero_if_auto (m : mf) : mf := match m with None => Some 0 | _ => m end.

(* CSS 2.1 10.3.3 for direction: ltr.  ml, mr, w: computed values (None = auto);
   pl pr bl br: paddings and borders; cbw: width of the containing block. *)
Definition css_10_3_3 (cbw pl pr bl br : Q) (ml mr w : mf) (u : wused) : Prop :=
  (* "margin-left + border-left-width + padding-left + width + padding-right +
      border-right-width + margin-right = width of containing block" *)
  wu_ml u + bl + pl + wu_w u + pr + br + wu_mr u == cbw /\
  (* "If 'width' is not 'auto' and 'border-left-width' + 'padding-left' + 'width' +
      'padding-right' + 'border-right-width' (plus any of 'margin-left' or 'margin-right'
      that are not 'auto') is larger than the width of the containing block, then any
      'auto' values for 'margin-left' or 'margin-right' are, for the following rules,
      treated as zero." *)
  exists ml0 mr0 : mf,
    (match w with
     | Some wv => if Qltb cbw (bl + pl + wv + pr + br + V ml + V mr)
                  then ml0 = zero_if_auto ml /\ mr0 = zero_if_auto mr
                  else ml0 = ml /\ mr0 = mr
     | None => ml0 = ml /\ mr0 = mr
     end) /\
    match w, ml0, mr0 with
    (* "If all of the above have a computed value other than 'auto', the values are said
        to be over-constrained and one of the used values will have to be different from
        its computed value.  If 'direction' is 'ltr', the specified value of 'margin-right'
        is ignored and the value is calculated so as to make the equality true." *)
    | Some wv, Some l, Some _ => wu_w u == wv /\ wu_ml u == l
    (* "If there is exactly one value specified as 'auto', its used value follows from
        the equality." *)
    | Some wv, None, Some r => wu_w u == wv /\ wu_mr u == r
    | Some wv, Some l, None => wu_w u == wv /\ wu_ml u == l
    (* "If both 'margin-left' and 'margin-right' are 'auto', their used values are equal.
        This horizontally centers the element." *)
    | Some wv, None, None => wu_w u == wv /\ wu_ml u == wu_mr u
    (* "If 'width' is set to 'auto', any other 'auto' values become '0' and 'width'
        follows from the resulting equality." *)
    | None, _, _ => wu_ml u == V ml0 /\ wu_mr u == V mr0
    end.

(* ------------------------------------------------------------------ 10.4 *)

Definition le_ext (x : Q) (m : ext) : Prop := match m with Fin m => x <= m | PInf => True end.

(* "1. The tentative used width is calculated (without 'min-width' and 'max-width').
    2. If the tentative used width is greater than 'max-width', the rules above are
       applied again, but this time using the computed value of 'max-width' as the
       computed value for 'width'.
    3. If the resulting width is smaller than 'min-width', the rules above are applied
       again, but this time using the value of 'min-width' as the computed value for
       'width'."   `rules w u`: the used values u follow from 10.3.3 with computed width w. *)
Definition css_10_4 (rules : mf -> wused -> Prop) (w : mf) (minw : Q) (maxw : ext) (u : wused) : Prop :=
  exists t1 t2 : wused,
    rules w t1 /\
    (match maxw with
     | Fin m => if Qltb m (wu_w t1) then rules (Some m) t2 else t2 = t1
     | PInf => t2 = t1
     end) /\
    (if Qltb (wu_w t2) minw then rules (Some minw) u else u = t2).

(* ------------------------------------------------------------------ percentages, box-sizing *)

(* a percentage of a reference length *)
Definition pct_of (refer p : Q) : Q := p / 100 * refer.

(* 8.3 (margins), 10.2 (width): percentages refer to the WIDTH of the containing block *)
Definition spec_len (v : len) (refer : Q) : mf :=
  match v with LAuto => None | LPx x => Some x | LPct p => Some (pct_of refer p) end.
(* 8.4: padding percentages refer to the width of the containing block, even for top / bottom *)
Definition spec_plen (v : plen) (refer : Q) : Q :=
  match v with PPx x => x | PPct p => pct_of refer p end.

(* content-box size from the specified size (css-ui box-sizing): the paddings / borders
   included in the specified size are subtracted, floored at zero *)
Definition Qmax0 (x : Q) : Q := Qmax 0 x.
Definition content_of (sz : sizing) (pad bord : Q) (x : Q) : Q :=
  match sz with
  | ContentBox => x
  | PaddingBox => if Qltb 0 pad then Qmax0 (x - pad) else x
  | BorderBox => if Qltb 0 (pad + bord) then Qmax0 (x - (pad + bord)) else x
  end.
Definition content_of_mf sz pad bord (x : mf) : mf :=
  match x with Some x => Some (content_of sz pad bord x) | None => None end.
Definition content_of_ext sz pad bord (x : ext) : ext :=
  match x with Fin x => Fin (content_of sz pad bord x) | PInf => PInf end.

Definition mf_eq (a b : mf) : Prop :=
  match a, b with Some x, Some y => x == y | None, None => True | _, _ => False end.
Definition ext_eq (a b : ext) : Prop :=
  match a, b with Fin x, Fin y => x == y | PInf, PInf => True | _, _ => False end.

(* the resolved values of a style against a containing block of width cbw and height cbh
   (None = the height of the containing block depends on its content) *)
Definition pct_spec (s : style) (cbw : Q) (cbh : mf) (u : ubox) : Prop :=
  let hpad := upl u + upr u in let hbord := ubl u + ubr u in
  let vpad := upt u + upb u in let vbord := ubt u + ubb u in
  let sz := s_sizing s in
  (* margins and paddings of the four sides: width of the containing block *)
  mf_eq (umt u) (spec_len (s_mt s) cbw) /\ mf_eq (umr u) (spec_len (s_mr s) cbw) /\
  mf_eq (umb u) (spec_len (s_mb s) cbw) /\ mf_eq (uml u) (spec_len (s_ml s) cbw) /\
  upt u == spec_plen (s_pt s) cbw /\ upr u == spec_plen (s_pr s) cbw /\
  upb u == spec_plen (s_pb s) cbw /\ upl u == spec_plen (s_pl s) cbw /\
  ubt u == s_bt s /\ ubr u == s_br s /\ ubb u == s_bb s /\ ubl u == s_bl s /\
  (* 10.2, 10.4 *)
  mf_eq (uw u) (content_of_mf sz hpad hbord (spec_len (s_w s) cbw)) /\
  uminw u == content_of sz hpad hbord (V (spec_len (s_minw s) cbw)) /\
  ext_eq (umaxw u) (content_of_ext sz hpad hbord
                      (match s_maxw s with MNone => PInf | MPx x => Fin x | MPct p => Fin (pct_of cbw p) end)) /\
  (* 10.5: "If the height of the containing block is not specified explicitly (i.e., it
     depends on content height), and this element is not absolutely positioned, the
     value computes to 'auto'."  10.7: "... the percentage value is treated as '0' (for
     'min-height') or 'none' (for 'max-height')." *)
  match cbh with
  | Some ch =>
      mf_eq (uh u) (content_of_mf sz vpad vbord (spec_len (s_h s) ch)) /\
      uminh u == content_of sz vpad vbord (V (spec_len (s_minh s) ch)) /\
      ext_eq (umaxh u) (content_of_ext sz vpad vbord
                          (match s_maxh s with MNone => PInf | MPx x => Fin x | MPct p => Fin (pct_of ch p) end))
  | None =>
      mf_eq (uh u) (content_of_mf sz vpad vbord (match s_h s with LPx x => Some x | _ => None end)) /\
      uminh u == content_of sz vpad vbord (match s_minh s with LPx x => x | _ => 0 end) /\
      ext_eq (umaxh u) (content_of_ext sz vpad vbord
                          (match s_maxh s with MPx x => Fin x | _ => PInf end))
  end.

(* ------------------------------------------------------------------ 8.3.1 collapsing margins *)

(* "the resulting margin width is the maximum of the collapsing margins' widths ... If
    there are no positive margins, the maximum of the absolute values of the adjoining
    margins is deducted from zero ... In the case of negative margins, the maximum of the
    absolute values of the negative adjoining margins is deducted from the maximum of the
    positive adjoining margins": largest positive + most negative *)
Definition maxpos (l : list Q) : Q := fold_right Qmax 0 l.
Definition minneg (l : list Q) : Q := fold_right Qmin 0 l.
Definition collapsed (l : list Q) : Q := maxpos l + minneg l.

(* geometry of a laid out box *)
Definition b_mt (b : lbox) : Q := V (umt (box_of b)).
Definition b_mb (b : lbox) : Q := V (umb (box_of b)).
Definition kids (b : lbox) : list lbox := match b with LBox _ _ _ cs => cs end.
Definition hcomp (b : lbox) : mf := match b with LBox _ _ hc _ => hc end.
Definition border_top (b : lbox) : Q := uy (box_of b) + b_mt b.
Definition content_top (b : lbox) : Q := border_top b + ubt (box_of b) + upt (box_of b).
Definition border_bot (b : lbox) : Q :=
  content_top b + V (uh (box_of b)) + upb (box_of b) + ubb (box_of b).

Definition zero (q : Q) : bool := Qeq_bool q 0.

(* "top margin of a box and top margin of its first in-flow child" are adjoining when
   "no padding and no border separate them"; the root's margins do not collapse *)
Definition open_top (root : bool) (b : lbox) : bool :=
  negb root && zero (ubt (box_of b)) && zero (upt (box_of b)).
(* "bottom margin of a last in-flow child and bottom margin of its parent if the parent
   has 'auto' computed height" *)
Definition open_bot (root : bool) (b : lbox) : bool :=
  negb root && zero (ubb (box_of b)) && zero (upb (box_of b)) && is_auto (hcomp b).

(* the top and bottom margins of the box are adjoining (margins collapse through it):
   "top and bottom margins of a box that does not establish a new block formatting
   context and that has zero computed 'min-height', zero or 'auto' computed 'height', and
   no in-flow children"; with children, by transitivity through all of them
   ("A box's own margins collapse if the 'min-height' property is zero, and it has
   neither top or bottom borders nor top or bottom padding, it has a 'height' of either 0
   or 'auto', ... and all of its in-flow children's margins (if any) collapse"), the link
   from the last child's bottom margin needing an 'auto' height. *)
Fixpoint through (b : lbox) : bool :=
  match b with
  | LBox u _ hc cs =>
      zero (uminh u) && zero (ubt u) && zero (upt u) && zero (ubb u) && zero (upb u) &&
      match cs with
      | [] => match hc with None => true | Some h => zero h end
      | _ :: _ => is_auto hc && forallb through cs
      end
  end.

(* every margin of the subtree, in document order *)
Fixpoint all_margins (b : lbox) : list Q :=
  match b with
  | LBox u _ _ cs => V (umt u) :: flat_map all_margins cs ++ [V (umb u)]
  end.

(* the margins of the subtree of b (b not the root) that are adjoining to b's top margin
   through the subtree (its own bottom margin, if adjoining, not included):
   b's top margin, then, if no border / padding separates them, the top run of the
   first child; margins collapse through a child whose own margins are adjoining, and
   the run continues with its bottom margin and the next sibling *)
Definition krun_of (tr : lbox -> list Q) : list lbox -> list Q :=
  fix krun (cs : list lbox) : list Q :=
    match cs with
    | [] => []
    | c :: r => tr c ++ (if through c then b_mb c :: krun r else [])
    end.
Fixpoint top_run (b : lbox) : list Q :=
  match b with
  | LBox u _ _ cs =>
      V (umt u) :: (if zero (ubt u) && zero (upt u) then krun_of top_run cs else [])
  end.

(* the margins of the subtree of b (b not the root) adjoining to b's bottom margin
   through the subtree: from the last child whose margins do not collapse through it
   onwards, then b's bottom margin *)
Definition brun_of (br : lbox -> list Q) : list lbox -> list Q -> list Q :=
  fix brun (cs : list lbox) (acc : list Q) : list Q :=
    match cs with
    | [] => acc
    | c :: r => if through c then brun r (acc ++ all_margins c) else brun r (br c)
    end.
Fixpoint bottom_run (b : lbox) : list Q :=
  match b with
  | LBox u _ hc cs =>
      (if zero (ubb u) && zero (upb u) && is_auto hc then brun_of bottom_run cs [] else [])
      ++ [V (umb u)]
  end.

(* ------------------------------------------------------------------ positions and heights *)

(* one instance of a CSS rule on the laid out tree: lhs must equal rhs.
   kind 1: position of the top border edge (9.4.1 / 8.3.1);
   kind 2: used height (10.6.3 / 10.7). *)
Inductive veq := VEq (kind : nat) (lhs rhs : Q).

Definition clamp_h (b : lbox) (x : Q) : Q :=
  Qmax (match umaxh (box_of b) with Fin m => Qmin x m | PInf => x end) (uminh (box_of b)).

(* The equations of the subtree of b.
   e     : y of the nearest edge above that cannot be collapsed through (the top content
           edge of an ancestor, or the bottom border edge of a preceding box);
   R     : the margins that precede b's top margin and are adjoining to it;
   ptop  : Some y when b's top margin is adjoining to its parent's top margin, y being
           the parent's top border edge.
   9.4.1: "boxes are laid out one after the other, vertically, beginning at the top of
   a containing block.  The vertical distance between two sibling boxes is determined by
   the 'margin' properties.  Vertical margins between adjacent block-level boxes
   collapse."  Hence: top border edge = e + collapsed (all the margins adjoining to
   the box's top margin).
   8.3.1, for a box whose own margins are adjoining: "If the element's margins are
   collapsed with its parent's top margin, the top border edge of the box is defined to
   be the same as the parent's.  Otherwise ... the position of the element's top border
   edge is the same as it would have been if the element had a non-zero bottom border."
   10.6.3 for 'height: auto': "the distance from its top content edge to the first
   applicable of the following: ... 2. the bottom edge of the bottom (possibly collapsed)
   margin of its last in-flow child, if the child's bottom margin does not collapse with
   the element's bottom margin; 3. the bottom border edge of the last in-flow child whose
   top margin doesn't collapse with the element's bottom margin; 4. zero, otherwise",
   then 10.7 (min-height / max-height). *)
(* state along the children of a box: nearest hard edge above, pending adjoining
   margins, whether they still include the parent's top margin *)
Definition vstate := (Q * list Q * bool)%type.

Definition go_of (ve : lbox -> Q -> list Q -> option Q -> list veq) (ptop : Q)
  : list lbox -> vstate -> list veq * vstate :=
  fix go (cs : list lbox) (st : vstate) {struct cs} : list veq * vstate :=
    match cs with
    | [] => ([], st)
    | c :: r =>
        let ce := fst (fst st) in let cR := snd (fst st) in let cin := snd st in
        let here := ve c ce cR (if cin then Some ptop else None) in
        let st' := if through c then (ce, cR ++ all_margins c, cin)
                   else (border_bot c, bottom_run c, false) in
        (here ++ fst (go r st'), snd (go r st'))
    end.

Fixpoint vertical_eqs (b : lbox) (root : bool) (e : Q) (R : list Q) (ptop : option Q) : list veq :=
  match b with
  | LBox u _ hc cs =>
      let pos :=
        match (if through b then ptop else None) with
        | Some py => VEq 1 (border_top b) py
        | None => VEq 1 (border_top b) (e + collapsed (R ++ (if root then [b_mt b] else top_run b)))
        end in
      let otop := open_top root b in
      let st0 : vstate := if otop then (e, R ++ [b_mt b], true) else (content_top b, [], false) in
      let res := go_of (fun c => vertical_eqs c false) (border_top b) cs st0 in
      let e' := fst (fst (snd res)) in let R' := snd (fst (snd res)) in let intop := snd (snd res) in
      let hauto :=
        match cs with
        | [] => 0
        | _ :: _ =>
            if open_bot root b then (if intop then 0 else e' - content_top b)
            else e' + collapsed R' - content_top b
        end in
      let hgt := VEq 2 (V (uh u)) (clamp_h b (match hc with None => hauto | Some h => h end)) in
      pos :: hgt :: fst res
  end.

Definition veq_holds (q : veq) : Prop := match q with VEq _ l r => l == r end.
Definition veq_holdsb (q : veq) : bool := match q with VEq _ l r => Qeq_bool l r end.

(* the laid out document (root box against the page's content box at y = cby) obeys
   CSS 2.1's vertical rules *)
Definition vertical_ok (cby : Q) (t : lbox) : Prop :=
  Forall veq_holds (vertical_eqs t true cby [] None).

(* the domain on which the implementation's algorithm is proved to satisfy them: no box
   that collapses with its children has a first child whose margins collapse through it *)
Fixpoint no_through_first (root : bool) (b : lbox) : bool :=
  match b with
  | LBox u _ _ cs =>
      (match cs with
       | c :: _ => negb (open_top root b && through c)
       | [] => true
       end) && forallb (no_through_first false) cs
  end.
