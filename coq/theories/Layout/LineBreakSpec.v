(* Layout/LineBreakSpec.v -- C11: the property text as declarative predicates over a
   candidate division `ls` of the inline content into lines.  Nothing here mentions the
   greedy algorithm `fill`; Layout/LineBreakProofs.v shows that `break_lines` satisfies
   them and is the ONLY division that does (break_unique).

   A division is a list of lines, each a list of units (LineBreak.units: the pieces
   between consecutive break opportunities); `av` is the room of the first line of the
   list (avail - text-indent for the first line of the block), `avail` of the others. *)
From Verif Require Import Layout.LineBreak.
From Coq Require Import List ZArith QArith Bool.
Import ListNotations.
Open Scope Z_scope.

(* lengths are not negative (negative margins are outside the property's quantifier) *)
Definition wf (items : list item) : Prop := Forall (fun i => 0 <= iw i) items.

(* the lines are made of all the units, in order, none empty *)
Definition Partition (us : list lunit) (ls : list (list lunit)) : Prop :=
  concat ls = us /\ Forall (fun g => g <> []) ls.

(* "its content never exceeds that width unless it is a single unbreakable unit" *)
Definition line_ok (av : Z) (g : list lunit) : Prop :=
  lw (concat g) <= av \/ length g = 1%nat.

Fixpoint Fits (avail av : Z) (ls : list (list lunit)) : Prop :=
  match ls with
  | [] => True
  | g :: r => line_ok av g /\ Fits avail avail r
  end.

Definition ends_hard_line (g : list lunit) : bool := existsb ends_hard g.

(* "never breaks earlier than necessary when the next unit would still fit":
   the first unit of the next line does not fit after the line, unless the line ends
   with a forced break *)
Fixpoint Maximal (avail av : Z) (ls : list (list lunit)) : Prop :=
  match ls with
  | [] => True
  | g :: r =>
      match r with
      | (u :: _) :: _ => ends_hard_line g = true \/ av < lw (concat g ++ u)
      | _ => True
      end /\ Maximal avail avail r
  end.

(* a line does not go on after a forced break: no unit of a line but its last one ends
   with a forced break *)
Definition Forced (ls : list (list lunit)) : Prop :=
  Forall (fun g => Forall (fun u => ends_hard u = false) (removelast g)) ls.

(* t is l with some collapsible spaces removed, nothing else touched *)
Inductive drops_spaces : list item -> list item -> Prop :=
| ds_nil : drops_spaces [] []
| ds_keep i l t : drops_spaces l t -> drops_spaces (i :: l) (i :: t)
| ds_drop m w l t : collapses m = true -> drops_spaces l t -> drops_spaces (Space m w :: l) t.

(* lines stack without gap or overlap *)
Fixpoint Stacked (y : Q) (ls : list oline) : Prop :=
  match ls with
  | [] => True
  | l :: r => oy l = y /\ Stacked (y + oh l)%Q r
  end.

(* total advance of a placed line: widths plus the widening of every space glyph *)
Definition advance (emv : Z) (extra : Q) (v : list item) : Q :=
  (zq (sumw v) + zq (nspaces emv v) * extra)%Q.

Definition fx (f : frag) : Q := match f with FT x _ | FA x _ => x end.
Definition fw (f : frag) : Q := match f with FT _ w | FA _ w => w end.

(* the fragments follow each other from lo to hi, in order, without overlapping *)
Fixpoint chain (lo hi : Q) (fs : list frag) : Prop :=
  match fs with
  | [] => (lo <= hi)%Q
  | f :: r => (lo <= fx f)%Q /\ (0 <= fw f)%Q /\ chain (fx f + fw f)%Q hi r
  end.
