(* Layout/LineBreakSpec.v -- C11: the property text as declarative predicates over a
   candidate division `ls` of the inline content into lines.  Nothing here mentions the
   greedy algorithm `fill`; Layout/LineBreakProofs.v shows that `break_lines` satisfies
   them and is the ONLY division that does (break_unique).

   A division is a list of lines, each a list of units (LineBreak.units: the pieces
   between consecutive break opportunities); `av` is the room of the first line of the
   list (avail - text-indent for the first line of the block), `avail` of the others. *)
From Verif Require Import Layout.LineBreak.
From Coq Require Import List ZArith QArith Qabs Bool.
Import ListNotations.
Open Scope Z_scope.

(* lengths are not negative (negative margins are outside the property's quantifier) *)
Definition wf (items : list item) : Prop := Forall (fun i => 0 <= iw i) items.

(* the lines are made of all the units, in order, none empty *)
Definition Partition (us : list lunit) (ls : list (list lunit)) : Prop :=
  concat ls = us /\ Forall (fun g => g <> []) ls.

(* "its content never exceeds that width unless it is a single unbreakable unit" *)
Definition line_ok (av : Z) (g : list lunit) : Prop :=
  lw (concat g) <= av \/ length g = 1%nat.

Fixpoint Fits (avail av : Z) (ls : list (list lunit)) : Prop :=
  match ls with
  | [] => True
  | g :: r => line_ok av g /\ Fits avail avail r
  end.

Definition ends_hard_line (g : list lunit) : bool := existsb ends_hard g.

(* "never breaks earlier than necessary when the next unit would still fit":
   the first unit of the next line does not fit after the line, unless the line ends
   with a forced break *)
Fixpoint Maximal (avail av : Z) (ls : list (list lunit)) : Prop :=
  match ls with
  | [] => True
  | g :: r =>
      match r with
      | (u :: _) :: _ => ends_hard_line g = true \/ av < lw (concat g ++ u)
      | _ => True
      end /\ Maximal avail avail r
  end.

(* a line does not go on after a forced break: no unit of a line but its last one ends
   with a forced break *)
Definition Forced (ls : list (list lunit)) : Prop :=
  Forall (fun g => Forall (fun u => ends_hard u = false) (removelast g)) ls.

(* t is l with some collapsible spaces removed, nothing else touched *)
Inductive drops_spaces : list item -> list item -> Prop :=
| ds_nil : drops_spaces [] []
| ds_keep i l t : drops_spaces l t -> drops_spaces (i :: l) (i :: t)
| ds_drop m w l t : collapses m = true -> drops_spaces l t -> drops_spaces (Space m w :: l) t.

(* lines stack without gap or overlap *)
Fixpoint Stacked (y : Q) (ls : list oline) : Prop :=
  match ls with
  | [] => True
  | l :: r => oy l = y /\ Stacked (y + oh l)%Q r
  end.

Definition fx (f : frag) : Q := match f with FT x _ | FA x _ => x end.
Definition fw (f : frag) : Q := match f with FT _ w | FA _ w => w end.

(* the fragments follow each other from lo to hi, in order, without overlapping *)
Fixpoint chain (lo hi : Q) (fs : list frag) : Prop :=
  match fs with
  | [] => (lo <= hi)%Q
  | f :: r => (lo <= fx f)%Q /\ (0 <= fw f)%Q /\ chain (fx f + fw f)%Q hi r
  end.

(* ---- overflow-wrap: anywhere | break-word (CSS Text 3, 5.5).  A division is now a list of
   lines of TAGGED PIECES (LineBreak.tsub: the pieces between consecutive break
   opportunities, regular or emergency; tag true = a regular opportunity precedes the
   piece, false = only an emergency one).  With no EB item every piece is a unit, tagged
   true, and the predicates below are the ones above. *)
Definition PartitionE (ts : list (bool * list item)) (ls : list (list (bool * list item))) : Prop :=
  concat ls = ts /\ Forall (fun g => g <> []) ls.

(* "its content never exceeds that width unless it is a single unbreakable unit": here a
   single piece, which cannot be broken even in an emergency *)
Definition line_ok_e (av : Z) (g : list (bool * list item)) : Prop :=
  lw (cat g) <= av \/ length g = 1%nat.

Fixpoint FitsE (avail av : Z) (ls : list (list (bool * list item))) : Prop :=
  match ls with
  | [] => True
  | g :: r => line_ok_e av g /\ FitsE avail avail r
  end.

Definition ends_hard_t (g : list (bool * list item)) : bool := existsb is_hard (cat g).

(* the unit that starts at the head of a list of tagged pieces: the first piece and the
   pieces that follow it up to the next regular opportunity *)
Fixpoint same_unit (l : list (bool * list item)) : list item :=
  match l with
  | (false, p) :: r => p ++ same_unit r
  | _ => []
  end.
Definition first_unit (l : list (bool * list item)) : list item :=
  match l with
  | [] => []
  | (_, p) :: r => p ++ same_unit r
  end.

(* "never breaks earlier than necessary when the next unit would still fit": at a regular
   opportunity the whole next unit does not fit after the line; at an emergency opportunity
   not even the next piece does *)
Fixpoint MaximalE (avail av : Z) (ls : list (list (bool * list item))) : Prop :=
  match ls with
  | [] => True
  | g :: r =>
      match r with
      | ((t, p) :: _) :: _ =>
          ends_hard_t g = true \/
          (if t then av < lw (cat g ++ first_unit (concat r)) else av < lw (cat g ++ p))
      | _ => True
      end /\ MaximalE avail avail r
  end.

Definition all_emergency (g : list (bool * list item)) : bool := forallb (fun p => negb (fst p)) g.

(* "a line never breaks where overflow-wrap forbids it": an unbreakable sequence "may be
   broken at an arbitrary point if there are no otherwise-acceptable break points in the
   line": a line that ends at an emergency opportunity holds no regular one *)
Fixpoint EmergencyOnly (ls : list (list (bool * list item))) : Prop :=
  match ls with
  | [] => True
  | g :: r =>
      match r with
      | ((false, _) :: _) :: _ => all_emergency (tl g) = true
      | _ => True
      end /\ EmergencyOnly r
  end.

(* no emergency break opportunity at all: overflow-wrap: normal *)
Definition no_eb (items : list item) : Prop := forallb (fun i => negb (is_eb i)) items = true.

(* ---------------------------------------------------------------- inline box extents *)

(* an inline box of a laid-out line that has in-flow children: left / right of its content area
   (from its own position, margins, borders, paddings and width) and left of its first / right
   of its last in-flow child (margin boxes).  CSS 2.1 10.3.1 / 9.4.2: the content area of an
   inline box is exactly what its content takes (the horizontal margins, borders and paddings
   are respected between the boxes), also after text-align: justify has widened the spaces
   inside it and before it.  1/64 px of slack for the float arithmetic of justified lines. *)
Record iboxo := mkIB { ib_cl : Q; ib_cr : Q; ib_kl : Q; ib_kr : Q }.

(* the declarative reading: both ends of the content area are within 1/64 px of the ends of
   the content *)
Definition ibox_spans (b : iboxo) : Prop :=
  (Qabs (ib_cl b - ib_kl b) <= 1 # 64)%Q /\ (Qabs (ib_cr b - ib_kr b) <= 1 # 64)%Q.

Definition near (a b : Q) : bool :=
  Qle_bool (a - b)%Q (1 # 64)%Q && Qle_bool (b - a)%Q (1 # 64)%Q.

Definition ibox_ok (b : iboxo) : bool :=
  near (ib_cl b) (ib_kl b) && near (ib_cr b) (ib_kr b).

(* ---------------------------------------------------------------- line boxes and vertical-align *)

(* a laid-out line box (y, height) with the heights CSS 2.1 10.8 / 10.8.1 makes it contain,
   whatever the vertical-align of the boxes: the line-height of every inline box that has text
   on the line (the height of an inline non-replaced box is its line-height) and the margin-box
   height of every atomic inline on it.  "The line box height is the distance between the
   uppermost box top and the lowermost box bottom", boxes aligned top / bottom (also nested in
   one another) included: the line is at least as tall as each of them. *)
Record vline := mkVL { vl_y : Q; vl_h : Q; vl_req : list Q }.

Definition vline_tall (l : vline) : Prop := forall r, In r (vl_req l) -> (r <= vl_h l)%Q.

Fixpoint vstacked (ls : list vline) : Prop :=
  match ls with
  | a :: ((b :: _) as r) => (vl_y b == vl_y a + vl_h a)%Q /\ vstacked r
  | _ => True
  end.

Definition vline_tall_b (l : vline) : bool := forallb (fun r => Qle_bool r (vl_h l)) (vl_req l).

Fixpoint vstacked_b (ls : list vline) : bool :=
  match ls with
  | a :: ((b :: _) as r) => Qeq_bool (vl_y b) (vl_y a + vl_h a)%Q && vstacked_b r
  | _ => true
  end.
