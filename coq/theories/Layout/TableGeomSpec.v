(* Layout/TableGeomSpec.v -- SPECIFICATION of the table grid geometry in the
   separated borders model (CSS 2.1 17.5, 17.6.1), written with closed forms
   over exact rationals, independent of the code's accumulation loops:
   column j (0-based) of a table whose content box starts at x0 has its left
   edge at  x0 + (j+1)*spacing + sum of the widths of columns 0..j-1. *)
From Coq Require Import QArith List ZArith.
Import ListNotations.
Open Scope Q_scope.

Fixpoint sumQ (l : list Q) : Q := match l with [] => 0 | x :: r => x + sumQ r end.

Definition col_left (x0 bsx : Q) (widths : list Q) (j : nat) : Q :=
  x0 + inject_Z (Z.of_nat (S j)) * bsx + sumQ (firstn j widths).
Definition col_right (x0 bsx : Q) (widths : list Q) (j : nat) : Q :=
  col_left x0 bsx widths j + nth j widths 0.

(* direction: rtl: the columns run from the right edge xr of the content box,
   column 0 is the rightmost one: column j has its left edge at
   xr - (j+1)*spacing - sum of the widths of columns 0..j *)
Definition col_left_rtl (xr bsx : Q) (widths : list Q) (j : nat) : Q :=
  xr - inject_Z (Z.of_nat (S j)) * bsx - sumQ (firstn (S j) widths).
Definition col_right_rtl (xr bsx : Q) (widths : list Q) (j : nat) : Q :=
  col_left_rtl xr bsx widths j + nth j widths 0.

(* rows: the same vertically; y0 is where the first row starts (the spacing
   above it already added) *)
Definition row_top (y0 bsy : Q) (heights : list Q) (k : nat) : Q :=
  y0 + inject_Z (Z.of_nat k) * bsy + sumQ (firstn k heights).
Definition row_bottom (y0 bsy : Q) (heights : list Q) (k : nat) : Q :=
  row_top y0 bsy heights k + nth k heights 0.

(* a cell occupying columns [gx, gx+cs) and rows [gy, gy+rs) *)
Record rect := mkRect { rx : Q; ry : Q; rw : Q; rh : Q }.
Definition cell_rect (x0 y0 bsx bsy : Q) (widths heights : list Q) (gx cs gy rs : nat) : rect :=
  mkRect (col_left x0 bsx widths gx) (row_top y0 bsy heights gy)
         (col_right x0 bsx widths (gx + cs - 1) - col_left x0 bsx widths gx)
         (row_bottom y0 bsy heights (gy + rs - 1) - row_top y0 bsy heights gy).

(* interiors of two rectangles do not meet *)
Definition rect_disjoint (a b : rect) : Prop :=
  rx a + rw a <= rx b \/ rx b + rw b <= rx a \/ ry a + rh a <= ry b \/ ry b + rh b <= ry a.

(* ---- what is required of ANY column-width algorithm (the contract the auto
   layout, which is not modelled, has to meet; checked on the implementation's
   output by Check/C13.v).  slack absorbs float32 rounding of the sums. *)
Definition auto_contract (slack : Q) (table_width specified bsx : Q) (has_specified : bool) (widths : list Q) : bool :=
  forallb (fun w => Qle_bool 0 w) widths &&
  (let total := sumQ widths + inject_Z (Z.of_nat (S (length widths))) * bsx in
   match widths with
   | [] => true
   | _ => Qle_bool (total - slack) table_width && Qle_bool table_width (total + slack)
   end) &&
  (if has_specified then Qle_bool (specified - slack) table_width else true).
