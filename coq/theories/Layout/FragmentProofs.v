(* Layout/FragmentProofs.v -- conservation of content by fragmentation steps. *)
From Verif Require Import Layout.Fragment.
From Coq Require Import List Arith Lia.
Import ListNotations.
Local Open Scope nat_scope.

Section StepsProofs.
  Variable Pos : Type.
  Variable U : Type.
  Variable content_from : Pos -> list U.

  Notation step := (step Pos U).
  Notation step_ok := (step_ok Pos U content_from).
  Notation linked := (linked Pos U).
  Notation content_opt := (content_opt Pos U content_from).

  (* For ANY sequence of steps: if every step is locally consistent and each
     starts where the previous one said to resume, the concatenation of what was
     placed, followed by what the last resume point still designates, is the
     content from the start. *)
  Theorem fragment_steps_conserve : forall steps start final,
    linked start steps final ->
    Forall step_ok steps ->
    content_from start = flat_map (@placed Pos U) steps ++ content_opt final.
  Proof.
    induction steps as [|s r IH]; intros start final HL HO.
    - cbn in HL. subst. reflexivity.
    - cbn [Fragment.linked] in HL. destruct HL as [Hs HL].
      inversion HO as [|? ? Hok HO']; subst.
      cbn [flat_map]. rewrite <- app_assoc. unfold Fragment.step_ok in Hok. rewrite Hok. f_equal.
      destruct r as [|s' r'].
      + subst. reflexivity.
      + destruct (resume s) as [p|]; [|contradiction]. cbn [Fragment.content_opt].
        apply IH; auto.
  Qed.

  (* a finished pagination: nothing is lost, duplicated or reordered *)
  Corollary fragment_step_conserves : forall steps start,
    steps <> [] ->
    linked start steps None ->
    Forall step_ok steps ->
    flat_map (@placed Pos U) steps = content_from start.
  Proof.
    intros steps start _ HL HO. rewrite (fragment_steps_conserve steps start None HL HO).
    cbn. now rewrite app_nil_r.
  Qed.

  (* the rewinds keep a step consistent when the new resume point designates
     exactly what was removed followed by what the old one designated *)
  Theorem rewind_to_ok : forall j new_resume s,
    step_ok s ->
    rewind_matches Pos U content_from (skipn j (placed s)) new_resume (resume s) ->
    step_ok (rewind_to Pos U j new_resume s).
  Proof.
    intros j nr s Hok Hm. unfold Fragment.step_ok, rewind_to, rewind_matches in *. cbn.
    rewrite Hok, Hm, app_assoc, firstn_skipn. reflexivity.
  Qed.

  Theorem drop_last_ok : forall k new_resume s,
    step_ok s ->
    rewind_matches Pos U content_from (skipn (length (placed s) - k) (placed s)) new_resume (resume s) ->
    step_ok (drop_last Pos U k new_resume s).
  Proof. intros k nr s. apply (rewind_to_ok (length (placed s) - k)). Qed.

  (* and a rewind that does NOT match loses or duplicates: the condition is necessary *)
  Theorem rewind_to_ok_iff : forall j new_resume s,
    step_ok s ->
    (step_ok (rewind_to Pos U j new_resume s) <->
     rewind_matches Pos U content_from (skipn j (placed s)) new_resume (resume s)).
  Proof.
    intros j nr s Hok. split; [|apply rewind_to_ok; auto].
    unfold Fragment.step_ok, rewind_to, rewind_matches in *. cbn. intros H.
    rewrite Hok in H. rewrite <- (firstn_skipn j (placed s)) in H at 1.
    rewrite <- app_assoc in H. apply app_inv_head in H. auto.
  Qed.
End StepsProofs.

(* ------------------------------------------------------------------ the index instance *)

(* resume point = index of the first unit not yet placed, in a flow of n units *)
Definition idx_content (n : nat) (i : nat) : list nat := seq i (n - i).

Lemma idx_rewind_matches n p k :
  k <= p -> p <= n ->
  rewind_matches nat nat (idx_content n) (seq (p - k) k) (p - k) (Some p).
Proof.
  intros Hk Hp. unfold rewind_matches, idx_content. cbn.
  replace (n - (p - k)) with (k + (n - p)) by lia. rewrite seq_app.
  f_equal. f_equal. lia.
Qed.

(* a page of the pagination model is a consistent step *)
Lemma page_step_ok n s e : s <= e -> e <= n ->
  step_ok nat nat (idx_content n) (mkStep s (seq s (e - s)) (if e =? n then None else Some e)).
Proof.
  intros H1 H2. unfold step_ok, idx_content. cbn.
  destruct (Nat.eqb_spec e n) as [->|Hne]; cbn.
  - now rewrite app_nil_r.
  - replace (n - s) with ((e - s) + (n - e)) by lia. rewrite seq_app. f_equal. f_equal. lia.
Qed.

(* ------------------------------------------------------------------ resume stacks *)

Lemma flows_size_app a b : flows_size (a ++ b) = flows_size a + flows_size b.
Proof. unfold flows_size. induction a; cbn; auto. rewrite IHa. lia. Qed.

(* {i: sub} designates: all children before i, then inside child i what `sub` designates *)
Lemma offset_list_child ks i sub :
  i < length ks ->
  offset_list ks (Some (RS i sub)) =
  flows_size (firstn i ks) + offset_in (nth i ks (Mono 0)) sub.
Proof.
  unfold offset_list. revert i. induction ks as [|k r IH]; intros i Hi; cbn in Hi; [lia|].
  destruct i as [|j].
  - cbn. reflexivity.
  - cbn [firstn nth]. unfold flows_size in *. cbn [fold_right]. rewrite <- Nat.add_assoc. f_equal.
    apply IH. lia.
Qed.

(* blocks.go:846, 1003, 1175: {index: nil} = resume at the start of child `index` *)
Lemma offset_list_before ks i :
  i < length ks -> offset_list ks (Some (RS i None)) = flows_size (firstn i ks).
Proof.
  intros Hi. rewrite offset_list_child; auto. destruct (nth i ks (Mono 0)); cbn; lia.
Qed.

Lemma units_from_start ks : units_from ks None = seq 0 (flows_size ks).
Proof. unfold units_from. cbn. now rewrite Nat.sub_0_r. Qed.

(* the step of a block container (blocks.go:379-469): children skip..i-1 were placed
   entirely, child i placed its units up to `sub`: consistent with resume {i: sub} *)
Theorem container_step_ok ks i sub :
  i < length ks ->
  offset_in (nth i ks (Mono 0)) sub <= flow_size (nth i ks (Mono 0)) ->
  let o := offset_list ks (Some (RS i sub)) in
  units_from ks None = seq 0 o ++ units_from ks (Some (RS i sub)).
Proof.
  intros Hi Hle o. unfold units_from. cbn [offset_list]. fold o.
  assert (o <= flows_size ks).
  { subst o. rewrite offset_list_child; auto.
    rewrite <- (firstn_skipn i ks) at 3. rewrite flows_size_app.
    assert (flows_size (skipn i ks) >= flow_size (nth i ks (Mono 0))).
    { clear -Hi. revert i Hi. induction ks as [|k r IH]; intros i Hi; cbn in Hi; [lia|].
      destruct i; cbn. unfold flows_size. cbn. lia. apply IH. lia. }
    lia. }
  replace (offset_list ks None) with 0 by reflexivity. rewrite Nat.sub_0_r.
  replace (flows_size ks) with (o + (flows_size ks - o)) at 1 by lia.
  rewrite seq_app. reflexivity.
Qed.

(* Unpack never panics where the code calls it: blocks.go:373 guards it with `!isStart` *)
Lemma block_skip_ok r : exists i sub, block_skip r = GoSem.Ok (i, sub).
Proof. destruct r as [[i sub]|]; cbn; eauto. Qed.

(* ------------------------------------------------------------------ siblings with out-of-flow boxes *)

Section SiblingsProofs.
  Variable U : Type.
  Notation child := (child U).
  Notation content := (sib_content_from U).

  Lemma skipn_skipn' {A} (a b : nat) (l : list A) : skipn a (skipn b l) = skipn (a + b) l.
  Proof.
    revert l. induction b as [|b IH]; intros l.
    - now rewrite Nat.add_0_r.
    - destruct l as [|x l]; [now rewrite !skipn_nil|].
      rewrite Nat.add_succ_r. cbn [skipn]. apply IH.
  Qed.

  Lemma sib_content_split (cs : list child) j k :
    j <= k ->
    content cs j = flat_map c_units (firstn (k - j) (skipn j cs)) ++ content cs k.
  Proof.
    intros Hjk. unfold sib_content_from.
    rewrite <- (firstn_skipn (k - j) (skipn j cs)) at 1.
    rewrite flat_map_app. f_equal. rewrite skipn_skipn'.
    replace (k - j + j) with k by lia. reflexivity.
  Qed.

  (* resuming at the first removed child conserves the content, wherever the break is *)
  Theorem rewind_at_first_removed_ok (cs : list child) j :
    step_ok nat U (content cs) (rewound_step U cs j j).
  Proof.
    unfold step_ok, rewound_step. cbn [skip placed resume content_opt].
    rewrite (sib_content_split cs 0 j) by lia.
    now rewrite Nat.sub_0_r.
  Qed.

  (* every rewind the scan of findEarlierPageBreak finds is a consistent step *)
  Corollary find_earlier_step_ok (avoid_after : nat -> bool) (cs : list child) s :
    find_earlier_step U avoid_after cs = Some s -> step_ok nat U (content cs) s.
  Proof.
    unfold find_earlier_step. destruct (find_earlier_break U avoid_after cs) as [j|]; cbn; [|discriminate].
    intros [= <-]. apply rewind_at_first_removed_ok.
  Qed.

  (* resuming at any later child r is consistent if and only if the children j .. r-1 (the
     out-of-flow boxes between the break and the next in-flow sibling, when r is that
     sibling) have no content *)
  Theorem rewind_at_later_child_iff (cs : list child) j r :
    j <= r ->
    (step_ok nat U (content cs) (rewound_step U cs j r) <->
     flat_map c_units (firstn (r - j) (skipn j cs)) = []).
  Proof.
    intros Hjr. unfold step_ok, rewound_step. cbn [skip placed resume content_opt].
    rewrite (sib_content_split cs 0 j) by lia. rewrite Nat.sub_0_r. cbn [skipn].
    rewrite (sib_content_split cs j r) by lia.
    split.
    - intros H. apply app_inv_head in H.
      rewrite <- (app_nil_l (content cs r)) in H at 2.
      now apply app_inv_tail in H.
    - intros ->. reflexivity.
  Qed.

  Corollary rewind_skipping_out_of_flow_loses (cs : list child) j r :
    j <= r ->
    flat_map c_units (firstn (r - j) (skipn j cs)) <> [] ->
    ~ step_ok nat U (content cs) (rewound_step U cs j r).
  Proof. intros Hjr Hne H. apply Hne. now apply rewind_at_later_child_iff. Qed.
End SiblingsProofs.

(* ------------------------------------------------------------------ a table row split between two pages *)

Section RowSplitProofs.
  Variable U : Type.

  (* with tables.go:183 every cell is conserved, finished or not *)
  Theorem row_split_cell_conserved (c : list U) p :
    p <= length c -> cell_two_pages U true c p = c.
  Proof.
    intros Hp. unfold cell_two_pages, cell_record, cell_skip.
    destruct (p <? length c) eqn:E.
    - apply firstn_skipn.
    - apply Nat.ltb_ge in E. assert (p = length c) by lia. subst p.
      rewrite firstn_all, skipn_all. apply app_nil_r.
  Qed.

  (* reading a missing key as the nil stack lays a finished cell out twice *)
  Theorem row_split_nil_stack_duplicates (c : list U) :
    cell_two_pages U false c (length c) = c ++ c.
  Proof.
    unfold cell_two_pages, cell_record, cell_skip. rewrite Nat.ltb_irrefl.
    now rewrite firstn_all.
  Qed.

  Corollary row_split_nil_stack_not_conserved (c : list U) :
    c <> [] -> cell_two_pages U false c (length c) <> c.
  Proof.
    intros Hne H. rewrite row_split_nil_stack_duplicates in H.
    rewrite <- (app_nil_r c) in H at 3. apply app_inv_head in H. contradiction.
  Qed.

  (* a continued cell that places nothing on a page: conserved when it resumes where it
     was, its first s units twice when it restarts (tables.go before /repo 7408964) *)
  Theorem cell_nothing_fits_resume_ok (c : list U) s :
    cell_three_pages U false c s = c.
  Proof. unfold cell_three_pages. cbn. apply firstn_skipn. Qed.

  Theorem cell_nothing_fits_restart_duplicates (c : list U) s :
    cell_three_pages U true c s = firstn s c ++ c.
  Proof. reflexivity. Qed.
End RowSplitProofs.
