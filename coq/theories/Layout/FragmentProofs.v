(* Layout/FragmentProofs.v -- conservation of content by fragmentation steps. *)
From Verif Require Import Layout.Fragment.
From Coq Require Import List Arith Lia.
Import ListNotations.
Local Open Scope nat_scope.

Section StepsProofs.
  Variable Pos : Type.
  Variable U : Type.
  Variable content_from : Pos -> list U.

  Notation step := (step Pos U).
  Notation step_ok := (step_ok Pos U content_from).
  Notation linked := (linked Pos U).
  Notation content_opt := (content_opt Pos U content_from).

  (* For ANY sequence of steps: if every step is locally consistent and each
     starts where the previous one said to resume, the concatenation of what was
     placed, followed by what the last resume point still designates, is the
     content from the start. *)
  Theorem fragment_steps_conserve : forall steps start final,
    linked start steps final ->
    Forall step_ok steps ->
    content_from start = flat_map (@placed Pos U) steps ++ content_opt final.
  Proof.
    induction steps as [|s r IH]; intros start final HL HO.
    - cbn in HL. subst. reflexivity.
    - cbn [Fragment.linked] in HL. destruct HL as [Hs HL].
      inversion HO as [|? ? Hok HO']; subst.
      cbn [flat_map]. rewrite <- app_assoc. unfold Fragment.step_ok in Hok. rewrite Hok. f_equal.
      destruct r as [|s' r'].
      + subst. reflexivity.
      + destruct (resume s) as [p|]; [|contradiction]. cbn [Fragment.content_opt].
        apply IH; auto.
  Qed.

  (* a finished pagination: nothing is lost, duplicated or reordered *)
  Corollary fragment_step_conserves : forall steps start,
    steps <> [] ->
    linked start steps None ->
    Forall step_ok steps ->
    flat_map (@placed Pos U) steps = content_from start.
  Proof.
    intros steps start _ HL HO. rewrite (fragment_steps_conserve steps start None HL HO).
    cbn. now rewrite app_nil_r.
  Qed.

  (* the rewinds keep a step consistent when the new resume point designates
     exactly what was removed followed by what the old one designated *)
  Theorem rewind_to_ok : forall j new_resume s,
    step_ok s ->
    rewind_matches Pos U content_from (skipn j (placed s)) new_resume (resume s) ->
    step_ok (rewind_to Pos U j new_resume s).
  Proof.
    intros j nr s Hok Hm. unfold Fragment.step_ok, rewind_to, rewind_matches in *. cbn.
    rewrite Hok, Hm, app_assoc, firstn_skipn. reflexivity.
  Qed.

  Theorem drop_last_ok : forall k new_resume s,
    step_ok s ->
    rewind_matches Pos U content_from (skipn (length (placed s) - k) (placed s)) new_resume (resume s) ->
    step_ok (drop_last Pos U k new_resume s).
  Proof. intros k nr s. apply (rewind_to_ok (length (placed s) - k)). Qed.

  (* and a rewind that does NOT match loses or duplicates: the condition is necessary *)
  Theorem rewind_to_ok_iff : forall j new_resume s,
    step_ok s ->
    (step_ok (rewind_to Pos U j new_resume s) <->
     rewind_matches Pos U content_from (skipn j (placed s)) new_resume (resume s)).
  Proof.
    intros j nr s Hok. split; [|apply rewind_to_ok; auto].
    unfold Fragment.step_ok, rewind_to, rewind_matches in *. cbn. intros H.
    rewrite Hok in H. rewrite <- (firstn_skipn j (placed s)) in H at 1.
    rewrite <- app_assoc in H. apply app_inv_head in H. auto.
  Qed.
End StepsProofs.

(* ------------------------------------------------------------------ the index instance *)

(* resume point = index of the first unit not yet placed, in a flow of n units *)
Definition idx_content (n : nat) (i : nat) : list nat := seq i (n - i).

Lemma idx_rewind_matches n p k :
  k <= p -> p <= n ->
  rewind_matches nat nat (idx_content n) (seq (p - k) k) (p - k) (Some p).
Proof.
  intros Hk Hp. unfold rewind_matches, idx_content. cbn.
  replace (n - (p - k)) with (k + (n - p)) by lia. rewrite seq_app.
  f_equal. f_equal. lia.
Qed.

(* a page of the pagination model is a consistent step *)
Lemma page_step_ok n s e : s <= e -> e <= n ->
  step_ok nat nat (idx_content n) (mkStep s (seq s (e - s)) (if e =? n then None else Some e)).
Proof.
  intros H1 H2. unfold step_ok, idx_content. cbn.
  destruct (Nat.eqb_spec e n) as [->|Hne]; cbn.
  - now rewrite app_nil_r.
  - replace (n - s) with ((e - s) + (n - e)) by lia. rewrite seq_app. f_equal. f_equal. lia.
Qed.

(* ------------------------------------------------------------------ resume stacks *)

Lemma flows_size_app a b : flows_size (a ++ b) = flows_size a + flows_size b.
Proof. unfold flows_size. induction a; cbn; auto. rewrite IHa. lia. Qed.

(* {i: sub} designates: all children before i, then inside child i what `sub` designates *)
Lemma offset_list_child ks i sub :
  i < length ks ->
  offset_list ks (Some (RS i sub)) =
  flows_size (firstn i ks) + offset_in (nth i ks (Mono 0)) sub.
Proof.
  unfold offset_list. revert i. induction ks as [|k r IH]; intros i Hi; cbn in Hi; [lia|].
  destruct i as [|j].
  - cbn. reflexivity.
  - cbn [firstn nth]. unfold flows_size in *. cbn [fold_right]. rewrite <- Nat.add_assoc. f_equal.
    apply IH. lia.
Qed.

(* blocks.go:846, 1003, 1175: {index: nil} = resume at the start of child `index` *)
Lemma offset_list_before ks i :
  i < length ks -> offset_list ks (Some (RS i None)) = flows_size (firstn i ks).
Proof.
  intros Hi. rewrite offset_list_child; auto. destruct (nth i ks (Mono 0)); cbn; lia.
Qed.

Lemma units_from_start ks : units_from ks None = seq 0 (flows_size ks).
Proof. unfold units_from. cbn. now rewrite Nat.sub_0_r. Qed.

(* the step of a block container (blocks.go:379-469): children skip..i-1 were placed
   entirely, child i placed its units up to `sub`: consistent with resume {i: sub} *)
Theorem container_step_ok ks i sub :
  i < length ks ->
  offset_in (nth i ks (Mono 0)) sub <= flow_size (nth i ks (Mono 0)) ->
  let o := offset_list ks (Some (RS i sub)) in
  units_from ks None = seq 0 o ++ units_from ks (Some (RS i sub)).
Proof.
  intros Hi Hle o. unfold units_from. cbn [offset_list]. fold o.
  assert (o <= flows_size ks).
  { subst o. rewrite offset_list_child; auto.
    rewrite <- (firstn_skipn i ks) at 3. rewrite flows_size_app.
    assert (flows_size (skipn i ks) >= flow_size (nth i ks (Mono 0))).
    { clear -Hi. revert i Hi. induction ks as [|k r IH]; intros i Hi; cbn in Hi; [lia|].
      destruct i; cbn. unfold flows_size. cbn. lia. apply IH. lia. }
    lia. }
  replace (offset_list ks None) with 0 by reflexivity. rewrite Nat.sub_0_r.
  replace (flows_size ks) with (o + (flows_size ks - o)) at 1 by lia.
  rewrite seq_app. reflexivity.
Qed.

(* Unpack never panics where the code calls it: blocks.go:373 guards it with `!isStart` *)
Lemma block_skip_ok r : exists i sub, block_skip r = GoSem.Ok (i, sub).
Proof. destruct r as [[i sub]|]; cbn; eauto. Qed.

(* ------------------------------------------------------------------ siblings with out-of-flow boxes *)

Section SiblingsProofs.
  Variable U : Type.
  Notation child := (child U).
  Notation content := (sib_content_from U).

  Lemma skipn_skipn' {A} (a b : nat) (l : list A) : skipn a (skipn b l) = skipn (a + b) l.
  Proof.
    revert l. induction b as [|b IH]; intros l.
    - now rewrite Nat.add_0_r.
    - destruct l as [|x l]; [now rewrite !skipn_nil|].
      rewrite Nat.add_succ_r. cbn [skipn]. apply IH.
  Qed.

  Lemma sib_content_split (cs : list child) j k :
    j <= k ->
    content cs j = flat_map c_units (firstn (k - j) (skipn j cs)) ++ content cs k.
  Proof.
    intros Hjk. unfold sib_content_from.
    rewrite <- (firstn_skipn (k - j) (skipn j cs)) at 1.
    rewrite flat_map_app. f_equal. rewrite skipn_skipn'.
    replace (k - j + j) with k by lia. reflexivity.
  Qed.

  (* resuming at the first removed child conserves the content, wherever the break is *)
  Theorem rewind_at_first_removed_ok (cs : list child) j :
    step_ok nat U (content cs) (rewound_step U cs j j).
  Proof.
    unfold step_ok, rewound_step. cbn [skip placed resume content_opt].
    rewrite (sib_content_split cs 0 j) by lia.
    now rewrite Nat.sub_0_r.
  Qed.

  (* every rewind the scan of findEarlierPageBreak finds is a consistent step *)
  Corollary find_earlier_step_ok (avoid_after : nat -> bool) (cs : list child) s :
    find_earlier_step U avoid_after cs = Some s -> step_ok nat U (content cs) s.
  Proof.
    unfold find_earlier_step. destruct (find_earlier_break U avoid_after cs) as [j|]; cbn; [|discriminate].
    intros [= <-]. apply rewind_at_first_removed_ok.
  Qed.

  (* resuming at any later child r is consistent if and only if the children j .. r-1 (the
     out-of-flow boxes between the break and the next in-flow sibling, when r is that
     sibling) have no content *)
  Theorem rewind_at_later_child_iff (cs : list child) j r :
    j <= r ->
    (step_ok nat U (content cs) (rewound_step U cs j r) <->
     flat_map c_units (firstn (r - j) (skipn j cs)) = []).
  Proof.
    intros Hjr. unfold step_ok, rewound_step. cbn [skip placed resume content_opt].
    rewrite (sib_content_split cs 0 j) by lia. rewrite Nat.sub_0_r. cbn [skipn].
    rewrite (sib_content_split cs j r) by lia.
    split.
    - intros H. apply app_inv_head in H.
      rewrite <- (app_nil_l (content cs r)) in H at 2.
      now apply app_inv_tail in H.
    - intros ->. reflexivity.
  Qed.

  Corollary rewind_skipping_out_of_flow_loses (cs : list child) j r :
    j <= r ->
    flat_map c_units (firstn (r - j) (skipn j cs)) <> [] ->
    ~ step_ok nat U (content cs) (rewound_step U cs j r).
  Proof. intros Hjr Hne H. apply Hne. now apply rewind_at_later_child_iff. Qed.
End SiblingsProofs.

(* ------------------------------------------------------------------ a table row split between two pages *)

Section RowSplitProofs.
  Variable U : Type.

  (* with tables.go:183 every cell is conserved, finished or not *)
  Theorem row_split_cell_conserved (c : list U) p :
    p <= length c -> cell_two_pages U true c p = c.
  Proof.
    intros Hp. unfold cell_two_pages, cell_record, cell_skip.
    destruct (p <? length c) eqn:E.
    - apply firstn_skipn.
    - apply Nat.ltb_ge in E. assert (p = length c) by lia. subst p.
      rewrite firstn_all, skipn_all. apply app_nil_r.
  Qed.

  (* reading a missing key as the nil stack lays a finished cell out twice *)
  Theorem row_split_nil_stack_duplicates (c : list U) :
    cell_two_pages U false c (length c) = c ++ c.
  Proof.
    unfold cell_two_pages, cell_record, cell_skip. rewrite Nat.ltb_irrefl.
    now rewrite firstn_all.
  Qed.

  Corollary row_split_nil_stack_not_conserved (c : list U) :
    c <> [] -> cell_two_pages U false c (length c) <> c.
  Proof.
    intros Hne H. rewrite row_split_nil_stack_duplicates in H.
    rewrite <- (app_nil_r c) in H at 3. apply app_inv_head in H. contradiction.
  Qed.

  (* a continued cell that places nothing on a page: conserved when it resumes where it
     was, its first s units twice when it restarts (tables.go before /repo 7408964) *)
  Theorem cell_nothing_fits_resume_ok (c : list U) s :
    cell_three_pages U false c s = c.
  Proof. unfold cell_three_pages. cbn. apply firstn_skipn. Qed.

  Theorem cell_nothing_fits_restart_duplicates (c : list U) s :
    cell_three_pages U true c s = firstn s c ++ c.
  Proof. reflexivity. Qed.
End RowSplitProofs.

(* ------------------------------------------------------------------ ResumeStack.Equals *)
From Coq Require Import ZArith Bool.
Section ResumeStackEquals.
Local Open Scope Z_scope.

Lemma mstack_ind' (P : mstack -> Prop) :
  (forall e, Forall (fun kv => P (snd kv)) e -> P (MS e)) -> forall r, P r.
Proof.
  intros H. fix IH 1. intros [e]. apply H.
  induction e as [|[k v] t IHt]; constructor; [apply IH|exact IHt].
Qed.

Definition lookup_equal (eo : list (Z * mstack)) (kv : Z * mstack) : bool :=
  match ms_lookup (fst kv) eo with Some v2 => ms_equals (snd kv) v2 | None => false end.

Lemma ms_equals_unfold er o :
  ms_equals (MS er) o =
  Nat.eqb (length er) (length (ms_entries o)) && forallb (lookup_equal (ms_entries o)) er.
Proof.
  cbn [ms_equals]. f_equal.
  induction er as [|[k v] t IHt]; [reflexivity|].
  cbn [forallb]. rewrite <- IHt. reflexivity.
Qed.

Lemma ms_canonical_unfold e :
  ms_canonical (MS e) = keys_increasing None (map fst e) && forallb (fun kv => ms_canonical (snd kv)) e.
Proof.
  cbn [ms_canonical]. f_equal.
  induction e as [|[k v] t IHt]; [reflexivity|].
  cbn [forallb snd]. rewrite <- IHt. reflexivity.
Qed.

Lemma keys_inc_lb k ks : keys_increasing (Some k) ks = true -> Forall (fun x => k < x) ks.
Proof.
  revert k. induction ks as [|a t IH]; intros k H; [constructor|].
  cbn [keys_increasing] in H. apply andb_true_iff in H. destruct H as [Hlt Ht].
  apply Z.ltb_lt in Hlt. constructor; [exact Hlt|].
  apply IH in Ht. eapply Forall_impl; [|exact Ht]. cbn. intros x Hx. lia.
Qed.

Lemma keys_inc_tail lo k ks : keys_increasing lo (k :: ks) = true -> keys_increasing (Some k) ks = true.
Proof. cbn [keys_increasing]. intros H. apply andb_true_iff in H. tauto. Qed.

Lemma keys_inc_any k ks : keys_increasing (Some k) ks = true -> keys_increasing None ks = true.
Proof.
  destruct ks as [|a t]; [reflexivity|]. cbn [keys_increasing]. intros H.
  apply andb_true_iff in H. destruct H as [_ H]. rewrite H. reflexivity.
Qed.

Lemma lookup_in k v e : ms_lookup k e = Some v -> In (k, v) e.
Proof.
  induction e as [|[k' v'] t IH]; [discriminate|]. cbn [ms_lookup].
  destruct (Z.eqb_spec k k') as [->|Hne]; intros H.
  - injection H as ->. left. reflexivity.
  - right. apply IH. exact H.
Qed.

Lemma in_lookup lo k v e :
  keys_increasing lo (map fst e) = true -> In (k, v) e -> ms_lookup k e = Some v.
Proof.
  revert lo. induction e as [|[k' v'] t IH]; intros lo Hs Hin; [destruct Hin|].
  cbn [ms_lookup]. cbn [map fst] in Hs. destruct Hin as [Heq|Hin].
  - injection Heq as -> ->. rewrite Z.eqb_refl. reflexivity.
  - pose proof (keys_inc_tail _ _ _ Hs) as Ht.
    pose proof (keys_inc_lb _ _ Ht) as Hlb. rewrite Forall_forall in Hlb.
    assert (Hk : k' < k) by (apply Hlb; apply in_map_iff; exists (k, v); split; [reflexivity|exact Hin]).
    destruct (Z.eqb_spec k k') as [->|_]; [lia|]. eapply IH; eassumption.
Qed.

(* two key-sorted entry lists with the same members are the same list *)
Lemma sorted_same_members lo1 lo2 (l1 l2 : list (Z * mstack)) :
  keys_increasing lo1 (map fst l1) = true -> keys_increasing lo2 (map fst l2) = true ->
  incl l1 l2 -> incl l2 l1 -> l1 = l2.
Proof.
  revert lo1 lo2 l2. induction l1 as [|[k1 v1] t1 IH]; intros lo1 lo2 l2 H1 H2 I12 I21.
  - destruct l2 as [|a t2]; [reflexivity|]. destruct (I21 a (or_introl eq_refl)).
  - destruct l2 as [|[k2 v2] t2]; [destruct (I12 _ (or_introl eq_refl))|].
    cbn [map fst] in H1, H2.
    pose proof (keys_inc_tail _ _ _ H1) as T1. pose proof (keys_inc_tail _ _ _ H2) as T2.
    pose proof (keys_inc_lb _ _ T1) as L1. pose proof (keys_inc_lb _ _ T2) as L2.
    rewrite Forall_forall in L1, L2.
    assert (K1 : forall k v, In (k, v) t1 -> k1 < k).
    { intros k v Hin. apply L1. apply in_map_iff. exists (k, v). split; [reflexivity|exact Hin]. }
    assert (K2 : forall k v, In (k, v) t2 -> k2 < k).
    { intros k v Hin. apply L2. apply in_map_iff. exists (k, v). split; [reflexivity|exact Hin]. }
    assert (Hhead : (k1, v1) = (k2, v2)).
    { destruct (I12 (k1, v1) (or_introl eq_refl)) as [E|Hin]; [symmetry; exact E|].
      destruct (I21 (k2, v2) (or_introl eq_refl)) as [E|Hin']; [exact E|].
      apply K2 in Hin. apply K1 in Hin'. lia. }
    injection Hhead as <- <-. f_equal.
    apply (IH (Some k1) (Some k1)); [exact T1|exact T2| |].
    + intros [k v] Hin. destruct (I12 _ (or_intror Hin)) as [E|Hin']; [|exact Hin'].
      injection E as <- <-. apply K1 in Hin. lia.
    + intros [k v] Hin. destruct (I21 _ (or_intror Hin)) as [E|Hin']; [|exact Hin'].
      injection E as <- <-. apply K2 in Hin. lia.
Qed.

Lemma sorted_nodup lo (l : list (Z * mstack)) : keys_increasing lo (map fst l) = true -> NoDup l.
Proof.
  revert lo. induction l as [|[k v] t IH]; intros lo H; [constructor|].
  cbn [map fst] in H. pose proof (keys_inc_tail _ _ _ H) as T.
  constructor; [|eapply IH; exact T].
  intros Hin. pose proof (keys_inc_lb _ _ T) as L. rewrite Forall_forall in L.
  assert (k < k) by (apply L; apply in_map_iff; exists (k, v); split; [reflexivity|exact Hin]). lia.
Qed.

Lemma ms_equals_refl r : ms_canonical r = true -> ms_equals r r = true.
Proof.
  induction r as [e IH] using mstack_ind'. intros Hc.
  rewrite ms_canonical_unfold in Hc. apply andb_true_iff in Hc. destruct Hc as [Hs Hsub].
  rewrite ms_equals_unfold. cbn [ms_entries]. rewrite Nat.eqb_refl. cbn [andb].
  apply forallb_forall. intros [k v] Hin. unfold lookup_equal. cbn [fst snd].
  rewrite (in_lookup _ _ _ _ Hs Hin).
  rewrite Forall_forall in IH. apply (IH (k, v) Hin).
  rewrite forallb_forall in Hsub. apply (Hsub (k, v) Hin).
Qed.

(* ResumeStack.Equals is equality of the maps: on canonical representations (entries by
   increasing key) it holds exactly for structurally equal stacks, however deep the two
   stacks differ *)
Theorem ms_equals_iff_eq r o :
  ms_canonical r = true -> ms_canonical o = true -> (ms_equals r o = true <-> r = o).
Proof.
  intros Hr Ho. split; [|intros <-; apply ms_equals_refl; exact Hr].
  revert o Hr Ho. induction r as [er IH] using mstack_ind'. intros [eo] Hr Ho He.
  rewrite ms_canonical_unfold in Hr, Ho.
  apply andb_true_iff in Hr. destruct Hr as [Hsr Hcr].
  apply andb_true_iff in Ho. destruct Ho as [Hso Hco].
  rewrite ms_equals_unfold in He. cbn [ms_entries] in He.
  apply andb_true_iff in He. destruct He as [Hlen Hall]. apply Nat.eqb_eq in Hlen.
  rewrite forallb_forall in Hall, Hcr, Hco. rewrite Forall_forall in IH.
  assert (I12 : incl er eo).
  { intros [k v1] Hin. pose proof (Hall _ Hin) as Hl. unfold lookup_equal in Hl. cbn [fst snd] in Hl.
    destruct (ms_lookup k eo) as [v2|] eqn:El; [|discriminate].
    apply lookup_in in El.
    assert (v1 = v2) as ->; [|exact El].
    apply (IH (k, v1) Hin); [apply (Hcr (k, v1) Hin)|apply (Hco (k, v2) El)|exact Hl]. }
  assert (I21 : incl eo er).
  { apply NoDup_length_incl; [eapply sorted_nodup; exact Hsr|lia|exact I12]. }
  f_equal. eapply sorted_same_members; eassumption.
Qed.

Lemma ms_eqb_refl r : ms_eqb r r = true.
Proof.
  induction r as [e IH] using mstack_ind'. cbn [ms_eqb].
  induction IH as [|[k v] t Hv Ht IHt]; [reflexivity|].
  cbn [snd] in Hv. rewrite Z.eqb_refl, Hv. cbn [andb]. exact IHt.
Qed.

Theorem ms_eqb_eq r o : ms_eqb r o = true <-> r = o.
Proof.
  split; [|intros <-; apply ms_eqb_refl].
  revert o. induction r as [er IH] using mstack_ind'. intros [eo]. cbn [ms_eqb].
  revert eo. induction IH as [|[k v] t Hv Ht IHt]; intros [|[k2 v2] t2] H; try discriminate; [reflexivity|].
  apply andb_true_iff in H. destruct H as [H H3]. apply andb_true_iff in H. destruct H as [H1 H2].
  apply Z.eqb_eq in H1. subst k2. cbn [snd] in Hv. apply Hv in H2. subst v2.
  apply IHt in H3. injection H3 as ->. reflexivity.
Qed.

(* what a comparison of the top level and of the sizes below it would accept (the shape of a
   shallow Equals): two different resume points inside the same paragraph *)
Definition ms_deep_pair : mstack * mstack :=
  (MS [(0, MS [(0, MS [(1, MS [(4, MS [])])])])], MS [(0, MS [(0, MS [(1, MS [(7, MS [])])])])]).

Lemma ms_equals_separates_deep_difference :
  ms_equals (fst ms_deep_pair) (snd ms_deep_pair) = false /\
  length (ms_entries (fst ms_deep_pair)) = length (ms_entries (snd ms_deep_pair)).
Proof. split; reflexivity. Qed.

End ResumeStackEquals.

(* ------------------------------------------------------------------ the re-split of splitInlineBox *)

(* the kept box and the resume point must come from the same split *)
Lemma split_retry_same_split_iff : forall (U : Type) (ws : list U) k_last k_res,
  k_last <= length ws -> k_res <= length ws ->
  (step_ok nat U (text_from U ws) (retry_step U ws k_last k_res) <-> k_res = k_last).
Proof.
  intros U ws k_last k_res Hl Hr. unfold step_ok, retry_step, split_step, text_from, content_opt.
  cbn [skip placed resume]. cbn [skipn]. split.
  - intro H. apply (f_equal (@length U)) in H.
    rewrite app_length, firstn_length, skipn_length in H. lia.
  - intros ->. symmetry. apply firstn_skipn.
Qed.

Lemma split_step_ok : forall (U : Type) (ws : list U) k,
  step_ok nat U (text_from U ws) (split_step U ws k).
Proof.
  intros U ws k. unfold step_ok, split_step, text_from, content_opt. cbn [skip placed resume skipn].
  symmetry. apply firstn_skipn.
Qed.

(* ------------------------------------------------------------------ a cancelled layout that is restarted *)

(* the text of the out-of-flow child is laid out exactly once iff the registry designates
   nothing for it *)
Lemma cancelled_block_registration_iff : forall (U : Type) (text : list U) registered,
  cancel_restart_text U text registered = text <->
  match registered with Some p => skipn p text = [] | None => True end.
Proof.
  intros U text [p|]; unfold cancel_restart_text.
  - split.
    + intro H. apply (f_equal (@length U)) in H. rewrite app_length in H.
      destruct (skipn p text) as [|a l]; [reflexivity | cbn [length] in H; lia].
    + intros ->. reflexivity.
  - cbn [app]. tauto.
Qed.
