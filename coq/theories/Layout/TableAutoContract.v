(* Layout/TableAutoContract.v -- the model of autoTableLayout
   (Layout/TableGeomAuto.v, exact-rational instance) adapted to the signature
   of the column-width contract of Properties/C13.v, and the part of the
   contract it is proved to meet: one width per column and the columns plus
   the border spacing exactly fill the used table width. *)
From Verif Require Import Base.F32 Base.GoSem Layout.TableGeom Layout.TableGeomSpec Layout.TableGeomProofs
  Layout.TableGeomAuto Layout.TableGeomAutoProofs.
From Coq Require Import QArith List ZArith Lia Lqa.
Import ListNotations.
Open Scope Q_scope.

(* columns without percentage, unconstrained, a cell originating in each *)
Definition contract_cols (mins maxs : list Q) : list acol :=
  map (fun mm => mkAC (fst mm) (snd mm) 0 false true false) (combine mins maxs).

(* thin adapter: the preferred widths of the table are the sums of those of
   the columns plus the total spacing (n+1) * bsx, max-content >= min-content *)
Definition model_auto_layout (avail spec : Q) (has : bool) (bsx : Q) (mins maxs : list Q) : Q * list Q :=
  let spacing := inject_Z (Z.of_nat (S (length mins))) * bsx in
  let tmin := sumQ mins + spacing in
  let tmax := Qmax_ tmin (sumQ maxs + spacing) in
  let '(cw, W') := auto_table_layout exactQ (if has then Some spec else None) avail tmin tmax spacing
                                     (contract_cols mins maxs) in
  (W', cw).

Lemma contract_cols_mins mins : forall maxs, length mins = length maxs ->
  map ac_min (contract_cols mins maxs) = mins.
Proof.
  unfold contract_cols. induction mins as [|m r IH]; intros [|x maxs] Hl; cbn [length] in Hl; try discriminate; [reflexivity|].
  cbn [combine map fst ac_min]. f_equal. apply IH. lia.
Qed.

Lemma contract_cols_length mins : forall maxs, length mins = length maxs ->
  length (contract_cols mins maxs) = length mins.
Proof.
  intros maxs Hl. unfold contract_cols. rewrite map_length, combine_length, <- Hl. apply Nat.min_id.
Qed.

Lemma Qmax__ge_l a b : a <= Qmax_ a b.
Proof. unfold Qmax_. destruct (Qle_bool a b) eqn:E; [apply Qle_bool_iff; exact E|apply Qle_refl]. Qed.

(* covered class: every input with at least one column and as many max- as
   min-content widths (no sign hypothesis at all); proved: the length and the
   "fills" conjunct of auto_contract 0.  NOT proved here: non negativity of
   the widths and spec <= table_w. *)
Theorem model_auto_layout_fills avail spec has bsx mins maxs :
  mins <> [] -> length mins = length maxs ->
  let '(table_w, widths) := model_auto_layout avail spec has bsx mins maxs in
  length widths = length mins /\
  sumQ widths + inject_Z (Z.of_nat (S (length widths))) * bsx == table_w.
Proof.
  intros Hne Hl. unfold model_auto_layout. cbv zeta.
  destruct (auto_table_layout exactQ _ _ _ _ _ _) as [cw W'] eqn:E.
  apply auto_layout_fills in E.
  - destruct E as [E1 E2]. rewrite contract_cols_length in E1 by exact Hl. split; [exact E1|].
    rewrite E1. exact E2.
  - destruct mins as [|m r]; [contradiction|]. destruct maxs as [|x maxs]; [discriminate|]. discriminate.
  - rewrite contract_cols_mins by exact Hl. apply Qle_refl.
  - apply Qmax__ge_l.
  - destruct mins as [|m r]; [contradiction|]. destruct maxs as [|x maxs]; [discriminate|].
    eexists. split; [left; reflexivity|reflexivity].
Qed.

Example model_auto_layout_example :
  model_auto_layout 300 0 false 2 [10; 20] [100; 60] = (166, [100; 60]).
Proof. vm_compute. reflexivity. Qed.

(* ---- the used width is the one of tables.go:936-948: with an unconstrained
   column without percentage distributeExcessWidth never returns excess, so
   the table is never shrunk (the refuted "keeps specified width" needs
   constrained columns only) *)
Lemma distribute_excess_unconstrained m x b1 b2 r cw ex :
  snd (distribute_excess exactQ (mkAC m x 0 false b1 b2 :: r) cw ex) = 0.
Proof.
  unfold distribute_excess. cbv zeta.
  destruct (group13 exactQ _ _ _ _) as [cw1 e1].
  destruct (Qle_b e1 0); [reflexivity|].
  cbn [filter_idx ac_constr ac_pct negb andb].
  change (Qeq_b 0 0) with true. cbv iota. reflexivity.
Qed.

Lemma auto_columns_width_unconstrained W tmin spacing m x b1 b2 r :
  snd (auto_columns exactQ W tmin spacing (mkAC m x 0 false b1 b2 :: r)) = W.
Proof.
  unfold auto_columns. cbv zeta.
  destruct (Qle_b _ _); [destruct (Nat.eqb _ _); reflexivity|].
  pose proof (distribute_excess_unconstrained m x b1 b2 r
    (map (guess3 exactQ (sub exactQ W spacing)) (mkAC m x 0 false b1 b2 :: r))
    (sub exactQ (sub exactQ W spacing) (sumf exactQ (map (guess3 exactQ (sub exactQ W spacing)) (mkAC m x 0 false b1 b2 :: r))))) as D.
  destruct (distribute_excess exactQ _ _ _) as [cw e]. cbn [snd] in D. subst e.
  change (Qeq_b 0 0) with true. cbv iota. reflexivity.
Qed.

Theorem model_auto_layout_width avail spec has bsx mins maxs :
  mins <> [] -> length mins = length maxs ->
  let spacing := inject_Z (Z.of_nat (S (length mins))) * bsx in
  let tmin := sumQ mins + spacing in
  fst (model_auto_layout avail spec has bsx mins maxs) =
  used_width (if has then Some spec else None) avail tmin (Qmax_ tmin (sumQ maxs + spacing)).
Proof.
  intros Hne Hl. cbv zeta. unfold model_auto_layout. cbv zeta.
  destruct mins as [|m r]; [contradiction|]. destruct maxs as [|x maxs]; [discriminate|].
  unfold auto_table_layout, contract_cols. cbv zeta. cbn [combine map fst snd].
  pose proof (auto_columns_width_unconstrained
    (used_width (if has then Some spec else None) avail
       (sumQ (m :: r) + inject_Z (Z.of_nat (S (length (m :: r)))) * bsx)
       (Qmax_ (sumQ (m :: r) + inject_Z (Z.of_nat (S (length (m :: r)))) * bsx)
              (sumQ (x :: maxs) + inject_Z (Z.of_nat (S (length (m :: r)))) * bsx)))
    (sumQ (m :: r) + inject_Z (Z.of_nat (S (length (m :: r)))) * bsx)
    (inject_Z (Z.of_nat (S (length (m :: r)))) * bsx) m x true false
    (map (fun mm => mkAC (fst mm) (snd mm) 0 false true false) (combine r maxs))) as D.
  destruct (auto_columns exactQ _ _ _ _) as [cw W']. cbn [snd] in D. cbn [fst]. exact D.
Qed.

(* hence the third conjunct of the contract: a specified width is kept *)
Theorem model_auto_layout_keeps_specified avail spec bsx mins maxs :
  mins <> [] -> length mins = length maxs ->
  spec <= fst (model_auto_layout avail spec true bsx mins maxs).
Proof.
  intros Hne Hl. rewrite (model_auto_layout_width avail spec true bsx mins maxs Hne Hl).
  unfold used_width. destruct (Qlt_b spec _) eqn:E; [|apply Qle_refl].
  unfold Qlt_b in E. apply Qlt_le_weak. revert E. unfold Qlt_b.
  intros E. apply Qlt_b_true in E. exact E.
Qed.

(* the two results together, in the shape of C13_auto_layout_contract_statement:
   everything of the contract except the non negativity of the widths *)
Theorem model_auto_layout_contract_partial avail spec has bsx mins maxs :
  mins <> [] -> length mins = length maxs ->
  let '(table_w, widths) := model_auto_layout avail spec has bsx mins maxs in
  length widths = length mins /\
  sumQ widths + inject_Z (Z.of_nat (S (length widths))) * bsx == table_w /\
  (has = true -> spec <= table_w).
Proof.
  intros Hne Hl.
  pose proof (model_auto_layout_fills avail spec has bsx mins maxs Hne Hl) as F.
  pose proof (model_auto_layout_keeps_specified avail spec bsx mins maxs Hne Hl) as K.
  destruct (model_auto_layout avail spec has bsx mins maxs) as [tw ws] eqn:E.
  destruct F as [F1 F2]. split; [exact F1|split; [exact F2|]].
  intros ->. rewrite E in K. exact K.
Qed.

Example model_auto_layout_example_specified :
  model_auto_layout 300 200 true 2 [10; 20] [100; 60] = (200, [234 # 2; 154 # 2]) /\
  auto_contract 0 200 200 2 true [234 # 2; 154 # 2] = true.
Proof. split; vm_compute; reflexivity. Qed.
