(* Layout/PageLoop.v -- abstract model of the page loop of /repo:
     html/layout/pages.go 908-994  remakePage  (pageMaker bookkeeping, blank pages)
     html/layout/pages.go 997-1034 makeAllPages
     html/layout/layout.go 138-178 layoutDocument (re-pagination loop, maxLoops = 8)
   The layout of ONE page (makePage: block layout of the root box from a resume
   point, footnotes, counters) is not ported: it is the Section variables
   [layout_content] / [layout_blank].  What the loop needs from it is stated as
   hypotheses in PageLoopProofs.v (PROGRESS: a page that is not blank and does
   not finish the document consumes at least one unit -- the pageIsEmpty rule of
   blocks.go 747-770 / 899-1010; the first reported footnote of a page is
   always placed -- pages.go 704-717, modelled by [report_loop] below).
   No proofs in this file.  Partial Go operations (slice indexing) go through
   the Panic monad of Base/GoSem.v, loops are fuelled. *)
From Verif Require Import Base.GoSem.
From Coq Require Import List Arith Bool.
Import ListNotations.

(* next page break computed by a page: "any", or a forced side (recto/verso
   are resolved to left/right with the root direction, pages.go 915-926) *)
Inductive brk := BAny | BLeft | BRight.

Inductive page := PContent | PBlank.

(* s[i] with a nat index *)
Definition idx {A} (site : N) (l : list A) (n : nat) : res A :=
  match nth_error l n with Some a => Ok a | None => Panic site end.

Fixpoint set_nth {A} (l : list A) (n : nat) (x : A) : list A :=
  match l, n with
  | [], _ => []
  | _ :: r, O => x :: r
  | a :: r, S k => a :: set_nth r k x
  end.

(* pages.go 704-717 (makePage): the footnotes reported by the previous page are
   laid out first, in order; one that overflows the footnote area is reported
   again, together with all the ones after it (reportedFootnotes[i:]) -- EXCEPT
   the first one (`overflow && i != 0`): it stays on this page even if it
   overflows, otherwise a footnote higher than the footnote area would be
   reported from page to page for ever.
     first_forced   the `i != 0` guard (true = /repo; false = the guard removed)
     overflow i     result of layoutFootnote for the i-th reported footnote
     n              footnotes not visited yet (the loop starts with i = 0, n = fn)
   Result: len(context.reportedFootnotes) after the loop. *)
Fixpoint report_loop (first_forced : bool) (overflow : nat -> bool) (i n : nat) : nat :=
  match n with
  | O => 0
  | S n' =>
      if overflow i && (negb first_forced || negb (i =? 0)) then n   (* break: [i:] reported again *)
      else report_loop first_forced overflow (S i) n'
  end.

(* a blank page has no content (pages.go 690-693: the root box is copied without
   children), so the footnotes it reports are the ones left by this loop.
   overflow fn i : does the i-th of fn reported footnotes overflow; flags = the
   (ContentChanged, PagesWanted) pair the page sets. *)
Definition blank_of_report_loop (first_forced : bool) (overflow : nat -> nat -> bool)
           (flags : nat -> bool * bool) (fn : nat) : nat * (bool * bool) :=
  (report_loop first_forced (overflow fn) 0 fn, flags fn).

Definition is_none {A} (o : option A) : bool := match o with None => true | Some _ => false end.
Definition is_some {A} (o : option A) : bool := negb (is_none o).

Section PageLoop.
  Variable R : Type.                         (* resume points (tree.ResumeStack, non nil) *)
  Variable R_eqb : R -> R -> bool.           (* ResumeStack.Equals *)

  (* tree.PageMaker: InitialResumeAt (None = nil: start of the document, or
     nothing left), InitialNextPage.Break, RightPage, RemakeState.ContentChanged,
     RemakeState.PagesWanted.  InitialPageState (counters) is abstracted away:
     it only takes part in the "did the next item change" test. *)
  Record item := mk_item {
    i_resume : option R; i_brk : brk; i_right : bool;
    i_changed : bool; i_wanted : bool }.

  (* makePage on a page that is not blank: resume point, number of footnotes
     reported from the previous page  ->  next resume point (None: document
     finished), next break, footnotes reported to the next page, and the
     (ContentChanged, PagesWanted) flags it sets on this page's RemakeState
     (pages.go 800-880) *)
  Variable layout_content : option R -> nat -> (option R * brk * nat) * (bool * bool).
  (* makePage on a blank page: only reported footnotes are laid out *)
  Variable layout_blank : nat -> nat * (bool * bool).
  (* "InitialPageState changed" part of the comparison at pages.go 968-972 *)
  Variable state_changed : nat -> bool.

  Definition side_mismatch (b : brk) (right : bool) : bool :=
    match b with BLeft => right | BRight => negb right | BAny => false end.

  Definition resume_eqb (a b : option R) : bool :=
    match a, b with
    | None, None => true
    | Some x, Some y => R_eqb x y
    | _, _ => false
    end.

  Definition brk_eqb (a b : brk) : bool :=
    match a, b with BAny, BAny | BLeft, BLeft | BRight, BRight => true | _, _ => false end.

  (* pages.go 908-994; fn = len(context.reportedFootnotes).
     Returns (page, resumeAt, reported footnotes, pageMaker) *)
  Definition remake_page (index : nat) (pm : list item) (fn : nat)
    : res (page * option R * nat * list item) :=
    let* tmp := idx 909 pm index in
    (* pages.go 929-930 *)
    let blank := side_mismatch (i_brk tmp) (i_right tmp)
                 || (negb (fn =? 0) && is_none (i_resume tmp)) in
    let '(pg, resume_at, next_b, fn', (cc, pw)) :=
      if blank then
        (* pages.go 882-885: a blank page resumes where the previous one stopped *)
        let '(fn', fl) := layout_blank fn in (PBlank, i_resume tmp, i_brk tmp, fn', fl)
      else
        let '((r', b', fn'), fl) := layout_content (i_resume tmp) fn in (PContent, r', b', fn', fl) in
    (* makePage sets the flags of pageMaker[pageNumber-1].RemakeState *)
    let pm1 := set_nth pm index (mk_item (i_resume tmp) (i_brk tmp) (i_right tmp) cc pw) in
    let right' := negb (i_right tmp) in                    (* pages.go 956 *)
    let* next_changed :=
      if length pm1 <=? index + 1 then Ok true             (* pages.go 960-962: new page *)
      else
        let* next := idx 966 pm1 (index + 1) in
        Ok (negb (resume_eqb (i_resume next) resume_at) || negb (brk_eqb (i_brk next) next_b)
            || negb (Bool.eqb (i_right next) right') || state_changed index) in
    let pm2 :=
      if next_changed then
        (* pages.go 975-990: ContentChanged = resumeAt != nil ("to prevent endless
           loops and list index out of range (see #794)") *)
        let it := mk_item resume_at next_b right' (is_some resume_at) false in
        if length pm1 <=? index + 1 then pm1 ++ [it] else set_nth pm1 (index + 1) it
      else pm1 in
    Ok (pg, resume_at, fn', pm2).

  (* pages.go 997-1034.  old_pages = len(pages) of the previous round (0 on the
     first round: every page is made).  Returns the pageMaker and the pages. *)
  Fixpoint make_all_pages (fuel : nat) (pm : list item) (old_pages : nat) (fn : nat)
           (i : nat) (out : list page) : res (list item * list page) :=
    match fuel with
    | O => OutOfFuel
    | S fuel' =>
      let* it := idx 1003 pm i in
      let* (resume_at, reported, fn', pm', out') :=
        (* pages.go 1008-1010; the test `i >= len(pages)` (a page that did not exist in
           the previous round cannot be up to date) was added to /repo by the fix of the
           index panic below: [make_all_pages_orig] is the loop without it *)
        if (old_pages =? 0) || (old_pages <=? i) || i_changed it || i_wanted it then
          (* pages.go 1011: reset remakeState *)
          let pm1 := set_nth pm i (mk_item (i_resume it) (i_brk it) (i_right it) false false) in
          let* (pg, resume_at, fn', pm2) := remake_page i pm1 fn in
          Ok (resume_at, fn', fn', pm2, out ++ [pg])
        else
          (* pages.go 1017-1021: page up to date *)
          let* next := idx 1019 pm (i + 1) in
          let* _ := (if i <? old_pages then Ok tt else Panic 1021) in
          Ok (i_resume next, 0, fn, pm, out ++ [PContent]) in
      let i' := i + 1 in
      if is_none resume_at && (reported =? 0) then
        Ok (firstn (i' + 1) pm', out')                      (* pages.go 1026-1031 *)
      else make_all_pages fuel' pm' old_pages fn' i' out'
    end.

  (* the loop before that fix (unchanged tree): the re-use branch can be entered
     for a page that does not exist in the previous round *)
  Fixpoint make_all_pages_orig (fuel : nat) (pm : list item) (old_pages : nat) (fn : nat)
           (i : nat) (out : list page) : res (list item * list page) :=
    match fuel with
    | O => OutOfFuel
    | S fuel' =>
      let* it := idx 1003 pm i in
      let* (resume_at, reported, fn', pm', out') :=
        if (old_pages =? 0) || i_changed it || i_wanted it then
          let pm1 := set_nth pm i (mk_item (i_resume it) (i_brk it) (i_right it) false false) in
          let* (pg, resume_at, fn', pm2) := remake_page i pm1 fn in
          Ok (resume_at, fn', fn', pm2, out ++ [pg])
        else
          let* next := idx 1019 pm (i + 1) in
          let* _ := (if i <? old_pages then Ok tt else Panic 1021) in
          Ok (i_resume next, 0, fn, pm, out ++ [PContent]) in
      let i' := i + 1 in
      if is_none resume_at && (reported =? 0) then
        Ok (firstn (i' + 1) pm', out')
      else make_all_pages_orig fuel' pm' old_pages fn' i' out'
    end.

  (* layout.go 138-178.  make_all is one call of makeAllPages (fuel fixed by the
     caller); returns the number of rounds run and the pages of the last one. *)
  Definition max_loops_default : nat := 8.                   (* layout.go 141 *)

  Fixpoint doc_loop (make_all : list item -> nat -> res (list item * list page))
           (loops_left : nat) (rounds : nat) (pm : list item) (pages : list page)
    : res (nat * list page) :=
    match loops_left with
    | O => Ok (rounds, pages)                                (* loop < maxLoops fails *)
    | S k =>
      let initial_total := length pages in
      let* (pm', pages') := make_all pm (length pages) in
      let actual_total := length pages' in
      let reloop_content := existsb i_changed pm' in         (* layout.go 165-167 *)
      let reloop_pages := existsb i_wanted pm' && negb (initial_total =? actual_total) in
      if negb reloop_content && negb reloop_pages then Ok (S rounds, pages')
      else doc_loop make_all k (S rounds) pm' pages'
    end.

  (* initializePageMaker (layout.go 70-108): one item, nil resume point *)
  Definition initial_page_maker (b : brk) (right : bool) : list item :=
    [mk_item None b right false false].

  Definition layout_document (fuel : nat) (max_loops : option nat) (b : brk) (right : bool)
    : res (nat * list page) :=
    let ml := match max_loops with None => max_loops_default | Some n => n end in
    doc_loop (fun pm old => make_all_pages fuel pm old 0 0 []) ml 0 (initial_page_maker b right) [].
End PageLoop.

Arguments mk_item {R}.
Arguments i_resume {R}. Arguments i_brk {R}. Arguments i_right {R}.
Arguments i_changed {R}. Arguments i_wanted {R}.
