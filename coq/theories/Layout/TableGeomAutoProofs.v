(* Layout/TableGeomAutoProofs.v -- the auto table layout of
   Layout/TableGeomAuto.v, exact-rational instance: whatever branch is taken
   (a guess, the interpolation between two guesses, the distribution of the
   excess width over the five groups of columns, the shrinking of the table
   or the "break the rules" step) the column widths plus the total horizontal
   border spacing are exactly the used table width. *)
From Verif Require Import Base.F32 Base.GoSem Layout.TableGeom Layout.TableGeomSpec Layout.TableGeomProofs
  Layout.TableGeomAuto.
From Coq Require Import QArith List ZArith Lia Lqa Bool.
Import ListNotations.
Open Scope Q_scope.

(* ------------------------------------------------------------------ sums *)
Lemma sumf_sumQ l : sumf exactQ l == sumQ l.
Proof. unfold sumf. cbn [add exactQ]. rewrite fold_add_sumQ. lra. Qed.

Lemma Qle_b_true a b : Qle_b a b = true <-> a <= b.
Proof. unfold Qle_b. apply Qle_bool_iff. Qed.
Lemma Qle_b_false a b : Qle_b a b = false <-> b < a.
Proof.
  unfold Qle_b. split.
  - intros H. apply Qnot_le_lt. intros Hle. apply Qle_bool_iff in Hle. congruence.
  - intros H. destruct (Qle_bool a b) eqn:E; [|reflexivity]. apply Qle_bool_iff in E. lra.
Qed.
Lemma Qlt_b_true a b : Qlt_b a b = true <-> a < b.
Proof. unfold Qlt_b. rewrite negb_true_iff. apply (Qle_b_false b a). Qed.
Lemma Qlt_b_false a b : Qlt_b a b = false <-> b <= a.
Proof. unfold Qlt_b. rewrite negb_false_iff. apply (Qle_b_true b a). Qed.
Lemma Qeq_b_true a b : Qeq_b a b = true <-> a == b.
Proof. unfold Qeq_b. apply Qeq_bool_iff. Qed.
Lemma Qeq_b_false a b : Qeq_b a b = false <-> ~ a == b.
Proof.
  unfold Qeq_b. split.
  - intros H He. apply Qeq_bool_iff in He. congruence.
  - intros H. destruct (Qeq_bool a b) eqn:E; [|reflexivity]. apply Qeq_bool_iff in E. contradiction.
Qed.

Lemma sumQ_cons_add_at cw : forall i d,
  (i < length cw)%nat ->
  length (add_at_idx exactQ cw i d) = length cw /\ sumQ (add_at_idx exactQ cw i d) == sumQ cw + d.
Proof.
  induction cw as [|w cw IH]; intros i d Hi; simpl in Hi; [lia|].
  destruct i as [|i].
  - unfold add_at_idx. simpl. cbn [add exactQ]. split; [reflexivity|lra].
  - destruct (IH i d) as [Hl Hs]; [lia|].
    unfold add_at_idx in *. simpl. split; [f_equal; exact Hl|]. rewrite Hs. lra.
Qed.

Lemma add_all_spec idx : forall cw ds,
  Forall (fun i => (i < length cw)%nat) idx ->
  length (add_all exactQ cw idx ds) = length cw /\
  sumQ (add_all exactQ cw idx ds) == sumQ cw + sumQ (map snd (combine idx ds)).
Proof.
  induction idx as [|i idx IH]; intros cw ds Hin; simpl.
  - split; [reflexivity|lra].
  - destruct ds as [|d ds]; simpl; [split; [reflexivity|lra]|].
    inversion Hin as [|? ? Hi Hrest]; subst.
    destruct (sumQ_cons_add_at cw i d Hi) as [Hl Hs].
    destruct (IH (add_at_idx exactQ cw i d) ds) as [Hl2 Hs2].
    { rewrite Hl. exact Hrest. }
    split; [congruence|]. rewrite Hs2, Hs. lra.
Qed.

Lemma map_snd_combine {A B} (l1 : list A) : forall (l2 : list B),
  (length l2 <= length l1)%nat -> map snd (combine l1 l2) = l2.
Proof.
  induction l1 as [|a l1 IH]; intros [|b l2] H; simpl in *; try reflexivity; try lia.
  f_equal. apply IH. lia.
Qed.

Lemma sumQ_map_scale (l : list Q) k : sumQ (map (fun d => d * k) l) == sumQ l * k.
Proof. induction l as [|x l IH]; simpl; [ring|]. rewrite IH. ring. Qed.

Lemma sumQ_map_div_scale (l : list Q) s e : ~ s == 0 -> sumQ (map (fun d => d / s * e) l) == sumQ l * e / s.
Proof. intros Hs. induction l as [|x l IH]; simpl; [field; exact Hs|]. rewrite IH. field. exact Hs. Qed.

Lemma sumQ_const {A} (l : list A) v : sumQ (map (fun _ => v) l) == inject_Z (Z.of_nat (length l)) * v.
Proof.
  induction l as [|x l IH]; [simpl; ring|].
  cbn [map sumQ length]. rewrite IH, inject_S. ring.
Qed.

Lemma filter_idx_range p cols : forall i,
  Forall (fun j => (i <= j < i + length cols)%nat) (filter_idx p i cols).
Proof.
  induction cols as [|c cols IH]; intros i; simpl; [constructor|].
  destruct (p c).
  - constructor; [lia|]. eapply Forall_impl; [|apply (IH (S i))]. simpl. intros j Hj. lia.
  - eapply Forall_impl; [|apply (IH (S i))]. simpl. intros j Hj. lia.
Qed.

Lemma filter_idx_in_range p cols (cw : list Q) :
  length cw = length cols -> Forall (fun j => (j < length cw)%nat) (filter_idx p 0 cols).
Proof.
  intros H. eapply Forall_impl; [|apply (filter_idx_range p cols 0%nat)]. simpl. intros j Hj. lia.
Qed.

Lemma filter_idx_length p cols : forall i, (length (filter_idx p i cols) <= length cols)%nat.
Proof.
  induction cols as [|c cols IH]; intros i; simpl; [lia|].
  destruct (p c); simpl; specialize (IH (S i)); lia.
Qed.

(* ------------------------------------------------------------------ one group *)
(* what was not returned was added to the columns *)
Definition returned (e : Q) : Q := if Qle_b e 0 then 0 else e.

Lemma apply_differences_spec cw idx ds excess cw' e' :
  Forall (fun i => (i < length cw)%nat) idx -> (length ds <= length idx)%nat -> 0 < excess ->
  apply_differences exactQ cw idx ds excess = (cw', e') ->
  length cw' = length cw /\ sumQ cw' == sumQ cw + excess - returned e'.
Proof.
  intros Hin Hlen Hex H. unfold apply_differences in H. cbn [add sub mul div exactQ] in H.
  injection H as <- <-.
  set (sumD := fold_left (fun s d => s + d) ds 0).
  assert (HsumD : sumD == sumQ ds) by (unfold sumD; rewrite fold_add_sumQ; lra).
  destruct (Qlt_b excess sumD) eqn:E.
  - apply Qlt_b_true in E.
    destruct (add_all_spec idx cw (map (fun d => d / sumD * excess) ds) Hin) as [Hl Hs].
    split; [exact Hl|]. rewrite Hs.
    rewrite map_snd_combine by (rewrite map_length; exact Hlen).
    assert (Hne : ~ sumD == 0) by lra.
    assert (Hsc : sumQ (map (fun d => d / sumD * excess) ds) == excess).
    { rewrite (sumQ_map_div_scale ds sumD excess Hne), <- HsumD. field. exact Hne. }
    rewrite Hsc. unfold returned.
    replace (Qle_b (excess - sumD) 0) with true by (symmetry; apply Qle_b_true; lra). lra.
  - apply Qlt_b_false in E.
    destruct (add_all_spec idx cw ds Hin) as [Hl Hs].
    split; [exact Hl|]. rewrite Hs, map_snd_combine by exact Hlen.
    unfold returned. destruct (Qle_b (excess - sumD) 0) eqn:E2.
    + apply Qle_b_true in E2. lra.
    + apply Qle_b_false in E2. lra.
Qed.

Lemma returned_pos e : 0 < e -> returned e == e.
Proof. intros H. unfold returned. replace (Qle_b e 0) with false by (symmetry; apply Qle_b_false; exact H). reflexivity. Qed.

Lemma group13_spec idx maxs cw excess cw' e' :
  Forall (fun i => (i < length cw)%nat) idx -> 0 < excess ->
  group13 exactQ idx maxs cw excess = (cw', e') ->
  length cw' = length cw /\ sumQ cw' == sumQ cw + excess - returned e'.
Proof.
  intros Hin Hex H. unfold group13 in H.
  destruct idx as [|i idx].
  - injection H as <- <-. split; [reflexivity|]. rewrite (returned_pos _ Hex). lra.
  - eapply apply_differences_spec; [exact Hin| |exact Hex|exact H].
    rewrite map_length, combine_length, map_length. lia.
Qed.

Lemma group4_spec cols idx cw excess cw' e' :
  Forall (fun i => (i < length cw)%nat) idx -> 0 < excess ->
  group4 exactQ cols idx cw excess = (cw', e') ->
  length cw' = length cw /\ sumQ cw' == sumQ cw + excess - returned e'.
Proof.
  intros Hin Hex H. unfold group4 in H.
  destruct idx as [|i idx].
  - injection H as <- <-. split; [reflexivity|]. rewrite (returned_pos _ Hex). lra.
  - eapply apply_differences_spec; [exact Hin| |exact Hex|exact H].
    rewrite map_length. lia.
Qed.

(* adding the same share to k >= 1 columns adds k shares *)
Lemma add_shares_spec cw idx e :
  Forall (fun i => (i < length cw)%nat) idx -> idx <> [] ->
  let cw' := add_all exactQ cw idx (map (fun _ => e / of_nat (length idx)) idx) in
  length cw' = length cw /\ sumQ cw' == sumQ cw + e.
Proof.
  intros Hin Hne cw'.
  destruct (add_all_spec idx cw (map (fun _ => e / of_nat (length idx)) idx) Hin) as [Hl Hs].
  split; [exact Hl|]. unfold cw'. rewrite Hs.
  rewrite map_snd_combine by (rewrite map_length; lia).
  rewrite sumQ_const. unfold of_nat.
  assert (Hk : ~ inject_Z (Z.of_nat (length idx)) == 0).
  { destruct idx; [contradiction|]. simpl length. rewrite inject_S.
    assert (0 <= inject_Z (Z.of_nat (length idx))).
    { change 0 with (inject_Z 0). rewrite <- Zle_Qle. lia. }
    lra. }
  field. exact Hk.
Qed.

(* ------------------------------------------------------------------ distributeExcessWidth *)
Theorem distribute_excess_spec cols cw excess cw' e' :
  length cw = length cols -> 0 < excess ->
  distribute_excess exactQ cols cw excess = (cw', e') ->
  length cw' = length cw /\ 0 <= e' /\ sumQ cw' == sumQ cw + excess - e'.
Proof.
  intros Hlen Hex H. unfold distribute_excess in H. cbn [add sub mul div exactQ] in H. cbv zeta in H.
  match type of H with context [group13 exactQ ?i ?m cw excess] => destruct (group13 exactQ i m cw excess) as [cw1 e1] eqn:E1 end.
  apply group13_spec in E1; [|apply filter_idx_in_range; exact Hlen|exact Hex].
  destruct E1 as [L1 S1].
  destruct (Qle_b e1 0) eqn:Q1.
  { injection H as <- <-. split; [exact L1|]. split; [lra|].
    rewrite S1. unfold returned. rewrite Q1. lra. }
  apply Qle_b_false in Q1. rewrite (returned_pos _ Q1) in S1.
  match type of H with context [match filter_idx ?p 0%nat cols with _ => _ end] =>
    destruct (filter_idx p 0%nat cols) as [|i2 idx2] eqn:E2 end.
  2:{ injection H as <- <-.
      assert (Hin : Forall (fun i => (i < length cw1)%nat) (i2 :: idx2)).
      { rewrite <- E2. apply filter_idx_in_range. congruence. }
      destruct (add_shares_spec cw1 (i2 :: idx2) e1 Hin) as [L2 S2]; [discriminate|].
      split; [etransitivity; [exact L2|exact L1]|]. split; [lra|]. rewrite S2, S1. lra. }
  match type of H with context [group13 exactQ ?i ?m cw1 e1] => destruct (group13 exactQ i m cw1 e1) as [cw3 e3] eqn:E3 end.
  apply group13_spec in E3; [|apply filter_idx_in_range; congruence|exact Q1].
  destruct E3 as [L3 S3].
  destruct (Qle_b e3 0) eqn:Q3.
  { injection H as <- <-. split; [congruence|]. split; [lra|].
    rewrite S3, S1. unfold returned. rewrite Q3. lra. }
  apply Qle_b_false in Q3. rewrite (returned_pos _ Q3) in S3.
  match type of H with context [group4 exactQ cols ?i cw3 e3] => destruct (group4 exactQ cols i cw3 e3) as [cw4 e4] eqn:E4 end.
  apply group4_spec in E4; [|apply filter_idx_in_range; congruence|exact Q3].
  destruct E4 as [L4 S4].
  destruct (Qle_b e4 0) eqn:Q4.
  { injection H as <- <-. split; [congruence|]. split; [lra|].
    rewrite S4, S3, S1. unfold returned. rewrite Q4. lra. }
  apply Qle_b_false in Q4. rewrite (returned_pos _ Q4) in S4.
  match type of H with context [match filter_idx ?p 0%nat cols with _ => _ end] =>
    destruct (filter_idx p 0%nat cols) as [|i5 idx5] eqn:E5 end.
  - injection H as <- <-. split; [congruence|]. split; [lra|]. rewrite S4, S3, S1. lra.
  - injection H as <- <-.
    assert (Hin : Forall (fun i => (i < length cw4)%nat) (i5 :: idx5)).
    { rewrite <- E5. apply filter_idx_in_range. congruence. }
    destruct (add_shares_spec cw4 (i5 :: idx5) e4 Hin) as [L5 S5]; [discriminate|].
    split; [etransitivity; [exact L5|congruence]|]. split; [lra|]. rewrite S5, S4, S3, S1. lra.
Qed.

(* ------------------------------------------------------------------ the guesses *)
Lemma added_sum lower : forall upper, length lower = length upper ->
  sumQ (map (fun ul => fst ul - snd ul) (combine upper lower)) == sumQ upper - sumQ lower.
Proof.
  induction lower as [|l lower IH]; intros [|u upper] H; simpl in *; try discriminate; [lra|].
  rewrite IH by lia. lra.
Qed.

Lemma interp_sum lower : forall upper r, length lower = length upper ->
  let added := map (fun ul => fst ul - snd ul) (combine upper lower) in
  length (map (fun la => fst la + snd la * r) (combine lower added)) = length lower /\
  sumQ (map (fun la => fst la + snd la * r) (combine lower added)) == sumQ lower + (sumQ upper - sumQ lower) * r.
Proof.
  induction lower as [|l lower IH]; intros [|u upper] r H; simpl in *; try discriminate.
  - split; [reflexivity|ring].
  - destruct (IH upper r) as [Hl Hs]; [lia|]. split; [f_equal; exact Hl|]. rewrite Hs. ring.
Qed.

Lemma choose_spec a (g0 g1 g2 g3 : list Q) :
  let guesses := [g0; g1; g2; g3] in
  let sums := map (sumf exactQ) guesses in
  sumQ g0 <= a -> a <= sumQ g3 ->
  let lo := nth (lower_index a sums 0 0) guesses [] in
  let up := nth (upper_index a sums) guesses [] in
  In lo guesses /\ In up guesses /\ sumQ lo <= a /\ a <= sumQ up.
Proof.
  intros guesses sums H0 H3. unfold sums, guesses, upper_index. simpl.
  repeat match goal with
         | |- context [Qle_b ?x ?y] => let E := fresh "E" in destruct (Qle_b x y) eqn:E
         end; simpl;
    repeat match goal with
           | H : Qle_b _ _ = true |- _ => apply Qle_b_true in H; rewrite ?sumf_sumQ in H
           | H : Qle_b _ _ = false |- _ => apply Qle_b_false in H; rewrite ?sumf_sumQ in H
           end;
    (split; [tauto|split; [tauto|split; lra]]).
Qed.

(* ------------------------------------------------------------------ autoTableLayout *)
(* hypotheses on what tableAndColumnsPreferredWidths returned: the table's
   min-content width covers the columns' min-content widths and the spacing,
   and does not exceed its max-content width; a cell originates in at least
   one column *)
Lemma used_width_ge width avail tmin tmax : tmin <= tmax -> tmin <= used_width width avail tmin tmax.
Proof.
  intros Hmm. unfold used_width. destruct width as [w|].
  - destruct (Qlt_b w tmin) eqn:E; [lra|]. apply Qlt_b_false in E. exact E.
  - destruct (Qle_b avail tmin) eqn:E; [lra|]. apply Qle_b_false in E.
    destruct (Qlt_b avail tmax) eqn:E2; lra.
Qed.

Theorem auto_columns_fills W tmin spacing cols cw W' :
  auto_columns exactQ W tmin spacing cols = (cw, W') ->
  sumQ (map ac_min cols) + spacing <= tmin -> tmin <= W ->
  (exists c, In c cols /\ ac_cell c = true) ->
  length cw = length cols /\ sumQ cw + spacing == W'.
Proof.
  intros H Hmin HW Hcell. unfold auto_columns in H. cbn [add sub mul div exactQ] in H. cbv zeta in H.
  set (a := W - spacing) in *.
  set (g0 := map ac_min cols) in *. set (g1 := map (guess1 exactQ a) cols) in *.
  set (g2 := map (guess2 exactQ a) cols) in *. set (g3 := map (guess3 exactQ a) cols) in *.
  assert (Lg : forall g, In g [g0; g1; g2; g3] -> length g = length cols).
  { intros g [<-|[<-|[<-|[<-|[]]]]]; apply map_length. }
  destruct (Qle_b a (sumf exactQ g3)) eqn:EA.
  - (* a guess or the interpolation between two of them *)
    apply Qle_b_true in EA. rewrite sumf_sumQ in EA.
    assert (H0 : sumQ g0 <= a) by (unfold a; lra).
    destruct (choose_spec a g0 g1 g2 g3 H0 EA) as (Ilo & Iup & Hlo & Hup).
    cbv zeta in Ilo, Iup, Hlo, Hup.
    set (li := lower_index a (map (sumf exactQ) [g0; g1; g2; g3]) 0 0) in *.
    set (ui := upper_index a (map (sumf exactQ) [g0; g1; g2; g3])) in *.
    set (lo := nth li [g0; g1; g2; g3] []) in *. set (up := nth ui [g0; g1; g2; g3] []) in *.
    destruct (Nat.eqb ui li) eqn:Eq.
    + apply Nat.eqb_eq in Eq. injection H as <- <-. fold up.
      split; [apply Lg; exact Iup|].
      assert (Hul : up = lo) by (unfold up, lo; rewrite Eq; reflexivity). rewrite Hul in *. unfold a in *. lra.
    + injection H as <- <-.
      assert (Hll : length lo = length up) by (rewrite (Lg lo Ilo), (Lg up Iup); reflexivity).
      match goal with |- context [if ?b then ?x else 0] => set (ratio := if b then x else 0) end.
      destruct (interp_sum lo up ratio Hll) as [Hl Hs]. cbv zeta in Hl, Hs.
      split; [rewrite Hl; apply Lg; exact Ilo|].
      rewrite Hs. unfold ratio.
      destruct (Qeq_b (sumf exactQ (map (fun ul => fst ul - snd ul) (combine up lo))) 0) eqn:Ez; cbn [negb].
      * apply Qeq_b_true in Ez. rewrite sumf_sumQ, (added_sum lo up Hll) in Ez. unfold a in *. lra.
      * apply Qeq_b_false in Ez. rewrite sumf_sumQ, (added_sum lo up Hll) in Ez.
        rewrite !sumf_sumQ, (added_sum lo up Hll). unfold a. field. exact Ez.
  - (* excess width *)
    apply Qle_b_false in EA. rewrite sumf_sumQ in EA.
    destruct (distribute_excess exactQ cols g3 (a - sumf exactQ g3)) as [cw1 e] eqn:ED.
    apply distribute_excess_spec in ED; [|apply map_length|rewrite sumf_sumQ; lra].
    destruct ED as (L1 & He & S1). rewrite sumf_sumQ in S1.
    assert (Lg3 : length g3 = length cols) by apply map_length.
    destruct (Qeq_b e 0) eqn:E0.
    + apply Qeq_b_true in E0. injection H as <- <-. split; [congruence|]. rewrite S1. subst a. lra.
    + destruct (Qlt_b tmin (W - e)) eqn:E1.
      * injection H as <- <-. split; [congruence|]. rewrite S1. subst a. lra.
      * injection H as <- <-.
        assert (Hin : Forall (fun i => (i < length cw1)%nat) (filter_idx ac_cell 0 cols)).
        { apply filter_idx_in_range. congruence. }
        assert (Hnn : filter_idx ac_cell 0 cols <> []).
        { destruct Hcell as (c & Hc1 & Hc2). clear -Hc1 Hc2. generalize 0%nat.
          induction cols as [|x l IH]; intros k; [contradiction|]. simpl.
          destruct Hc1 as [->|Hc1]; [rewrite Hc2; discriminate|].
          destruct (ac_cell x); [discriminate|]. apply IH. exact Hc1. }
        destruct (add_shares_spec cw1 _ e Hin Hnn) as [L2 S2].
        split; [congruence|]. rewrite S2, S1. subst a. lra.
Qed.

Theorem auto_layout_fills width avail tmin tmax spacing cols cw W' :
  auto_table_layout exactQ width avail tmin tmax spacing cols = (cw, W') ->
  cols <> [] ->
  sumQ (map ac_min cols) + spacing <= tmin -> tmin <= tmax ->
  (exists c, In c cols /\ ac_cell c = true) ->
  length cw = length cols /\ sumQ cw + spacing == W'.
Proof.
  intros H Hne Hmin Hmm Hcell. unfold auto_table_layout in H. cbv zeta in H.
  destruct cols as [|c0 cols0]; [contradiction|].
  eapply auto_columns_fills; [exact H|exact Hmin|apply used_width_ge; exact Hmm|exact Hcell].
Qed.
