(* Layout/TextDraw.v -- which text boxes of a laid-out page reach the backend
   (html/document/draw.go:1511-1604 drawInlineLevel / drawText / drawFirstLine).

     drawInlineLevel   a line or inline box draws its children in order: a TextBox
                       through drawText, anything else recursively (1527-1541);
                       a TextBox met directly is drawn too (1544-1546, list markers).
                       The box's own visibility only matters to its background and border
                       (draw.go:614, 1263): `visibility` is inherited but a descendant may
                       set it back to `visible`, so the children of a hidden line / inline
                       box are visited all the same
     drawText          returns at once when visibility != visible (1552-1554)
     drawFirstLine     returns when strings.TrimSpace(text) == "" (1586-1588) or the
                       font size is below 1e-6 (1590-1593); otherwise exactly one
                       dst.DrawText call (1597)

   Block-level painting (drawStackingContext / drawBlockLevel, draw.go) reaches
   every line box of the page exactly once -- that is property C16's subject
   (paint order); here the box tree is abstracted to the nesting of containers
   and only the inline level is modelled.  No proofs in this file. *)
From Coq Require Export List NArith Bool.
Export ListNotations.

Inductive pbox :=
| PText (visible : bool) (font_ok : bool) (text : list N)
| PBox (visible : bool) (kids : list pbox).   (* line box, inline box, block container ...: its own visibility *)

(* unicode.IsSpace on the code points that can occur (strings.TrimSpace) *)
Definition is_space_rune (c : N) : bool :=
  N.eqb c 32 || N.eqb c 9 || N.eqb c 10 || N.eqb c 13 || N.eqb c 11 || N.eqb c 12 ||
  N.eqb c 133 || N.eqb c 160 || N.eqb c 5760 || ((8192 <=? c) && (c <=? 8202))%N ||
  N.eqb c 8232 || N.eqb c 8233 || N.eqb c 8239 || N.eqb c 8287 || N.eqb c 12288.

Definition drawable (visible font_ok : bool) (text : list N) : bool :=
  visible && font_ok && negb (forallb is_space_rune text).

(* the DrawText calls made for a box, in order *)
Fixpoint draw_events (b : pbox) : list (list N) :=
  match b with
  | PText v f t => if drawable v f t then [t] else []
  | PBox _ ks => flat_map draw_events ks
  end.

(* the text boxes of a box, in document order *)
Fixpoint text_boxes (b : pbox) : list (bool * bool * list N) :=
  match b with
  | PText v f t => [(v, f, t)]
  | PBox _ ks => flat_map text_boxes ks
  end.

(* the same tree with every container visible *)
Fixpoint show_boxes (b : pbox) : pbox :=
  match b with
  | PText v f t => PText v f t
  | PBox _ ks => PBox true (map show_boxes ks)
  end.

(* computed visibility (CSS 2.1 11.2: inherited; `hidden` / `collapse` boxes are invisible
   but "descendants of the element will be visible if they have visibility: visible"):
   a source tree in which a node may set the property, resolved to the tree above *)
Inductive vbox :=
| VText (text : list N)
| VBox (set : option bool) (kids : list vbox).     (* Some true = visible, Some false = hidden / collapse *)

Fixpoint resolve_visibility (inherited : bool) (b : vbox) : pbox :=
  match b with
  | VText t => PText inherited true t
  | VBox set ks =>
      let v := match set with Some x => x | None => inherited end in
      PBox v (map (resolve_visibility v) ks)
  end.

(* the texts of the source tree whose nearest ancestor that sets `visibility` sets it to
   visible (none: the initial value, visible), in document order *)
Fixpoint visible_texts (inherited : bool) (b : vbox) : list (list N) :=
  match b with
  | VText t => if inherited then [t] else []
  | VBox set ks =>
      let v := match set with Some x => x | None => inherited end in
      flat_map (visible_texts v) ks
  end.
