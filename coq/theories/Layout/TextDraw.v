(* Layout/TextDraw.v -- which text boxes of a laid-out page reach the backend
   (html/document/draw.go:1511-1604 drawInlineLevel / drawText / drawFirstLine).

     drawInlineLevel   a line or inline box draws its children in order: a TextBox
                       through drawText, anything else recursively (1527-1541);
                       a TextBox met directly is drawn too (1544-1546, list markers)
     drawText          returns at once when visibility != visible (1552-1554)
     drawFirstLine     returns when strings.TrimSpace(text) == "" (1586-1588) or the
                       font size is below 1e-6 (1590-1593); otherwise exactly one
                       dst.DrawText call (1597)

   Block-level painting (drawStackingContext / drawBlockLevel, draw.go) reaches
   every line box of the page exactly once -- that is property C16's subject
   (paint order); here the box tree is abstracted to the nesting of containers
   and only the inline level is modelled.  No proofs in this file. *)
From Coq Require Export List NArith Bool.
Export ListNotations.

Inductive pbox :=
| PText (visible : bool) (font_ok : bool) (text : list N)
| PBox (kids : list pbox).          (* line box, inline box, block container ... *)

(* unicode.IsSpace on the code points that can occur (strings.TrimSpace) *)
Definition is_space_rune (c : N) : bool :=
  N.eqb c 32 || N.eqb c 9 || N.eqb c 10 || N.eqb c 13 || N.eqb c 11 || N.eqb c 12 ||
  N.eqb c 133 || N.eqb c 160 || N.eqb c 5760 || ((8192 <=? c) && (c <=? 8202))%N ||
  N.eqb c 8232 || N.eqb c 8233 || N.eqb c 8239 || N.eqb c 8287 || N.eqb c 12288.

Definition drawable (visible font_ok : bool) (text : list N) : bool :=
  visible && font_ok && negb (forallb is_space_rune text).

(* the DrawText calls made for a box, in order *)
Fixpoint draw_events (b : pbox) : list (list N) :=
  match b with
  | PText v f t => if drawable v f t then [t] else []
  | PBox ks => flat_map draw_events ks
  end.

(* the text boxes of a box, in document order *)
Fixpoint text_boxes (b : pbox) : list (bool * bool * list N) :=
  match b with
  | PText v f t => [(v, f, t)]
  | PBox ks => flat_map text_boxes ks
  end.
