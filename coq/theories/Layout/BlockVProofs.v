(* Layout/BlockVProofs.v -- vertical part: the threaded adjoining-margins
   algorithm of Layout/BlockFlow.v (exact-rational instance) satisfies the
   CSS 2.1 equations of Layout/Css21BlockSpec.v (8.3.1 positions, 9.4.1
   stacking, 10.6.3 / 10.7 heights) on every tree in which no box that
   collapses with its children has a first child whose own margins collapse
   through it (`no_through_first`).  Outside that domain the statement is
   false for the implementation's algorithm (see Properties/C10.v). *)
From Coq Require Import QArith Qminmax List Bool Lqa Lia.
From Verif Require Import Base.F32 Layout.BlockFlow Layout.Css21BlockSpec Layout.BlockProofs.
Import ListNotations.
Open Scope Q_scope.

Lemma node_ind' (P : node -> Prop) :
  (forall s cs, Forall P cs -> P (Node s cs)) -> forall n, P n.
Proof.
  intros H. fix IH 1. intros [s cs]. apply H.
  induction cs as [|c r IHr]; constructor; [apply IH | exact IHr].
Qed.

(* ------------------------------------------------------------------ facts about the specification's functions *)

Definition ibr (b : lbox) : list Q :=
  match b with
  | LBox u _ hc cs =>
      if zero (ubb u) && zero (upb u) && is_auto hc then brun_of bottom_run cs [] else []
  end.

Lemma bottom_run_eq b : bottom_run b = ibr b ++ [b_mb b].
Proof. destruct b as [u o hc cs]. reflexivity. Qed.

Lemma top_run_eq u o hc cs :
  top_run (LBox u o hc cs) =
  V (umt u) :: (if zero (ubt u) && zero (upt u) then krun_of top_run cs else []).
Proof. reflexivity. Qed.

Lemma through_leaf_on_D b :
  no_through_first false b = true -> through b = true -> kids b = [].
Proof.
  destruct b as [u o hc cs]. destruct cs as [|c r]; [reflexivity|].
  cbn [no_through_first through kids open_top box_of negb andb forallb].
  intros HD HT. exfalso.
  apply andb_true_iff in HD as [HD _].
  rewrite !andb_true_iff in HT.
  destruct HT as [[[[[_ Hbt] Hpt] _] _] [_ [Hc _]]].
  unfold open_top in HD. cbn [box_of negb andb] in HD.
  rewrite Hc, Hbt, Hpt in HD. discriminate.
Qed.

Lemma all_margins_leaf u o hc : all_margins (LBox u o hc []) = [V (umt u); V (umb u)].
Proof. reflexivity. Qed.

Lemma maxpos_snoc : forall l a, maxpos (l ++ [a]) == maxpos (a :: l).
Proof.
  induction l as [|m r IH]; intros a; cbn [app maxpos fold_right] in *; [reflexivity|].
  fold (maxpos (r ++ [a])). fold (maxpos r). rewrite IH.
  cbn [maxpos fold_right]. fold (maxpos r).
  rewrite Q.max_assoc, (Q.max_comm m a), <- Q.max_assoc. reflexivity.
Qed.
Lemma minneg_snoc : forall l a, minneg (l ++ [a]) == minneg (a :: l).
Proof.
  induction l as [|m r IH]; intros a; cbn [app minneg fold_right] in *; [reflexivity|].
  fold (minneg (r ++ [a])). fold (minneg r). rewrite IH.
  cbn [minneg fold_right]. fold (minneg r).
  rewrite Q.min_assoc, (Q.min_comm m a), <- Q.min_assoc. reflexivity.
Qed.
Lemma collapsed_app_single_comm : forall l a, collapsed (l ++ [a]) == collapsed (a :: l).
Proof. intros l a. unfold collapsed. rewrite maxpos_snoc, minneg_snoc. reflexivity. Qed.

Lemma collapsed_single a : collapsed [a] == a.
Proof. unfold collapsed. cbn. qmm. Qed.

Lemma collapsed_nil : collapsed [] == 0.
Proof. unfold collapsed. cbn. lra. Qed.

(* clamp_h is compatible with == *)
Lemma clamp_h_compat b x y : x == y -> clamp_h b x == clamp_h b y.
Proof.
  intros H. unfold clamp_h. destruct (umaxh (box_of b)); rewrite H; reflexivity.
Qed.

Lemma clamp_model b x :
  fmax (fmin_ext x (umaxh (box_of b))) (uminh (box_of b)) == clamp_h b x.
Proof.
  unfold clamp_h. rewrite fmax_spec. destruct (umaxh (box_of b)); cbn [fmin_ext].
  - rewrite fmin_spec. reflexivity.
  - reflexivity.
Qed.

Lemma border_bottom_eq b : border_bottom exactQ (box_of b) == border_bot b.
Proof.
  unfold border_bottom, border_bot, content_top, border_top, b_mt. cbn [add exactQ]. ring.
Qed.

(* ------------------------------------------------------------------ the loop over the children *)

Definition rec_t := node -> Q -> list Q -> bl_result.

(* what the induction hypothesis gives for a child (never the root) *)
Definition child_ok (rec : rec_t) (c : node) : Prop :=
  forall y adj,
    no_through_first false (r_box (rec c y adj)) = true ->
    r_var (rec c y adj) = adj ++ top_run (r_box (rec c y adj)) /\
    r_ct (rec c y adj) = through (r_box (rec c y adj)) /\
    r_adj (rec c y adj) = (if through (r_box (rec c y adj)) then adj ++ [b_mt (r_box (rec c y adj))]
                           else ibr (r_box (rec c y adj))) /\
    (forall e ptop, e == y -> (through (r_box (rec c y adj)) = true -> ptop = None) ->
       Forall veq_holds (vertical_eqs (r_box (rec c y adj)) false e adj ptop)).

Lemma go_of_cons ve ptop c r st :
  go_of ve ptop (c :: r) st =
  (ve c (fst (fst st)) (snd (fst st)) (if snd st then Some ptop else None) ++
     fst (go_of ve ptop r (if through c then (fst (fst st), snd (fst st) ++ all_margins c, snd st)
                           else (border_bot c, bottom_run c, false))),
   snd (go_of ve ptop r (if through c then (fst (fst st), snd (fst st) ++ all_margins c, snd st)
                         else (border_bot c, bottom_run c, false)))).
Proof. reflexivity. Qed.

Lemma kids_loop_cons ar rec cwc c rest first py adj var :
  kids_loop ar rec cwc (c :: rest) first py adj var =
  let r := rec c py adj in
  let lp := kids_loop ar rec cwc rest false
              (if r_ct r then py else border_bottom ar (box_of (r_box r)))
              (r_adj r ++ [V (umb (box_of (r_box r)))])
              (if first && cwc then r_var r else var) in
  (fst (fst (fst lp)), snd (fst (fst lp)), snd (fst lp), r_box r :: snd lp).
Proof.
  cbn [kids_loop]. cbv zeta.
  destruct (kids_loop ar rec cwc rest false _ _ _) as [[[a b] c'] d]. reflexivity.
Qed.

Lemma loop_ok rec cwc : forall cs, Forall (child_ok rec) cs ->
  forall first py adj var e ptopv,
  forallb (no_through_first false) (snd (kids_loop exactQ rec cwc cs first py adj var)) = true ->
  (first && cwc = true ->
     match snd (kids_loop exactQ rec cwc cs first py adj var) with
     | c :: _ => through c = false | [] => True end) ->
  e == py ->
  let lp := kids_loop exactQ rec cwc cs first py adj var in
  let res := go_of (fun c => vertical_eqs c false) ptopv (snd lp) (e, adj, first && cwc) in
  Forall veq_holds (fst res) /\
  fst (fst (snd res)) == fst (fst (fst lp)) /\
  snd (fst (snd res)) = snd (fst (fst lp)) /\
  (snd lp <> [] -> snd (snd res) = false) /\
  snd (fst (fst lp)) = brun_of bottom_run (snd lp) adj /\
  snd (fst lp) = (if first && cwc then match snd lp with c :: _ => adj ++ top_run c | [] => var end
                  else var) /\
  (cs = [] <-> snd lp = []).
Proof.
  induction 1 as [|c rest Hc Hrest IH]; intros first py adj var e ptopv HD Hfirst He.
  - cbn. repeat split; auto; try (destruct (first && cwc); reflexivity); try congruence.
  - rewrite kids_loop_cons in *. cbv zeta in *.
    set (r := rec c py adj) in *.
    set (b := r_box r) in *.
    cbn [snd fst] in HD, Hfirst |- *.
    cbn [forallb] in HD. apply andb_true_iff in HD as [HDb HDr].
    destruct (Hc py adj HDb) as (Hvar & Hct & Hadj & Heqs).
    fold r in Hvar, Hct, Hadj, Heqs. fold b in Hvar, Hct, Hadj, Heqs.
    (* the child is not collapsed through when it is the first child of a collapsing parent *)
    assert (Hth : first && cwc = true -> through b = false) by exact Hfirst.
    (* model state handed to the rest of the loop = specification state *)
    set (py1 := if r_ct r then py else border_bottom exactQ (box_of b)) in *.
    set (adj1 := r_adj r ++ [V (umb (box_of b))]) in *.
    set (var1 := if first && cwc then r_var r else var) in *.
    assert (Hfc : through b = true -> first && cwc = false).
    { intros ET. destruct (first && cwc); [specialize (Hth eq_refl); congruence | reflexivity]. }
    assert (Hadj1 : adj1 = if through b then adj ++ all_margins b else bottom_run b).
    { unfold adj1. rewrite Hadj. destruct (through b) eqn:ET.
      - pose proof (through_leaf_on_D b HDb ET) as Hleaf.
        destruct b as [bu bo bhc bcs]. cbn [kids] in Hleaf. subst bcs.
        rewrite all_margins_leaf. cbn [b_mt box_of]. rewrite <- app_assoc. reflexivity.
      - rewrite bottom_run_eq. reflexivity. }
    assert (He1 : (if through b then e else border_bot b) == py1).
    { unfold py1. rewrite Hct. destruct (through b); [exact He | symmetry; apply border_bottom_eq]. }
    specialize (IH false py1 adj1 var1 (if through b then e else border_bot b) ptopv HDr
                   (fun H => ltac:(discriminate H)) He1).
    cbv zeta in IH. cbn [andb] in IH.
    destruct IH as (I1 & I2 & I3 & I4 & I5 & I6 & I7).
    rewrite go_of_cons. cbn [fst snd].
    assert (Hgo : go_of (fun c0 : lbox => vertical_eqs c0 false) ptopv
                    (snd (kids_loop exactQ rec cwc rest false py1 adj1 var1))
                    (if through b then (e, adj ++ all_margins b, first && cwc)
                     else (border_bot b, bottom_run b, false))
                  = go_of (fun c0 : lbox => vertical_eqs c0 false) ptopv
                      (snd (kids_loop exactQ rec cwc rest false py1 adj1 var1))
                      (if through b then e else border_bot b, adj1, false)).
    { rewrite Hadj1. destruct (through b) eqn:ET; [rewrite (Hfc eq_refl)|]; reflexivity. }
    rewrite Hgo.
    repeat split.
    + apply Forall_app. split; [|exact I1].
      apply Heqs; [exact He|].
      intros ET. rewrite (Hfc ET). reflexivity.
    + exact I2.
    + exact I3.
    + intros _. destruct (snd (kids_loop exactQ rec cwc rest false py1 adj1 var1)) eqn:EK.
      * reflexivity.
      * apply I4. congruence.
    + rewrite I5. cbn [brun_of]. fold (brun_of bottom_run).
      rewrite Hadj1. destruct (through b); reflexivity.
    + rewrite I6. unfold var1. destruct (first && cwc); [exact Hvar | reflexivity].
    + discriminate.
    + discriminate.
Qed.

(* ------------------------------------------------------------------ one box *)

Definition box_ok (n : node) : Prop :=
  forall is_root cbw cbh x y adj,
    no_through_first is_root (r_box (layout_block exactQ n is_root cbw cbh x y adj)) = true ->
    (is_root = false ->
       r_var (layout_block exactQ n is_root cbw cbh x y adj)
         = adj ++ top_run (r_box (layout_block exactQ n is_root cbw cbh x y adj)) /\
       r_ct (layout_block exactQ n is_root cbw cbh x y adj)
         = through (r_box (layout_block exactQ n is_root cbw cbh x y adj)) /\
       r_adj (layout_block exactQ n is_root cbw cbh x y adj)
         = (if through (r_box (layout_block exactQ n is_root cbw cbh x y adj))
            then adj ++ [b_mt (r_box (layout_block exactQ n is_root cbw cbh x y adj))]
            else ibr (r_box (layout_block exactQ n is_root cbw cbh x y adj)))) /\
    (forall e ptop, e == y ->
       (through (r_box (layout_block exactQ n is_root cbw cbh x y adj)) = true -> ptop = None) ->
       Forall veq_holds
         (vertical_eqs (r_box (layout_block exactQ n is_root cbw cbh x y adj)) is_root e adj ptop)).

Lemma cwc_open_top u is_root :
  cwc_of u is_root = negb is_root && zero (ubt u) && zero (upt u).
Proof.
  unfold cwc_of, nz, zero. destruct (Qeq_bool (ubt u) 0), (Qeq_bool (upt u) 0), is_root; reflexivity.
Qed.

Lemma zero_eq q : zero q = true -> q == 0.
Proof. unfold zero. apply Qeq_bool_iff. Qed.

Lemma brun_first_nonthrough f c r acc acc' :
  through c = false -> brun_of f (c :: r) acc = brun_of f (c :: r) acc'.
Proof. intros H. cbn [brun_of]. rewrite H. reflexivity. Qed.

Lemma kids_loop_nil ar rec cwc first py adj var :
  kids_loop ar rec cwc [] first py adj var = (py, adj, var, []).
Proof. reflexivity. Qed.

Lemma box_ok_all : forall n, box_ok n.
Proof.
  induction n as [s cs IH] using node_ind'.
  intros is_root cbw cbh x y adj.
  cbn [layout_block].
  set (uo := prelude exactQ s cbw cbh x y).
  set (u := fst uo). set (over := snd uo). clearbody u over. clear uo.
  set (rec := fun (c : node) (py : Q) (a : list Q) =>
                layout_block exactQ c false (V (uw u)) (uh u) (content_box_x exactQ u) py a).
  assert (Hrec : Forall (child_ok rec) cs).
  { eapply Forall_impl; [|exact IH]. intros c Hc yy aa HD.
    destruct (Hc false (V (uw u)) (uh u) (content_box_x exactQ u) yy aa HD) as [A B].
    destruct (A eq_refl) as (A1 & A2 & A3). repeat split; assumption. }
  clear IH.
  set (cwc := cwc_of u is_root).
  set (lp := kids_loop exactQ rec cwc cs true (start_y exactQ u is_root y adj)
               (start_adj u is_root adj) (adj1_of u adj)).
  set (leaf := match cs with [] => true | _ :: _ => false end).
  unfold finish. cbn [r_box r_var r_ct r_adj]. fold cwc.
  set (var := snd (fst lp)).
  set (ks := snd lp).
  set (py' := fst (fst (fst lp))).
  set (adj' := snd (fst (fst lp))).
  set (py2 := if cwc then add exactQ y (sub exactQ (collapse_margin exactQ var) (V (umt u)))
              else py1_of exactQ u is_root y adj).
  set (ct := leaf && ((match uh u with None => true | Some hv => Qeq_bool hv 0 end)
     && Qeq_bool (uminh u) 0 && Qeq_bool (ubt u) 0 && Qeq_bool (upt u) 0
     && Qeq_bool (ubb u) 0 && Qeq_bool (upb u) 0)).
  set (pa0 := if leaf then (if ct then (py', adj') else (add exactQ py' (collapse_margin exactQ adj'), []))
              else (if is_auto (uh u) then (py', adj') else (py', []))).
  set (pa := if nz (ubb u) || nz (upb u) || is_root
             then (add exactQ (fst pa0) (collapse_margin exactQ (snd pa0)), []) else pa0).
  set (h0 := match uh u with
             | None => if ct then 0 else sub exactQ (fst pa) (content_box_y_at exactQ u py2)
             | Some hv => hv end).
  set (hf := fmax (fmin_ext h0 (umaxh u)) (uminh u)).
  set (b := LBox (set_y_h u py2 (Some hf)) over (uh u) ks).
  intros HD.
  (* the domain hypothesis, decomposed *)
  assert (HDk : forallb (no_through_first false) ks = true).
  { unfold b in HD. cbn [no_through_first] in HD. apply andb_true_iff in HD as [_ HD]. exact HD. }
  assert (HDf : true && cwc = true -> match ks with c :: _ => through c = false | [] => True end).
  { cbn [andb]. intros Hc. unfold b in HD. cbn [no_through_first] in HD.
    apply andb_true_iff in HD as [HD _]. destruct ks as [|c r]; [exact I|].
    unfold open_top in HD. cbn [box_of set_y_h ubt upt] in HD.
    rewrite <- cwc_open_top in HD. fold cwc in HD. rewrite Hc in HD.
    destruct (through c); [discriminate | reflexivity]. }
  (* the loop *)
  assert (Hsy : start_y exactQ u is_root y adj == start_y exactQ u is_root y adj) by reflexivity.
  pose proof (loop_ok rec cwc cs Hrec true (start_y exactQ u is_root y adj)
                (start_adj u is_root adj) (adj1_of u adj)) as L.
  cbv zeta in L. fold lp in L. fold ks in L. fold var in L. fold py' in L. fold adj' in L.
  clearbody ks var py' adj'. clear lp.
  destruct (L (start_y exactQ u is_root y adj) 0 HDk HDf Hsy) as (_ & _ & _ & _ & Fadj & Fvar & Fleaf).
  cbn [andb] in Fvar.
  assert (Hleaf : leaf = match ks with [] => true | _ :: _ => false end).
  { unfold leaf. destruct cs as [|c0 cs0]; destruct ks as [|k0 ks0]; try reflexivity.
    - destruct Fleaf as [Fl _]. specialize (Fl eq_refl). discriminate.
    - destruct Fleaf as [_ Fl]. specialize (Fl eq_refl). discriminate. }
  assert (Hcwc : cwc = negb is_root && zero (ubt u) && zero (upt u)) by apply cwc_open_top.
  assert (Hsa : start_adj u is_root adj = if cwc then adj ++ [V (umt u)] else []) by reflexivity.
  (* G1: the margins adjoining the top margin *)
  assert (G1 : var = adj ++ (if is_root then [b_mt b] else top_run b)).
  { rewrite Fvar. unfold b. rewrite top_run_eq. cbn [b_mt box_of set_y_h umt ubt upt].
    destruct is_root.
    - rewrite Hcwc. cbn [negb andb]. reflexivity.
    - cbn [negb andb] in Hcwc. rewrite <- Hcwc.
      destruct cwc eqn:Ec; [|reflexivity].
      destruct ks as [|c r]; [reflexivity|].
      cbn [krun_of]. rewrite (HDf eq_refl). rewrite Hsa. unfold adj1_of.
      rewrite app_nil_r, <- app_assoc. reflexivity. }
  assert (G0 : cwc = false -> var = adj1_of u adj).
  { intros Ec. rewrite Fvar, Ec. reflexivity. }
  (* position of the top border edge *)
  assert (Gpos : border_top b == y + collapse_margin exactQ var).
  { unfold border_top, b, b_mt. cbn [box_of set_y_h uy umt]. unfold py2.
    destruct cwc eqn:Ec.
    - cbn [add sub exactQ]. ring.
    - unfold py1_of. fold cwc. rewrite Ec. rewrite (G0 eq_refl). cbn [add sub exactQ]. ring. }
  assert (Gks : leaf = true -> ks = []).
  { rewrite Hleaf. destruct ks; [reflexivity | discriminate]. }
  (* r_ct = through, for a box that is not the root *)
  assert (Gct : is_root = false -> ct = through b).
  { intros ->. unfold ct, b. cbn [through set_y_h uminh ubt upt ubb upb]. cbn [negb andb] in Hcwc. rewrite Hleaf.
    destruct ks as [|c r].
    - unfold zero. cbn [andb]. destruct (uh u) as [hv|]; [destruct (Qeq_bool hv 0)|];
        destruct (Qeq_bool (uminh u) 0), (Qeq_bool (ubt u) 0),
        (Qeq_bool (upt u) 0), (Qeq_bool (ubb u) 0), (Qeq_bool (upb u) 0); reflexivity.
    - cbn [andb forallb]. unfold zero in *.
      destruct (Qeq_bool (ubt u) 0) eqn:E1; destruct (Qeq_bool (upt u) 0) eqn:E2; cbn [andb] in Hcwc |- *;
        rewrite ?andb_false_r; try reflexivity.
      rewrite Hcwc in HDf. rewrite (HDf eq_refl). cbn [andb]. rewrite ?andb_false_r. reflexivity. }
  split.
  - intros Hroot. split; [|split].
    + rewrite G1, Hroot. reflexivity.
    + exact (Gct Hroot).
    + rewrite <- (Gct Hroot). subst is_root. cbn [negb andb] in Hcwc.
      destruct ct eqn:Ect.
      * (* collapsed through: a leaf *)
        unfold ct in Ect. apply andb_true_iff in Ect as [El Ec].
        rewrite !andb_true_iff in Ec. destruct Ec as [[[[[_ _] Ebt] Ept] Ebb] Epb].
        pose proof (Gks El) as Hks. subst ks.
        unfold pa, pa0. rewrite El. unfold nz. rewrite Ebb, Epb. cbn [negb orb snd].
        rewrite Fadj. cbn [brun_of]. rewrite Hsa, Hcwc. unfold zero. rewrite Ebt, Ept. reflexivity.
      * unfold b, ibr, pa, pa0. cbn [set_y_h ubb upb]. rewrite Hleaf.
        destruct ks as [|c r].
        -- cbn [brun_of]. rewrite orb_false_r, ?Ect.
           destruct (nz (ubb u) || nz (upb u)); cbn [snd];
             destruct (zero (ubb u) && zero (upb u) && is_auto (uh u)); reflexivity.
        -- rewrite orb_false_r. unfold nz, zero.
           destruct (Qeq_bool (ubb u) 0), (Qeq_bool (upb u) 0); cbn [negb orb andb snd]; try reflexivity.
           destruct (is_auto (uh u)); cbn [snd]; [|reflexivity].
           rewrite Fadj, Hsa. destruct cwc eqn:Ec; [|reflexivity].
           apply brun_first_nonthrough. exact (HDf eq_refl).
  - intros e ptop He Hpt.
    assert (Hptop : (if through b then ptop else None) = None).
    { destruct (through b); [apply Hpt; reflexivity | reflexivity]. }
    unfold b at 1. cbn [vertical_eqs]. fold b. rewrite Hptop.
    assert (Hot : open_top is_root b = cwc).
    { unfold open_top, b. cbn [box_of set_y_h ubt upt]. symmetry. exact Hcwc. }
    assert (Hob : nz (ubb u) || nz (upb u) || is_root = negb (open_bot is_root b) \/ uh u <> None).
    { destruct (uh u) eqn:Eh; [right; discriminate | left].
      unfold open_bot, b, hcomp. cbn [box_of set_y_h ubb upb is_auto]. rewrite ?Eh. cbn [is_auto]. unfold nz, zero.
      destruct (Qeq_bool (ubb u) 0), (Qeq_bool (upb u) 0), is_root; reflexivity. }
    assert (Hcty : content_top b == content_box_y_at exactQ u py2).
    { unfold content_top, border_top, b_mt, content_box_y_at, b. cbn [box_of set_y_h uy umt ubt upt add exactQ]. ring. }
    rewrite Hot.
    set (e0 := if cwc then e else content_top b).
    assert (He0 : e0 == start_y exactQ u is_root y adj).
    { unfold e0, start_y. fold cwc. destruct cwc eqn:Ec; [exact He|].
      rewrite Hcty. unfold py2. reflexivity. }
    destruct (L e0 (border_top b) HDk HDf He0) as (I1 & I2 & I3 & I4 & _).
    assert (Hst : go_of (fun c : lbox => vertical_eqs c false) (border_top b) ks
                    (if cwc then (e, adj ++ [b_mt b], true) else (content_top b, [], false))
                  = go_of (fun c : lbox => vertical_eqs c false) (border_top b) ks
                      (e0, start_adj u is_root adj, true && cwc)).
    { unfold e0. rewrite Hsa. destruct cwc; reflexivity. }
    rewrite Hst. clear Hst.
    set (res := go_of (fun c : lbox => vertical_eqs c false) (border_top b) ks
                  (e0, start_adj u is_root adj, true && cwc)) in *.
    constructor; [|constructor; [|exact I1]].
    + (* position *)
      cbn [veq_holds]. rewrite Gpos, collapse_margin_spec, G1, He. reflexivity.
    + (* height *)
      cbn [veq_holds set_y_h uh V].
      change hf with (fmax (fmin_ext h0 (umaxh (box_of b))) (uminh (box_of b))).
      rewrite clamp_model. apply clamp_h_compat.
      unfold h0. destruct (uh u) as [hv|] eqn:Eh; [reflexivity|].
      destruct Hob as [Hob | Hob]; [|congruence].
      destruct ks as [|c r].
      * (* leaf *)
        cbn in I2, I3.
        destruct ct eqn:Ect; [reflexivity|].
        unfold pa, pa0. rewrite Hleaf, ?Ect.
        assert (Z : add exactQ py' (collapse_margin exactQ adj') - content_box_y_at exactQ u py2 == 0).
        { rewrite <- I2, <- I3, Hsa. unfold e0, py2.
          destruct cwc eqn:Ec.
          - rewrite Fvar. unfold adj1_of, content_box_y_at. cbn [add sub exactQ].
            symmetry in Hcwc. rewrite !andb_true_iff in Hcwc. destruct Hcwc as [[_ Z1] Z2].
            apply zero_eq in Z1, Z2. rewrite Z1, Z2, He. ring.
          - rewrite Hcty. unfold py2, content_box_y_at. cbn [add sub exactQ collapse_margin collapse_go]. ring. }
        destruct (nz (ubb u) || nz (upb u) || is_root); cbn [fst snd sub add exactQ collapse_margin collapse_go] in *.
        -- lra.
        -- exact Z.
      * (* children *)
        assert (Hin : snd (snd res) = false) by (apply I4; discriminate).
        rewrite Hin.
        assert (Ect : ct = false).
        { unfold ct. rewrite Hleaf. reflexivity. }
        rewrite Ect. unfold pa, pa0. rewrite Hleaf. cbn [is_auto].
        rewrite Hob. destruct (open_bot is_root b); cbn [negb fst snd sub add exactQ].
        -- rewrite I2, Hcty. reflexivity.
        -- rewrite I2, I3, Hcty, collapse_margin_spec. reflexivity.
Qed.

(* ------------------------------------------------------------------ the document *)

Theorem vertical_ok_on_domain : forall cbx cby cbw cbh root,
  no_through_first true (layout_doc exactQ cbx cby cbw cbh root) = true ->
  vertical_ok cby (layout_doc exactQ cbx cby cbw cbh root).
Proof.
  intros cbx cby cbw cbh root HD. unfold vertical_ok, layout_doc in *.
  destruct (box_ok_all root true cbw (Some cbh) cbx cby [] HD) as [_ H].
  apply H; [reflexivity | reflexivity].
Qed.

(* ------------------------------------------------------------------ consequences of the equations
   (specification-level: they hold for any laid out tree that satisfies vertical_eqs) *)

Notation VE := (fun c : lbox => vertical_eqs c false).

Lemma go_of_child ptop : forall ks st,
  Forall veq_holds (fst (go_of VE ptop ks st)) ->
  forall c, In c ks -> exists e R p, Forall veq_holds (vertical_eqs c false e R p).
Proof.
  induction ks as [|k r IH]; intros st H c Hin; [destruct Hin|].
  rewrite go_of_cons in H. cbn [fst] in H. apply Forall_app in H as [H1 H2].
  destruct Hin as [<-|Hin].
  - eauto.
  - eapply IH; eauto.
Qed.

Lemma veqs_child b root e R ptop :
  Forall veq_holds (vertical_eqs b root e R ptop) ->
  forall c, In c (kids b) -> exists e' R' p', Forall veq_holds (vertical_eqs c false e' R' p').
Proof.
  destruct b as [u o hc cs]. cbn [vertical_eqs kids]. intros H c Hin.
  inversion H as [|? ? _ H']; subst. inversion H' as [|? ? _ H'']; subst.
  eapply go_of_child; eauto.
Qed.

(* descendants *)
Inductive subbox : lbox -> lbox -> Prop :=
| sub_child : forall b c, In c (kids b) -> subbox b c
| sub_trans : forall b c d, subbox b c -> subbox c d -> subbox b d.

Lemma veqs_subbox : forall b d, subbox b d ->
  forall root e R ptop, Forall veq_holds (vertical_eqs b root e R ptop) ->
  exists e' R' p', Forall veq_holds (vertical_eqs d false e' R' p').
Proof.
  induction 1 as [b c Hin | b c d _ IH1 _ IH2]; intros root e R ptop H.
  - eapply veqs_child; eauto.
  - destruct (IH1 _ _ _ _ H) as (e1 & R1 & p1 & H1). eapply IH2; eauto.
Qed.

(* state of the walk along the children after a run of collapsed-through siblings *)
Lemma go_of_through_run ptop : forall mid e R (cin : bool) rest,
  forallb through mid = true ->
  go_of VE ptop (mid ++ rest) (e, R, cin) =
  (fst (go_of VE ptop mid (e, R, cin)) ++ fst (go_of VE ptop rest (e, R ++ flat_map all_margins mid, cin)),
   snd (go_of VE ptop rest (e, R ++ flat_map all_margins mid, cin))).
Proof.
  induction mid as [|m r IH]; intros e R cin rest Hm.
  - cbn [app flat_map go_of fst]. rewrite app_nil_r.
    destruct (go_of VE ptop rest (e, R, cin)). reflexivity.
  - cbn [forallb] in Hm. apply andb_true_iff in Hm as [Hm Hr].
    cbn [app]. rewrite !go_of_cons. cbn [fst snd]. rewrite Hm.
    rewrite (IH e (R ++ all_margins m) cin rest Hr). cbn [fst snd flat_map].
    rewrite <- !app_assoc. reflexivity.
Qed.

(* 9.4.1 / 8.3.1: two in-flow siblings separated only by boxes whose margins collapse
   through them: the distance between the bottom border edge of the first and the top
   border edge of the second is the collapsed value of all the margins in between *)
Lemma go_of_pairs ptop : forall pre st c1 mid c2 post,
  Forall veq_holds (fst (go_of VE ptop (pre ++ c1 :: mid ++ c2 :: post) st)) ->
  through c1 = false -> forallb through mid = true -> through c2 = false ->
  border_top c2 == border_bot c1 +
                   collapsed (bottom_run c1 ++ flat_map all_margins mid ++ top_run c2).
Proof.
  induction pre as [|p r IH]; intros st c1 mid c2 post H T1 Tm T2.
  - cbn [app] in H. rewrite go_of_cons in H. cbn [fst] in H. rewrite T1 in H.
    apply Forall_app in H as [_ H].
    rewrite go_of_through_run in H by exact Tm. cbn [fst] in H.
    apply Forall_app in H as [_ H].
    rewrite go_of_cons in H. cbn [fst snd] in H. apply Forall_app in H as [H _].
    destruct c2 as [u o hc cs]. cbn [vertical_eqs] in H.
    change (through (LBox u o hc cs)) with false in H || rewrite T2 in H.
    inversion H as [|? ? Hpos _]; subst. cbn [veq_holds] in Hpos.
    rewrite Hpos. rewrite <- app_assoc. reflexivity.
  - cbn [app] in H. rewrite go_of_cons in H. cbn [fst] in H.
    apply Forall_app in H as [_ H]. eapply IH; eauto.
Qed.

Lemma collapsed_nonneg l : (forall m, In m l -> 0 <= m) -> 0 <= collapsed l.
Proof.
  intros H. unfold collapsed.
  assert (N : minneg l == 0).
  { induction l as [|m r IH]; cbn [minneg fold_right]; [reflexivity|]. fold (minneg r).
    rewrite IH by (intros; apply H; right; assumption).
    apply Q.min_r. apply H. left. reflexivity. }
  rewrite N. pose proof (maxpos_nonneg l). lra.
Qed.

(* final state of the walk when the last child is not collapsed through *)
Lemma go_of_last ptop : forall pre st last,
  through last = false ->
  snd (go_of VE ptop (pre ++ [last]) st) = (border_bot last, bottom_run last, false).
Proof.
  induction pre as [|p r IH]; intros st last T.
  - cbn [app]. rewrite go_of_cons. cbn [snd go_of]. rewrite T. reflexivity.
  - cbn [app]. rewrite go_of_cons. cbn [snd]. apply IH. exact T.
Qed.

(* 10.6.3: an auto-height box ends at the bottom border edge of its last in-flow child
   (when their bottom margins are adjoining) or at the bottom edge of its collapsed bottom
   margin (otherwise); then 10.7 *)
Lemma auto_height_from_eqs b root e R ptop pre last :
  Forall veq_holds (vertical_eqs b root e R ptop) ->
  hcomp b = None -> kids b = pre ++ [last] -> through last = false ->
  V (uh (box_of b)) ==
  clamp_h b (if open_bot root b then border_bot last - content_top b
             else border_bot last + collapsed (bottom_run last) - content_top b).
Proof.
  destruct b as [u o hc cs]. cbn [hcomp kids box_of]. intros H -> -> T.
  cbn [vertical_eqs] in H.
  inversion H as [|? ? _ H']; subst. inversion H' as [|? ? Hh _]; subst. clear H H'.
  cbn [veq_holds] in Hh. rewrite Hh. apply clamp_h_compat.
  rewrite go_of_last by exact T. cbn [fst snd].
  destruct pre; cbn [app]; reflexivity.
Qed.

Lemma veqs_pairs p root e R ptop pre c1 mid c2 post :
  Forall veq_holds (vertical_eqs p root e R ptop) ->
  kids p = pre ++ c1 :: mid ++ c2 :: post ->
  through c1 = false -> forallb through mid = true -> through c2 = false ->
  border_top c2 == border_bot c1 +
                   collapsed (bottom_run c1 ++ flat_map all_margins mid ++ top_run c2).
Proof.
  destruct p as [u o hc cs]. cbn [vertical_eqs kids]. intros H ->.
  inversion H as [|? ? _ H']; subst. inversion H' as [|? ? _ H'']; subst.
  eapply go_of_pairs; eauto.
Qed.

(* every box of a document that satisfies the equations satisfies its own *)
Lemma doc_box_eqs' cby t p :
  vertical_ok cby t -> (p = t \/ subbox t p) ->
  exists root e R ptop, Forall veq_holds (vertical_eqs p root e R ptop) /\ (root = true -> p = t).
Proof.
  intros H [->|Hs].
  - exists true, cby, [], None. split; [exact H | reflexivity].
  - destruct (veqs_subbox t p Hs true cby [] None H) as (e & R & q & H').
    exists false, e, R, q. split; [exact H' | discriminate].
Qed.

Theorem siblings_stack : forall cby t, vertical_ok cby t ->
  forall p, p = t \/ subbox t p ->
  forall pre c1 mid c2 post,
    kids p = pre ++ c1 :: mid ++ c2 :: post ->
    through c1 = false -> forallb through mid = true -> through c2 = false ->
    border_top c2 == border_bot c1 +
                     collapsed (bottom_run c1 ++ flat_map all_margins mid ++ top_run c2) /\
    ((forall m, In m (bottom_run c1 ++ flat_map all_margins mid ++ top_run c2) -> 0 <= m) ->
     border_bot c1 <= border_top c2).
Proof.
  intros cby t H p Hp pre c1 mid c2 post Hk T1 Tm T2.
  destruct (doc_box_eqs' cby t p H Hp) as (root & e & R & q & Hq & _).
  pose proof (veqs_pairs p root e R q pre c1 mid c2 post Hq Hk T1 Tm T2) as E.
  split; [exact E|]. intros Hn. pose proof (collapsed_nonneg _ Hn). lra.
Qed.

Theorem auto_height_doc : forall cby t, vertical_ok cby t ->
  forall p, p = t \/ subbox t p ->
  forall pre last, hcomp p = None -> kids p = pre ++ [last] -> through last = false ->
  exists root, (root = true -> p = t) /\
  V (uh (box_of p)) ==
  clamp_h p (if open_bot root p then border_bot last - content_top p
             else border_bot last + collapsed (bottom_run last) - content_top p).
Proof.
  intros cby t H p Hp pre last Hh Hk T.
  destruct (doc_box_eqs' cby t p H Hp) as (root & e & R & q & Hq & Hr).
  exists root. split; [exact Hr|].
  eapply auto_height_from_eqs; eauto.
Qed.

(* ------------------------------------------------------------------ outside the domain *)

Lemma Forall_veq_b l : Forall veq_holds l -> forallb veq_holdsb l = true.
Proof.
  induction 1 as [|q r Hq _ IH]; [reflexivity|]. cbn [forallb]. rewrite IH, andb_true_r.
  destruct q. cbn in *. apply Qeq_bool_iff. exact Hq.
Qed.

Definition st0 : style :=
  mkStyle (LPx 0) (LPx 0) (LPx 0) (LPx 0) (PPx 0) (PPx 0) (PPx 0) (PPx 0) 0 0 0 0
          LAuto LAuto LAuto LAuto MNone MNone ContentBox.
Definition st_m (mt mb : Q) (h : len) : style :=
  mkStyle (LPx mt) (LPx 0) (LPx mb) (LPx 0) (PPx 0) (PPx 0) (PPx 0) (PPx 0) 0 0 0 0
          LAuto h LAuto LAuto MNone MNone ContentBox.

(* <html><body><div style="margin-bottom:20px"></div><div style="margin-top:30px;height:10px"></div>:
   the margins 0, 0, 20, 30 are all adjoining (they collapse through the empty first
   child), so body's top border edge is at 30; the implementation's list for body only
   holds the first two and puts it at 0 (and makes body 40 high instead of 10). *)
Definition witness_through_first : node :=
  Node st0 [Node st0 [Node (st_m 0 20 LAuto) []; Node (st_m 30 0 (LPx 10)) []]].

Lemma vertical_refuted :
  ~ vertical_ok 0 (layout_doc exactQ 0 0 1000 100000 witness_through_first).
Proof.
  intros H. apply Forall_veq_b in H. vm_compute in H. discriminate H.
Qed.

(* ... while the same boxes in the other order are in the domain *)
Definition example_in_domain : node :=
  Node st0 [Node (st_m 10 5 LAuto)
              [Node (st_m 30 (-4) (LPx 10)) []; Node (st_m 7 20 LAuto) [];
               Node (st_m (-2) 8 (LPx 3)) [Node (st_m 50 50 (LPx 1)) []]]].
Lemma example_in_domain_ok :
  no_through_first true (layout_doc exactQ 0 0 1000 100000 example_in_domain) = true.
Proof. vm_compute. reflexivity. Qed.

(* ------------------------------------------------------------------ the width equation, for every box of a document *)

(* every box satisfies the seven-term equation against its containing block's width
   (the used right margin being the one of C10_width_rules) *)
Fixpoint width_eq_tree (cbw : Q) (b : lbox) : Prop :=
  match b with
  | LBox u over _ cs =>
      V (uml u) + ubl u + upl u + V (uw u) + upr u + ubr u + mr_used cbw u over == cbw /\
      (fix all (l : list lbox) : Prop :=
         match l with [] => True | c :: r => width_eq_tree (V (uw u)) c /\ all r end) cs
  end.

Lemma hmm_shape ar u cbw : exists a b c o,
  handle_min_max_width ar u cbw = (set_margins_w u a b c, o).
Proof.
  unfold handle_min_max_width.
  destruct (blw_shape ar u cbw) as (a1 & b1 & c1 & o1 & E1). rewrite E1.
  match goal with |- context [if gt_ext ?x ?y then ?A else ?B] => set (r2 := if gt_ext x y then A else B) end.
  assert (H2 : exists a b c o, r2 = (set_margins_w u a b c, o)).
  { unfold r2. destruct (gt_ext _ _); [|exists a1, b1, c1, o1; reflexivity].
    match goal with |- context [block_level_width_ ar ?v cbw] =>
      destruct (blw_shape ar v cbw) as (a & b & c & o & E); rewrite E end.
    exists a, b, c, o. reflexivity. }
  destruct H2 as (a2 & b2 & c2 & o2 & E2). rewrite E2.
  destruct (Qltb _ _); [|exists a2, b2, c2, o2; reflexivity].
  match goal with |- context [block_level_width_ ar ?v cbw] =>
    destruct (blw_shape ar v cbw) as (a & b & c & o & E); rewrite E end.
  exists a, b, c, o. reflexivity.
Qed.

Lemma hmm_equation u cbw :
  let r := handle_min_max_width exactQ u cbw in
  V (uml (fst r)) + ubl (fst r) + upl (fst r) + V (uw (fst r)) + upr (fst r) + ubr (fst r)
    + mr_used cbw (fst r) (snd r) == cbw.
Proof.
  cbv zeta. pose proof (hmm_spec u cbw) as H.
  destruct (hmm_shape exactQ u cbw) as (a & b & c & o & E). rewrite E in *.
  cbn [fst snd ubl upl upr ubr set_margins_w].
  assert (Eq : forall w t, rules_of cbw u w t ->
                 wu_ml t + ubl u + upl u + wu_w t + upr u + ubr u + wu_mr t == cbw).
  { intros w t [Ht _]. exact Ht. }
  destruct H as (t1 & t2 & H1 & H2 & H3).
  assert (E2 : wu_ml t2 + ubl u + upl u + wu_w t2 + upr u + ubr u + wu_mr t2 == cbw).
  { destruct (umaxw u) as [m|]; [destruct (Qltb m (wu_w t1))|]; subst; eauto. }
  assert (E3 : let t := used_of cbw (set_margins_w u a b c, o) in
               wu_ml t + ubl u + upl u + wu_w t + upr u + ubr u + wu_mr t == cbw).
  { cbv zeta. destruct (Qltb (wu_w t2) (uminw u)); [eauto | rewrite H3; exact E2]. }
  exact E3.
Qed.

Lemma kids_loop_Forall ar rec cwc (P : lbox -> Prop) :
  forall cs, (forall c, In c cs -> forall py a, P (r_box (rec c py a))) ->
  forall first py adj var,
    (fix all (l : list lbox) : Prop := match l with [] => True | c :: r => P c /\ all r end)
      (snd (kids_loop ar rec cwc cs first py adj var)).
Proof.
  induction cs as [|c r IH]; intros H first py adj var; [exact I|].
  rewrite kids_loop_cons. cbv zeta. cbn [snd]. split.
  - apply H. left. reflexivity.
  - apply IH. intros c' Hc'. apply H. right. exact Hc'.
Qed.

Theorem width_equation_doc : forall n is_root cbw cbh x y adj,
  width_eq_tree cbw (r_box (layout_block exactQ n is_root cbw cbh x y adj)).
Proof.
  induction n as [s cs IH] using node_ind'.
  intros is_root cbw cbh x y adj.
  cbn [layout_block]. unfold finish. cbn [r_box width_eq_tree].
  unfold prelude.
  set (u0 := set_vmargins _ _ _).
  pose proof (hmm_equation u0 cbw) as HE. cbv zeta in HE.
  set (uo := handle_min_max_width exactQ u0 cbw) in *.
  split.
  - cbn [uml ubl upl uw upr ubr umr set_y_h]. unfold mr_used in *.
    cbn [uml ubl upl uw upr ubr umr set_y_h]. exact HE.
  - cbn [uw set_y_h].
    apply kids_loop_Forall. intros c Hc py a.
    rewrite Forall_forall in IH. exact (IH c Hc false _ _ _ py a).
Qed.
