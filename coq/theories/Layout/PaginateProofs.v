(* Layout/PaginateProofs.v -- the model of Layout/Paginate.v meets the
   specification of Layout/PaginateSpec.v, for all inputs. *)
From Verif Require Import Layout.Paginate Layout.PaginateSpec.
From Coq Require Import List Arith Lia Bool ZArith NArith QArith.
Import ListNotations.
Local Open Scope nat_scope.

(* ================================================================== generic part *)

Section GreedyProofs.
  Variable St : Type.
  Variable n : nat.
  Variable forced : nat -> bool.
  Variable allowed : nat -> nat -> bool.
  Variable fits : St -> nat -> nat -> bool.
  Variable next_st : St -> nat -> St.

  Notation cap := (cap n forced).
  Notation legal := (legal n forced allowed).
  Notation cands := (cands n forced).
  Notation page_end := (page_end St n forced allowed fits).
  Notation paginate_from := (paginate_from St n forced allowed fits next_st).
  Notation is_cap := (is_cap n forced).
  Notation legal_break := (legal_break n forced allowed).
  Notation chain := (chain St n next_st).
  Notation page_ok := (page_ok St n forced allowed fits).

  (* ---------------------------------------------------------------- cap *)

  Lemma cap_from_spec fuel b :
    n <= fuel + b -> b <= n ->
    b <= cap_from n forced fuel b /\ cap_from n forced fuel b <= n /\
    (cap_from n forced fuel b = n \/ forced (cap_from n forced fuel b) = true) /\
    (forall x, b <= x -> x < cap_from n forced fuel b -> forced x = false).
  Proof.
    revert b. induction fuel as [|f IH]; intros b Hf Hb; cbn [cap_from].
    - assert (b = n) by lia. subst. repeat split; auto; intros; lia.
    - destruct (n <=? b) eqn:E1.
      + apply Nat.leb_le in E1. assert (b = n) by lia. subst.
        repeat split; auto; intros; lia.
      + apply Nat.leb_gt in E1. destruct (forced b) eqn:E2.
        * repeat split; auto; try lia.
        * destruct (IH (S b)) as (H1 & H2 & H3 & H4); try lia.
          repeat split; auto; try lia.
          intros x Hx1 Hx2. destruct (Nat.eq_dec x b) as [->|]; auto. apply H4; lia.
  Qed.

  Lemma cap_is_cap s : s < n -> is_cap s (cap s).
  Proof.
    intros Hs. unfold Paginate.cap.
    destruct (cap_from_spec n (S s)) as (H1 & H2 & H3 & H4); try lia.
    repeat split; auto.
  Qed.

  Lemma is_cap_unique s c c' : is_cap s c -> is_cap s c' -> c = c'.
  Proof.
    intros (A1 & A2 & A3 & A4) (B1 & B2 & B3 & B4).
    destruct (Nat.lt_trichotomy c c') as [H|[H|H]]; auto.
    - destruct A3 as [->|A3]; [lia|]. rewrite B4 in A3; [discriminate|lia|lia].
    - destruct B3 as [->|B3]; [lia|]. rewrite A4 in B3; [discriminate|lia|lia].
  Qed.

  Lemma legal_iff s b : s < n -> s < b -> b <= cap s ->
    legal s b = true <-> legal_break s b.
  Proof.
    intros Hs Hb Hc. destruct (cap_is_cap s Hs) as (C1 & C2 & C3 & C4).
    unfold Paginate.legal, PaginateSpec.legal_break.
    rewrite orb_true_iff, Nat.eqb_eq. split.
    - intros [H|H]; auto. rewrite H. destruct C3; auto.
    - intros [H|[H|H]]; auto.
      + right. lia.
      + right. destruct (Nat.eq_dec b (cap s)); auto.
        rewrite C4 in H; [discriminate|lia|lia].
  Qed.

  (* ---------------------------------------------------------------- last_such *)

  Lemma last_such_acc (f : nat -> bool) (l : list nat) (acc : option nat) :
    fold_left (fun (a : option nat) (b : nat) => if f b then Some b else a) l acc =
    match last_such f l with Some b => Some b | None => acc end.
  Proof.
    unfold last_such. revert acc. induction l as [|x l IH]; intros acc; cbn [fold_left]; auto.
    rewrite IH. rewrite (IH (if f x then Some x else None)).
    destruct (fold_left _ l None); auto. destruct (f x); auto.
  Qed.

  Lemma last_such_cons f x l :
    last_such f (x :: l) =
    match last_such f l with Some b => Some b | None => if f x then Some x else None end.
  Proof. unfold last_such at 1. cbn [fold_left]. apply last_such_acc. Qed.

  (* on a strictly increasing list, last_such is the greatest element satisfying f *)
  Lemma last_such_seq_some f a len b :
    last_such f (seq a len) = Some b ->
    a <= b < a + len /\ f b = true /\ forall x, b < x -> x < a + len -> f x = false.
  Proof.
    revert a. induction len as [|len IH]; intros a; cbn [seq].
    - discriminate.
    - rewrite last_such_cons. destruct (last_such f (seq (S a) len)) eqn:E.
      + intros H; injection H as ->. destruct (IH _ E) as (H1 & H2 & H3).
        repeat split; auto; try lia. intros x Hx1 Hx2. apply H3; lia.
      + destruct (f a) eqn:Fa; [|discriminate]. intros H; injection H as <-.
        repeat split; auto; try lia.
        intros x Hx1 Hx2.
        assert (G : forall len a, last_such f (seq a len) = None ->
                                  forall x, a <= x < a + len -> f x = false).
        { clear. induction len as [|len IH]; intros a H x Hx; [lia|].
          cbn [seq] in H. rewrite last_such_cons in H.
          destruct (last_such f (seq (S a) len)) eqn:E; [discriminate|].
          destruct (f a) eqn:Fa; [discriminate|].
          destruct (Nat.eq_dec x a) as [->|]; auto. apply (IH (S a)); auto. lia. }
        apply (G _ _ E). lia.
  Qed.

  Lemma last_such_seq_none f a len :
    last_such f (seq a len) = None -> forall x, a <= x < a + len -> f x = false.
  Proof.
    revert a. induction len as [|len IH]; intros a H x Hx; [lia|].
    cbn [seq] in H. rewrite last_such_cons in H.
    destruct (last_such f (seq (S a) len)) eqn:E; [discriminate|].
    destruct (f a) eqn:Fa; [discriminate|].
    destruct (Nat.eq_dec x a) as [->|]; auto. apply (IH (S a)); auto. lia.
  Qed.

  (* ---------------------------------------------------------------- page_end *)

  Inductive page_end_case (st : St) (s e : nat) : Prop :=
  | PE_legal : fits st s e = true -> legal s e = true ->
               (forall x, e < x -> x <= cap s -> fits st s x && legal s x = false) ->
               page_end_case st s e
  | PE_fit : fits st s e = true ->
             (forall x, s < x -> x <= cap s -> fits st s x && legal s x = false) ->
             (forall x, e < x -> x <= cap s -> fits st s x = false) ->
             page_end_case st s e
  | PE_none : e = S s ->
              (forall x, s < x -> x <= cap s -> fits st s x = false) ->
              page_end_case st s e.

  Lemma page_end_cases st s : s < n ->
    s < page_end st s <= cap s /\ page_end_case st s (page_end st s).
  Proof.
    intros Hs. destruct (cap_is_cap s Hs) as (C1 & C2 & C3 & C4).
    unfold Paginate.page_end, Paginate.cands.
    destruct (last_such (fun b => fits st s b && legal s b) (seq (S s) (cap s - s))) as [b|] eqn:E1.
    - destruct (last_such_seq_some _ _ _ _ E1) as (H1 & H2 & H3).
      apply andb_true_iff in H2 as [H2a H2b].
      split; [lia|]. apply PE_legal; auto. intros x Hx1 Hx2. apply H3; lia.
    - pose proof (last_such_seq_none _ _ _ E1) as N1.
      destruct (last_such (fun b => fits st s b) (seq (S s) (cap s - s))) as [b|] eqn:E2.
      + destruct (last_such_seq_some _ _ _ _ E2) as (H1 & H2 & H3).
        split; [lia|]. apply PE_fit; auto.
        * intros x Hx1 Hx2. apply N1; lia.
        * intros x Hx1 Hx2. apply H3; lia.
      + pose proof (last_such_seq_none _ _ _ E2) as N2.
        split; [lia|]. apply PE_none; auto. intros x Hx1 Hx2. apply N2; lia.
  Qed.

  Lemma page_end_ok st s : s < n -> page_ok (st, s, page_end st s).
  Proof.
    intros Hs. destruct (page_end_cases st s Hs) as ((B1 & B2) & HC).
    pose proof (cap_is_cap s Hs) as IC. destruct IC as (C1 & C2 & C3 & C4).
    set (e := page_end st s) in *.
    unfold PaginateSpec.page_ok. repeat split.
    - (* forced_inside_free *)
      cbn. intros b Hb1 Hb2. apply C4; lia.
    - (* no_avoidable_overflow *)
      cbn. intros Hnf b Hb1 Hb2. destruct HC as [Hf _ _|Hf _ _|He _].
      + congruence.
      + congruence.
      + lia.
    - (* no_early_end *)
      cbn. intros He Hfe b c Hc Hb1 Hb2 Hfb HL.
      assert (c = cap s) by (eapply is_cap_unique; eauto; repeat split; auto). subst c.
      apply legal_iff in HL; try lia.
      destruct HC as [_ _ Hmax|_ Hno _|_ Hno].
      + specialize (Hmax b Hb1 Hb2). rewrite Hfb, HL in Hmax. discriminate.
      + specialize (Hno b ltac:(lia) Hb2). rewrite Hfb, HL in Hno. discriminate.
      + specialize (Hno b ltac:(lia) Hb2). congruence.
    - (* soft_if_possible *)
      cbn. intros Hnl b c Hc Hb1 Hb2 Hfb HL.
      assert (c = cap s) by (eapply is_cap_unique; eauto; repeat split; auto). subst c.
      apply legal_iff in HL; try lia.
      destruct HC as [_ Hl _|_ Hno _|_ Hno].
      + apply legal_iff in Hl; try lia. contradiction.
      + specialize (Hno b Hb1 Hb2). rewrite Hfb, HL in Hno. discriminate.
      + specialize (Hno b Hb1 Hb2). congruence.
  Qed.

  (* ---------------------------------------------------------------- paginate_from *)

  Lemma paginate_from_chain fuel st s :
    s <= n -> n - s <= fuel -> chain st s (paginate_from fuel st s).
  Proof.
    revert st s. induction fuel as [|f IH]; intros st s Hs Hf; cbn [Paginate.paginate_from].
    - cbn. lia.
    - destruct (n <=? s) eqn:E.
      + apply Nat.leb_le in E. cbn. lia.
      + apply Nat.leb_gt in E.
        destruct (page_end_cases st s E) as ((B1 & B2) & _).
        destruct (cap_is_cap s E) as (C1 & C2 & _).
        cbn [PaginateSpec.chain]. repeat split; auto; try lia.
        apply IH; lia.
  Qed.

  Lemma paginate_from_ok fuel st s : Forall page_ok (paginate_from fuel st s).
  Proof.
    revert st s. induction fuel as [|f IH]; intros st s; cbn [Paginate.paginate_from]; auto.
    destruct (n <=? s) eqn:E; auto.
    apply Nat.leb_gt in E. constructor; auto. apply page_end_ok; auto.
  Qed.

  Theorem paginate_satisfies_spec_generic (init : St) :
    pagination_ok St n forced allowed fits next_st init (paginate_from n init 0).
  Proof.
    split.
    - apply paginate_from_chain; lia.
    - apply paginate_from_ok.
  Qed.

  (* ---------------------------------------------------------------- consequences of chain *)

  (* conservation: the pages hold every unit exactly once, in order *)
  Lemma chain_conserves st s ps :
    chain st s ps ->
    flat_map (fun p : St * nat * nat => let '(_, a, e) := p in seq a (e - a)) ps = seq s (n - s).
  Proof.
    revert st s. induction ps as [|[[st' s'] e] r IH]; intros st s H; cbn [PaginateSpec.chain] in H.
    - subst. rewrite Nat.sub_diag. reflexivity.
    - destruct H as (-> & -> & H1 & H2 & H3). cbn [flat_map].
      rewrite (IH _ _ H3).
      replace (n - s) with ((e - s) + (n - e)) by lia.
      rewrite seq_app. f_equal. f_equal. lia.
  Qed.

  (* progress: every page holds at least one unit; termination: at most n pages *)
  Lemma chain_progress st s ps :
    chain st s ps -> Forall (fun p : St * nat * nat => let '(_, a, e) := p in a < e) ps.
  Proof.
    revert st s. induction ps as [|[[st' s'] e] r IH]; intros st s H; cbn [PaginateSpec.chain] in H; auto.
    destruct H as (-> & -> & H1 & H2 & H3). constructor; eauto.
  Qed.

  Lemma chain_length st s ps : chain st s ps -> s <= n -> length ps <= n - s.
  Proof.
    revert st s. induction ps as [|[[st' s'] e] r IH]; intros st s H Hs; cbn [PaginateSpec.chain] in H.
    - cbn. lia.
    - destruct H as (-> & -> & H1 & H2 & H3). cbn [length].
      specialize (IH _ _ H3 H2). lia.
  Qed.

  (* fuel n is enough whatever larger fuel is given: the result does not depend on it *)
  Lemma paginate_from_fuel_irrelevant fuel fuel' st s :
    s <= n -> n - s <= fuel -> n - s <= fuel' ->
    paginate_from fuel st s = paginate_from fuel' st s.
  Proof.
    revert fuel' st s. induction fuel as [|f IH]; intros [|f'] st s Hs Hf Hf'; cbn [Paginate.paginate_from]; auto.
    - assert (n <= s) by lia. apply Nat.leb_le in H. rewrite H. reflexivity.
    - assert (n <= s) by lia. apply Nat.leb_le in H. rewrite H. reflexivity.
    - destruct (n <=? s) eqn:E; auto. apply Nat.leb_gt in E.
      destruct (page_end_cases st s E) as ((B1 & B2) & _).
      destruct (cap_is_cap s E) as (C1 & C2 & _).
      f_equal. apply IH; lia.
  Qed.

  (* ---------------------------------------------------------------- uniqueness *)

  Hypothesis fits_mono : forall st s e e', s < e -> e <= e' -> fits st s e' = true -> fits st s e = true.

  Lemma page_end_unique st s e :
    s < n -> s < e -> e <= n ->
    page_ok (st, s, e) ->
    conforming_exists St n forced allowed fits (st, s, e) ->
    e = page_end st s.
  Proof.
    intros Hs Hse Hen (F1 & F2 & F3 & F4) (b & c & Hc & Hb1 & Hb2 & Hfb & Hlb).
    pose proof (cap_is_cap s Hs) as IC.
    assert (c = cap s) by (eapply is_cap_unique; eauto). subst c.
    destruct IC as (C1 & C2 & C3 & C4).
    cbn in F1, F2, F3, F4.
    (* e is below the cap *)
    assert (He_cap : e <= cap s).
    { destruct (le_lt_dec e (cap s)); auto. exfalso.
      destruct C3 as [C3|C3]; [lia|]. rewrite F1 in C3; [discriminate|lia|lia]. }
    (* the model's choice is the greatest legal fitting boundary *)
    destruct (page_end_cases st s Hs) as ((B1 & B2) & HC).
    set (m := page_end st s) in *.
    assert (HL : legal s b = true) by (apply legal_iff; auto).
    destruct HC as [Hfm Hlm Hmax|_ Hno _|_ Hno].
    2: { specialize (Hno b Hb1 Hb2). rewrite Hfb, HL in Hno. discriminate. }
    2: { specialize (Hno b Hb1 Hb2). congruence. }
    (* the implementation's page fits *)
    assert (Hfe : fits st s e = true).
    { destruct (fits st s e) eqn:E; auto. exfalso.
      assert (m < e).
      { destruct (le_lt_dec e m); auto. rewrite (fits_mono st s e m) in E; auto; discriminate. }
      specialize (F2 eq_refl m B1 H).
      unfold Paginate.legal in Hlm. rewrite F2 in Hlm. cbn in Hlm.
      apply Nat.eqb_eq in Hlm. lia. }
    (* and ends at a legal break *)
    assert (Hle : legal s e = true).
    { destruct (legal s e) eqn:E; auto. exfalso.
      assert (~ legal_break s e).
      { intros HH. apply legal_iff in HH; auto. congruence. }
      apply (F4 H b (cap s)); auto; repeat split; auto. }
    destruct (Nat.lt_trichotomy e m) as [H|[H|H]]; auto.
    - (* ended early *)
      exfalso.
      assert (e < n) by lia.
      assert (forced e = false) by (apply C4; lia).
      apply (F3 H0 H1 m (cap s)); auto; try (repeat split; auto; fail).
      apply legal_iff; auto.
    - exfalso. specialize (Hmax e H He_cap). rewrite Hfe, Hle in Hmax. discriminate.
  Qed.

  Lemma paginate_unique_from fuel : forall ps st s,
    s <= n -> n - s <= fuel ->
    chain st s ps -> Forall page_ok ps ->
    Forall (conforming_exists St n forced allowed fits) ps ->
    ps = paginate_from fuel st s.
  Proof.
    induction fuel as [|f IH]; intros ps st s Hs Hf Hch Hok Hcf.
    - destruct ps as [|[[st' s'] e] r]; auto. cbn in Hch. lia.
    - cbn [Paginate.paginate_from]. destruct (n <=? s) eqn:E.
      + apply Nat.leb_le in E. destruct ps as [|[[st' s'] e] r]; auto. cbn in Hch. lia.
      + apply Nat.leb_gt in E. destruct ps as [|[[st' s'] e] r].
        * cbn in Hch. lia.
        * cbn [PaginateSpec.chain] in Hch. destruct Hch as (-> & -> & H1 & H2 & H3).
          inversion Hok; subst. inversion Hcf; subst.
          assert (e = page_end st s) by (apply page_end_unique; auto).
          subst e. f_equal. apply IH; auto; lia.
  Qed.

  Theorem paginate_unique_generic (init : St) ps :
    pagination_ok St n forced allowed fits next_st init ps ->
    Forall (conforming_exists St n forced allowed fits) ps ->
    ps = paginate_from n init 0.
  Proof.
    intros [Hch Hok] Hcf. apply paginate_unique_from; auto; lia.
  Qed.
End GreedyProofs.

(* ================================================================== deciders *)

Section Deciders.
  Variable St : Type.
  Variable n : nat.
  Variable forced : nat -> bool.
  Variable allowed : nat -> nat -> bool.
  Variable fits : St -> nat -> nat -> bool.

  Lemma forallb_range f a b :
    forallb f (range a b) = true <-> forall x, a <= x -> x < b -> f x = true.
  Proof.
    unfold range. rewrite forallb_forall. split.
    - intros H x H1 H2. apply H. apply in_seq. lia.
    - intros H x Hx. apply in_seq in Hx. apply H; lia.
  Qed.

  Lemma forced_inside_free_b_spec p :
    forced_inside_free_b St forced p = true <-> forced_inside_free St forced p.
  Proof.
    destruct p as [[st s] e]. unfold forced_inside_free_b, forced_inside_free.
    rewrite forallb_range. split; intros H b H1 H2.
    - specialize (H b H1 H2). now apply negb_true_iff in H.
    - apply negb_true_iff. apply H; lia.
  Qed.

  Lemma no_avoidable_overflow_b_spec p :
    no_avoidable_overflow_b St allowed fits p = true <-> no_avoidable_overflow St allowed fits p.
  Proof.
    destruct p as [[st s] e]. unfold no_avoidable_overflow_b, no_avoidable_overflow.
    rewrite orb_true_iff, forallb_range. split.
    - intros [H|H] Hf b H1 H2; [congruence|]. specialize (H b H1 H2). now apply negb_true_iff in H.
    - intros H. destruct (fits st s e) eqn:E; auto. right. intros b H1 H2.
      apply negb_true_iff. apply H; auto.
  Qed.

  Lemma no_early_end_b_spec p :
    (let '(_, s, e) := p in s < e /\ e <= n) ->
    no_early_end_b St n forced allowed fits p = true <-> no_early_end St n forced allowed fits p.
  Proof.
    destruct p as [[st s] e]. intros [Hse Hen].
    unfold no_early_end_b, no_early_end.
    rewrite !orb_true_iff, forallb_range, Nat.leb_le. split.
    - intros [[H|H]|H] He Hfe b c Hc Hb1 Hb2 Hfb HL; try lia; try congruence.
      assert (Hs : s < n) by lia.
      assert (c = cap n forced s) by (eapply is_cap_unique; eauto using cap_is_cap). subst c.
      specialize (H b ltac:(lia) ltac:(lia)). apply negb_true_iff in H.
      apply (legal_iff n forced allowed s b) in HL; try lia.
      unfold legal_b in H. rewrite Hfb, HL in H. discriminate.
    - intros H. destruct (le_lt_dec n e) as [|He]; auto.
      destruct (forced e) eqn:Fe; auto. right. intros b Hb1 Hb2.
      apply negb_true_iff. destruct (fits st s b) eqn:Fb; auto. cbn.
      destruct (legal_b n forced allowed s b) eqn:Lb; auto. exfalso.
      assert (Hs : s < n) by lia.
      apply (H He eq_refl b (cap n forced s)); auto using cap_is_cap; try lia.
      apply (legal_iff n forced allowed s b); auto; lia.
  Qed.

  Lemma soft_if_possible_b_spec p :
    (let '(_, s, e) := p in s < e /\ e <= cap n forced s /\ s < n) ->
    soft_if_possible_b St n forced allowed fits p = true <-> soft_if_possible St n forced allowed fits p.
  Proof.
    destruct p as [[st s] e]. intros (Hse & Hec & Hs).
    unfold soft_if_possible_b, soft_if_possible.
    rewrite orb_true_iff, forallb_range. split.
    - intros [H|H] Hnl b c Hc Hb1 Hb2 Hfb HL.
      + apply Hnl. apply (legal_iff n forced allowed s e); auto.
      + assert (c = cap n forced s) by (eapply is_cap_unique; eauto using cap_is_cap). subst c.
        specialize (H b ltac:(lia) ltac:(lia)). apply negb_true_iff in H.
        apply (legal_iff n forced allowed s b) in HL; try lia.
        unfold legal_b in H. rewrite Hfb, HL in H. discriminate.
    - intros H. destruct (legal_b n forced allowed s e) eqn:Le; auto. right.
      intros b Hb1 Hb2. apply negb_true_iff.
      destruct (fits st s b) eqn:Fb; auto. cbn.
      destruct (legal_b n forced allowed s b) eqn:Lb; auto. exfalso.
      assert (~ legal_break n forced allowed s e).
      { intros HH. apply (legal_iff n forced allowed s e) in HH; auto. unfold legal_b in Le. congruence. }
      apply (H H0 b (cap n forced s)); auto using cap_is_cap; try lia.
      apply (legal_iff n forced allowed s b); auto; lia.
  Qed.

  Lemma conforming_exists_b_spec p :
    (let '(_, s, _) := p in s < n) ->
    conforming_exists_b St n forced allowed fits p = true <-> conforming_exists St n forced allowed fits p.
  Proof.
    destruct p as [[st s] e]. intros Hs.
    unfold conforming_exists_b, conforming_exists. rewrite existsb_exists. split.
    - intros (b & Hin & Hb). unfold range in Hin. apply in_seq in Hin.
      apply andb_true_iff in Hb as [Hf Hl].
      pose proof (cap_is_cap n forced s Hs) as IC.
      exists b, (cap n forced s). split; [exact IC|]. split; [lia|]. split; [lia|]. split; [exact Hf|].
      apply (legal_iff n forced allowed s b); auto; lia.
    - intros (b & c & Hc & Hb1 & Hb2 & Hf & Hl).
      assert (c = cap n forced s) by (eapply is_cap_unique; eauto using cap_is_cap). subst c.
      exists b. split.
      + unfold range. apply in_seq. lia.
      + rewrite Hf. cbn. apply (legal_iff n forced allowed s b); auto; lia.
  Qed.
End Deciders.

(* ================================================================== break classification *)

(* CSS Fragmentation 3, 3.1 / CSS Page 3 "allowed page breaks": where several
   values meet at one boundary, a side value (left / right / recto / verso) beats
   everything and among side values the one specified on the latest element in
   the flow wins; otherwise a forced value (page / column) beats avoid values,
   which beat auto; among values of the same class the first one is kept. *)
Definition is_fnon (v : brk) : bool := match v with BPage | BColumn => true | _ => false end.
Definition is_avoidish (v : brk) : bool :=
  match v with BAvoid | BAvoidPage | BAvoidColumn => true | _ => false end.

Definition brk_spec (vs : list brk) : brk :=
  match find is_side (rev vs) with
  | Some v => v
  | None =>
      match find is_fnon vs with
      | Some v => v
      | None => match find is_avoidish vs with Some v => v | None => BAuto end
      end
  end.

Definition brk_rest (acc : brk) (vs : list brk) : brk :=
  if is_side acc || is_fnon acc then acc
  else if is_avoidish acc then match find is_fnon vs with Some v => v | None => acc end
  else match find is_fnon vs with
       | Some v => v
       | None => match find is_avoidish vs with Some v => v | None => BAuto end
       end.

Lemma find_app {A} (f : A -> bool) l1 l2 :
  find f (l1 ++ l2) = match find f l1 with Some x => Some x | None => find f l2 end.
Proof. induction l1 as [|a l1 IH]; cbn; auto. destruct (f a); auto. Qed.

Lemma brk_fold_spec vs : forall acc,
  fold_left brk_step vs acc =
  match find is_side (rev vs) with Some v => v | None => brk_rest acc vs end.
Proof.
  induction vs as [|v r IH]; intros acc.
  - cbn. unfold brk_rest. destruct acc; reflexivity.
  - cbn [fold_left rev]. rewrite IH, find_app.
    destruct (find is_side (rev r)) as [x|]; auto.
    cbn [find]. unfold brk_rest, brk_step. cbn [find].
    destruct acc, v; cbn; try reflexivity;
      destruct (find is_fnon r); try reflexivity;
      destruct (find is_avoidish r); reflexivity.
Qed.

Theorem break_class_table_correct vs : block_level_page_break vs = brk_spec vs.
Proof.
  unfold block_level_page_break, brk_spec. rewrite brk_fold_spec.
  destruct (find is_side (rev vs)); auto.
Qed.

(* ================================================================== page selectors *)

Definition nth_ok (s : psel) (p : ptype) : bool :=
  match s_nth s with
  | Some (NthAB a b) =>
      let offset := (p_index p + 1 - b)%Z in
      if (a =? 0)%Z then (offset =? 0)%Z
      else (0 <=? Z.quot offset a)%Z && (Z.rem offset a =? 0)%Z
  | None => true
  end.

Lemma page_type_match_unfold s p :
  page_type_match s p =
  (N.eqb (s_side s) 0 || N.eqb (s_side s) (p_side p)) &&
  (negb (s_blank s) || p_blank p) && (negb (s_first s) || p_first p) &&
  (N.eqb (s_name s) 0 || N.eqb (s_name s) (p_name p)) && nth_ok s p.
Proof.
  unfold page_type_match, nth_ok.
  destruct (N.eqb (s_side s) 0), (N.eqb (s_side s) (p_side p)), (s_blank s), (p_blank p),
    (s_first s), (p_first p), (N.eqb (s_name s) 0), (N.eqb (s_name s) (p_name p)); cbn; try reflexivity;
    destruct (s_nth s) as [[a b]|]; reflexivity.
Qed.

Lemma nth_ok_spec s p :
  nth_ok s p = true <->
  match s_nth s with
  | Some (NthAB a b) => exists k : Z, (0 <= k)%Z /\ (p_index p + 1 = a * k + b)%Z
  | None => True
  end.
Proof.
  unfold nth_ok. destruct (s_nth s) as [[a b]|]; [|tauto].
  cbv zeta. destruct (Z.eqb_spec a 0) as [->|Ha].
  - rewrite Z.eqb_eq. split.
    + intros H. exists 0%Z. lia.
    + intros (k & Hk & H). lia.
  - rewrite andb_true_iff, Z.leb_le, Z.eqb_eq. split.
    + intros [H1 H2]. exists ((p_index p + 1 - b) ÷ a)%Z. split; auto.
      pose proof (Z.quot_rem' (p_index p + 1 - b) a). lia.
    + intros (k & Hk & H).
      replace (p_index p + 1 - b)%Z with (k * a)%Z by lia.
      rewrite Z.quot_mul, Z.rem_mul; auto.
Qed.

Theorem page_type_match_correct s p :
  page_type_match s p = true <-> page_type_match_spec s p.
Proof.
  rewrite page_type_match_unfold. unfold page_type_match_spec.
  rewrite !andb_true_iff, !orb_true_iff, !N.eqb_eq, !negb_true_iff, nth_ok_spec.
  split.
  - intros ((((H1 & H2) & H3) & H4) & H5). repeat split; auto.
    + intros Hb. destruct H2; congruence.
    + intros Hf. destruct H3; congruence.
  - intros (H1 & H2 & H3 & H4 & H5). repeat split; auto.
    + destruct (s_blank s); auto.
    + destruct (s_first s); auto.
Qed.

(* ================================================================== @page cascade *)

Lemma weight_le_iff w o :
  weight_le w o = true <->
  (w_prec w < w_prec o \/ (w_prec w = w_prec o /\
    (w_a w < w_a o \/ (w_a w = w_a o /\
      (w_b w < w_b o \/ (w_b w = w_b o /\ w_c w <= w_c o))))))%N.
Proof.
  unfold weight_le.
  rewrite !orb_true_iff, !andb_true_iff, !orb_true_iff, !andb_true_iff, !orb_true_iff, !andb_true_iff,
    !N.ltb_lt, !N.eqb_eq, N.leb_le. tauto.
Qed.

Lemma weight_le_trans a b c : weight_le a b = true -> weight_le b c = true -> weight_le a c = true.
Proof. rewrite !weight_le_iff. lia. Qed.

Lemma weight_le_total a b : weight_le a b = false -> weight_le b a = true.
Proof.
  intros H. destruct (weight_le b a) eqn:E; auto. exfalso.
  assert (~ (weight_le a b = true)) by congruence.
  assert (~ (weight_le b a = true)) by congruence.
  rewrite weight_le_iff in H0, H1. lia.
Qed.

Lemma pprop_eqb_eq a b : pprop_eqb a b = true <-> a = b.
Proof. destruct a, b; cbn; split; intros; try discriminate; auto. Qed.

(* the fold of cascade_step keeps the weight of the winner *)
Definition cascade_winner_w (l : list (weight * decl)) (p : pprop) (r : option (weight * pval)) : Prop :=
  match r with
  | None => forall w d, In (w, d) l -> d_prop d <> p
  | Some (w, v) =>
      exists l1 d l2, l = l1 ++ (w, d) :: l2 /\ d_prop d = p /\ d_val d = v /\
        (forall w' d', In (w', d') l1 -> d_prop d' = p -> weight_le w' w = true) /\
        (forall w' d', In (w', d') l2 -> d_prop d' = p -> weight_lt w' w)
  end.

Ltac split5 := split; [|split; [|split; [|split]]].

Lemma cascade_fold_spec p l : cascade_winner_w l p (fold_left (cascade_step p) l None).
Proof.
  induction l as [|[w d] l IH] using rev_ind.
  - cbn. intros w d [].
  - rewrite fold_left_app. cbn [fold_left]. unfold cascade_step at 1.
    destruct (pprop_eqb (d_prop d) p) eqn:E.
    + apply pprop_eqb_eq in E.
      destruct (fold_left (cascade_step p) l None) as [[w0 v0]|] eqn:F.
      * cbn in IH. destruct IH as (l1 & d0 & l2 & -> & P0 & V0 & B0 & A0).
        destruct (weight_le w0 w) eqn:LE.
        -- cbn. exists (l1 ++ (w0, d0) :: l2), d, []. split5; auto.
           ++ intros w' d' Hin Hp. apply in_app_or in Hin as [Hin|[Hin|Hin]].
              ** eapply weight_le_trans; eauto.
              ** injection Hin as <- <-. auto.
              ** destruct (A0 _ _ Hin Hp) as [H1 _]. eapply weight_le_trans; eauto.
           ++ intros w' d' [].
        -- cbn. exists l1, d0, (l2 ++ [(w, d)]). split5; auto.
           ++ rewrite <- app_assoc. reflexivity.
           ++ intros w' d' Hin Hp. apply in_app_or in Hin as [Hin|[Hin|[]]].
              ** apply (A0 _ _ Hin Hp).
              ** injection Hin as <- <-. split; auto. apply weight_le_total; auto.
      * cbn in IH. cbn. exists l, d, []. split5; auto.
        -- intros w' d' Hin Hp. exfalso. eapply IH; eauto.
        -- intros w' d' [].
    + assert (E' : d_prop d <> p) by (intros HH; apply pprop_eqb_eq in HH; congruence).
      destruct (fold_left (cascade_step p) l None) as [[w0 v0]|] eqn:F.
      * cbn in IH. destruct IH as (l1 & d0 & l2 & -> & P0 & V0 & B0 & A0).
        cbn. exists l1, d0, (l2 ++ [(w, d)]). split5; auto.
        -- rewrite <- app_assoc. reflexivity.
        -- intros w' d' Hin Hp. apply in_app_or in Hin as [Hin|[Hin|[]]]; [apply (A0 _ _ Hin Hp)|].
           injection Hin as <- <-. contradiction.
      * cbn in IH. cbn. intros w' d' Hin. apply in_app_or in Hin as [Hin|[Hin|[]]].
        -- eapply IH; eauto.
        -- injection Hin as <- <-. auto.
Qed.

Theorem page_cascade_correct rules pt p :
  cascade_winner (applicable rules pt) p (cascaded rules pt p).
Proof.
  unfold cascaded. pose proof (cascade_fold_spec p (applicable rules pt)) as H.
  destruct (fold_left (cascade_step p) (applicable rules pt) None) as [[w v]|]; cbn in *.
  - destruct H as (l1 & d & l2 & H1 & H2 & H3 & H4 & H5). exists l1, w, d, l2. auto.
  - auto.
Qed.

(* the declarations that apply are exactly those of the rules one of whose
   selectors matches the page (with that selector's specificity) *)
Lemma applicable_in rules pt w d :
  In (w, d) (applicable rules pt) <->
  exists r s, In r rules /\ In s (r_sels r) /\ page_type_match s pt = true /\
              In d (r_decls r) /\ w = weight_of s d.
Proof.
  unfold applicable. rewrite in_flat_map. split.
  - intros (r & Hr & H). apply in_flat_map in H as (s & Hs & H).
    destruct (page_type_match s pt) eqn:M; [|destruct H].
    apply in_map_iff in H as (d' & H & Hd). injection H as <- <-. eauto 10.
  - intros (r & s & Hr & Hs & M & Hd & ->). exists r. split; auto.
    apply in_flat_map. exists s. split; auto. rewrite M. apply in_map_iff. eauto.
Qed.

(* ================================================================== page box geometry *)

Local Open Scope Q_scope.

Lemma axis_solve_spec cb pb inner ma mb : axis_spec cb pb inner ma mb (axis_solve cb pb inner ma mb).
Proof.
  unfold axis_spec, axis_solve.
  destruct inner as [i|], ma as [a|], mb as [b|]; cbn.
  all: repeat split; try (intros; congruence).
  all: eexists _, _, _; repeat split; try reflexivity;
    try (intros [?|[?|?]]; congruence); try (intros; congruence);
    try (intros; ring); try (intros; reflexivity).
  all: try (intros; field).
Qed.

(* min / max: the equation is solved again with the clamped size as a specified value *)
Lemma axis_minmax_spec cb pb inner ma mb mn mx :
  exists inner', (inner' = inner \/ (exists m, mx = Some m /\ inner' = Some m) \/ inner' = Some mn) /\
                 axis_minmax cb pb inner ma mb mn mx = axis_solve cb pb inner' ma mb.
Proof.
  unfold axis_minmax.
  destruct (axis_solve cb pb inner ma mb) as [[i1 a1] b1] eqn:E1.
  destruct mx as [m|].
  - destruct (Qltb m (V i1)) eqn:L1.
    + destruct (axis_solve cb pb (Some m) ma mb) as [[i2 a2] b2] eqn:E2.
      destruct (Qltb (V i2) mn).
      * exists (Some mn). auto.
      * exists (Some m). split; eauto.
    + destruct (Qltb (V i1) mn).
      * exists (Some mn). auto.
      * exists inner. auto.
  - destruct (Qltb (V i1) mn).
    + exists (Some mn). auto.
    + exists inner. auto.
Qed.

Theorem page_geometry_axes cb pb inner ma mb mn mx :
  exists inner', (inner' = inner \/ (exists m, mx = Some m /\ inner' = Some m) \/ inner' = Some mn) /\
                 axis_spec cb pb inner' ma mb (axis_minmax cb pb inner ma mb mn mx).
Proof.
  destruct (axis_minmax_spec cb pb inner ma mb mn mx) as (i' & H1 & H2).
  exists i'. split; auto. rewrite H2. apply axis_solve_spec.
Qed.

Local Close Scope Q_scope.

(* ================================================================== vertical extent *)

Definition wf_tok (t : tok) : Prop :=
  match t with
  | TO mt pt => (0 <= mt /\ 0 <= pt)%Z
  | TU h => (0 <= h)%Z
  | TC pb mb => (0 <= pb /\ 0 <= mb)%Z
  end.

Definition wf_unit (u : unit) : Prop :=
  (0 <= u_h u)%Z /\
  Forall (fun o => 0 <= o_mt o /\ 0 <= o_pt o)%Z (u_opens u) /\
  Forall (fun c => 0 <= c_pb c /\ 0 <= c_mb c)%Z (u_closes u).

Lemma wf_unit_b_spec u : wf_unit_b u = true -> wf_unit u.
Proof.
  unfold wf_unit_b, wf_unit. rewrite !andb_true_iff, !forallb_forall, Z.leb_le.
  intros [[H1 H2] H3]. repeat split; auto; apply Forall_forall; intros x Hx.
  - specialize (H2 x Hx). apply andb_true_iff in H2. rewrite !Z.leb_le in H2. auto.
  - specialize (H3 x Hx). apply andb_true_iff in H3. rewrite !Z.leb_le in H3. auto.
Qed.

Lemma unit_toks_wf u : wf_unit u -> Forall wf_tok (unit_toks u).
Proof.
  intros (H1 & H2 & H3). unfold unit_toks. apply Forall_app. split; [|apply Forall_app; split].
  - apply Forall_forall. intros t Ht. apply in_map_iff in Ht as (o & <- & Ho).
    rewrite Forall_forall in H2. apply (H2 o Ho).
  - constructor; auto.
  - apply Forall_forall. intros t Ht. apply in_map_iff in Ht as (c & <- & Hc).
    rewrite Forall_forall in H3. apply (H3 c Hc).
Qed.

Lemma scan1_mono st t : wf_tok t -> (0 <= s_m st)%Z ->
  (s_y st <= s_y (scan1 st t) /\ 0 <= s_m (scan1 st t))%Z.
Proof.
  destruct t as [mt pt|h|pb mb]; cbn [wf_tok scan1]; intros Hw Hm.
  - destruct (s_trunc st =? 1); destruct (0 <? pt)%Z; cbn; lia.
  - cbn. lia.
  - destruct (0 <? pb)%Z; cbn; lia.
Qed.

Lemma scan_mono ts : forall st, Forall wf_tok ts -> (0 <= s_m st)%Z ->
  (s_y st <= s_y (fold_left scan1 ts st) /\ 0 <= s_m (fold_left scan1 ts st))%Z.
Proof.
  induction ts as [|t ts IH]; intros st Hw Hm; cbn [fold_left].
  - lia.
  - inversion Hw; subst. destruct (scan1_mono st t H1 Hm) as [A B].
    destruct (IH (scan1 st t) H2 B) as [C D]. lia.
Qed.

Lemma firstn_add {A} a b (l : list A) : firstn (a + b) l = firstn a l ++ firstn b (skipn a l).
Proof.
  revert l. induction a as [|a IH]; intros l; cbn; auto.
  destruct l as [|x l]; cbn.
  - now rewrite firstn_nil.
  - f_equal. apply IH.
Qed.

Lemma units_between_prefix us s e e' : e <= e' ->
  exists rest, units_between us s e' = units_between us s e ++ rest.
Proof.
  intros H. unfold units_between.
  replace (e' - s) with ((e - s) + (e' - s - (e - s))) by lia.
  rewrite firstn_add. eauto.
Qed.

Lemma in_firstn {A} k (l : list A) x : In x (firstn k l) -> In x l.
Proof. intros H. rewrite <- (firstn_skipn k l). apply in_or_app. auto. Qed.
Lemma in_skipn {A} k (l : list A) x : In x (skipn k l) -> In x l.
Proof. intros H. rewrite <- (firstn_skipn k l). apply in_or_app. auto. Qed.

Lemma units_between_wf us s e : Forall wf_unit us -> Forall wf_unit (units_between us s e).
Proof.
  intros H. unfold units_between. apply Forall_forall. intros u Hu.
  apply in_firstn in Hu. apply in_skipn in Hu. rewrite Forall_forall in H. auto.
Qed.

Lemma toks_wf l : Forall wf_unit l -> Forall wf_tok (flat_map unit_toks l).
Proof.
  induction 1; cbn; auto. apply Forall_app. split; auto. apply unit_toks_wf; auto.
Qed.

Theorem extent_mono keep us s e e' :
  Forall wf_unit us -> e <= e' -> (extent keep us s e <= extent keep us s e')%Z.
Proof.
  intros Hw He. unfold extent, page_toks.
  destruct (units_between_prefix us s e e' He) as (rest & Hr).
  pose proof (units_between_wf us s e' Hw) as W'. rewrite Hr in *.
  rewrite flat_map_app, fold_left_app.
  apply Forall_app in W' as [W1 W2].
  assert (M0 : (0 <= s_m (init_sst keep))%Z) by (unfold init_sst; cbn; lia).
  destruct (scan_mono _ (init_sst keep) (toks_wf _ W1) M0) as [A B].
  destruct (scan_mono _ _ (toks_wf _ W2) B) as [C D]. lia.
Qed.

(* ================================================================== documents *)

Section Doc.
  Variable css : bool.
  Variable d : doc.
  Let us := lin_flows (d_flow d).
  Let n := length us.
  Let rtl := d_rtl d.

  Theorem paginate_satisfies_spec :
    pagination_ok pstate n (forced_at css us) (allowed_at us) (fits_doc css d us)
      (next_pstate css rtl us) (init_pstate d) (paginate_ranges css d).
  Proof. apply paginate_satisfies_spec_generic. Qed.

  Lemma fits_doc_mono : Forall wf_unit us ->
    forall st s e e', s < e -> e <= e' -> fits_doc css d us st s e' = true -> fits_doc css d us st s e = true.
  Proof.
    intros Hw st s e e' _ He. unfold fits_doc. rewrite !Qle_bool_iff. intros H.
    eapply Qle_trans; [|exact H]. rewrite <- Zle_Qle. apply extent_mono; auto.
  Qed.

  Theorem paginate_unique_partial : Forall wf_unit us ->
    forall ps,
      pagination_ok pstate n (forced_at css us) (allowed_at us) (fits_doc css d us)
        (next_pstate css rtl us) (init_pstate d) ps ->
      Forall (conforming_exists pstate n (forced_at css us) (allowed_at us) (fits_doc css d us)) ps ->
      ps = paginate_ranges css d.
  Proof.
    intros Hw ps H1 H2. apply paginate_unique_generic; auto. apply fits_doc_mono; auto.
  Qed.

  Theorem paginate_conserves :
    flat_map (fun p : pstate * nat * nat => let '(_, a, e) := p in seq a (e - a)) (paginate_ranges css d)
    = seq 0 n.
  Proof.
    destruct paginate_satisfies_spec as [Hc _].
    rewrite (chain_conserves _ _ _ _ _ _ Hc). f_equal. lia.
  Qed.

  Theorem paginate_progress :
    Forall (fun p : pstate * nat * nat => let '(_, a, e) := p in a < e) (paginate_ranges css d).
  Proof. destruct paginate_satisfies_spec as [Hc _]. eapply chain_progress; eauto. Qed.

  Theorem paginate_terminates : length (paginate_ranges css d) <= n.
  Proof.
    destruct paginate_satisfies_spec as [Hc _].
    pose proof (chain_length _ _ _ _ _ _ Hc). lia.
  Qed.

  (* ---------------------------------------------------------------- page sequence *)

  Definition range_pinfos (r : pstate * nat * nat) : list pinfo :=
    let '(st, s, _) := r in
    let '(bl, pt, _) := pages_for css rtl us st s in
    match bl with Some b => [mkPI b None] | None => [] end ++
    [mkPI pt (Some (next_page_side rtl (incoming_brk css us s), page_name_at css us s))].

  Lemma next_page_side_range b : let k := next_page_side rtl b in (k = 0 \/ k = 1 \/ k = 2)%N.
  Proof. unfold next_page_side. destruct b, rtl; cbn; auto. Qed.

  Lemma of_nat_eqb0 i : (Z.of_nat i =? 0)%Z = (i =? 0).
  Proof. destruct i; reflexivity. Qed.

  Lemma render_page_seq rs : forall st s,
    chain pstate n (next_pstate css rtl us) st s rs ->
    page_seq_ok (ps_right st) (Z.of_nat (ps_index st)) (flat_map range_pinfos rs).
  Proof.
    induction rs as [|[[st' s'] e] r IH]; intros st s H; cbn [chain] in H.
    - cbn. auto.
    - destruct H as (-> & -> & H1 & H2 & H3). specialize (IH _ _ H3).
      cbn [flat_map]. unfold range_pinfos at 1. unfold next_pstate in IH.
      unfold pages_for in *.
      pose proof (next_page_side_range (incoming_brk css us s)) as HR. cbv zeta in HR.
      set (side := next_page_side rtl (incoming_brk css us s)) in *.
      destruct st as [i right]. cbn [ps_index ps_right] in *.
      unfold blank_needed in *.
      destruct (N.eqb_spec side 1) as [S1|S1]; destruct (N.eqb_spec side 2) as [S2|S2];
        destruct right; cbn [andb orb negb] in *; try lia.
      all: cbn [app page_seq_ok pi_type pi_content p_index p_side p_first p_blank p_name ps_index ps_right] in *.
      all: rewrite ?of_nat_eqb0.
      all: repeat match goal with |- _ /\ _ => split end; auto.
      all: try (unfold side_of; cbn; rewrite ?S1, ?S2; auto; fail).
      all: try (destruct HR as [-> | [-> | ->]]; cbn; auto; lia).
      all: try (replace (Z.of_nat i + 1)%Z with (Z.of_nat (S i)) by lia; auto).
      all: try (eexists _, _; split; [reflexivity|]; unfold side_of; cbn; congruence).
      all: try (replace (Z.of_nat (S i) + 1)%Z with (Z.of_nat (S (S i))) by lia; auto).
      all: try (rewrite Nat2Z.inj_succ; destruct (Z.succ (Z.of_nat i)) eqn:EE; try reflexivity; lia).
  Qed.
End Doc.

(* ---------------------------------------------------------------- the rendered page list *)

Lemma page_seq_index ps : forall right idx i p,
  page_seq_ok right idx ps -> nth_error ps i = Some p -> p_index (pi_type p) = (idx + Z.of_nat i)%Z.
Proof.
  induction ps as [|q r IH]; intros right idx i p H Hn.
  - destruct i; discriminate.
  - cbn [page_seq_ok] in H. destruct H as (H1 & _ & _ & _ & H5).
    destruct i as [|i]; cbn in Hn.
    + injection Hn as <-. lia.
    + rewrite (IH _ _ _ _ H5 Hn). lia.
Qed.

Section DocPages.
  Variable css : bool.
  Variable d : doc.
  Let us := lin_flows (d_flow d).
  Let rtl := d_rtl d.

  Lemma render_pages_types rs :
    map fst (render_pages css d rs) = map pi_type (flat_map (range_pinfos css d) rs).
  Proof.
    unfold render_pages. induction rs as [|[[st s] e] r IH]; cbn [flat_map]; auto.
    rewrite !map_app, IH. f_equal. unfold range_pinfos.
    destruct (pages_for css (d_rtl d) (lin_flows (d_flow d)) st s) as [[bl pt] st'].
    destruct bl; reflexivity.
  Qed.

  (* page sequence of the model: sides alternate from the first page's side, index =
     position, :first only on page 0, a blank page exactly where the content that
     follows asked for the other side, page names from the content *)
  Theorem paginate_page_seq :
    us <> [] ->
    exists infos,
      map pi_type infos = map pg_type (paginate css d) /\
      page_seq_ok (first_page_right rtl (d_root_bb d)) 0 infos.
  Proof.
    intros Hne. exists (flat_map (range_pinfos css d) (paginate_ranges css d)). split.
    - unfold paginate. fold us. destruct us eqn:E; [contradiction|].
      rewrite map_map. rewrite <- render_pages_types.
      rewrite <- (map_map fst (fun x => x)). rewrite map_id.
      apply map_ext. intros [pt units]. reflexivity.
    - destruct (paginate_satisfies_spec css d) as [Hc _].
      apply (render_page_seq css d _ _ _ Hc).
  Qed.

  Theorem paginate_counters : counters_ok (paginate css d).
  Proof.
    unfold counters_ok. intros i p Hn. unfold paginate in *. fold us in Hn |- *.
    destruct us eqn:E.
    - destruct i as [|[|i]]; cbn in Hn; try discriminate. injection Hn as <-. cbn. auto.
    - rewrite map_length. rewrite nth_error_map in Hn.
      destruct (nth_error (render_pages css d (paginate_ranges css d)) i) as [[pt units]|] eqn:En; [|discriminate].
      cbn in Hn. injection Hn as <-. cbn [pg_counter pg_pages]. split; auto.
      assert (Hne : us <> []) by (rewrite E; discriminate).
      destruct (paginate_satisfies_spec css d) as [Hc _].
      pose proof (render_page_seq css d _ _ _ Hc) as Hs.
      assert (Ht : nth_error (map fst (render_pages css d (paginate_ranges css d))) i = Some pt).
      { rewrite nth_error_map, En. reflexivity. }
      rewrite render_pages_types, nth_error_map in Ht.
      destruct (nth_error (flat_map (range_pinfos css d) (paginate_ranges css d)) i) as [q|] eqn:Eq; [|discriminate].
      cbn in Ht. injection Ht as <-.
      rewrite (page_seq_index _ _ _ _ _ Hs Eq). cbn. lia.
  Qed.

  (* number of pages: at most one blank page per content page *)
  Theorem paginate_length : length (paginate css d) <= Nat.max 1 (2 * length us).
  Proof.
    unfold paginate. fold us. destruct us eqn:E; [cbn; lia|].
    rewrite map_length. unfold render_pages.
    pose proof (paginate_terminates css d) as HT. fold us in HT. rewrite E in HT.
    assert (G : forall rs, length (flat_map (fun r : pstate * nat * nat => let '(st, s, e) := r in
        let '(bl, pt, _) := pages_for css (d_rtl d) (lin_flows (d_flow d)) st s in
        match bl with Some b => [(b, [])] | None => [] end ++ [(pt, seq s (e - s))]) rs) <= 2 * length rs).
    { induction rs as [|[[st s] e] r IH]; cbn [flat_map length]; [lia|].
      rewrite app_length.
      destruct (pages_for css (d_rtl d) (lin_flows (d_flow d)) st s) as [[bl pt] st'].
      destruct bl; cbn [length app]; lia. }
    specialize (G (paginate_ranges css d)). cbn [length] in *. lia.
  Qed.
End DocPages.

(* ================================================================== well-formed flows *)

Lemma flow_ind' (P : flow -> Prop) :
  (forall mt mb pt pb bb ba bi page kids, Forall P kids -> P (Blk mt mb pt pb bb ba bi page kids)) ->
  (forall n lh o w, P (Para n lh o w)) -> (forall h, P (Mono h)) -> forall f, P f.
Proof.
  intros HB HP HM. fix IH 1. intros [mt mb pt pb bb ba bi page kids|n lh o w|h]; [|apply HP|apply HM].
  apply HB. induction kids as [|k r IHr]; constructor; [apply IH|exact IHr].
Qed.

Lemma add_open_wf o us : (0 <= o_mt o)%Z -> (0 <= o_pt o)%Z -> Forall wf_unit us -> Forall wf_unit (add_open o us).
Proof.
  intros H1 H2 H. destruct H as [|u r Hu Hr]; cbn; constructor; auto.
  destruct Hu as (A & B & C). repeat split; cbn; auto.
Qed.

Lemma add_close_wf c us : (0 <= c_pb c)%Z -> (0 <= c_mb c)%Z -> Forall wf_unit us -> Forall wf_unit (add_close c us).
Proof.
  intros H1 H2 H. induction H as [|u r Hu Hr IH]; cbn; auto.
  destruct r as [|u' r'].
  - constructor; auto. destruct Hu as (A & B & C). repeat split; cbn; auto.
    apply Forall_app. split; auto.
  - constructor; auto.
Qed.

Theorem wf_flow_units f : forall anc pg, wf_flow f = true -> Forall wf_unit (lin anc pg f).
Proof.
  induction f as [mt mb pt pb bb ba bi page kids IH|n lh o w|h] using flow_ind'; intros anc pg Hw.
  - cbn [wf_flow] in Hw. rewrite !andb_true_iff, !Z.leb_le in Hw.
    destruct Hw as (((((Hmt & Hmb) & Hpt) & Hpb) & _) & Hk).
    cbn [lin]. apply add_open_wf; cbn; auto. apply add_close_wf; cbn; auto.
    revert Hk. induction IH as [|k r Hkk Hr IHr]; intros Hk; [constructor|].
    apply andb_true_iff in Hk as [Hk1 Hk2]. apply Forall_app. split; auto.
  - cbn [wf_flow] in Hw. apply andb_true_iff in Hw as [_ Hlh]. apply Z.leb_le in Hlh.
    cbn [lin]. apply Forall_forall. intros u Hu. apply in_map_iff in Hu as (k & <- & _).
    repeat split; cbn; auto.
  - cbn [wf_flow] in Hw. apply Z.leb_le in Hw. cbn [lin]. constructor; auto. repeat split; cbn; auto.
Qed.

Corollary wf_flows_units fs : forallb wf_flow fs = true -> Forall wf_unit (lin_flows fs).
Proof.
  unfold lin_flows. induction fs as [|f r IH]; cbn; [constructor|].
  rewrite andb_true_iff. intros [H1 H2]. apply Forall_app. split; auto. apply wf_flow_units; auto.
Qed.

(* ================================================================== named corollaries *)

Section Named.
  Variable css : bool.
  Variable d : doc.
  Let us := lin_flows (d_flow d).
  Let n := length us.

  (* geometry_ok: every page of the model has the box its page type's @page cascade gives *)
  Theorem paginate_geometry_ok :
    Forall (fun p => pg_geom p = page_box_geometry (d_rules d) (pg_type p)) (paginate css d).
  Proof.
    unfold paginate. apply Forall_forall. intros p Hp. apply in_map_iff in Hp as ([pt units] & <- & _).
    reflexivity.
  Qed.

  (* avoid_honoured_if_possible / orphans_widows_ok_if_possible: a page of the model ends
     at a boundary that violates break-*: avoid (resp. orphans / widows) only when no
     conforming break exists for that page *)
  Theorem paginate_avoid_honoured_if_possible :
    Forall (fun p : pstate * nat * nat => let '(st, s, e) := p in
      e < n -> forced_at css us e = false -> avoid_ok us e = false ->
      forall b c, is_cap n (forced_at css us) s c -> s < b -> b <= c ->
        fits_doc css d us st s b = true -> ~ legal_break n (forced_at css us) (allowed_at us) s b)
      (paginate_ranges css d).
  Proof.
    destruct (paginate_satisfies_spec css d) as [_ Hok]. fold us n in Hok.
    eapply Forall_impl; [|exact Hok]. intros [[st s] e] (_ & _ & _ & H4) He Hf Ha.
    apply H4. unfold legal_break, allowed_at. rewrite Ha. cbn. intros [H|[H|H]]; try discriminate; try lia.
    congruence.
  Qed.

  Theorem paginate_orphans_widows_ok_if_possible :
    Forall (fun p : pstate * nat * nat => let '(st, s, e) := p in
      e < n -> forced_at css us e = false -> ow_ok us s e = false ->
      forall b c, is_cap n (forced_at css us) s c -> s < b -> b <= c ->
        fits_doc css d us st s b = true -> ~ legal_break n (forced_at css us) (allowed_at us) s b)
      (paginate_ranges css d).
  Proof.
    destruct (paginate_satisfies_spec css d) as [_ Hok]. fold us n in Hok.
    eapply Forall_impl; [|exact Hok]. intros [[st s] e] (_ & _ & _ & H4) He Hf Ha.
    apply H4. unfold legal_break, allowed_at. rewrite Ha, andb_false_r. intros [H|[H|H]]; try discriminate; try lia.
    congruence.
  Qed.
End Named.

(* ================================================================== the values that meet at a boundary *)

Lemma last_app_ne {A} (a b : list A) d : b <> [] -> last (a ++ b) d = last b d.
Proof.
  intros Hb. induction a as [|x a IH]; [reflexivity|].
  cbn [app]. destruct (a ++ b) as [|y l] eqn:E.
  - destruct a; cbn in E; [contradiction|discriminate].
  - change (last (x :: y :: l) d) with (last (y :: l) d). exact IH.
Qed.

Lemma add_open_ne o us : us <> [] -> add_open o us <> [].
Proof. destruct us; [contradiction|discriminate]. Qed.

Lemma add_close_ne c us : us <> [] -> add_close c us <> [].
Proof. destruct us as [|u [|u' r]]; [contradiction|discriminate|discriminate]. Qed.

Lemma add_close_last c us : us <> [] ->
  u_closes (last (add_close c us) dummy_unit) = u_closes (last us dummy_unit) ++ [c].
Proof.
  induction us as [|u r IH]; [contradiction|]. intros _.
  destruct r as [|u' r']; [reflexivity|].
  change (add_close c (u :: u' :: r')) with (u :: add_close c (u' :: r')).
  assert (Hne : add_close c (u' :: r') <> []) by (apply add_close_ne; discriminate).
  specialize (IH ltac:(discriminate)).
  destruct (add_close c (u' :: r')) as [|y l] eqn:E; [contradiction|].
  change (last (u :: y :: l) dummy_unit) with (last (y :: l) dummy_unit).
  change (last (u :: u' :: r') dummy_unit) with (last (u' :: r') dummy_unit).
  exact IH.
Qed.

Lemma add_open_last o us :
  u_closes (last (add_open o us) dummy_unit) = u_closes (last us dummy_unit).
Proof. destruct us as [|u [|u' r]]; reflexivity. Qed.

Lemma add_open_hd o us : us <> [] ->
  u_opens (hd dummy_unit (add_open o us)) = o :: u_opens (hd dummy_unit us).
Proof. destruct us; [contradiction|reflexivity]. Qed.

Lemma add_close_hd c us :
  u_opens (hd dummy_unit (add_close c us)) = u_opens (hd dummy_unit us).
Proof. destruct us as [|u [|u' r]]; reflexivity. Qed.

Lemma hd_app_ne {A} (a b : list A) d : a <> [] -> hd d (a ++ b) = hd d a.
Proof. destruct a; [contradiction|reflexivity]. Qed.

Lemma lin_ne f : forall anc pg, wf_flow f = true -> lin anc pg f <> [].
Proof.
  induction f as [mt mb pt pb bb ba bi page kids IH|n lh o w|h] using flow_ind'; intros anc pg Hw.
  - cbn [wf_flow] in Hw. rewrite !andb_true_iff in Hw. destruct Hw as ((_ & Hne) & Hk).
    cbn [lin]. apply add_open_ne, add_close_ne.
    destruct kids as [|k r]; [discriminate|].
    apply andb_true_iff in Hk as [Hk1 _]. inversion IH as [|? ? Hk0 _]; subst.
    intros E. apply app_eq_nil in E as [E _]. exact (Hk0 _ _ Hk1 E).
  - cbn [wf_flow] in Hw. apply andb_true_iff in Hw as [Hn _]. apply Nat.ltb_lt in Hn.
    cbn [lin]. destruct n; [lia|]. cbn. discriminate.
  - cbn. discriminate.
Qed.

(* the boxes that close after the last unit of f carry closing_ba f *)
Theorem lin_closing_values f : forall anc pg, wf_flow f = true ->
  map c_ba (u_closes (last (lin anc pg f) dummy_unit)) = closing_ba f.
Proof.
  induction f as [mt mb pt pb bb ba bi page kids IH|n lh o w|h] using flow_ind'; intros anc pg Hw.
  - pose proof Hw as Hw0.
    cbn [wf_flow] in Hw. rewrite !andb_true_iff in Hw. destruct Hw as ((_ & Hne) & Hk).
    cbn [lin closing_ba].
    set (pg' := if N.eqb page 0 then pg else page). set (anc' := anc ++ [bi]).
    set (go := fix go (ks : list flow) : list unit :=
                 match ks with [] => [] | k :: r => lin anc' pg' k ++ go r end).
    set (gc := fix go (ks : list flow) : list brk :=
                 match ks with [] => [] | [k] => closing_ba k | _ :: r => go r end).
    assert (Hgo : kids <> [] ->
                  go kids <> [] /\ map c_ba (u_closes (last (go kids) dummy_unit)) = gc kids).
    { clear Hne Hw0. revert Hk. induction IH as [|k r Hk0 Hr IHr]; intros Hk Hnn; [contradiction|].
      apply andb_true_iff in Hk as [Hk1 Hk2].
      destruct r as [|k' r'].
      - cbn [go gc]. rewrite app_nil_r. split; [apply lin_ne; auto|apply Hk0; auto].
      - destruct (IHr Hk2) as [Hne' Heq]; [discriminate|].
        change (go (k :: k' :: r')) with (lin anc' pg' k ++ go (k' :: r')).
        change (gc (k :: k' :: r')) with (gc (k' :: r')).
        split.
        + intros E. apply app_eq_nil in E as [_ E]. contradiction.
        + rewrite last_app_ne by exact Hne'. exact Heq. }
    destruct kids as [|k0 r0]; [discriminate|].
    destruct Hgo as [Hne' Heq]; [discriminate|].
    rewrite add_open_last, add_close_last by exact Hne'.
    rewrite map_app. cbn [map c_ba]. now rewrite Heq.
  - cbn [lin closing_ba wf_flow] in *. apply andb_true_iff in Hw as [Hn _]. apply Nat.ltb_lt in Hn.
    destruct n; [lia|]. rewrite seq_S, map_app. cbn [map]. rewrite last_last. reflexivity.
  - reflexivity.
Qed.

(* the boxes that open before the first unit of f carry opening_bb f *)
Theorem lin_opening_values f : forall anc pg, wf_flow f = true ->
  map o_bb (u_opens (hd dummy_unit (lin anc pg f))) = opening_bb f.
Proof.
  induction f as [mt mb pt pb bb ba bi page kids IH|n lh o w|h] using flow_ind'; intros anc pg Hw.
  - cbn [wf_flow] in Hw. rewrite !andb_true_iff in Hw. destruct Hw as ((_ & Hne) & Hk).
    cbn [lin opening_bb].
    destruct kids as [|k r]; [discriminate|].
    apply andb_true_iff in Hk as [Hk1 Hk2]. inversion IH as [|? ? Hk0 _]; subst.
    set (pg' := if N.eqb page 0 then pg else page). set (anc' := anc ++ [bi]).
    assert (Hl : lin anc' pg' k <> []) by (apply lin_ne; auto).
    rewrite add_open_hd.
    + rewrite add_close_hd. cbn [map o_bb]. f_equal.
      rewrite hd_app_ne by exact Hl. apply Hk0; auto.
    + apply add_close_ne. intros E. apply app_eq_nil in E as [E _]. contradiction.
  - cbn [lin opening_bb wf_flow] in *. apply andb_true_iff in Hw as [Hn _]. apply Nat.ltb_lt in Hn.
    destruct n; [lia|]. reflexivity.
  - reflexivity.
Qed.

(* the break value the model uses at the boundary between two sibling boxes is the one the
   tree-level specification gives *)
Theorem boundary_brk_siblings f1 f2 anc1 pg1 anc2 pg2 pre post :
  wf_flow f1 = true -> wf_flow f2 = true ->
  boundary_brk (pre ++ lin anc1 pg1 f1 ++ lin anc2 pg2 f2 ++ post)
               (length pre + length (lin anc1 pg1 f1)) = sibling_break f1 f2.
Proof.
  intros H1 H2. unfold boundary_brk, sibling_break, unit_at. f_equal.
  pose proof (lin_ne f1 anc1 pg1 H1) as N1. pose proof (lin_ne f2 anc2 pg2 H2) as N2.
  rewrite <- (lin_closing_values f1 anc1 pg1 H1), <- (lin_opening_values f2 anc2 pg2 H2).
  set (l1 := lin anc1 pg1 f1) in *. set (l2 := lin anc2 pg2 f2) in *.
  assert (L1 : 1 <= length l1) by (destruct l1; [contradiction|cbn; lia]).
  assert (Hlast : forall (l : list unit), l <> [] -> nth (length l - 1) l dummy_unit = last l dummy_unit).
  { induction l as [|u r IH]; [contradiction|]. intros _.
    destruct r as [|u' r']; [reflexivity|].
    change (last (u :: u' :: r') dummy_unit) with (last (u' :: r') dummy_unit).
    rewrite <- IH by discriminate.
    replace (length (u :: u' :: r') - 1) with (S (length (u' :: r') - 1)) by (cbn [length]; lia).
    reflexivity. }
  f_equal.
  - (* the unit before the boundary is the last unit of f1 *)
    do 2 f_equal.
    rewrite app_nth2 by lia.
    replace (length pre + length l1 - 1 - length pre) with (length l1 - 1) by lia.
    rewrite app_nth1 by lia. apply Hlast; exact N1.
  - do 2 f_equal.
    rewrite app_nth2 by lia.
    replace (length pre + length l1 - length pre) with (length l1) by lia.
    rewrite app_nth2 by lia. rewrite Nat.sub_diag.
    destruct l2; [contradiction|reflexivity].
Qed.

(* ---------------------------------------------------------------- the second layout of inFlowLayout *)

Lemma retry_step_ge km us forced h s b r a : (r <= retry_step km us forced h s b r a)%Z.
Proof.
  unfold retry_step.
  destruct ((s <? b_first a) && (b_first a <? b) && (b <=? b_last a) && (0 <? b_dec a)%Z &&
            forallb (fun c => negb (forced c)) (seq (S (b_first a)) (b_last a - b_first a))) eqn:E; [|lia].
  destruct (Qle_bool _ h && negb (Qle_bool _ h)); [|lia].
  apply andb_true_iff in E. destruct E as [E _]. apply andb_true_iff in E. destruct E as [_ E].
  apply Z.ltb_lt in E. lia.
Qed.

Lemma fold_retry_ge km us forced h s b l r :
  (r <= fold_left (retry_step km us forced h s b) l r)%Z.
Proof.
  revert r. induction l as [|a t IH]; intros r; cbn [fold_left]; [lia|].
  eapply Z.le_trans; [apply (retry_step_ge km us forced h s b r a)|apply IH].
Qed.

(* the reservation is never negative ... *)
Theorem reserve_nonneg km us forced h s b : (0 <= reserve km us forced h s b)%Z.
Proof. apply fold_retry_ge. Qed.

(* ... so a page that fits with the room reserved by the second layouts fits *)
Theorem fits_retry_fits css d us st s e :
  fits_retry css d us st s e = true -> fits_doc css d us st s e = true.
Proof.
  unfold fits_retry, fits_doc. intros H. apply Qle_bool_iff in H. apply Qle_bool_iff.
  eapply Qle_trans; [|exact H]. rewrite <- Zle_Qle.
  pose proof (reserve_nonneg (keep_margins css us s) us (forced_at css us)
                (page_height (d_rules d) (content_ptype css (d_rtl d) us st s)) s e). lia.
Qed.

(* every block record carries the bottom padding / border of a closing of the flow *)
Lemma close_blocks_dec (P : Z -> Prop) i pos cs stack acc :
  Forall (fun c => P (c_pb c)) cs -> Forall (fun a => P (b_dec a)) acc ->
  Forall (fun a => P (b_dec a)) (snd (close_blocks i pos cs stack acc)).
Proof.
  revert pos stack acc. induction cs as [|c r IH]; intros pos stack acc Hc Ha; [destruct stack; exact Ha|].
  destruct stack as [|f st]; [exact Ha|]. cbn [close_blocks].
  inversion Hc as [|? ? Hc1 Hc2]; subst. apply IH; [exact Hc2|]. constructor; [exact Hc1|exact Ha].
Qed.

Lemma blocks_from_dec (P : Z -> Prop) us : forall i stack acc,
  Forall (fun u => Forall (fun c => P (c_pb c)) (u_closes u)) us ->
  Forall (fun a => P (b_dec a)) acc ->
  Forall (fun a => P (b_dec a)) (blocks_from i us stack acc).
Proof.
  induction us as [|u r IH]; intros i stack acc Hu Ha; [exact Ha|].
  cbn [blocks_from]. inversion Hu as [|? ? Hu1 Hu2]; subst.
  pose proof (close_blocks_dec P i 0 (u_closes u) (repeat i (length (u_opens u)) ++ stack) acc Hu1 Ha) as Hc.
  destruct (close_blocks i 0 (u_closes u) (repeat i (length (u_opens u)) ++ stack) acc) as [stack2 acc2].
  apply IH; [exact Hu2|exact Hc].
Qed.

(* without bottom padding / border nothing is reserved: the implementation's reading of "still
   fits" is then the specification's *)
Theorem reserve_zero_without_bottom_decoration km us forced h s b :
  Forall (fun u => Forall (fun c => c_pb c = 0%Z) (u_closes u)) us ->
  reserve km us forced h s b = 0%Z.
Proof.
  intros H. unfold reserve, blocks_of.
  pose proof (blocks_from_dec (fun z => z = 0%Z) us 0 [] [] H (Forall_nil _)) as Hb.
  induction Hb as [|a t Ha Ht IHt]; [reflexivity|].
  cbn [fold_left]. replace (retry_step km us forced h s b 0 a) with 0%Z; [exact IHt|].
  unfold retry_step. rewrite Ha. cbn [Z.ltb Z.compare]. rewrite !andb_false_r. cbn [andb]. reflexivity.
Qed.

Corollary fits_retry_without_bottom_decoration css d us st s e :
  Forall (fun u => Forall (fun c => c_pb c = 0%Z) (u_closes u)) us ->
  fits_retry css d us st s e = fits_doc css d us st s e.
Proof.
  intros H. unfold fits_retry, fits_doc. rewrite (reserve_zero_without_bottom_decoration _ _ _ _ _ _ H).
  rewrite Z.add_0_r. reflexivity.
Qed.
