(* Layout/TableGeom.v -- model of the table geometry of
   /repo/html/layout/tables.go over the arithmetic record of Base/F32.v
   (exactQ for the theorems, f32 for the bit-exact correspondence):

     fixedTableLayout                                            784-897
     tableLayout, horizontal part: column positions (LTR), cell
       PositionX / Width from GridX / Colspan, truncation of cells
       beyond the grid                                            35-57, 133-173
     tableLayout, vertical part: row positions with border-spacing,
       row heights from the cells ending in the row (rowspan
       bookkeeping endingCellsByRow), stretching of ending cells,
       row group heights and positions                            306-358, 378-381, 483-487, 541, 554-557

   autoTableLayout / distributeExcessWidth (909-1045, 1115-1292) are NOT
   modelled: see auto_contract in Layout/TableGeomSpec.v.
   Model only: no proofs in this file. *)
From Coq Require Export QArith List ZArith.
From Verif Require Export Base.F32 Base.GoSem.
Export ListNotations.
Open Scope Q_scope.

Definition Qle_b (a b : Q) : bool := Qle_bool a b.
Definition Qlt_b (a b : Q) : bool := negb (Qle_bool b a).
Definition Qmax_ (a b : Q) : Q := if Qle_bool a b then b else a.     (* pr.Max *)

Section Geom.
  Variable ar : arith.
  Notation "a +. b" := (add ar a b) (at level 50, left associativity).
  Notation "a -. b" := (sub ar a b) (at level 50, left associativity).
  Notation "a *. b" := (mul ar a b) (at level 40, left associativity).
  Notation "a /. b" := (div ar a b) (at level 40, left associativity).

  Definition of_Z (z : Z) : Q := inject_Z z.            (* pr.Float(int) *)
  Definition of_nat (n : nat) : Q := inject_Z (Z.of_nat n).

  (* ---------------------------------------------------------------- fixedTableLayout *)
  (* a cell of the first row: colspan and, when its width is not auto, its
     border-box width (cell.BorderWidth(), 827) *)
  Record fcell := mkF { fc_colspan : Z; fc_bw : option Q }.

  Definition set_nth {A} (l : list A) (i : nat) (a : A) : list A :=
    firstn i l ++ match skipn i l with [] => [] | _ :: r => a :: r end.

  (* 833-839: columns i..i+n-1: indices without width, and the width left *)
  Fixpoint scan_span (cw : list (option Q)) (j : Z) (n : nat) (width : Q) (without_rev : list Z)
    : res (Q * list Z) :=
    match n with
    | O => Ok (width, rev without_rev)
    | S n' =>
        let* w := index 834 cw j in
        match w with
        | None => scan_span cw (j + 1) n' width (j :: without_rev)
        | Some v => scan_span cw (j + 1) n' (width -. v) without_rev
        end
    end.

  Definition fill (cw : list (option Q)) (idx : list Z) (v : Q) : list (option Q) :=
    fold_left (fun l j => set_nth l (Z.to_nat j) (Some v)) idx cw.

  (* 822-848 *)
  Fixpoint first_row (cw : list (option Q)) (i : Z) (bsx : Q) (cells : list fcell) : res (list (option Q)) :=
    match cells with
    | [] => Ok cw
    | c :: r =>
        let* cw' :=
          match fc_bw c with
          | None => Ok cw
          | Some bw =>
              let width := bw -. (bsx *. of_Z (fc_colspan c - 1)) in             (* 827-828 *)
              let* (width', without) := scan_span cw i (Z.to_nat (fc_colspan c)) width [] in
              match without with
              | [] => Ok cw
              | _ => Ok (fill cw without (Qmax_ 0 (width' /. of_nat (length without))))   (* 840-847 *)
              end
          end in
        first_row cw' (i + fc_colspan c) bsx r
    end.

  (* 855-861 *)
  Fixpoint known_sum (cw : list (option Q)) (i : Z) (acc : Q) (without_rev : list Z) : Q * list Z :=
    match cw with
    | [] => (acc, rev without_rev)
    | Some w :: r => known_sum r (i + 1) (acc +. w) without_rev
    | None :: r => known_sum r (i + 1) acc (i :: without_rev)
    end.

  Definition fixed_table_layout (W : Q) (cols : list (option Q)) (cells : list fcell) (bsx : Q)
    : res (list Q * Q) :=
    let sum_cs := fold_left (fun s c => (s + fc_colspan c)%Z) cells 0%Z in           (* 799-802 *)
    let ncols := Z.max (Z.of_nat (length cols)) sum_cs in                            (* 803 *)
    let cw0 := cols ++ repeat None (Z.to_nat ncols - length cols) in                 (* 805-814 *)
    let* cw1 := first_row cw0 0 bsx cells in
    let all_spacing := bsx *. of_Z (ncols + 1) in                                    (* 852 *)
    let '(min_width, without) := known_sum cw1 0 all_spacing [] in
    let cw2 :=
      match without with
      | [] => cw1
      | _ =>
          if Qle_b min_width W                                                        (* 862 *)
          then fill cw1 without ((W -. min_width) /. of_nat (length without))
          else fill cw1 without 0                                                     (* 870-872 *)
      end in
    let out := map (fun w => match w with Some v => v | None => 0 end) cw2 in        (* 874-879 *)
    let sum_w := fold_left (fun s v => s +. v) out 0 in
    let extra := W -. sum_w -. all_spacing in                                        (* 882 *)
    if Qle_b extra 0 then Ok (out, W -. extra)                                       (* 883-885 *)
    else if (ncols =? 0)%Z then Ok (out, W)
    else Ok (map (fun w => w +. (extra /. of_Z ncols)) out, W).                      (* 886-890 *)

  (* ---------------------------------------------------------------- horizontal positions *)
  (* 40-47: LTR *)
  Fixpoint column_positions (x : Q) (bsx : Q) (widths : list Q) : list Q :=
    match widths with
    | [] => []
    | w :: r => let p := x +. bsx in p :: column_positions (p +. w) bsx r
    end.
  (* ---- a table split across pages.  tableLayout runs once per page on the
     same TableBox; the part laid out on a page (a shallow copy of the box made
     by CopyWithChildren) keeps the SLICE HEADER table.ColumnPositions had at
     that time.  Go slices: a header (array, length) into a store of arrays.
     tables.go:35 `table.ColumnPositions = nil` followed by the appends of
     40-47 allocates a fresh array on every call, so a later page never writes
     into the array an earlier fragment points to.  A page = the content box x
     of the table on that page and the column widths chosen there. *)
  Record slice := mkSlice { sl_arr : nat; sl_len : nat }.
  Definition store := list (list Q).
  Definition slice_read (st : store) (s : slice) : list Q := firstn (sl_len s) (nth (sl_arr s) st []).
  Definition layout_page (st : store) (bsx : Q) (page : Q * list Q) : store * slice :=
    let ps := column_positions (fst page) bsx (snd page) in
    (st ++ [ps], mkSlice (length st) (length ps)).
  Fixpoint layout_pages (st : store) (bsx : Q) (pages : list (Q * list Q)) : store * list slice :=
    match pages with
    | [] => (st, [])
    | p :: r => let '(st1, s) := layout_page st bsx p in
                let '(st2, ss) := layout_pages st1 bsx r in (st2, s :: ss)
    end.
  (* what every fragment's ColumnPositions reads once ALL pages are laid out *)
  Definition fragments_positions (bsx : Q) (pages : list (Q * list Q)) : list (list Q) :=
    let '(st, ss) := layout_pages [] bsx pages in map (slice_read st) ss.

  Definition rows_width (x0 bsx : Q) (widths : list Q) : Q :=
    fold_left (fun p w => p +. bsx +. w) widths x0 -. (x0 +. bsx).                   (* 41-47 *)

  (* one cell: grid x, colspan, and its horizontal padding / border widths *)
  Record hcell := mkH { hc_gridx : Z; hc_colspan : Z; hc_pl : Q; hc_pr : Q; hc_bl : Q; hc_br : Q }.

  (* 135-141: columnWidths[GridX:][:Colspan] *)
  Definition spanned (widths : list Q) (gx cs : Z) : list Q :=
    let tl := if (gx <? Z.of_nat (length widths))%Z then skipn (Z.to_nat gx) widths else [] in
    if (cs <? Z.of_nat (length tl))%Z then firstn (Z.to_nat cs) tl else tl.

  (* 146-173: the used colspan, PositionX, content Width, and the border-box
     width BoxFields.BorderWidth(); None = the cell is beyond the grid *)
  Definition cell_horizontal (widths positions : list Q) (bsx : Q) (c : hcell) : res (option (Z * Q * Q * Q)) :=
    let sw := spanned widths (hc_gridx c) (hc_colspan c) in
    let cs := Z.of_nat (length sw) in
    if (cs =? 0)%Z then Ok None
    else
      let* x := index 158 positions (hc_gridx c) in
      let bpp := 0 +. hc_pl c +. hc_pr c +. hc_bl c +. hc_br c in                    (* 165-166, boxes.go:363-375 *)
      let width := fold_left (fun a w => a +. w) sw (bsx *. of_Z (cs - 1) -. bpp) in (* 169-172 *)
      Ok (Some (cs, x, width, width +. hc_pl c +. hc_pr c +. hc_bl c +. hc_br c)).

  (* 133-155: cells after one that is beyond the grid are dropped too *)
  Fixpoint row_horizontal (widths positions : list Q) (bsx : Q) (cells : list hcell) : res (list (Z * Q * Q * Q)) :=
    match cells with
    | [] => Ok []
    | c :: r =>
        let* o := cell_horizontal widths positions bsx c in
        match o with
        | None => Ok []
        | Some g => let* r' := row_horizontal widths positions bsx r in Ok (g :: r')
        end
    end.

  (* ---- direction: rtl (48-56): the columns run from the right edge of the
     content box, xr = ContentBoxX() + Width; column 0 is the rightmost one *)
  Fixpoint column_positions_rtl (xr : Q) (bsx : Q) (widths : list Q) : list Q :=
    match widths with
    | [] => []
    | w :: r => let p := (xr -. bsx) -. w in p :: column_positions_rtl p bsx r
    end.

  (* 157-161: in a rtl table the x of a cell is the position of the LAST column
     it spans (GridX + Colspan - 1, Colspan already clipped); the rest as 146-173 *)
  Definition cell_horizontal_rtl (widths positions : list Q) (bsx : Q) (c : hcell) : res (option (Z * Q * Q * Q)) :=
    let sw := spanned widths (hc_gridx c) (hc_colspan c) in
    let cs := Z.of_nat (length sw) in
    if (cs =? 0)%Z then Ok None
    else
      let* x := index 160 positions (hc_gridx c + cs - 1) in
      let bpp := 0 +. hc_pl c +. hc_pr c +. hc_bl c +. hc_br c in
      let width := fold_left (fun a w => a +. w) sw (bsx *. of_Z (cs - 1) -. bpp) in
      Ok (Some (cs, x, width, width +. hc_pl c +. hc_pr c +. hc_bl c +. hc_br c)).

  Fixpoint row_horizontal_rtl (widths positions : list Q) (bsx : Q) (cells : list hcell) : res (list (Z * Q * Q * Q)) :=
    match cells with
    | [] => Ok []
    | c :: r =>
        let* o := cell_horizontal_rtl widths positions bsx c in
        match o with
        | None => Ok []
        | Some g => let* r' := row_horizontal_rtl widths positions bsx r in Ok (g :: r')
        end
    end.

  (* ---------------------------------------------------------------- vertical *)
  (* a cell as it comes out of blockContainerLayout: rowspan (clipped by
     wrapTable) and border-box height *)
  Record vcell := mkV { vc_rowspan : Z; vc_bh : Q }.
  (* a cell waiting for its last row: where it starts and its height *)
  Record pending := mkP { p_row : nat; p_idx : nat; p_y : Q; p_bh : Q }.

  Definition add_at {A} (l : list (list A)) (i : nat) (a : A) : list (list A) :=
    firstn i l ++ match skipn i l with [] => [] | b :: r => (b ++ [a]) :: r end.

  (* 307-309 *)
  Fixpoint enqueue (buckets : list (list pending)) (row : nat) (y : Q) (idx : nat) (cells : list vcell)
    : res (list (list pending)) :=
    match cells with
    | [] => Ok buckets
    | c :: r =>
        let k := (vc_rowspan c - 1)%Z in
        if (k <? 0)%Z || (Z.of_nat (length buckets) <=? k)%Z then Panic 308
        else enqueue (add_at buckets (Z.to_nat k) (mkP row idx y (vc_bh c))) row y (S idx) r
    end.

  (* result for one row: its height, and for each cell ending in it the final
     border-box height (after the extra padding of 344-358) *)
  Record ending := mkE { e_row : nat; e_idx : nat; e_y : Q; e_bh : Q }.   (* start row, index, start y, final height *)
  Record row_out := mkR { r_y : Q; r_h : Q; r_ending : list ending }.

  (* 306-381 for the rows of one group; spec_h: the row's own height (None = auto) *)
  Fixpoint rows_vertical (bsy : Q) (buckets : list (list pending)) (row : nat) (y : Q)
           (rows : list (option Q * list vcell)) : res (list row_out * Q) :=
    match rows with
    | [] => Ok ([], y)
    | (spec_h, cells) :: rest =>
        let* b1 := enqueue buckets row y 0 cells in
        match b1 with
        | [] => Panic 314
        | ending :: b2 =>
            let '(h, bottom) :=
              match ending with
              | [] => (0, y)                                                            (* 333-336 *)
              | _ =>
                  match spec_h with
                  | None =>                                                             (* 316-322 *)
                      let rb0 := fold_left (fun m p => Qmax_ m (p_y p +. p_bh p)) ending 0 in
                      let rb := Qmax_ rb0 y in
                      (Qmax_ (rb -. y) 0, rb)
                  | Some sh =>                                                          (* 323-331 *)
                      let m := fold_left (fun m p => Qmax_ m (p_bh p)) ending 0 in
                      let h := Qmax_ sh m in (h, y +. h)
                  end
              end in
            (* 344-358: extra = rowBottomY - cellBottomY goes to the padding *)
            let ending_out :=
              map (fun p => mkE (p_row p) (p_idx p) (p_y p) (p_bh p +. (bottom -. (p_y p +. p_bh p)))) ending in
            let* (outs, y') := rows_vertical bsy b2 (S row) (y +. h +. bsy) rest in      (* 378-381 *)
            Ok (mkR y h ending_out :: outs, y')
        end
    end.

  (* 95-106, 483-487: one row group starting at y: rows, group height, next y *)
  Definition group_vertical (bsy : Q) (y : Q) (rows : list (option Q * list vcell)) : res (list row_out * Q * Q) :=
    let* (outs, y_end) := rows_vertical bsy (repeat [] (length rows)) 0 y rows in
    let gh := y_end -. y in
    let gh' := match rows with [] => gh | _ => gh -. bsy end in
    Ok (outs, gh', y_end).

  (* 541: positionY += newGroup.Height + borderSpacingY, over the groups in order *)
  Fixpoint groups_vertical (bsy : Q) (y : Q) (groups : list (list (option Q * list vcell)))
    : res (list (Q * Q * list row_out)) :=
    match groups with
    | [] => Ok []
    | g :: rest =>
        let* (outs, gh, _) := group_vertical bsy y g in
        let* r := groups_vertical bsy (y +. (gh +. bsy)) rest in
        Ok ((y, gh, outs) :: r)
    end.
End Geom.
