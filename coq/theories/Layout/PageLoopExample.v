(* Layout/PageLoopExample.v -- the hypotheses of PageLoopProofs.v are inhabited:
   a concrete greedy page maker over a list of unbreakable units (heights) with
   the pageIsEmpty rule (the first unit of a page is placed even if it is higher
   than the page).  Without that rule the loop does not terminate on a unit
   higher than the page: this is the shape of the defect repaired in /repo by
   777098b (grid rows), see notes/C01.md. *)
From Verif Require Import Base.GoSem Layout.PageLoop Layout.PageLoopProofs.
From Coq Require Import List Arith Bool Lia.
Import ListNotations.

Section Greedy.
  Variable hs : list nat.     (* heights of the units of the document *)
  Variable H : nat.           (* page height *)

  Fixpoint take_fit (l : list nat) (room : nat) : nat :=
    match l with
    | [] => 0
    | h :: r => if h <=? room then S (take_fit r (room - h)) else 0
    end.

  Definition pos (r : option nat) : nat := match r with None => 0 | Some k => k end.

  (* force = the progress rule *)
  Definition greedy (force : bool) (r : option nat) (fn : nat)
    : (option nat * brk * nat) * (bool * bool) :=
    let k := pos r in
    let n := take_fit (skipn k hs) H in
    let n := if force then Nat.max 1 n else n in
    let k' := k + n in
    ((if k' <? length hs then Some k' else None, BAny, 0), (false, false)).

  Definition no_footnotes (fn : nat) : nat * (bool * bool) := (0, (false, false)).

  Definition mu (r : option nat) : nat := length hs - pos r.

  Lemma greedy_progress : forall r fn r' b fn' fl,
    greedy true r fn = ((Some r', b, fn'), fl) -> mu (Some r') < mu r.
  Proof.
    intros r fn r' b fn' fl Hg. unfold greedy in Hg.
    destruct (pos r + Nat.max 1 (take_fit (skipn (pos r) hs) H) <? length hs) eqn:E;
      [|discriminate Hg].
    injection Hg as Hr' _ _ _. subst r'.
    apply Nat.ltb_lt in E. unfold mu. cbn [pos].
    destruct (take_fit (skipn (pos r) hs) H); cbn [Nat.max] in *; lia.
  Qed.

  Lemma greedy_fn : forall r fn r' b fn' fl,
    greedy true r fn = ((r', b, fn'), fl) -> fn' <= 0.
  Proof. intros r fn r' b fn' fl Hg. unfold greedy in Hg. inversion Hg; subst. lia. Qed.

  Lemma no_footnotes_ok : forall fn fn' fl,
    no_footnotes fn = (fn', fl) -> fn' <= fn /\ (0 < fn -> fn' < fn).
  Proof. intros fn fn' fl Hn. inversion Hn; subst. lia. Qed.

  Theorem greedy_page_loop_terminates : forall b right,
    exists pm' pages,
      make_all_pages nat Nat.eqb (greedy true) no_footnotes (fun _ => false)
        (first_round_fuel nat mu 0) (initial_page_maker nat b right) 0 0 0 [] = Ok (pm', pages) /\
      1 <= length pages <= 0 + 2 * mu None + 4.
  Proof.
    exact (page_loop_terminates nat Nat.eqb (greedy true) no_footnotes (fun _ => false) mu 0
             greedy_progress greedy_fn no_footnotes_ok).
  Qed.
End Greedy.

Definition fmap_pages {A} (r : res (A * list page)) : option (list page) :=
  match r with Ok (_, p) => Some p | _ => None end.

(* units 30 30 50 120 10 on pages of height 100: [30 30] [50] [120] [10] *)
Example greedy_run :
  make_all_pages nat Nat.eqb (greedy [30; 30; 50; 120; 10] 100 true) no_footnotes (fun _ => false)
    50 (initial_page_maker nat BAny true) 0 0 0 []
  = Ok ([mk_item None BAny true false false; mk_item (Some 2) BAny false false false;
         mk_item (Some 3) BAny true false false; mk_item (Some 4) BAny false false false;
         mk_item None BAny true false false],
        [PContent; PContent; PContent; PContent]).
Proof. vm_compute. reflexivity. Qed.

(* a forced break to a left page from a left page inserts one blank page *)
Definition forced_left (r : option nat) (fn : nat) : (option nat * brk * nat) * (bool * bool) :=
  match r with
  | None => ((Some 1, BLeft, 0), (false, false))
  | Some _ => ((None, BAny, 0), (false, false))
  end.

Example blank_page_run :
  fmap_pages (make_all_pages nat Nat.eqb forced_left no_footnotes (fun _ => false)
    50 (initial_page_maker nat BAny false) 0 0 0 [])
  = Some [PContent; PBlank; PContent].
Proof. vm_compute. reflexivity. Qed.

(* WITHOUT the progress rule a unit higher than the page is never placed: the
   page loop runs out of any fuel (here 2000) -- an endless page loop *)
Example no_progress_no_termination :
  make_all_pages nat Nat.eqb (greedy [30; 120; 10] 100 false) no_footnotes (fun _ => false)
    2000 (initial_page_maker nat BAny true) 0 0 0 [] = OutOfFuel.
Proof. vm_compute. reflexivity. Qed.

(* a document of one page whose single footnote does not fit the footnote area
   of that page (it is reported), and never fits the area of a later page *)
Definition one_reported_footnote (r : option nat) (fn : nat) : (option nat * brk * nat) * (bool * bool) :=
  ((None, BAny, 1), (false, false)).

(* with the `i != 0` guard the footnote is forced onto the second page *)
Example reported_footnote_run :
  fmap_pages (make_all_pages nat Nat.eqb one_reported_footnote
    (blank_of_report_loop true (fun _ _ => true) (fun _ => (false, false))) (fun _ => false)
    50 (initial_page_maker nat BAny true) 0 0 0 [])
  = Some [PContent; PBlank].
Proof. vm_compute. reflexivity. Qed.

(* WITHOUT the guard every new page reports it again: an endless page loop *)
Example unguarded_report_loop_no_termination :
  make_all_pages nat Nat.eqb one_reported_footnote
    (blank_of_report_loop false (fun _ _ => true) (fun _ => (false, false))) (fun _ => false)
    2000 (initial_page_maker nat BAny true) 0 0 0 [] = OutOfFuel.
Proof. vm_compute. reflexivity. Qed.

(* LATER ROUNDS.  Second round of a document of two pages: page 1 is up to date,
   page 2 (ContentChanged: a page-based counter) is made again and now reports a
   footnote with nothing left to resume (in the first round page 1 had reported it
   to page 2; the re-used page 1 reports nothing, pages.go "reportedFootnotes = nil").
   The loop must go on with a third page, which the previous round does not have. *)
Definition second_round_pm : list (item nat) :=
  [mk_item None BAny true false false; mk_item (Some 1) BAny false true false;
   mk_item None BAny true false false].
Definition page2_reports_footnote (r : option nat) (fn : nat) : (option nat * brk * nat) * (bool * bool) :=
  ((None, BAny, 1), (false, false)).

(* unchanged tree: page 3 is taken for up to date (its item was created with
   ContentChanged = false because resumeAt was nil) and the re-use branch indexes
   pageMaker[3] of 3 items: index out of range (witness corpus/C01/055) *)
Example later_round_orig_panics :
  make_all_pages_orig nat Nat.eqb page2_reports_footnote
    (blank_of_report_loop true (fun _ _ => false) (fun _ => (false, false))) (fun _ => false)
    50 second_round_pm 2 0 0 [] = Panic 1019.
Proof. vm_compute. reflexivity. Qed.

(* repaired: a page that did not exist in the previous round is made *)
Example later_round_fixed_returns :
  fmap_pages (make_all_pages nat Nat.eqb page2_reports_footnote
    (blank_of_report_loop true (fun _ _ => false) (fun _ => (false, false))) (fun _ => false)
    50 second_round_pm 2 0 0 [])
  = Some [PContent; PContent; PBlank].
Proof. vm_compute. reflexivity. Qed.
