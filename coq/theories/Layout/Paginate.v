(* Layout/Paginate.v -- model of /repo's page geometry and page breaking for
   flows of blocks, paragraphs and fixed-height boxes.

     brk, block_level_page_break   html/layout/blocks.go:1071-1117  (blockLevelPageBreak: the
                                   `choices` table and the fold over the values that meet at a
                                   boundary between two siblings)
     avoid_page_break / force_page_break            blocks.go:1258-1271
     name_change                   blocks.go:1121-1128 (blockLevelPageName) + boxes.go:555-578
                                   (PageValues) + tree/style.go:504-514 (`page: auto` takes the
                                   value of the nearest ancestor)
     ow_ok                         blocks.go:659-696 (breakLine) and 1136-1149 (the line case of
                                   findEarlierPageBreak): orphans / widows arithmetic
     scan (vertical stacking)      blocks.go:55-67, 334-348, 492-528, 856-866, 956-959: adjoining
                                   margins collapse (non-negative margins: the maximum), margins
                                   adjoining an unforced break are truncated, a block resumed on
                                   the next page has no top decoration, one fragmented at the
                                   bottom has no bottom decoration (RemoveDecoration, slice)
     fits                          layout.go:357-361 (overflowsPage; the 1e-9 factor is 1 in
                                   float32 and the inputs are exact) with blocks.go:747-770 (line
                                   + bottom padding/border of the blocks it closes) and
                                   926-954 (content / border-box overflow of a block child)
     page_type_match               tree/style.go:613-637 (pageTypeMatch)
     sel_specificity               tree/style.go:1116-1232 (parsePageSelectors: name -> a,
                                   :first/:blank/:nth -> b, :left/:right -> c)
     page_cascade                  tree/style.go:210-241 (addPageDeclarations: sheets, rules,
                                   selectors, declarations in order; `oldWeight.Less(we)` is <=,
                                   so the later of two equal weights wins) + 1041-1057, 1094-1096
     axis_solve / axis_minmax      pages.go:609-629 (pageWidthOrHeight), min_max.go:21-61
     page_box_geometry             pages.go:663-680 (makePage set-up), percentages.go:52-97
     first_page_right, next_page_side, remake   layout.go:63-85 (initializePageMaker),
                                   pages.go:910-955 (remakePage: side requested by a break, blank
                                   page when the side does not match, page type, forcedBreak)
     page counters                 pages.go:389-415, 778-781; layout.go:162-165: counter(page) =
                                   index + 1, counter(pages) = number of pages

   The break-point search of the implementation (blockContainerLayout /
   inFlowLayout / lineBoxLayout / breakLine / findEarlierPageBreak with its
   abort / stop / resumeAt protocol) is modelled by its *decision*: `page_end`
   takes, among the boundaries up to the next forced one whose content still
   fits, the last one where a break is allowed (no `avoid` value meets there,
   no enclosing `break-inside: avoid`, orphans / widows satisfied); if there is
   none it breaks at the last boundary that fits (the "ignore this avoid and
   break anyway" branch, blocks.go:985), and if not even the first unit fits
   the unit is placed anyway (pageIsEmpty, blocks.go:750, 931).

   No proofs in this file.  Partial operations: the ported functions have none on
   this domain (the panics of pages.go:697, 752, 951 need a root box of another type or
   a zero PageBreak, which blockLevelLayout never returns; ResumeStack.Unpack is in
   Layout/Fragment.v); termination of the page loop is the theorem
   C12_paginate_terminates, the model itself runs on fuel = number of units.

   Not modelled (the generators keep them out): floats, absolutely positioned
   boxes, tables, columns, footnotes, box-decoration-break: clone, margin-break,
   negative margins, blocks without content, max-lines, continue: discard. *)
From Coq Require Export List ZArith NArith QArith Bool Arith.
Export ListNotations.
Local Open Scope nat_scope.

(* ------------------------------------------------------------------ break values *)

Inductive brk := BAuto | BAvoid | BAvoidPage | BAvoidColumn | BPage | BColumn
               | BLeft | BRight | BRecto | BVerso.

(* blocks.go:1094-1106: choices[{value, result}] *)
Definition choices (value result : brk) : bool :=
  match value, result with
  | BPage, (BAuto | BAvoid | BAvoidPage | BAvoidColumn) => true
  | BColumn, (BAuto | BAvoid | BAvoidPage | BAvoidColumn) => true
  | (BAvoid | BAvoidPage | BAvoidColumn), BAuto => true
  | _, _ => false
  end.

Definition is_side (v : brk) : bool :=
  match v with BLeft | BRight | BRecto | BVerso => true | _ => false end.

(* blocks.go:1108-1114: one iteration of the loop over `values` *)
Definition brk_step (result value : brk) : brk :=
  if is_side value || choices value result then value else result.

(* blocks.go:1107-1116; `values` = break-after of the boxes that end at the
   boundary (innermost first, 1074-1083) then break-before of those that start
   there (outermost first, 1085-1093) *)
Definition block_level_page_break (values : list brk) : brk :=
  fold_left brk_step values BAuto.

(* blocks.go:1258-1263 / 1266-1271, context.inColumn = false *)
Definition avoid_page_break (b : brk) : bool :=
  match b with BAvoid | BAvoidPage => true | _ => false end.
Definition force_page_break (b : brk) : bool :=
  match b with BPage | BLeft | BRight | BRecto | BVerso => true | _ => false end.

(* ------------------------------------------------------------------ flow trees *)

(* pt / pb: padding + border width.  page: 0 = `auto`, k = a page name. *)
Inductive flow :=
| Blk (mt mb pt pb : Z) (bb ba bi : brk) (page : N) (kids : list flow)
| Para (n : nat) (lh : Z) (orphans widows : nat)
| Mono (h : Z).

Record opn := mkOpn { o_mt : Z; o_pt : Z; o_bb : brk; o_bi : brk }.
Record cls := mkCls { c_pb : Z; c_mb : Z; c_ba : brk }.
Record lineinfo := mkLine { l_k : nat; l_n : nat; l_orph : nat; l_wid : nat }.

(* A content unit (a line or a fixed-height box) with the blocks that open just
   before it and close just after it (in document order), the break-inside
   values of all its ancestors (outermost first) and its used page name. *)
Record unit := mkUnit {
  u_h : Z;
  u_opens : list opn;
  u_closes : list cls;
  u_anc_bi : list brk;
  u_page : N;
  u_line : option lineinfo }.

Definition add_open (o : opn) (us : list unit) : list unit :=
  match us with
  | [] => []
  | u :: r => mkUnit (u_h u) (o :: u_opens u) (u_closes u) (u_anc_bi u) (u_page u) (u_line u) :: r
  end.

Fixpoint add_close (c : cls) (us : list unit) : list unit :=
  match us with
  | [] => []
  | [u] => [mkUnit (u_h u) (u_opens u) (u_closes u ++ [c]) (u_anc_bi u) (u_page u) (u_line u)]
  | u :: r => u :: add_close c r
  end.

(* linearisation: `anc` = break-inside of the ancestors, `pg` = inherited page name *)
Fixpoint lin (anc : list brk) (pg : N) (f : flow) : list unit :=
  match f with
  | Blk mt mb pt pb bb ba bi page kids =>
      let pg' := if N.eqb page 0 then pg else page in
      let anc' := anc ++ [bi] in
      add_open (mkOpn mt pt bb bi)
        (add_close (mkCls pb mb ba)
           ((fix go (ks : list flow) : list unit :=
               match ks with [] => [] | k :: r => lin anc' pg' k ++ go r end) kids))
  | Para n lh o w =>
      map (fun k => mkUnit lh [] [] anc pg (Some (mkLine k n o w))) (seq 0 n)
  | Mono h => [mkUnit h [] [] anc pg None]
  end.

Definition lin_flows (fs : list flow) : list unit :=
  flat_map (lin [] 0%N) fs.

(* well-formed flows: non-negative metrics, every block and paragraph has content *)
Fixpoint wf_flow (f : flow) : bool :=
  match f with
  | Blk mt mb pt pb _ _ _ _ kids =>
      (0 <=? mt)%Z && (0 <=? mb)%Z && (0 <=? pt)%Z && (0 <=? pb)%Z &&
      negb (match kids with [] => true | _ => false end) &&
      (fix go (ks : list flow) : bool :=
         match ks with [] => true | k :: r => wf_flow k && go r end) kids
  | Para n lh o w => (0 <? n) && (0 <=? lh)%Z
  | Mono h => (0 <=? h)%Z
  end.

(* the same on linearised flows (the hypothesis of the theorems) *)
Definition wf_unit_b (u : unit) : bool :=
  (0 <=? u_h u)%Z &&
  forallb (fun o => (0 <=? o_mt o)%Z && (0 <=? o_pt o)%Z) (u_opens u) &&
  forallb (fun c => (0 <=? c_pb c)%Z && (0 <=? c_mb c)%Z) (u_closes u).

(* ------------------------------------------------------------------ boundaries *)

Definition dummy_unit : unit := mkUnit 0 [] [] [] 0%N None.
Definition unit_at (us : list unit) (i : nat) : unit := nth i us dummy_unit.

(* the break value of the boundary before unit b (b >= 1) *)
Definition boundary_brk (us : list unit) (b : nat) : brk :=
  block_level_page_break
    (map c_ba (u_closes (unit_at us (b - 1))) ++ map o_bb (u_opens (unit_at us b))).

(* blocks.go:1121-1128: the page names on the two sides differ.
   [css_names] = true is CSS Page 3 (any change of the used value, including
   back to the unnamed page); false is the unchanged implementation, which
   tests `pageName_ != ""` (blocks.go:843) and so misses a change back to "". *)
Definition name_change (css_names : bool) (us : list unit) (b : nat) : bool :=
  let before := u_page (unit_at us (b - 1)) in
  let after := u_page (unit_at us b) in
  negb (N.eqb before after) && (css_names || negb (N.eqb after 0)).

Definition forced_at (css_names : bool) (us : list unit) (b : nat) : bool :=
  force_page_break (boundary_brk us b) || name_change css_names us b.

(* a `break-inside: avoid` box encloses the boundary before unit b *)
Definition inside_avoid (us : list unit) (b : nat) : bool :=
  let u := unit_at us b in
  existsb avoid_page_break (firstn (length (u_anc_bi u) - length (u_opens u)) (u_anc_bi u)).

(* orphans / widows for a break before unit b on a page that starts at unit s:
   only between two lines of one paragraph (l_k > 0). blocks.go:663-685 *)
Definition ow_ok (us : list unit) (s b : nat) : bool :=
  match u_line (unit_at us b) with
  | Some li =>
      if l_k li =? 0 then true
      else let on_page := Nat.min (l_k li) (b - s) in
           (l_orph li <=? on_page) && (l_wid li <=? l_n li - l_k li)
  | None => true
  end.

Definition avoid_ok (us : list unit) (b : nat) : bool :=
  negb (avoid_page_break (boundary_brk us b)) && negb (inside_avoid us b).

Definition allowed_at (us : list unit) (s b : nat) : bool :=
  avoid_ok us b && ow_ok us s b.

(* ------------------------------------------------------------------ vertical stacking *)

Inductive tok := TO (mt pt : Z) | TU (h : Z) | TC (pb mb : Z).

Definition unit_toks (u : unit) : list tok :=
  map (fun o => TO (o_mt o) (o_pt o)) (u_opens u) ++ [TU (u_h u)] ++
  map (fun c => TC (c_pb c) (c_mb c)) (u_closes u).

(* y: bottom of the content placed so far; m: pending (collapsing) margin;
   trunc: 0 = normal flow; at the top of a page reached by an unforced break
   (no unit placed yet, blocks.go:55-67 `currentPage > 1 && pageIsEmpty`):
   1 = the top margin of the next block is truncated (`adjoiningMargins` is not
   empty or the containing block is the root), 2 = the next block is the first
   child of a block with top padding / border (`adjoiningMargins` was reset,
   blocks.go:345-346): its margin is kept -- but it then makes the list
   non-empty again, so its own first child is truncated (state 1) although CSS
   would collapse the two. *)
Record sst := mkSst { s_y : Z; s_m : Z; s_trunc : nat }.

Definition scan1 (st : sst) (t : tok) : sst :=
  match t with
  | TO mt pt =>
      let m' := if s_trunc st =? 1 then s_m st else Z.max (s_m st) mt in
      if (0 <? pt)%Z then mkSst (s_y st + m' + pt) 0 (if s_trunc st =? 0 then 0 else 2)
      else mkSst (s_y st) m' (if s_trunc st =? 0 then 0 else 1)
  | TU h => mkSst (s_y st + s_m st + h) 0 0
  | TC pb mb =>
      let st1 := if (0 <? pb)%Z then mkSst (s_y st + s_m st + pb) 0 0 else st in
      mkSst (s_y st1) (Z.max (s_m st1) mb) 0
  end.

Definition init_sst (keep_margins : bool) : sst := mkSst 0 0 (if keep_margins then 0 else 1).

Definition units_between (us : list unit) (s e : nat) : list unit :=
  firstn (e - s) (skipn s us).

Definition page_toks (us : list unit) (s e : nat) : list tok :=
  flat_map unit_toks (units_between us s e).

(* bottom edge (relative to the top of the page's content box) of units s..e-1
   including the bottom padding / border of the blocks that end with unit e-1 *)
Definition extent (keep_margins : bool) (us : list unit) (s e : nat) : Z :=
  s_y (fold_left scan1 (page_toks us s e) (init_sst keep_margins)).

(* bottom edge of the last unit itself (without what closes after it) *)
Fixpoint content_bottom_from (st : sst) (acc : Z) (ts : list tok) : Z :=
  match ts with
  | [] => acc
  | t :: r =>
      let st' := scan1 st t in
      content_bottom_from st' (match t with TU _ => s_y st' | _ => acc end) r
  end.
Definition content_extent (keep_margins : bool) (us : list unit) (s e : nat) : Z :=
  content_bottom_from (init_sst keep_margins) 0 (page_toks us s e).

(* (top, bottom) of every unit of the page *)
Fixpoint positions_from (st : sst) (ts : list tok) : list (Z * Z) :=
  match ts with
  | [] => []
  | t :: r =>
      let st' := scan1 st t in
      match t with
      | TU h => (s_y st + s_m st, s_y st')%Z :: positions_from st' r
      | _ => positions_from st' r
      end
  end.
Definition positions (keep_margins : bool) (us : list unit) (s e : nat) : list (Z * Z) :=
  positions_from (init_sst keep_margins) (page_toks us s e).

(* ------------------------------------------------------------------ page types and @page rules *)

(* utils.PageElement; side: 1 = left, 2 = right; name: 0 = "" *)
Record ptype := mkPT { p_side : N; p_blank : bool; p_first : bool; p_index : Z; p_name : N }.

Inductive nth := NthAB (a b : Z).
(* tree.pageSelector; side / name 0 = unspecified *)
Record psel := mkSel { s_name : N; s_side : N; s_blank : bool; s_first : bool; s_nth : option nth }.

(* tree/style.go:613-637 *)
Definition page_type_match (s : psel) (p : ptype) : bool :=
  if negb (N.eqb (s_side s) 0) && negb (N.eqb (s_side s) (p_side p)) then false
  else if s_blank s && negb (p_blank p) then false
  else if s_first s && negb (p_first p) then false
  else if negb (N.eqb (s_name s) 0) && negb (N.eqb (s_name s) (p_name p)) then false
  else match s_nth s with
       | Some (NthAB a b) =>
           let offset := (p_index p + 1 - b)%Z in
           if (a =? 0)%Z then (offset =? 0)%Z
           else (0 <=? Z.quot offset a)%Z && (Z.rem offset a =? 0)%Z
       | None => true
       end.

(* tree/style.go:1138-1141, 1172-1185, 1220-1222 *)
Definition b2n (b : bool) : N := if b then 1%N else 0%N.
Definition sel_specificity (s : psel) : N * N * N :=
  (b2n (negb (N.eqb (s_name s) 0)),
   (b2n (s_blank s) + b2n (s_first s) + b2n (match s_nth s with Some _ => true | None => false end))%N,
   b2n (negb (N.eqb (s_side s) 0))).

Inductive pprop := PSize | PMarginTop | PMarginRight | PMarginBottom | PMarginLeft | PWidth | PHeight
                 | PPaddingTop | PPaddingRight | PPaddingBottom | PPaddingLeft
                 | PMinWidth | PMaxWidth | PMinHeight | PMaxHeight.
Inductive pval := VAuto | VPx (q : Q) | VPct (q : Q) | VSize (w h : Q).
Record decl := mkDecl { d_prop : pprop; d_val : pval; d_imp : bool }.
Record prule := mkRule { r_sels : list psel; r_decls : list decl }.

Definition pprop_eqb (a b : pprop) : bool :=
  match a, b with
  | PSize, PSize | PMarginTop, PMarginTop | PMarginRight, PMarginRight | PMarginBottom, PMarginBottom
  | PMarginLeft, PMarginLeft | PWidth, PWidth | PHeight, PHeight | PPaddingTop, PPaddingTop
  | PPaddingRight, PPaddingRight | PPaddingBottom, PPaddingBottom | PPaddingLeft, PPaddingLeft
  | PMinWidth, PMinWidth | PMaxWidth, PMaxWidth | PMinHeight, PMinHeight | PMaxHeight, PMaxHeight => true
  | _, _ => false
  end.

(* weight = (declarationPrecedence, specificity); style.go:1041-1057: author
   normal = 3, author !important = 4 *)
Record weight := mkW { w_prec : N; w_a : N; w_b : N; w_c : N }.
Definition weight_of (s : psel) (d : decl) : weight :=
  let '(a, b, c) := sel_specificity s in mkW (if d_imp d then 4 else 3)%N a b c.

(* style.go:1094-1096: w <= other, lexicographically *)
Definition weight_le (w o : weight) : bool :=
  (w_prec w <? w_prec o)%N ||
  ((w_prec w =? w_prec o)%N &&
   ((w_a w <? w_a o)%N ||
    ((w_a w =? w_a o)%N &&
     ((w_b w <? w_b o)%N ||
      ((w_b w =? w_b o)%N && (w_c w <=? w_c o)%N))))).

(* the declarations that apply to a page type, in the order addPageDeclarations
   visits them (style.go:211-238): rules, then matching selectors, then declarations *)
Definition applicable (rules : list prule) (p : ptype) : list (weight * decl) :=
  flat_map (fun r =>
    flat_map (fun s =>
      if page_type_match s p then map (fun d => (weight_of s d, d)) (r_decls r) else [])
      (r_sels r)) rules.

(* style.go:231-236: keep the new value when there is none yet or old <= new *)
Definition cascade_step (p : pprop) (cur : option (weight * pval)) (wd : weight * decl) : option (weight * pval) :=
  let '(w, d) := wd in
  if pprop_eqb (d_prop d) p then
    match cur with
    | None => Some (w, d_val d)
    | Some (w0, _) => if weight_le w0 w then Some (w, d_val d) else cur
    end
  else cur.

Definition cascaded (rules : list prule) (pt : ptype) (p : pprop) : option pval :=
  option_map snd (fold_left (cascade_step p) (applicable rules pt) None).

(* ------------------------------------------------------------------ page box geometry *)

Definition mf := option Q.    (* pr.MaybeFloat: None = auto *)
Definition V (m : mf) : Q := match m with Some x => x | None => 0%Q end.

(* percentages.go:17-34 resolveOnePercentage *)
Definition resolve_val (v : option pval) (dflt : mf) (refer : Q) : mf :=
  match v with
  | None => dflt
  | Some VAuto => None
  | Some (VPx q) => Some q
  | Some (VPct q) => Some (q * refer / 100)%Q
  | Some (VSize _ _) => dflt
  end.

(* pages.go:609-627 pageWidthOrHeight: (inner, marginA, marginB) *)
Definition axis_solve (cb : Q) (pb : Q) (inner ma mb : mf) : mf * mf * mf :=
  let remaining := (cb - pb)%Q in
  match inner with
  | None =>
      let ma' := match ma with None => 0%Q | Some x => x end in
      let mb' := match mb with None => 0%Q | Some x => x end in
      (Some (remaining - ma' - mb')%Q, Some ma', Some mb')
  | Some i =>
      match ma, mb with
      | None, None => let h := ((remaining - i) / 2)%Q in (inner, Some h, Some h)
      | None, Some b => (inner, Some (remaining - i - b)%Q, mb)
      | Some a, None => (inner, ma, Some (remaining - i - a)%Q)
      | Some _, Some _ => (inner, ma, mb)
      end
  end.

Definition Qltb (a b : Q) : bool := negb (Qle_bool b a).

(* min_max.go:21-39 / 43-61: max is None for `none` (+Inf) *)
Definition axis_minmax (cb pb : Q) (inner ma mb : mf) (mn : Q) (mx : option Q) : mf * mf * mf :=
  let '(i1, a1, b1) := axis_solve cb pb inner ma mb in
  let '(i2, a2, b2) :=
    match mx with
    | Some m => if Qltb m (V i1) then axis_solve cb pb (Some m) ma mb else (i1, a1, b1)
    | None => (i1, a1, b1)
    end in
  if Qltb (V i2) mn then axis_solve cb pb (Some mn) ma mb else (i2, a2, b2).

Record geom := mkGeom { g_w : Q; g_h : Q; g_mt : Q; g_mr : Q; g_mb : Q; g_ml : Q;
                        g_pt : Q; g_pb : Q }.

(* default page size when no rule sets it: A4 at 96 dpi is not exactly
   representable; the generators always set `size` *)
Definition default_size : Q * Q := (794, 1123)%Q.

(* pages.go:669-676 with percentages.go:52-97 for a PageBox: vertical
   percentages refer to the page height *)
Definition page_box_geometry (rules : list prule) (pt : ptype) : geom :=
  let c := cascaded rules pt in
  let '(cbw, cbh) := match c PSize with Some (VSize w h) => (w, h) | _ => default_size end in
  let ml := resolve_val (c PMarginLeft) (Some 0%Q) cbw in
  let mr := resolve_val (c PMarginRight) (Some 0%Q) cbw in
  let mt := resolve_val (c PMarginTop) (Some 0%Q) cbh in
  let mb := resolve_val (c PMarginBottom) (Some 0%Q) cbh in
  let pl := V (resolve_val (c PPaddingLeft) (Some 0%Q) cbw) in
  let pr := V (resolve_val (c PPaddingRight) (Some 0%Q) cbw) in
  let pt' := V (resolve_val (c PPaddingTop) (Some 0%Q) cbh) in
  let pb := V (resolve_val (c PPaddingBottom) (Some 0%Q) cbh) in
  let w := resolve_val (c PWidth) None cbw in
  let h := resolve_val (c PHeight) None cbh in
  let minw := V (resolve_val (c PMinWidth) (Some 0%Q) cbw) in
  let minh := V (resolve_val (c PMinHeight) (Some 0%Q) cbh) in
  let maxw := resolve_val (c PMaxWidth) None cbw in
  let maxh := resolve_val (c PMaxHeight) None cbh in
  let '(w', ml', mr') := axis_minmax cbw (pl + pr)%Q w ml mr minw maxw in
  let '(h', mt', mb') := axis_minmax cbh (pt' + pb)%Q h mt mb minh maxh in
  mkGeom (V w') (V h') (V mt') (V mr') (V mb') (V ml') pt' pb.

(* ------------------------------------------------------------------ page sequence *)

Record doc := mkDoc { d_rtl : bool; d_root_bb : brk; d_rules : list prule; d_flow : list flow }.

(* layout.go:71-83 *)
Definition first_page_right (rtl : bool) (root_bb : brk) : bool :=
  match root_bb with
  | BRight => true
  | BLeft => false
  | BRecto => negb rtl
  | BVerso => rtl
  | _ => negb rtl
  end.

(* pages.go:917-928: 0 = no side requested, 1 = left, 2 = right *)
Definition next_page_side (rtl : bool) (b : brk) : N :=
  match b with
  | BLeft => 1 | BRight => 2
  | BRecto => if rtl then 1 else 2     (* directionLtr != breakVerso -> right *)
  | BVerso => if rtl then 2 else 1
  | _ => 0
  end%N.

(* state of the page maker before a page: its index and side *)
Record pstate := mkPS { ps_index : nat; ps_right : bool }.

(* pages.go:929 (no footnotes) *)
Definition blank_needed (side : N) (right : bool) : bool :=
  (N.eqb side 1 && right) || (N.eqb side 2 && negb right).

Definition side_of (right : bool) : N := if right then 2%N else 1%N.

(* the break that leads to the page starting at unit s: BAuto for the first
   page and for unforced breaks *)
Definition incoming_brk (css_names : bool) (us : list unit) (s : nat) : brk :=
  if s =? 0 then BAuto
  else if forced_at css_names us s then boundary_brk us s else BAuto.

(* pages.go:932, blocks.go:579-581, 844-845: the name of the next page is the
   page value of the content that starts it.  The unchanged implementation
   treats "" as "not set" (blocks.go:577-579) and then takes the last page value
   of the content before the break. *)
Definition page_name_at (css_names : bool) (us : list unit) (s : nat) : N :=
  let here := u_page (unit_at us s) in
  if css_names || negb (N.eqb here 0) || (s =? 0) then here
  else u_page (unit_at us (s - 1)).

(* the page(s) made for the content starting at unit s: an optional blank page,
   then the content page; and the state after them (pages.go:910-955) *)
Definition pages_for (css_names rtl : bool) (us : list unit) (st : pstate) (s : nat)
  : option ptype * ptype * pstate :=
  let side := next_page_side rtl (incoming_brk css_names us s) in
  let name := page_name_at css_names us s in
  if blank_needed side (ps_right st) then
    (Some (mkPT (side_of (ps_right st)) true (ps_index st =? 0) (Z.of_nat (ps_index st)) 0),
     mkPT (side_of (negb (ps_right st))) false false (Z.of_nat (S (ps_index st))) name,
     mkPS (S (S (ps_index st))) (ps_right st))
  else
    (None,
     mkPT (side_of (ps_right st)) false (ps_index st =? 0) (Z.of_nat (ps_index st)) name,
     mkPS (S (ps_index st)) (negb (ps_right st))).

Definition content_ptype (css_names rtl : bool) (us : list unit) (st : pstate) (s : nat) : ptype :=
  let '(_, pt, _) := pages_for css_names rtl us st s in pt.
Definition next_pstate (css_names rtl : bool) (us : list unit) (st : pstate) (s : nat) : pstate :=
  let '(_, _, st') := pages_for css_names rtl us st s in st'.

(* pages.go:943 context.forcedBreak and blocks.go:55-67: margins at the top of a
   page are kept on the first page, after a forced break, and -- because
   `InitialNextPage.Page != ""` also holds for an unforced break inside named
   page content (blocks.go:579-581) -- whenever the previous content has a page name *)
Definition keep_margins (css_names : bool) (us : list unit) (s : nat) : bool :=
  (s =? 0) || forced_at css_names us s || negb (N.eqb (u_page (unit_at us (s - 1))) 0).

(* ------------------------------------------------------------------ generic greedy page breaking *)

Section Greedy.
  Variable St : Type.
  Variable n : nat.                         (* number of units *)
  Variable forced : nat -> bool.            (* the boundary before unit b is a forced break *)
  Variable allowed : nat -> nat -> bool.    (* allowed s b: a page starting at s may end before b *)
  Variable fits : St -> nat -> nat -> bool. (* fits st s e: units s..e-1 fit on the page made in state st *)
  Variable next_st : St -> nat -> St.

  (* first boundary after s that is forced, or n *)
  Fixpoint cap_from (fuel b : nat) : nat :=
    match fuel with
    | 0 => n
    | S f => if n <=? b then n else if forced b then b else cap_from f (S b)
    end.
  Definition cap (s : nat) : nat := cap_from n (S s).

  Definition legal (s b : nat) : bool := allowed s b || (b =? cap s).

  Definition last_such (f : nat -> bool) (l : list nat) : option nat :=
    fold_left (fun acc b => if f b then Some b else acc) l None.

  (* candidates: boundaries s < b <= cap s *)
  Definition cands (s : nat) : list nat := seq (S s) (cap s - s).

  Definition page_end (st : St) (s : nat) : nat :=
    match last_such (fun b => fits st s b && legal s b) (cands s) with
    | Some b => b
    | None =>
        match last_such (fun b => fits st s b) (cands s) with
        | Some b => b
        | None => S s
        end
    end.

  Fixpoint paginate_from (fuel : nat) (st : St) (s : nat) : list (St * nat * nat) :=
    match fuel with
    | 0 => []
    | S f => if n <=? s then []
             else let e := page_end st s in (st, s, e) :: paginate_from f (next_st st s) e
    end.
End Greedy.

(* ------------------------------------------------------------------ the second layout of inFlowLayout

   blocks.go:956-985: a block child A that is not the first box of its page (canBreak) is laid
   out with the bottomSpace R of its parent; when its content box fits (contentPageOverflow
   false) but its border box does not (borderPageOverflow), it is laid out a second time with
   R + padding-bottom + border-bottom-width.  Everything inside A is then broken against the
   smaller room, although a fragment of A that ends at a break carries no bottom padding /
   border (box-decoration-break: slice): the reservation is what the *complete* block needs.
   `reserve` is the bottomSpace in force for a break before unit b on the page starting at s
   (height H): the sum of the decorations of the blocks around the boundary whose second
   layout is triggered, outermost first (each trigger is evaluated with the reservation of the
   blocks around it, as the nested calls do).  Used by Check/C12.v to name pages that end
   early for this reason only; the theorems state the two sides of it: a page that fits with
   the reservation fits, and without bottom decoration there is no reservation. *)

(* every block of the flow: first unit, last unit, position of its closing in the closes of
   its last unit (innermost first), padding-bottom + border-bottom.  In closing order (a
   block before the blocks around it). *)
Record blk := mkBlkR { b_first : nat; b_last : nat; b_pos : nat; b_dec : Z }.

Fixpoint close_blocks (i pos : nat) (cs : list cls) (stack : list nat) (acc : list blk) : list nat * list blk :=
  match cs, stack with
  | c :: r, f :: st => close_blocks i (S pos) r st (mkBlkR f i pos (c_pb c) :: acc)
  | _, _ => (stack, acc)
  end.

Fixpoint blocks_from (i : nat) (us : list unit) (stack : list nat) (acc : list blk) : list blk :=
  match us with
  | [] => acc
  | u :: r =>
      let stack1 := repeat i (length (u_opens u)) ++ stack in
      let '(stack2, acc2) := close_blocks i 0 (u_closes u) stack1 acc in
      blocks_from (S i) r stack2 acc2
  end.

(* outermost first among nested blocks (reverse closing order) *)
Definition blocks_of (us : list unit) : list blk := blocks_from 0 us [] [].

(* bottom of the content box of block A on the page starting at s: everything up to its
   last unit and the blocks closing inside it; a pending bottom margin is inside the content
   box when A has bottom padding / border (it cannot collapse through) *)
Definition block_content_bottom (keep_margins : bool) (us : list unit) (s : nat) (a : blk) : Z :=
  let toks := page_toks us s (b_last a) ++
              (let u := unit_at us (b_last a) in
               map (fun o => TO (o_mt o) (o_pt o)) (u_opens u) ++ [TU (u_h u)] ++
               map (fun c => TC (c_pb c) (c_mb c)) (firstn (b_pos a) (u_closes u))) in
  let st := fold_left scan1 toks (init_sst keep_margins) in
  (s_y st + (if (0 <? b_dec a)%Z then s_m st else 0))%Z.

Definition retry_step (keep_margins : bool) (us : list unit) (forced : nat -> bool) (h : Q) (s b : nat)
    (r : Z) (a : blk) : Z :=
  if (s <? b_first a) && (b_first a <? b) && (b <=? b_last a) && (0 <? b_dec a)%Z &&
     forallb (fun c => negb (forced c)) (seq (S (b_first a)) (b_last a - b_first a)) then
    let c := block_content_bottom keep_margins us s a in
    if Qle_bool (inject_Z (c + r)) h && negb (Qle_bool (inject_Z (c + r + b_dec a)) h)
    then (r + b_dec a)%Z else r
  else r.

Definition reserve (keep_margins : bool) (us : list unit) (forced : nat -> bool) (h : Q) (s b : nat) : Z :=
  fold_left (retry_step keep_margins us forced h s b) (blocks_of us) 0%Z.

(* ------------------------------------------------------------------ the document model *)

Definition page_height (rules : list prule) (pt : ptype) : Q := g_h (page_box_geometry rules pt).

Definition fits_doc (css_names : bool) (d : doc) (us : list unit) (st : pstate) (s e : nat) : bool :=
  Qle_bool (inject_Z (extent (keep_margins css_names us s) us s e))
           (page_height (d_rules d) (content_ptype css_names (d_rtl d) us st s)).

(* the same test with the bottomSpace the second layouts of inFlowLayout reserve *)
Definition fits_retry (css_names : bool) (d : doc) (us : list unit) (st : pstate) (s e : nat) : bool :=
  let km := keep_margins css_names us s in
  let h := page_height (d_rules d) (content_ptype css_names (d_rtl d) us st s) in
  Qle_bool (inject_Z (extent km us s e + reserve km us (forced_at css_names us) h s e)) h.

Definition init_pstate (d : doc) : pstate := mkPS 0 (first_page_right (d_rtl d) (d_root_bb d)).

(* content pages as (state, first unit, end) *)
Definition paginate_ranges (css_names : bool) (d : doc) : list (pstate * nat * nat) :=
  let us := lin_flows (d_flow d) in
  paginate_from pstate (length us) (forced_at css_names us) (allowed_at us)
    (fits_doc css_names d us) (next_pstate css_names (d_rtl d) us)
    (length us) (init_pstate d) 0.

(* a laid-out page: its type, geometry, the units on it, the page counters *)
Record page := mkPage { pg_type : ptype; pg_geom : geom; pg_units : list nat;
                        pg_counter : N; pg_pages : N }.

Definition render_pages (css_names : bool) (d : doc) (rs : list (pstate * nat * nat)) : list (ptype * list nat) :=
  let us := lin_flows (d_flow d) in
  flat_map (fun r => let '(st, s, e) := r in
    let '(bl, pt, _) := pages_for css_names (d_rtl d) us st s in
    match bl with Some b => [(b, [])] | None => [] end ++ [(pt, seq s (e - s))]) rs.

(* a document without content still has one (empty) page: pages.go:1003-1031 *)
Definition paginate (css_names : bool) (d : doc) : list page :=
  let us := lin_flows (d_flow d) in
  let raw := match us with
             | [] => [(mkPT (side_of (ps_right (init_pstate d))) false true 0 0, [])]
             | _ => render_pages css_names d (paginate_ranges css_names d)
             end in
  let total := N.of_nat (length raw) in
  map (fun tu => let '(pt, units) := tu in
                 mkPage pt (page_box_geometry (d_rules d) pt) units
                        (Z.to_N (p_index pt) + 1)%N total) raw.
